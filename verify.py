#!/usr/bin/env python3
"""Driver of the textwire verification checks.

  python3 verify.py C05 --tier quick|thorough     run the check(s) of one property
  python3 verify.py --replay <file>                re-execute one replay file
  python3 verify.py --build                        build the test binaries only (setup)

Exit status: 0 property held on everything explored, 1 violation (a line
"VIOLATION property=<id> replay=<path>" is printed), 2 infrastructure trouble or
inconclusive (never used to report a violation).
"""
import argparse
import glob
import hashlib
import json
import os
import shutil
import signal
import struct
import subprocess
import sys
import time

ROOT = os.path.dirname(os.path.abspath(__file__))
REPO = "/repo"
GOENV = {"GOFLAGS": "-mod=mod", "GOPROXY": "off", "GOSUMDB": "off", "GOTOOLCHAIN": "local",
         # race-detector builds (C15): the first reported race ends the process, the heartbeat names the plan
         "GORACE": "halt_on_error=1"}

# per property: test-name regex, number of shards in the thorough tier, whether
# the race detector build is used, wall-clock limits (seconds) per tier.
PROPS = {
    "C01": dict(tests="^TestC01_", shards=16),
    "C02": dict(tests="^TestC02_", shards=16),
    "C03": dict(tests="^TestC03_", shards=16),
    "C04": dict(tests="^TestC04_", shards=16),
    "C05": dict(tests="^TestC05_", shards=16),
    "C06": dict(tests="^TestC06_", shards=16),
    "C07": dict(tests="^TestC07_", shards=16),
    "C08": dict(tests="^TestC08_", shards=16),
    "C09": dict(tests="^TestC09_", shards=16),
    "C10": dict(tests="^TestC10_", shards=16),
    "C11": dict(tests="^TestC11_", shards=16),
    "C12": dict(tests="^TestC12_", shards=16),
    "C13": dict(tests="^TestC13_", shards=16),
    "C14": dict(tests="^TestC14_", shards=16),
    "C15": dict(tests="^TestC15_", shards=8, race=True),
    "C16": dict(tests="^TestC16_", shards=16),
    "C17": dict(tests="^TestC17_", shards=16),
    "C18": dict(tests="^TestC18_", shards=16, level="fault_enumeration"),
    "C19": dict(tests="^TestC19_", shards=16),
    "C20": dict(tests="^TestC20_", shards=16),
}
LIMIT = {"quick": 900, "thorough": 5400}


def log(*a):
    print(*a, file=sys.stderr, flush=True)


def env_for(extra=None):
    e = dict(os.environ)
    e.update(GOENV)
    e["VERIF_ROOT"] = ROOT
    if extra:
        e.update({k: str(v) for k, v in extra.items()})
    return e


def build(race=False):
    """Build the test binary from /repo's current working tree (hooks on)."""
    os.makedirs(os.path.join(ROOT, ".build"), exist_ok=True)
    out = os.path.join(ROOT, ".build", "checks%s.%d.test" % (".race" if race else "", os.getpid()))
    cmd = ["go", "test", "-c", "-tags", "verif", "-o", out]
    alt = os.environ.get("VERIF_REPO")
    if alt and os.path.abspath(alt) != REPO:
        # sensitivity runs against a scratch copy of the repository (seeded changes):
        # same module file with the replace directive pointing at the copy
        mod = open(os.path.join(ROOT, "go.mod")).read().replace("=> " + REPO, "=> " + os.path.abspath(alt))
        modfile = os.path.join(ROOT, ".build", "go.%d.mod" % os.getpid())
        open(modfile, "w").write(mod)
        shutil.copyfile(os.path.join(ROOT, "go.sum"), modfile[:-4] + ".sum")
        cmd += ["-modfile", modfile]
    if race:
        cmd.append("-race")
    cmd.append("./checks")
    t0 = time.time()
    p = subprocess.run(cmd, cwd=ROOT, env=env_for(), stdout=subprocess.PIPE, stderr=subprocess.STDOUT, text=True)
    if alt and os.path.abspath(alt) != REPO:
        for f in (modfile, modfile[:-4] + ".sum"):
            if os.path.exists(f):
                os.remove(f)
    if p.returncode != 0 or not os.path.exists(out):
        log("BUILD FAILED (%s):\n%s" % (" ".join(cmd), p.stdout[-4000:]))
        return None
    log("built %s in %.1fs" % (os.path.basename(out), time.time() - t0))
    return out


def eff_seed(seed, shard):
    v = (seed * 1000003 + shard + 1) % (2 ** 63)
    return v or 1


def read_heartbeat(path):
    try:
        b = open(path, "rb").read()
    except OSError:
        return None
    if len(b) < 16:
        return None
    seq = struct.unpack_from("<Q", b, 0)[0]
    if seq == 0:
        return None
    off = 8
    n = struct.unpack_from("<H", b, off)[0]
    check = b[off + 2:off + 2 + n].decode("utf-8", "replace")
    off += 2 + n
    n = struct.unpack_from("<H", b, off)[0]
    kind = b[off + 2:off + 2 + n].decode("utf-8", "replace")
    off += 2 + n
    n = struct.unpack_from("<I", b, off)[0]
    payload = b[off + 4:off + 4 + n]
    return dict(seq=seq, check=check, kind=kind, payload=payload)


def run_replay(binary, path, hang_secs=None, limit=90, only_hang=False):
    """Returns 'reproduced', 'passed' or 'error'; hang/fatal count as reproduced.
    only_hang: an ordinary mismatch does not count (used while shrinking a hang or a crash: the shrunk
    text no longer has the expectation of the original case)."""
    extra = {"VERIF_REPLAY": path, "VERIF_OUT": ""}
    if hang_secs:
        extra["VERIF_HANG_SECS"] = hang_secs
    try:
        p = subprocess.run([binary, "-test.run", "^TestReplay$", "-test.timeout", "0"], cwd=os.path.join(ROOT, "checks"),
                           env=env_for(extra), stdout=subprocess.PIPE, stderr=subprocess.STDOUT, text=True, timeout=limit)
    except subprocess.TimeoutExpired:
        return "reproduced", "replay did not finish within %ds" % limit
    out = p.stdout
    if "REPLAY-ERROR" in out:
        return "error", out[-2000:]
    if "REPLAY-PASSED" in out and p.returncode == 0:
        return "passed", ""
    if only_hang:
        if p.returncode == 3 or "fatal error:" in out or p.returncode < 0 or "WARNING: DATA RACE" in out or ("REPLAY-REPRODUCED" in out and ": panic:" in out):
            return "reproduced", out[-2000:]
        return "passed", ""
    if p.returncode == 3 or "REPLAY-REPRODUCED" in out or "fatal error:" in out or p.returncode != 0:
        return "reproduced", out[-2000:]
    return "passed", ""


def case_source(case):
    """The minimisable text of a case: the case itself if it is a string, else its 'src'."""
    if isinstance(case, str):
        return case, None
    if isinstance(case, dict) and isinstance(case.get("src"), str):
        return case["src"], "src"
    return None, None


def minimise(binary, replay_path, budget=90):
    """ddmin over the source text of a hang/fatal case, out of process."""
    rf = json.load(open(replay_path))
    src, key = case_source(rf.get("case"))
    if src is None:
        return
    t0 = time.time()
    tmp = replay_path + ".min"

    def reproduces(s):
        c = dict(rf)
        c["case"] = s if key is None else dict(rf["case"], **{key: s})
        json.dump(c, open(tmp, "w"))
        st, _ = run_replay(binary, tmp, hang_secs="2", limit=20, only_hang=True)
        return st == "reproduced"

    data = src.encode("utf-8", "surrogateescape")
    n = 2
    while len(data) >= 2 and time.time() - t0 < budget:
        chunk = max(1, len(data) // n)
        reduced = False
        i = 0
        while i < len(data) and time.time() - t0 < budget:
            cand = data[:i] + data[i + chunk:]
            try:
                s = cand.decode("utf-8")
            except UnicodeDecodeError:
                i += chunk
                continue
            if cand and reproduces(s):
                data = cand
                n = max(n - 1, 2)
                reduced = True
            else:
                i += chunk
        if not reduced:
            if chunk == 1:
                break
            n = min(n * 2, len(data))
    try:
        s = data.decode("utf-8")
        rf["case"] = s if key is None else dict(rf["case"], **{key: s})
        rf["note"] = (rf.get("note") or "") + " [minimised out of process from %d to %d bytes]" % (len(src.encode()), len(data))
        json.dump(rf, open(replay_path, "w"), indent=1)
    except UnicodeDecodeError:
        pass
    if os.path.exists(tmp):
        os.remove(tmp)


def store_replay(prop, v):
    """Copy a violation record into /verif/replays/<prop>/ under a content-derived name."""
    d = os.path.join(ROOT, "replays", prop)
    os.makedirs(d, exist_ok=True)
    body = json.dumps(v, indent=1, sort_keys=True)
    h = hashlib.sha1(json.dumps(v.get("case"), sort_keys=True).encode()).hexdigest()[:12]
    path = os.path.join(d, "%s-%s.json" % (v.get("check", "x"), h))
    open(path, "w").write(body)
    return path


def load_known():
    p = os.path.join(ROOT, "known_findings.json")
    if not os.path.exists(p):
        return []
    return json.load(open(p)).get("findings", [])


def merge_evidence(prop, tier, seed, outdirs, wall, nviol, known_lines, level, notes):
    checks = {}
    for od in outdirs:
        for f in sorted(glob.glob(os.path.join(od, "stats", "%s-*.json" % prop))):
            try:
                s = json.load(open(f))
            except Exception:
                continue
            if s.get("check", "").startswith("replay"):
                continue
            c = checks.setdefault(s["check"], dict(evaluations=0, nontrivial_evaluations=0, enum_nt=0, hashes=set(),
                                                   classes={}, samples=[], rule=s.get("rule", ""), exhaustive=set(),
                                                   notes=set(), rapid=0, shards=0))
            c["shards"] += 1
            c["evaluations"] += s.get("evaluations", 0)
            c["nontrivial_evaluations"] += s.get("nontrivial_evaluations", 0)
            c["enum_nt"] += s.get("enumerated_distinct_nontrivial", 0)
            c["hashes"].update(s.get("nontrivial_hashes") or [])
            for k, v in (s.get("classes") or {}).items():
                c["classes"][k] = c["classes"].get(k, 0) + v
            for smp in (s.get("samples") or []):
                if len(c["samples"]) < 8:
                    c["samples"].append(smp)
            c["exhaustive"].update(s.get("exhaustive_parts") or [])
            c["notes"].update(s.get("notes") or [])
            c["rapid"] += s.get("rapid_property_executions", 0)
    evaluations = sum(c["evaluations"] for c in checks.values())
    distinct = sum(c["enum_nt"] + len(c["hashes"]) for c in checks.values())
    samples = []
    per_check = {}
    for name in sorted(checks):
        c = checks[name]
        for smp in c["samples"][:4]:
            samples.append({"check": name, "case": smp})
        per_check[name] = dict(evaluations=c["evaluations"], nontrivial_evaluations=c["nontrivial_evaluations"],
                               distinct_nontrivial=c["enum_nt"] + len(c["hashes"]),
                               distinct_by_enumeration=c["enum_nt"], distinct_by_hash=len(c["hashes"]),
                               rule=c["rule"], exhaustive_parts=sorted(c["exhaustive"]),
                               classes=dict(sorted(c["classes"].items())), notes=sorted(c["notes"]),
                               rapid_property_executions=c["rapid"], shards=c["shards"])
    rule = " || ".join("%s: %s" % (n, per_check[n]["rule"]) for n in sorted(per_check))
    ev = dict(property_id=prop, tier=tier, seed=seed, level=level,
              coverage=dict(evaluations=evaluations, distinct_nontrivial=distinct, rule=rule, samples=samples,
                            exhaustive=False, per_check=per_check, known_findings=known_lines),
              assumptions=notes, wall_s=round(wall, 2), violations=nviol)
    # a run against a scratch copy of the repository (VERIF_REPO: sensitivity runs) does not describe
    # /repo: its evidence goes to the run directory, never to /verif/evidence
    evdir = os.path.join(ROOT, ".run", "evidence-scratch") if os.environ.get("VERIF_REPO") else os.path.join(ROOT, "evidence")
    os.makedirs(evdir, exist_ok=True)
    tmp = os.path.join(evdir, ".%s.%d.tmp" % (prop, os.getpid()))
    json.dump(ev, open(tmp, "w"), indent=1, sort_keys=False)
    os.replace(tmp, os.path.join(evdir, "%s.json" % prop))
    return ev


ASSUMPTIONS = [
    "the Go toolchain, pgregory.net/rapid v1.3.0 and the race detector runtime are trusted",
    "oracles are the reference models under /verif/lib (written from the property statements); a shared misreading of a statement by model and code would go unnoticed",
    "cases the statement does not settle are executed but not asserted (counted as 'unspecified'/'skipped' classes)",
]


def run_property(prop, tier, seed):
    conf = PROPS[prop]
    t0 = time.time()
    race = conf.get("race", False)
    binary = build(race=race)
    if binary is None:
        return 2
    plain_binary = binary
    try:
        return _run_property(prop, tier, seed, conf, binary, t0)
    finally:
        for b in {binary, plain_binary}:
            if b and os.path.exists(b):
                os.remove(b)


def _run_property(prop, tier, seed, conf, binary, t0):
    nshards = conf.get("shards", 16) if tier == "thorough" else 1
    nshards = int(os.environ.get("VERIF_SHARDS", nshards))
    rundir = os.path.join(ROOT, ".run", "%s-%s-%d" % (prop, tier, os.getpid()))
    shutil.rmtree(rundir, ignore_errors=True)
    os.makedirs(rundir)
    limit = int(os.environ.get("VERIF_LIMIT", LIMIT[tier]))
    known = [k for k in load_known() if k.get("property") == prop and k.get("status") == "open"]
    violations = []   # replay paths
    known_lines = []
    infra = []
    try:
        def launch(shards, attempt):
            ps = []
            for sh in shards:
                od = os.path.join(rundir, "s%d" % sh if attempt == 0 else "s%d-retry%d" % (sh, attempt))
                os.makedirs(od)
                extra = dict(VERIF_TIER=tier, VERIF_SHARD=sh, VERIF_NSHARDS=nshards, VERIF_OUT=od,
                             VERIF_SEED_EFFECTIVE=eff_seed(seed, sh), VERIF_ROOT=ROOT)
                if attempt > 0:
                    # a hang report that did not reproduce came from a starved machine: run the shard
                    # again with a longer limit per call instead of giving up on it
                    extra["VERIF_HANG_SECS"] = 10 * 4 ** attempt
                logf = open(os.path.join(od, "log"), "w")
                cmd = [binary, "-test.run", conf["tests"] + "|^TestCorpus$", "-test.timeout", "0", "-test.v",
                       "-rapid.seed", str(eff_seed(seed, sh)), "-rapid.nofailfile"]
                extra["VERIF_CORPUS"] = prop if sh == 0 else ""
                p = subprocess.Popen(cmd, cwd=os.path.join(ROOT, "checks"), env=env_for(extra), stdout=logf, stderr=subprocess.STDOUT)
                ps.append((sh, od, p, logf))
            return ps

        deadline = t0 + limit
        timed_out = False

        def wait(ps):
            nonlocal timed_out
            for sh, od, p, logf in ps:
                try:
                    p.wait(timeout=max(1, deadline - time.time()))
                except subprocess.TimeoutExpired:
                    timed_out = True
                    p.kill()
                    p.wait()
                logf.close()

        procs = launch(range(nshards), 0)
        wait(procs)
        if timed_out:
            infra.append("time budget of %ds exhausted (inconclusive)" % limit)
        # shards whose only trouble was a hang / death report that does not reproduce are run again (twice at most)
        for attempt in (1, 2):
            again = []
            for sh, od, p, logf in procs:
                vfiles = sorted(glob.glob(os.path.join(od, "violations", "*.json")))
                hangs = [vf for vf in vfiles if json.load(open(vf)).get("kind") == "hang"]
                if timed_out or not hangs or len(hangs) != len(vfiles):
                    continue
                flaky = True
                for vf in hangs:
                    probe = os.path.join(od, "probe-%s" % os.path.basename(vf))
                    shutil.copyfile(vf, probe)
                    st, why = run_replay(binary, probe, limit=120)
                    os.remove(probe)
                    flaky = flaky and st != "reproduced"
                if flaky:
                    again.append(sh)
            if not again:
                break
            log("hang report(s) of shard(s) %s did not reproduce: running them again with a longer limit per call" % again)
            redo = launch(again, attempt)
            wait(redo)
            procs = [q for q in procs if q[0] not in again] + redo
        # a plain (non-race) binary is not needed for replays: the same binary replays
        for sh, od, p, logf in procs:
            rc = p.returncode
            logtxt = open(os.path.join(od, "log"), errors="replace").read()
            vfiles = sorted(glob.glob(os.path.join(od, "violations", "*.json")))
            for vf in vfiles:
                v = json.load(open(vf))
                path = store_replay(prop, v)
                if v.get("kind") == "hang":
                    st, why = run_replay(binary, path, limit=120)
                    if st != "reproduced":
                        infra.append("hang reported by shard %d did not reproduce (%s)" % (sh, path))
                        continue
                    minimise(binary, path)
                violations.append(path)
            if rc in (0, 1, 3) and (rc == 0 or vfiles):
                continue
            if rc == 1 and not vfiles:
                infra.append("shard %d failed without a violation record:\n%s" % (sh, logtxt[-3000:]))
                continue
            if rc is not None and rc < 0 and timed_out:
                continue
            # fatal runtime error or kill: the heartbeat names the case
            hb = read_heartbeat(os.path.join(od, "hb-s%d" % sh))
            if hb is None or "/" not in hb["check"]:
                infra.append("shard %d died (status %s) outside a guarded call:\n%s" % (sh, rc, logtxt[-3000:]))
                continue
            pr, chk = hb["check"].split("/", 1)
            payload = hb["payload"].decode("utf-8", "replace")
            try:
                case = json.loads(payload) if hb["kind"] == "json" else payload
            except Exception:
                case = payload
            tail = logtxt[-1500:]
            for marker in ("WARNING: DATA RACE", "fatal error:", "panic:"):
                at = logtxt.find(marker)
                if at >= 0:
                    tail = logtxt[at:at + 2500]
                    break
            v = dict(property=pr, check=chk, seed=eff_seed(seed, sh), kind="fatal", case=case,
                     note="process died with status %s during this case: %s" % (rc, tail))
            path = store_replay(prop, v)
            st, why = run_replay(binary, path, limit=120)
            if st == "reproduced":
                minimise(binary, path)
                violations.append(path)
            else:
                infra.append("shard %d died (status %s) but its last case does not reproduce alone (%s)" % (sh, rc, path))
        # known findings: probe each open entry's own replay input
        for k in known:
            rp = os.path.join(ROOT, k["replay"])
            st, why = run_replay(binary, rp, limit=60)
            if st == "reproduced":
                known_lines.append("KNOWN-FINDING: property=%s %s [%s]" % (prop, k["what"], k["id"]))
            elif st == "error":
                infra.append("known finding %s: replay error %s" % (k["id"], why))
        # a violation whose replay is byte-identical to an open known finding's is that finding
        known_cases = set()
        for k in known:
            try:
                known_cases.add(json.dumps(json.load(open(os.path.join(ROOT, k["replay"]))).get("case"), sort_keys=True))
            except Exception:
                pass
        uniq = []
        for path in violations:
            cj = json.dumps(json.load(open(path)).get("case"), sort_keys=True)
            if cj in known_cases:
                continue
            if path not in uniq:
                uniq.append(path)
        violations = uniq
        wall = time.time() - t0
        ev = merge_evidence(prop, tier, seed, [od for _, od, _, _ in procs], wall, len(violations), known_lines,
                            conf.get("level", "exploration"), ASSUMPTIONS)
        for line in known_lines:
            print(line)
        for path in violations:
            print("VIOLATION property=%s replay=%s" % (prop, os.path.relpath(path, ROOT)))
        sys.stdout.flush()
        log("%s %s seed=%d: %d evaluations, %d distinct non-trivial, %d violation(s), %.1fs" % (
            prop, tier, seed, ev["coverage"]["evaluations"], ev["coverage"]["distinct_nontrivial"], len(violations), wall))
        if violations:
            return 1
        if infra:
            for i in infra:
                log("INFRA: " + i)
            return 2
        if ev["coverage"]["evaluations"] < 1 or ev["coverage"]["distinct_nontrivial"] < 2:
            log("INFRA: no cases were evaluated")
            return 2
        return 0
    finally:
        if not os.environ.get("VERIF_KEEP"):
            shutil.rmtree(rundir, ignore_errors=True)


def replay(path):
    path = os.path.abspath(path)
    try:
        rf = json.load(open(path))
    except Exception as e:
        log("cannot read replay file: %s" % e)
        return 2
    prop = rf.get("property", "")
    race = PROPS.get(prop, {}).get("race", False)
    binary = build(race=race)
    if binary is None:
        return 2
    try:
        st, why = run_replay(binary, path, limit=300)
    finally:
        os.remove(binary)
    if st == "reproduced":
        print("VIOLATION property=%s replay=%s" % (prop, path))
        log(why)
        return 1
    if st == "error":
        log(why)
        return 2
    print("replay passed: %s" % path)
    return 0


def main():
    ap = argparse.ArgumentParser()
    ap.add_argument("prop", nargs="?")
    ap.add_argument("--tier", default=None)
    ap.add_argument("--replay")
    ap.add_argument("--build", action="store_true")
    a = ap.parse_args()
    if a.build:
        b = build()
        if b is None:
            return 2
        os.remove(b)
        return 0
    if a.replay:
        return replay(a.replay)
    if a.prop not in PROPS:
        log("unknown property %r" % a.prop)
        return 2
    tier = a.tier or os.environ.get("VERIF_TIER") or "quick"
    if tier not in ("quick", "thorough"):
        tier = "quick"
    try:
        seed = int(os.environ.get("VERIF_SEED", "1"))
    except ValueError:
        seed = 1
    return run_property(a.prop, tier, abs(seed))


if __name__ == "__main__":
    signal.signal(signal.SIGTERM, lambda *_: sys.exit(2))
    sys.exit(main())
