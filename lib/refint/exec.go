package refint

import (
	"strings"

	"verif/lib/tw"
)

// Out is the outcome of rendering a statement list.
type Out struct {
	St   Status
	Text string
	Why  string
}

type signal int

const (
	sigNone signal = iota
	sigBreak
	sigContinue
)

const maxPasses = 2000

type execState struct {
	in    *Interp
	out   strings.Builder
	st    Status
	why   string
	depth int // loop nesting depth
	// facts about the run, for non-triviality classification
	Facts map[string]int
	// composition (C06/C07)
	files   Files
	inserts map[string]*tw.Stmt
	uses    *compUse
}

func (x *execState) fail(st Status, why string) {
	if x.st == OK || (x.st == Unspec && st == Err && false) {
		x.st, x.why = st, why
	}
}

// Render evaluates stmts with the data bound in the root scope.
func (in *Interp) Render(stmts []*tw.Stmt, data map[string]Value) (Out, map[string]int) {
	x := &execState{in: in, Facts: map[string]int{}}
	if _, bad := data["loop"]; bad {
		return Out{St: Err, Why: "loop supplied as data"}, x.Facts
	}
	if staticErrStmts(stmts) {
		return Out{St: Err, Why: "integer literal out of range"}, x.Facts
	}
	root := RootScope(data)
	sig := x.block(stmts, root)
	if x.st == OK && sig != sigNone {
		x.fail(Unspec, "@break/@continue outside a loop")
	}
	if x.st != OK {
		return Out{St: x.st, Why: x.why}, x.Facts
	}
	return Out{St: OK, Text: x.out.String()}, x.Facts
}

func staticErrStmts(ss []*tw.Stmt) bool {
	for _, s := range ss {
		if StaticErrExpr(s.E) || StaticErrExpr(s.Init) || StaticErrExpr(s.Cond) || StaticErrExpr(s.Post) || StaticErrExpr(s.Arg) {
			return true
		}
		for _, a := range s.Args {
			if StaticErrExpr(a) {
				return true
			}
		}
		for _, b := range s.Branches {
			if StaticErrExpr(b.Cond) || staticErrStmts(b.Body) {
				return true
			}
		}
		if staticErrStmts(s.Body) || staticErrStmts(s.Else) || staticErrStmts(s.Slots) {
			return true
		}
	}
	return false
}

// eval evaluates an expression and folds non-OK outcomes into the run state.
func (x *execState) eval(e *tw.Expr, sc *Scope) (Value, bool) {
	r := x.in.Eval(e, sc)
	if r.St == OK && r.Alt != nil {
		x.fail(Unspec, "value with rounding tolerance inside a statement")
		return Value{}, false
	}
	if r.St != OK {
		x.fail(r.St, r.Why)
		return Value{}, false
	}
	return r.V, true
}

func (x *execState) block(ss []*tw.Stmt, sc *Scope) signal {
	for _, s := range ss {
		if sig := x.stmt(s, sc); sig != sigNone || x.st != OK {
			return sig
		}
	}
	return sigNone
}

func (x *execState) print(v Value) {
	t, ok := v.Text(x.in.Calib)
	if !ok {
		x.fail(Unspec, "printing a "+v.K.String()+" inside a longer output")
		return
	}
	x.out.WriteString(t)
}

func (x *execState) stmt(s *tw.Stmt, sc *Scope) signal {
	switch s.Kind {
	case tw.SText:
		x.out.WriteString(s.Text)
	case tw.SComment:
	case tw.SPrint:
		if v, ok := x.eval(s.E, sc); ok {
			x.print(v)
		}
	case tw.SAssign:
		if v, ok := x.eval(s.E, sc); ok {
			if r := sc.set(s.Name, v); r.St != OK {
				x.fail(r.St, r.Why)
			}
		}
	case tw.SCode:
		for _, c := range s.Body {
			x.stmt(c, sc)
			if x.st != OK {
				break
			}
		}
	case tw.SIf:
		for i, br := range s.Branches {
			v, ok := x.eval(br.Cond, sc)
			if !ok {
				return sigNone
			}
			if v.Truthy() {
				x.Facts["if-branch-taken"] = i
				return x.block(br.Body, NewScope(sc, "if"))
			}
		}
		if s.HasElse {
			x.Facts["if-else-taken"]++
			return x.block(s.Else, NewScope(sc, "if"))
		}
	case tw.SEach:
		return x.each(s, sc)
	case tw.SFor:
		return x.forLoop(s, sc)
	case tw.SBreak:
		if x.depth == 0 {
			x.fail(Unspec, "@break outside a loop")
		}
		return sigBreak
	case tw.SContinue:
		if x.depth == 0 {
			x.fail(Unspec, "@continue outside a loop")
		}
		return sigContinue
	case tw.SBreakIf, tw.SContinueIf:
		if x.depth == 0 {
			x.fail(Unspec, "@breakIf/@continueIf outside a loop")
			return sigNone
		}
		v, ok := x.eval(s.E, sc)
		if !ok {
			return sigNone
		}
		if v.Truthy() {
			if s.Kind == tw.SBreakIf {
				return sigBreak
			}
			return sigContinue
		}
	case tw.SReserve:
		if x.files == nil {
			x.fail(Unspec, "@reserve in string mode")
			return sigNone
		}
		return x.reserve(s, sc)
	case tw.SComponent:
		if x.files == nil {
			x.fail(Unspec, "@component in string mode")
			return sigNone
		}
		return x.component(s, sc)
	case tw.SSlot:
		if x.files == nil {
			x.fail(Unspec, "@slot in string mode")
			return sigNone
		}
		return x.slot(s, sc)
	case tw.SInsert, tw.SUse:
		// handled by RenderPage; an insert renders nothing where it stands
		if x.files == nil {
			x.fail(Unspec, "@insert/@use in string mode")
		}
	default:
		x.fail(Unspec, "statement kind "+s.Kind)
	}
	return sigNone
}

func (x *execState) each(s *tw.Stmt, sc *Scope) signal {
	ls := NewScope(sc, "each")
	av, ok := x.eval(s.E, sc)
	if !ok {
		return sigNone
	}
	if av.K != KArr {
		x.fail(Err, "iterating a non-array")
		return sigNone
	}
	if len(av.Arr) == 0 {
		if s.Name == "loop" {
			x.fail(Unspec, "loop as loop variable over an empty array")
			return sigNone
		}
		if s.HasElse {
			x.Facts["each-else"]++
			// the @else body belongs to the enclosing control flow
			return x.block(s.Else, ls)
		}
		return sigNone
	}
	x.depth++
	defer func() { x.depth-- }()
	n := len(av.Arr)
	for i, el := range av.Arr {
		ls.pass = i + 1
		if i == 0 {
			if r := ls.set(s.Name, el); r.St != OK {
				x.fail(r.St, r.Why)
				return sigNone
			}
		} else {
			if el.K != av.Arr[0].K {
				// the statement speaks of arrays with elements of one type; but where the loop
				// variable's name is visible outside the loop (with the type of the first element,
				// or the first pass would have failed), binding it to this element re-types that name
				if _, found, stale := sc.lookup(s.Name); found && !stale {
					x.fail(Err, "loop variable bound to a value of a different type than the visible "+s.Name)
					return sigNone
				}
				x.fail(Unspec, "array with elements of different types")
				return sigNone
			}
			ls.vars[s.Name] = &binding{v: el, pass: ls.pass}
		}
		ls.hasLoop = true
		ls.loop = ObjV(map[string]Value{
			"index": IntV(int64(i)), "iter": IntV(int64(i + 1)),
			"first": BoolV(i == 0), "last": BoolV(i == n-1),
		})
		sig := x.block(s.Body, ls)
		if x.st != OK {
			return sigNone
		}
		if sig == sigBreak {
			x.Facts["break-fired"]++
			if i > 0 {
				x.Facts["break-fired-late"]++
			}
			break
		}
		if sig == sigContinue {
			x.Facts["continue-fired"]++
		}
	}
	x.Facts["passes"] += n
	return sigNone
}

func (x *execState) forLoop(s *tw.Stmt, sc *Scope) signal {
	// absent clauses: no loop variable / always true / nothing to apply. The
	// variable renewed in every pass is the one the init clause binds, or, without
	// an init clause, the one an assignment in the post clause binds in the loop.
	ls := NewScope(sc, "for")
	loopVar := s.Name
	if s.Init == nil {
		loopVar = s.PostName
	}
	if s.Init != nil {
		iv, ok := x.eval(s.Init, ls)
		if !ok {
			return sigNone
		}
		if r := ls.set(s.Name, iv); r.St != OK {
			x.fail(r.St, r.Why)
			return sigNone
		}
	}
	cond := func() (bool, bool) {
		if s.Cond == nil {
			return true, true
		}
		cv, ok := x.eval(s.Cond, ls)
		if !ok {
			return false, false
		}
		return cv.Truthy(), true
	}
	go1, ok := cond()
	if !ok {
		return sigNone
	}
	if !go1 {
		if s.HasElse {
			x.Facts["for-else"]++
			return x.block(s.Else, ls)
		}
		return sigNone
	}
	x.depth++
	defer func() { x.depth-- }()
	for pass := 1; ; pass++ {
		if pass > maxPasses {
			x.fail(Unspec, "too many passes for the reference")
			return sigNone
		}
		ls.pass = pass
		// bindings made in the body belong to a pass; the loop variable is renewed
		if b, has := ls.vars[loopVar]; has && loopVar != "" {
			ls.vars[loopVar] = &binding{v: b.v, pass: pass}
		}
		if pass > 1 {
			goOn, ok := cond()
			if !ok {
				return sigNone
			}
			if !goOn {
				break
			}
		}
		sig := x.block(s.Body, ls)
		if x.st != OK {
			return sigNone
		}
		x.Facts["passes"]++
		if sig == sigBreak {
			x.Facts["break-fired"]++
			if pass > 1 {
				x.Facts["break-fired-late"]++
			}
			break
		}
		if sig == sigContinue {
			x.Facts["continue-fired"]++
		}
		if s.Post == nil {
			continue
		}
		// apply post: its value becomes the loop variable's next value
		if b, has := ls.vars[loopVar]; has && loopVar != "" {
			ls.vars[loopVar] = &binding{v: b.v, pass: pass}
		}
		pv, ok := x.eval(s.Post, ls)
		if !ok {
			return sigNone
		}
		switch {
		case s.PostName != "" && s.PostName != loopVar:
			// an assignment to another name as the post clause binds it in the loop's
			// block: what later passes see of it is a matter of pass scoping
			// ... but the reserved name and a change of type are refused whatever the scoping
			if s.PostName == "loop" {
				x.fail(Err, "the name loop is reserved")
				return sigNone
			}
			if old, found, stale := ls.lookup(s.PostName); found && !stale && old.K != pv.K {
				x.fail(Err, "re-assignment with a different type: "+s.PostName)
				return sigNone
			}
			x.fail(Unspec, "post clause assigns a name other than the loop variable")
			return sigNone
		case s.PostName == "" && s.Init == nil:
			// no variable to receive the value
		default:
			if r := ls.set(loopVar, pv); r.St != OK {
				x.fail(r.St, r.Why)
				return sigNone
			}
		}
	}
	return sigNone
}
