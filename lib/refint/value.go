// Package refint is an independent reference interpreter for the part of the
// template language the properties C01-C04 (and the composition properties
// C06/C07) describe. It is written from the property statements, not from
// /repo/evaluator. Wherever a statement does not say what happens, evaluation
// yields Unspecified, and the checks then assert nothing about the value.
package refint

import (
	"math"
	"sort"
	"strconv"
)

type Kind int

const (
	KNil Kind = iota
	KBool
	KInt
	KFloat
	KStr
	KArr
	KObj
)

func (k Kind) String() string {
	return [...]string{"nil", "bool", "int", "float", "str", "arr", "obj"}[k]
}

// Value is a template value.
type Value struct {
	K   Kind
	B   bool
	I   int64
	F   float64
	S   string
	Arr []Value
	Obj map[string]Value
	// Struct marks an object that came from a Go struct: its fields are also
	// reachable with the first letter lower-cased (C12).
	Struct bool
}

func NilV() Value            { return Value{K: KNil} }
func BoolV(b bool) Value     { return Value{K: KBool, B: b} }
func IntV(i int64) Value     { return Value{K: KInt, I: i} }
func FloatV(f float64) Value { return Value{K: KFloat, F: f} }
func StrV(s string) Value    { return Value{K: KStr, S: s} }
func ArrV(a []Value) Value   { return Value{K: KArr, Arr: a} }
func ObjV(m map[string]Value) Value {
	if m == nil {
		m = map[string]Value{}
	}
	return Value{K: KObj, Obj: m}
}

// Truthy implements the table of C02: false, nil, 0, 0.0 and "" are falsy,
// everything else (including empty arrays and objects) is truthy.
func (v Value) Truthy() bool {
	switch v.K {
	case KNil:
		return false
	case KBool:
		return v.B
	case KInt:
		return v.I != 0
	case KFloat:
		return v.F != 0
	case KStr:
		return v.S != ""
	}
	return true
}

// Equal is structural equality (floats by bits, so NaN equals itself here: it
// is used for comparing expectations, not for the language's ==).
func (v Value) Equal(w Value) bool {
	if v.K != w.K {
		return false
	}
	switch v.K {
	case KBool:
		return v.B == w.B
	case KInt:
		return v.I == w.I
	case KFloat:
		return math.Float64bits(v.F) == math.Float64bits(w.F) || v.F == w.F
	case KStr:
		return v.S == w.S
	case KArr:
		if len(v.Arr) != len(w.Arr) {
			return false
		}
		for i := range v.Arr {
			if !v.Arr[i].Equal(w.Arr[i]) {
				return false
			}
		}
		return true
	case KObj:
		if len(v.Obj) != len(w.Obj) {
			return false
		}
		for k, a := range v.Obj {
			b, ok := w.Obj[k]
			if !ok || !a.Equal(b) {
				return false
			}
		}
		return true
	}
	return true
}

// Keys returns the sorted keys of an object value.
func (v Value) Keys() []string {
	ks := make([]string, 0, len(v.Obj))
	for k := range v.Obj {
		ks = append(ks, k)
	}
	sort.Strings(ks)
	return ks
}

// Printing. The statements fix: integers print as decimal numerals, strings
// print their bytes. How booleans and nil print is taken from a calibration
// render (see Calib). Floats are compared by value, see FloatOutEqual; Text is
// only defined for floats through the calibration function.

// Calib holds renderings learnt from the implementation for things no
// statement pins down textually (they are about formatting, not values).
type Calib struct {
	True, False, Nil string
	// Float renders a float value the way a literal of that value prints; nil
	// means floats cannot be printed inside longer outputs.
	Float func(f float64) (string, bool)
}

// DefaultCalib is what the language documents (1/0/empty); checks overwrite
// it from a calibration render at start-up.
var DefaultCalib = Calib{True: "1", False: "0", Nil: ""}

// Text returns how v prints, and false if that is not settled (arrays,
// objects, floats without calibration).
func (v Value) Text(c *Calib) (string, bool) {
	switch v.K {
	case KNil:
		return c.Nil, true
	case KBool:
		if v.B {
			return c.True, true
		}
		return c.False, true
	case KInt:
		return strconv.FormatInt(v.I, 10), true
	case KStr:
		return v.S, true
	case KFloat:
		if c.Float != nil {
			return c.Float(v.F)
		}
	}
	return "", false
}

// FloatOutEqual reports whether the printed text out denotes exactly f (parsed
// back to the same float64; NaN/Inf by name, any case, optional sign).
func FloatOutEqual(out string, f float64) bool {
	g, err := strconv.ParseFloat(out, 64)
	if err != nil {
		return false
	}
	if math.IsNaN(f) {
		return math.IsNaN(g)
	}
	// (negative zero is a value of its own: what is rendered must denote it)
	return g == f && math.Signbit(g) == math.Signbit(f)
}
