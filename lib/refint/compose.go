package refint

import (
	"path"
	"sort"
	"strings"

	"verif/lib/tw"
)

// Files is a template directory in the harness's AST: template name (path
// relative to the template directory, without extension) -> statements.
type Files map[string][]*tw.Stmt

// ResolveName applies the '~' alias: "~x" means dir+"/x".
func ResolveName(name, dir string) string {
	if strings.HasPrefix(name, "~") {
		return dir + "/" + name[1:]
	}
	// a name is a path relative to the template directory: "/a", "./a", "a//b"
	// and "x/../a" are spellings of "a" (names that leave the directory stay as written)
	if c := path.Clean(strings.TrimLeft(name, "/")); c != "." && !strings.HasPrefix(c, "..") {
		return c
	}
	return name
}

func findUse(ss []*tw.Stmt) *tw.Stmt {
	for _, s := range ss {
		if s.Kind == tw.SUse {
			return s
		}
	}
	return nil
}

// walk visits every statement (depth first).
func walk(ss []*tw.Stmt, fn func(*tw.Stmt)) {
	for _, s := range ss {
		fn(s)
		for _, b := range s.Branches {
			walk(b.Body, fn)
		}
		walk(s.Body, fn)
		walk(s.Else, fn)
		for _, sl := range s.Slots {
			walk(sl.Body, fn)
		}
	}
}

func collect(ss []*tw.Stmt, kind string) []*tw.Stmt {
	var out []*tw.Stmt
	walk(ss, func(s *tw.Stmt) {
		if s.Kind == kind {
			out = append(out, s)
		}
	})
	return out
}

// HasReserve reports whether a file declares reserves (it is then a layout and
// not directly renderable).
func HasReserve(ss []*tw.Stmt) bool { return len(collect(ss, tw.SReserve)) > 0 }

// LoadError describes why loading the directory must fail ("" if it loads).
// names lists what the error message must mention (component name), if the
// statement says so.
type LoadError struct {
	Why      string
	Mentions string
}

// Validate checks what C06/C07 say is reported when templates are loaded.
func Validate(files Files) *LoadError {
	names := make([]string, 0, len(files))
	for n := range files {
		names = append(names, n)
	}
	sort.Strings(names)
	for _, n := range names {
		ss := files[n]
		if use := findUse(ss); use != nil {
			lname := ResolveName(use.Name, "layouts")
			lay, ok := files[lname]
			if !ok {
				return &LoadError{Why: "missing layout file " + lname}
			}
			// a @use anywhere in the layout file counts, also one in a branch or loop body that would not run
			if len(collect(lay, tw.SUse)) > 0 {
				return &LoadError{Why: "layout " + lname + " itself uses a layout"}
			}
			reserves := map[string]bool{}
			for _, r := range collect(lay, tw.SReserve) {
				reserves[r.Name] = true
			}
			seen := map[string]bool{}
			for _, ins := range collect(ss, tw.SInsert) {
				if seen[ins.Name] {
					return &LoadError{Why: "two inserts named " + ins.Name}
				}
				seen[ins.Name] = true
				if !reserves[ins.Name] {
					return &LoadError{Why: "insert " + ins.Name + " names no reserve of the layout"}
				}
			}
		} else {
			seen := map[string]bool{}
			for _, ins := range collect(ss, tw.SInsert) {
				if seen[ins.Name] {
					return &LoadError{Why: "two inserts named " + ins.Name}
				}
				seen[ins.Name] = true
			}
		}
		for _, cu := range collect(ss, tw.SComponent) {
			cname := ResolveName(cu.Name, "components")
			comp, ok := files[cname]
			if !ok {
				return &LoadError{Why: "missing component file " + cname, Mentions: cu.Name}
			}
			declared := map[string]bool{}
			for _, s := range comp { // top-level placeholders only
				if s.Kind == tw.SSlot {
					declared[s.Name] = true
				}
			}
			passed := map[string]bool{}
			for _, sl := range cu.Slots {
				if passed[sl.Name] {
					return &LoadError{Why: "slot " + sl.Name + " passed twice to " + cname, Mentions: cname}
				}
				passed[sl.Name] = true
			}
			for _, sl := range cu.Slots {
				if !declared[sl.Name] {
					return &LoadError{Why: "component " + cname + " declares no slot " + sl.Name, Mentions: cname}
				}
			}
		}
	}
	return nil
}

// RenderPage renders template name of a directory that loads (Validate == nil).
func (in *Interp) RenderPage(files Files, name string, data map[string]Value) (Out, map[string]int) {
	ss, ok := files[name]
	if !ok {
		return Out{St: Err, Why: "template not found"}, nil
	}
	if HasReserve(ss) {
		return Out{St: Err, Why: "a layout is not directly renderable"}, nil
	}
	x := &execState{in: in, Facts: map[string]int{}, files: files}
	if _, bad := data["loop"]; bad {
		return Out{St: Err, Why: "loop supplied as data"}, x.Facts
	}
	if staticErrStmts(ss) {
		return Out{St: Err, Why: "integer literal out of range"}, x.Facts
	}
	root := RootScope(data)
	body := ss
	if use := findUse(ss); use != nil {
		x.inserts = map[string]*tw.Stmt{}
		for _, ins := range collect(ss, tw.SInsert) {
			x.inserts[ins.Name] = ins
		}
		body = files[ResolveName(use.Name, "layouts")]
		if staticErrStmts(body) {
			return Out{St: Err, Why: "integer literal out of range"}, x.Facts
		}
	}
	sig := x.block(body, root)
	if x.st == OK && sig != sigNone {
		x.fail(Unspec, "@break/@continue outside a loop")
	}
	if x.st != OK {
		return Out{St: x.st, Why: x.why}, x.Facts
	}
	return Out{St: OK, Text: x.out.String()}, x.Facts
}

// reserve emits the page's insert for this reserve (nothing when absent).
func (x *execState) reserve(s *tw.Stmt, sc *Scope) signal {
	ins := x.inserts[s.Name]
	if ins == nil {
		return sigNone
	}
	x.Facts["reserve-filled"]++
	if ins.Block {
		// the reserve is replaced by the insert's content: the body runs in the layout's
		// block at this place (an insert is not among the blocks of C04), so what it
		// assigns is seen by what follows the reserve
		return x.block(ins.Body, sc)
	}
	if v, ok := x.eval(ins.E, sc); ok {
		x.print(v)
	}
	return sigNone
}

type compUse struct {
	use   *tw.Stmt
	outer *compUse
}

// component renders the component file with the arguments bound and each
// placeholder replaced by the body this use passed.
func (x *execState) component(s *tw.Stmt, sc *Scope) signal {
	comp, ok := x.files[ResolveName(s.Name, "components")]
	if !ok {
		x.fail(Err, "missing component")
		return sigNone
	}
	cs := NewScope(sc, "component")
	if s.Arg != nil {
		// arguments are independent; any failing one fails the render
		vals := make([]Value, len(s.Arg.Kids))
		for i, k := range s.Arg.Kids {
			v, ok := x.eval(k, sc)
			if !ok {
				return sigNone
			}
			vals[i] = v
		}
		for i, key := range s.Arg.Keys {
			if key == "loop" {
				x.fail(Err, "loop as component argument")
				return sigNone
			}
			if old, found, _ := sc.lookup(key); found && old.K != vals[i].K {
				// error or the argument's value, never the outer value: not a
				// single expected output
				x.fail(Unspec, "argument collides with a differently typed visible name")
				return sigNone
			}
			cs.vars[key] = &binding{v: vals[i]}
		}
	}
	x.Facts["component-use"]++
	x.uses = &compUse{use: s, outer: x.uses}
	depth := x.depth
	x.depth = 0 // control directives inside a component do not reach the caller's loops: unspecified
	sig := x.block(comp, cs)
	x.depth = depth
	x.uses = x.uses.outer
	if sig != sigNone && x.st == OK {
		x.fail(Unspec, "@break/@continue leaving a component")
	}
	return sigNone
}

func (x *execState) slot(s *tw.Stmt, sc *Scope) signal {
	if x.uses == nil {
		// a placeholder rendered outside any use (the component file itself)
		return sigNone
	}
	for _, sl := range x.uses.use.Slots {
		if sl.Name == s.Name {
			x.Facts["slot-filled"]++
			use := x.uses
			x.uses = use.outer // a slot body belongs to the caller
			ss := NewScope(sc, "if")
			sig := x.block(sl.Body, ss)
			for name, b := range ss.vars {
				if old, ok := sc.vars[name]; ok {
					old.leak = true
				} else {
					sc.vars[name] = &binding{v: b.v, pass: sc.pass, leak: true}
				}
			}
			x.uses = use
			return sig
		}
	}
	return sigNone
}
