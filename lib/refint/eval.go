package refint

import (
	"math"
	"math/big"
	"strconv"
	"strings"
	"unicode/utf8"

	"verif/lib/tw"
)

type Status int

const (
	OK     Status = iota
	Err           // the render must fail with an error and produce no output
	Unspec        // the statements do not settle the outcome
)

func (s Status) String() string { return [...]string{"ok", "error", "unspecified"}[s] }

// Res is the outcome of evaluating an expression.
type Res struct {
	St  Status
	V   Value
	Alt *Value // second acceptable value (float ++/-- rounding tolerance); only at top level
	Why string
}

func okv(v Value) Res       { return Res{St: OK, V: v} }
func errf(why string) Res   { return Res{St: Err, Why: why} }
func unspec(why string) Res { return Res{St: Unspec, Why: why} }
func (r Res) plain() bool   { return r.St == OK && r.Alt == nil }

// ---------------------------------------------------------------- scopes

type binding struct {
	v    Value
	pass int
	// leak: assigned at the top level of a slot body evaluated at this place; whether a slot
	// body is a block of its own is not settled by C04 (template, @if branch, loop, component)
	leak bool
}

type Scope struct {
	vars    map[string]*binding
	outer   *Scope
	kind    string // root | if | each | for | component
	pass    int    // current pass of a loop scope
	hasLoop bool
	loop    Value
}

func NewScope(outer *Scope, kind string) *Scope {
	return &Scope{vars: map[string]*binding{}, outer: outer, kind: kind}
}

// RootScope binds the data map.
func RootScope(data map[string]Value) *Scope {
	s := NewScope(nil, "root")
	for k, v := range data {
		s.vars[k] = &binding{v: v}
	}
	return s
}

// lookup returns the visible binding. stale is true when the binding was made
// in an earlier pass of a loop scope and not renewed in the current pass (the
// statement says "loop" is the block; whether a pass starts afresh is not
// settled, so such reads are unspecified).
func (s *Scope) lookup(name string) (v Value, found, stale bool) {
	for sc := s; sc != nil; sc = sc.outer {
		if b, ok := sc.vars[name]; ok {
			st := (sc.kind == "each" || sc.kind == "for") && b.pass != sc.pass
			return b.v, true, st || b.leak
		}
	}
	return Value{}, false, false
}

func (s *Scope) lookupLoop() Res {
	for sc := s; sc != nil; sc = sc.outer {
		if sc.kind == "each" && sc.hasLoop {
			return okv(sc.loop)
		}
		if sc.kind == "for" {
			return unspec("loop.* read inside a @for")
		}
	}
	return errf("loop is not defined outside a loop")
}

// set binds name in this scope after the type-stability check of C04.
func (s *Scope) set(name string, v Value) Res {
	if name == "loop" {
		return errf("the name loop is reserved")
	}
	old, found, stale := s.lookup(name)
	if found && stale {
		return unspec("re-binding a name bound in an earlier pass or by a slot body")
	}
	if found && old.K != v.K {
		return errf("re-assignment with a different type: " + name)
	}
	s.vars[name] = &binding{v: v, pass: s.pass}
	return okv(v)
}

// ---------------------------------------------------------------- literals

// EscapeLit is the HTML escaping applied to string literals (C10): & < > are
// replaced, quotes stay as written.
func EscapeLit(s string) string {
	s = strings.ReplaceAll(s, "&", "&amp;")
	s = strings.ReplaceAll(s, "<", "&lt;")
	s = strings.ReplaceAll(s, ">", "&gt;")
	return s
}

// IntLiteralInRange reports whether a run of digits is a valid integer literal.
func IntLiteralInRange(text string) bool {
	_, err := strconv.ParseInt(text, 10, 64)
	return err == nil
}

// StaticErr reports a fault that fails the whole template before evaluation
// (an out-of-range integer literal anywhere).
func StaticErrExpr(e *tw.Expr) bool {
	if e == nil {
		return false
	}
	if e.Kind == tw.EInt && e.Text != "" && !IntLiteralInRange(e.Text) {
		return true
	}
	for _, k := range e.Kids {
		if StaticErrExpr(k) {
			return true
		}
	}
	return false
}

// ---------------------------------------------------------------- expressions

// Interp evaluates against a calibration and optional custom hooks.
type Interp struct {
	Calib *Calib
}

func (in *Interp) Eval(e *tw.Expr, sc *Scope) Res {
	switch e.Kind {
	case tw.EInt:
		if e.Text != "" {
			v, err := strconv.ParseInt(e.Text, 10, 64)
			if err != nil {
				return errf("integer literal out of range")
			}
			return okv(IntV(v))
		}
		return okv(IntV(e.Int))
	case tw.EFloat:
		if e.Text != "" {
			f, err := strconv.ParseFloat(e.Text, 64)
			if err != nil {
				return unspec("float literal out of range")
			}
			return okv(FloatV(f))
		}
		return okv(FloatV(e.Float))
	case tw.EStr:
		return okv(StrV(EscapeLit(e.Str)))
	case tw.EBool:
		return okv(BoolV(e.Bool))
	case tw.ENil:
		return okv(NilV())
	case tw.EVar:
		if e.Str == "loop" {
			return sc.lookupLoop()
		}
		v, found, stale := sc.lookup(e.Str)
		if !found {
			return errf("unknown identifier " + e.Str)
		}
		if stale {
			return unspec("read of a name bound in an earlier pass or by a slot body")
		}
		return okv(v)
	case tw.ENeg:
		x := in.Eval(e.Kids[0], sc)
		if !x.plain() {
			return dull(x)
		}
		switch x.V.K {
		case KInt:
			return okv(IntV(-x.V.I))
		case KFloat:
			return okv(FloatV(-x.V.F))
		}
		return unspec("unary - on " + x.V.K.String())
	case tw.ENot:
		x := in.Eval(e.Kids[0], sc)
		if !x.plain() {
			return dull(x)
		}
		if x.V.K == KBool {
			return okv(BoolV(!x.V.B))
		}
		return unspec("! on " + x.V.K.String())
	case tw.EInc, tw.EDec:
		x := in.Eval(e.Kids[0], sc)
		if !x.plain() {
			return dull(x)
		}
		d := int64(1)
		if e.Kind == tw.EDec {
			d = -1
		}
		switch x.V.K {
		case KInt:
			return okv(IntV(x.V.I + d))
		case KFloat:
			ieee := x.V.F + float64(d)
			dec, ok := decimalShift(x.V.F, d)
			r := okv(FloatV(ieee))
			if ok && dec != ieee {
				a := FloatV(dec)
				r.Alt = &a
			}
			return r
		}
		return unspec("++/-- on " + x.V.K.String())
	case tw.EBin:
		l := in.Eval(e.Kids[0], sc)
		if l.St == Err {
			return l
		}
		r := in.Eval(e.Kids[1], sc)
		if r.St == Err {
			return r
		}
		if !l.plain() {
			return dull(l)
		}
		if !r.plain() {
			return dull(r)
		}
		return binop(e.Str, l.V, r.V)
	case tw.ETern:
		c := in.Eval(e.Kids[0], sc)
		if !c.plain() {
			return dull(c)
		}
		if c.V.Truthy() {
			return in.Eval(e.Kids[1], sc)
		}
		return in.Eval(e.Kids[2], sc)
	case tw.EIndex:
		x := in.Eval(e.Kids[0], sc)
		if x.St == Err {
			return x
		}
		i := in.Eval(e.Kids[1], sc)
		if i.St == Err {
			return i
		}
		if !x.plain() {
			return dull(x)
		}
		if !i.plain() {
			return dull(i)
		}
		switch {
		case x.V.K == KArr && i.V.K == KInt:
			if i.V.I < 0 || i.V.I >= int64(len(x.V.Arr)) {
				return unspec("array index out of range")
			}
			return okv(x.V.Arr[i.V.I])
		case x.V.K == KObj && i.V.K == KStr:
			return member(x.V, i.V.S)
		}
		return unspec("index of " + x.V.K.String() + " by " + i.V.K.String())
	case tw.EDot:
		x := in.Eval(e.Kids[0], sc)
		if !x.plain() {
			return dull(x)
		}
		if x.V.K != KObj {
			return unspec("property access on " + x.V.K.String())
		}
		return member(x.V, e.Str)
	case tw.ECall:
		x := in.Eval(e.Kids[0], sc)
		if x.St == Err {
			return x
		}
		args := make([]Value, 0, len(e.Kids)-1)
		dullArg := (*Res)(nil)
		for _, a := range e.Kids[1:] {
			r := in.Eval(a, sc)
			if r.St == Err {
				return r
			}
			if !r.plain() && dullArg == nil {
				rr := dull(r)
				dullArg = &rr
			}
			args = append(args, r.V)
		}
		if !x.plain() {
			return dull(x)
		}
		if dullArg != nil {
			return *dullArg
		}
		return builtin(x.V, e.Str, args)
	case tw.EArr:
		out := make([]Value, 0, len(e.Kids))
		var d *Res
		for _, k := range e.Kids {
			r := in.Eval(k, sc)
			if r.St == Err {
				return r
			}
			if !r.plain() && d == nil {
				rr := dull(r)
				d = &rr
			}
			out = append(out, r.V)
		}
		if d != nil {
			return *d
		}
		return okv(ArrV(out))
	case tw.EObj:
		// entries are independent; which failing entry is reported first is not
		// settled (C14 only demands determinism), but any failing entry fails all
		m := map[string]Value{}
		var d *Res
		var firstErr *Res
		for i, k := range e.Kids {
			r := in.Eval(k, sc)
			if r.St == Err && firstErr == nil {
				rr := r
				firstErr = &rr
			}
			if !r.plain() && r.St != Err && d == nil {
				rr := dull(r)
				d = &rr
			}
			if _, dup := m[e.Keys[i]]; dup {
				rr := unspec("duplicate key in object literal")
				d = &rr
			}
			m[e.Keys[i]] = r.V
		}
		if firstErr != nil {
			return *firstErr
		}
		if d != nil {
			return *d
		}
		return okv(ObjV(m))
	}
	return unspec("expression kind " + e.Kind)
}

// dull turns a non-plain result into what an operator consuming it yields.
func dull(r Res) Res {
	if r.St == OK && r.Alt != nil {
		return unspec("value with rounding tolerance used as an operand")
	}
	return r
}

func member(obj Value, name string) Res {
	if v, ok := obj.Obj[name]; ok {
		return okv(v)
	}
	if name != "" {
		up := strings.ToUpper(name[:1]) + name[1:]
		if v, ok := obj.Obj[up]; ok && up != name {
			if obj.Struct {
				return okv(v)
			}
			return unspec("map key found only with its first letter upper-cased")
		}
	}
	return errf("unknown property " + name)
}

// decimalShift is x+d computed on x's shortest decimal representation and
// rounded once (what "4.4-- is 3.4" means).
func decimalShift(x float64, d int64) (float64, bool) {
	if math.IsNaN(x) || math.IsInf(x, 0) {
		return 0, false
	}
	r, ok := new(big.Rat).SetString(strconv.FormatFloat(x, 'f', -1, 64))
	if !ok {
		return 0, false
	}
	r.Add(r, new(big.Rat).SetInt64(d))
	f, _ := r.Float64()
	return f, true
}

func binop(op string, l, r Value) Res {
	if l.K != r.K {
		return errf("mixed operand types " + l.K.String() + " " + op + " " + r.K.String())
	}
	switch l.K {
	case KInt:
		a, b := l.I, r.I
		switch op {
		case "+":
			return okv(IntV(a + b))
		case "-":
			return okv(IntV(a - b))
		case "*":
			return okv(IntV(a * b))
		case "/":
			if b == 0 {
				return errf("integer division by zero")
			}
			if a == math.MinInt64 && b == -1 {
				return okv(IntV(math.MinInt64)) // wraps
			}
			return okv(IntV(a / b))
		case "%":
			if b == 0 {
				return errf("integer modulo by zero")
			}
			if b == -1 {
				return okv(IntV(0))
			}
			return okv(IntV(a % b))
		case "==":
			return okv(BoolV(a == b))
		case "!=":
			return okv(BoolV(a != b))
		case "<":
			return okv(BoolV(a < b))
		case ">":
			return okv(BoolV(a > b))
		case "<=":
			return okv(BoolV(a <= b))
		case ">=":
			return okv(BoolV(a >= b))
		}
	case KFloat:
		a, b := l.F, r.F
		switch op {
		case "+":
			return okv(FloatV(a + b))
		case "-":
			return okv(FloatV(a - b))
		case "*":
			return okv(FloatV(a * b))
		case "/":
			return okv(FloatV(a / b))
		case "==":
			return okv(BoolV(a == b))
		case "!=":
			return okv(BoolV(a != b))
		case "<":
			return okv(BoolV(a < b))
		case ">":
			return okv(BoolV(a > b))
		case "<=":
			return okv(BoolV(a <= b))
		case ">=":
			return okv(BoolV(a >= b))
		}
		return unspec("float " + op)
	case KStr:
		switch op {
		case "+":
			return okv(StrV(l.S + r.S))
		case "==":
			return okv(BoolV(l.S == r.S))
		case "!=":
			return okv(BoolV(l.S != r.S))
		}
		return unspec("string " + op)
	}
	return unspec(l.K.String() + " " + op)
}

// builtin models the few built-ins whose contract is trivial; everything else
// is unspecified here (C11 has the full references).
func builtin(x Value, fn string, args []Value) Res {
	if strings.HasPrefix(fn, "nosuch") {
		return errf("unknown function " + fn)
	}
	// a few contract-trivial functions with arguments
	switch {
	case x.K == KStr && fn == "contains" && len(args) == 1 && args[0].K == KStr:
		return okv(BoolV(strings.Contains(x.S, args[0].S)))
	case x.K == KArr && fn == "contains" && len(args) == 1 && args[0].K != KArr && args[0].K != KObj && args[0].K != KFloat:
		for _, el := range x.Arr {
			if el.K == args[0].K && el.Equal(args[0]) {
				return okv(BoolV(true))
			}
		}
		return okv(BoolV(false))
	case x.K == KBool && fn == "then" && (len(args) == 1 || len(args) == 2):
		if x.B {
			return okv(args[0])
		}
		if len(args) == 2 {
			return okv(args[1])
		}
		return okv(NilV())
	}
	if len(args) != 0 {
		return unspec("call with arguments")
	}
	switch x.K {
	case KInt:
		switch fn {
		case "abs":
			if x.I == math.MinInt64 {
				return unspec("abs of MinInt64")
			}
			if x.I < 0 {
				return okv(IntV(-x.I))
			}
			return okv(x)
		case "float":
			return okv(FloatV(float64(x.I)))
		case "str":
			return okv(StrV(strconv.FormatInt(x.I, 10)))
		}
	case KFloat:
		switch fn {
		case "abs":
			return okv(FloatV(math.Abs(x.F)))
		case "int":
			if math.Abs(x.F) < (1 << 62) {
				return okv(IntV(int64(x.F)))
			}
		}
	case KStr:
		switch fn {
		case "len":
			if utf8.ValidString(x.S) {
				return okv(IntV(int64(utf8.RuneCountInString(x.S))))
			}
		case "upper":
			if isASCII(x.S) {
				return okv(StrV(strings.ToUpper(x.S)))
			}
		}
	case KArr:
		if fn == "len" {
			return okv(IntV(int64(len(x.Arr))))
		}
	}
	return unspec("built-in " + fn + " on " + x.K.String())
}

func isASCII(s string) bool {
	for i := 0; i < len(s); i++ {
		if s[i] >= 0x80 {
			return false
		}
	}
	return true
}
