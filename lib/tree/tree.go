// Package tree materialises generated template directory trees in a scratch
// directory and loads them with textwire.NewTemplate. The library strips the
// leading '/' of TemplateDir, so only relative directories are expressible:
// the process chdirs into the scratch root (checks in one process are
// sequential, so the process-wide cwd is safe; the concurrent check C15 loads
// first and renders afterwards).
package tree

import (
	"fmt"
	"os"
	"path/filepath"
	"sort"
	"sync"
)

// Entry kinds.
const (
	File    = "file"
	Symlink = "symlink" // Content is the link target
	Dir     = "dir"
)

type Entry struct {
	Kind    string `json:"kind,omitempty"` // default: file
	Content string `json:"content"`
}

// Tree maps slash-separated paths relative to the scratch root to entries.
type Tree map[string]Entry

func (t Tree) Paths() []string {
	ps := make([]string, 0, len(t))
	for p := range t {
		ps = append(ps, p)
	}
	sort.Strings(ps)
	return ps
}

func (t Tree) Clone() Tree {
	c := Tree{}
	for k, v := range t {
		c[k] = v
	}
	return c
}

var (
	mu      sync.Mutex
	origWD  string
	baseDir string
	counter int
)

// base returns (creating once) this process's scratch base directory. It lives
// outside /repo and /verif and is removed by Cleanup.
func base() (string, error) {
	if baseDir != "" {
		return baseDir, nil
	}
	wd, err := os.Getwd()
	if err != nil {
		return "", err
	}
	origWD = wd
	d, err := os.MkdirTemp("", "verif-tree-")
	if err != nil {
		return "", err
	}
	d, _ = filepath.EvalSymlinks(d)
	baseDir = d
	return d, nil
}

// Materialise writes t under a fresh root directory, chdirs into it and returns
// the absolute root. The previous root (if any) is removed.
func Materialise(t Tree) (root string, err error) {
	mu.Lock()
	defer mu.Unlock()
	b, err := base()
	if err != nil {
		return "", err
	}
	counter++
	root = filepath.Join(b, fmt.Sprintf("r%d", counter%4))
	os.RemoveAll(root)
	if err := os.MkdirAll(root, 0o755); err != nil {
		return "", err
	}
	for _, p := range t.Paths() {
		e := t[p]
		full := filepath.Join(root, filepath.FromSlash(p))
		switch e.Kind {
		case Dir:
			if err := os.MkdirAll(full, 0o755); err != nil {
				return "", err
			}
		case Symlink:
			os.MkdirAll(filepath.Dir(full), 0o755)
			if err := os.Symlink(e.Content, full); err != nil {
				return "", err
			}
		default:
			os.MkdirAll(filepath.Dir(full), 0o755)
			if err := os.WriteFile(full, []byte(e.Content), 0o644); err != nil {
				return "", err
			}
		}
	}
	if err := os.Chdir(root); err != nil {
		return "", err
	}
	return root, nil
}

// Cleanup removes the scratch base and restores the working directory.
func Cleanup() {
	mu.Lock()
	defer mu.Unlock()
	if origWD != "" {
		os.Chdir(origWD)
	}
	if baseDir != "" {
		os.RemoveAll(baseDir)
		baseDir = ""
	}
}
