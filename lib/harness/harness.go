// Package harness holds what every check shares: run configuration taken from
// the environment (tier, shard, seed, output directory), statistics that become
// the evidence file, violation/replay records, a recover() wrapper, and the
// heartbeat + watchdog that turn "the library never returned" into a report.
package harness

import (
	"encoding/json"
	"fmt"
	"hash/fnv"
	"os"
	"path/filepath"
	"runtime"
	"runtime/debug"
	"sort"
	"strconv"
	"sync"
	"sync/atomic"
	"syscall"
	"time"
)

// ---------------------------------------------------------------- configuration

type Config struct {
	Tier    string // "quick" | "thorough"
	Shard   int
	NShards int
	Seed    uint64
	OutDir  string // per-run scratch directory made by the driver ("" = no files)
	Replay  string // path of a replay file (replay mode)
}

var cfg = loadConfig()

func loadConfig() Config {
	c := Config{Tier: "quick", NShards: 1}
	if v := os.Getenv("VERIF_TIER"); v == "thorough" {
		c.Tier = v
	}
	if v, err := strconv.Atoi(os.Getenv("VERIF_SHARD")); err == nil {
		c.Shard = v
	}
	if v, err := strconv.Atoi(os.Getenv("VERIF_NSHARDS")); err == nil && v > 0 {
		c.NShards = v
	}
	if v, err := strconv.ParseUint(os.Getenv("VERIF_SEED_EFFECTIVE"), 10, 64); err == nil {
		c.Seed = v
	}
	c.OutDir = os.Getenv("VERIF_OUT")
	c.Replay = os.Getenv("VERIF_REPLAY")
	return c
}

func Cfg() Config        { return cfg }
func Thorough() bool     { return cfg.Tier == "thorough" }
func Shard() int         { return cfg.Shard }
func NShards() int       { return cfg.NShards }
func IsReplay() bool     { return cfg.Replay != "" }
func ReplayPath() string { return cfg.Replay }

// Pick returns q in the quick tier and t in the thorough tier.
func Pick(q, t int) int {
	if Thorough() {
		return t
	}
	return q
}

// Mine reports whether item i of a deterministic enumeration belongs to this
// shard.
func Mine(i int) bool { return i%cfg.NShards == cfg.Shard }

// ---------------------------------------------------------------- statistics

type Stats struct {
	Property   string           `json:"property"`
	Check      string           `json:"check"`
	Shard      int              `json:"shard"`
	Evals      int64            `json:"evaluations"`
	NonTrivial int64            `json:"nontrivial_evaluations"`
	EnumNT     int64            `json:"enumerated_distinct_nontrivial"` // distinct by construction
	Hashes     []uint64         `json:"nontrivial_hashes"`              // distinct hashes of hashed cases
	Classes    map[string]int64 `json:"classes"`
	Samples    []any            `json:"samples"`
	Rule       string           `json:"rule"`
	Exhaustive []string         `json:"exhaustive_parts"`
	Notes      []string         `json:"notes"`
	Known      []string         `json:"known_findings_reproduced"`
	RapidRuns  int64            `json:"rapid_property_executions"`

	mu      sync.Mutex
	hashSet map[uint64]struct{}
	sampleN int64
	maxHash int
}

const maxSamples = 12

func newStats(property, check string) *Stats {
	return &Stats{Property: property, Check: check, Shard: cfg.Shard,
		Classes: map[string]int64{}, hashSet: map[uint64]struct{}{}, maxHash: 4_000_000}
}

func Hash(s string) uint64 {
	h := fnv.New64a()
	h.Write([]byte(s))
	return h.Sum64()
}

// ---------------------------------------------------------------- check object

// Check is the per-test-function handle.
type Check struct {
	Property string
	Name     string
	S        *Stats

	lastFail *Violation
	nViol    int
	t        TB
}

// TB is the part of testing.TB the harness needs.
type TB interface {
	Helper()
	Failed() bool
	Fatalf(string, ...any)
	Errorf(string, ...any)
	Logf(string, ...any)
}

type Violation struct {
	Property string `json:"property"`
	Check    string `json:"check"`
	Seed     uint64 `json:"seed"`
	Kind     string `json:"kind"` // "mismatch" | "panic" | "hang" | "fatal"
	Case     any    `json:"case"`
	Expected any    `json:"expected,omitempty"`
	Got      any    `json:"got,omitempty"`
	Note     string `json:"note,omitempty"`
}

var (
	checksMu sync.Mutex
	checks   []*Check
)

// New creates the handle of one check (one Test function) of a property.
func New(t TB, property, name, rule string) *Check {
	c := &Check{Property: property, Name: name, S: newStats(property, name), t: t}
	c.S.Rule = rule
	checksMu.Lock()
	checks = append(checks, c)
	checksMu.Unlock()
	startWatchdog()
	return c
}

// Case counts one evaluated case. key is the canonical text of the case (used
// for distinct counting when nontrivial); classes are histogram labels.
func (c *Check) Case(nontrivial bool, key string, classes ...string) {
	s := c.S
	s.Evals++
	for _, cl := range classes {
		s.Classes[cl]++
	}
	if nontrivial {
		s.NonTrivial++
		if len(s.hashSet) < s.maxHash {
			s.hashSet[Hash(key)] = struct{}{}
		}
	}
}

// CaseEnum counts one case of an enumeration that yields every case once
// (distinct by construction), without hashing.
func (c *Check) CaseEnum(nontrivial bool, classes ...string) {
	s := c.S
	s.Evals++
	for _, cl := range classes {
		s.Classes[cl]++
	}
	if nontrivial {
		s.NonTrivial++
		s.EnumNT++
	}
}

func (c *Check) Class(cl string)           { c.S.Classes[cl]++ }
func (c *Check) ClassN(cl string, n int64) { c.S.Classes[cl] += n }
func (c *Check) Note(n string)             { c.S.Notes = append(c.S.Notes, n) }
func (c *Check) ExhaustivePart(p string)   { c.S.Exhaustive = append(c.S.Exhaustive, p) }
func (c *Check) KnownReproduced(id string) { c.S.Known = append(c.S.Known, id) }

// Sample keeps a few of the non-trivial cases verbatim: the first ones and then
// a deterministic thinning (every 2^k-th) so that late cases are represented.
func (c *Check) Sample(v any) {
	s := c.S
	s.sampleN++
	n := s.sampleN
	if len(s.Samples) < maxSamples/2 {
		s.Samples = append(s.Samples, v)
		return
	}
	if n&(n-1) == 0 { // powers of two
		if len(s.Samples) < maxSamples {
			s.Samples = append(s.Samples, v)
		} else {
			s.Samples[maxSamples/2+int(n)%(maxSamples/2)] = v
		}
	}
}

// Fail records a violation (the last one recorded wins: rapid re-runs the
// shrunk case last) and fails the calling test via fatal.
func (c *Check) Fail(t TB, kind string, cs, expected, got any, note string) {
	t.Helper()
	c.lastFail = &Violation{Property: c.Property, Check: c.Name, Seed: cfg.Seed, Kind: kind,
		Case: cs, Expected: expected, Got: got, Note: note}
	t.Fatalf("VIOLATION %s/%s kind=%s note=%s\ncase=%s\nexpected=%s\ngot=%s", c.Property, c.Name, kind, note,
		compact(cs), compact(expected), compact(got))
}

// Record stores a violation without failing through t (used by enumerators that
// want to stop themselves).
func (c *Check) Record(kind string, cs, expected, got any, note string) {
	c.lastFail = &Violation{Property: c.Property, Check: c.Name, Seed: cfg.Seed, Kind: kind,
		Case: cs, Expected: expected, Got: got, Note: note}
}

func compact(v any) string {
	b, err := json.Marshal(v)
	if err != nil {
		return fmt.Sprintf("%#v", v)
	}
	if len(b) > 2000 {
		b = append(b[:2000], []byte("...")...)
	}
	return string(b)
}

// Finish must be deferred by every check: it writes the statistics file and, if
// a violation was recorded, the violation file picked up by the driver.
func (c *Check) Finish() {
	if c.lastFail != nil {
		c.writeViolation(c.lastFail)
		c.lastFail = nil
	}
	c.flushStats()
}

func (c *Check) writeViolation(v *Violation) {
	c.nViol++
	if cfg.OutDir == "" {
		return
	}
	dir := filepath.Join(cfg.OutDir, "violations")
	os.MkdirAll(dir, 0o755)
	name := fmt.Sprintf("%s-%s-s%d-%d.json", c.Property, c.Name, cfg.Shard, c.nViol)
	b, _ := json.MarshalIndent(v, "", " ")
	os.WriteFile(filepath.Join(dir, name), b, 0o644)
}

func (c *Check) flushStats() {
	if cfg.OutDir == "" {
		return
	}
	s := c.S
	s.Hashes = s.Hashes[:0]
	for h := range s.hashSet {
		s.Hashes = append(s.Hashes, h)
	}
	sort.Slice(s.Hashes, func(i, j int) bool { return s.Hashes[i] < s.Hashes[j] })
	dir := filepath.Join(cfg.OutDir, "stats")
	os.MkdirAll(dir, 0o755)
	b, err := json.Marshal(s)
	if err != nil {
		// samples must be serialisable; fall back to strings
		for i := range s.Samples {
			s.Samples[i] = fmt.Sprintf("%v", s.Samples[i])
		}
		b, _ = json.Marshal(s)
	}
	os.WriteFile(filepath.Join(dir, fmt.Sprintf("%s-%s-s%d.json", c.Property, c.Name, cfg.Shard)), b, 0o644)
}

// ---------------------------------------------------------------- safe calls

// PanicInfo describes a recovered panic.
type PanicInfo struct {
	Value string `json:"value"`
	Stack string `json:"stack"`
}

// Safe runs fn under recover.
func Safe(fn func()) (p *PanicInfo) {
	defer func() {
		if r := recover(); r != nil {
			st := string(debug.Stack())
			if len(st) > 3000 {
				st = st[:3000]
			}
			p = &PanicInfo{Value: fmt.Sprint(r), Stack: st}
		}
	}()
	fn()
	return nil
}

// ---------------------------------------------------------------- heartbeat + watchdog
//
// Guarded calls publish their case in a memory-mapped file before entering the
// library. If the process dies with a fatal runtime error the driver finds the
// case there. A watchdog goroutine notices a call that does not return: same
// call sequence number for hangWall seconds of wall time while the process burned
// at least hangCPU seconds of CPU in that window (so a starved process on a busy
// machine is not mistaken for a hang), or a heap that grew beyond heapLimit
// during a call. It then writes a violation file of kind "hang" and exits the
// process with status 3; the driver confirms and minimises out of process.

const (
	hbSize    = 1 << 16
	heapLimit = 3 << 30
)

var (
	hangWall = 10 * time.Second
	hangCPU  = 5 * time.Second
)

func init() {
	// the out-of-process minimiser uses short limits for its probes
	if v, err := strconv.Atoi(os.Getenv("VERIF_HANG_SECS")); err == nil && v > 0 {
		hangWall = time.Duration(v) * time.Second
		hangCPU = hangWall / 2
	}
}

var (
	hbOnce   sync.Once
	hbMem    []byte
	callSeq  atomic.Uint64
	inCall   atomic.Bool
	curCheck atomic.Pointer[Check]
	curCase  atomic.Pointer[guardCase]
	wdOnce   sync.Once
)

type guardCase struct {
	kind    string // "json" | "raw"
	payload string
}

func hbInit() {
	hbOnce.Do(func() {
		if cfg.OutDir == "" {
			hbMem = make([]byte, hbSize)
			return
		}
		path := filepath.Join(cfg.OutDir, fmt.Sprintf("hb-s%d", cfg.Shard))
		f, err := os.OpenFile(path, os.O_RDWR|os.O_CREATE|os.O_TRUNC, 0o644)
		if err != nil {
			hbMem = make([]byte, hbSize)
			return
		}
		defer f.Close()
		if err := f.Truncate(hbSize); err != nil {
			hbMem = make([]byte, hbSize)
			return
		}
		m, err := syscall.Mmap(int(f.Fd()), 0, hbSize, syscall.PROT_READ|syscall.PROT_WRITE, syscall.MAP_SHARED)
		if err != nil {
			hbMem = make([]byte, hbSize)
			return
		}
		hbMem = m
	})
}

// Guard runs fn (a call into the library) under recover, after publishing the
// case. kind is "json" (payload is the JSON text of the check's case type) or
// "raw" (the case is the string payload itself).
func (c *Check) Guard(kind, payload string, fn func()) *PanicInfo {
	hbInit()
	seq := callSeq.Add(1)
	// record: seq(8) checkLen(2) check kindLen(2) kind payloadLen(4) payload
	b := hbMem
	putU64(b[0:], 0) // invalidate while writing
	off := 8
	off += putStr16(b[off:], c.Property+"/"+c.Name)
	off += putStr16(b[off:], kind)
	p := payload
	if len(p) > hbSize-off-8 {
		p = p[:hbSize-off-8]
	}
	putU32(b[off:], uint32(len(p)))
	copy(b[off+4:], p)
	putU64(b[0:], seq)

	curCheck.Store(c)
	curCase.Store(&guardCase{kind: kind, payload: payload})
	inCall.Store(true)
	pi := Safe(fn)
	inCall.Store(false)
	return pi
}

func putU64(b []byte, v uint64) {
	for i := 0; i < 8; i++ {
		b[i] = byte(v >> (8 * i))
	}
}
func putU32(b []byte, v uint32) {
	for i := 0; i < 4; i++ {
		b[i] = byte(v >> (8 * i))
	}
}
func putStr16(b []byte, s string) int {
	b[0] = byte(len(s))
	b[1] = byte(len(s) >> 8)
	copy(b[2:], s)
	return 2 + len(s)
}

func cpuTime() time.Duration {
	var ru syscall.Rusage
	if err := syscall.Getrusage(syscall.RUSAGE_SELF, &ru); err != nil {
		return 0
	}
	return time.Duration(ru.Utime.Nano() + ru.Stime.Nano())
}

func startWatchdog() {
	wdOnce.Do(func() {
		if os.Getenv("VERIF_NO_WATCHDOG") != "" {
			return
		}
		go func() {
			var lastSeq uint64
			var since time.Time
			var cpu0 time.Duration
			tick, tick0 := 0, 0
			for {
				time.Sleep(250 * time.Millisecond)
				tick++
				if !inCall.Load() {
					lastSeq = 0
					continue
				}
				seq := callSeq.Load()
				if seq != lastSeq {
					lastSeq, since, cpu0, tick0 = seq, time.Now(), cpuTime(), tick
					continue
				}
				runaway := ""
				if time.Since(since) >= hangWall && cpuTime()-cpu0 >= hangCPU {
					runaway = fmt.Sprintf("call did not return: %.1fs wall, %.1fs cpu on one case", time.Since(since).Seconds(), (cpuTime() - cpu0).Seconds())
				} else if wall := time.Since(since); wall >= 3*hangWall && cpuTime()-cpu0 < time.Second &&
					float64(tick-tick0) >= 0.8*float64(wall/(250*time.Millisecond)) {
					// this goroutine has been scheduled all along (the process is not starved), yet the
					// call burns no CPU and does not return: it is blocked (a lock, a channel)
					runaway = fmt.Sprintf("call is blocked: %.1fs wall, %.2fs cpu on one case", wall.Seconds(), (cpuTime() - cpu0).Seconds())
				} else if tick%4 == 0 && time.Since(since) >= time.Second {
					var ms runtime.MemStats
					runtime.ReadMemStats(&ms)
					if ms.HeapAlloc > heapLimit {
						runaway = fmt.Sprintf("heap grew to %d MiB inside one call", ms.HeapAlloc>>20)
					}
				}
				if runaway == "" || callSeq.Load() != seq || !inCall.Load() {
					continue
				}
				c := curCheck.Load()
				gc := curCase.Load()
				var cs any = gc.payload
				if gc.kind == "json" {
					cs = json.RawMessage(gc.payload)
				}
				v := &Violation{Property: c.Property, Check: c.Name, Seed: cfg.Seed, Kind: "hang",
					Case: cs, Note: runaway}
				c.writeViolation(v)
				fmt.Fprintf(os.Stderr, "WATCHDOG %s/%s: %s\n", c.Property, c.Name, runaway)
				os.Exit(3)
			}
		}()
	})
}

// ---------------------------------------------------------------- replay registry

// A Replayer re-executes one case (as stored in a violation's "case" field) and
// returns a non-empty description if the violation reproduces.
type Replayer func(raw json.RawMessage) (failure string)

var replayers = map[string]Replayer{}

// RegisterReplayer registers the replayer of check "Cnn/name".
func RegisterReplayer(checkName string, r Replayer) { replayers[checkName] = r }

func LookupReplayer(checkName string) (Replayer, bool) {
	r, ok := replayers[checkName]
	return r, ok
}

// ReplayFile is the on-disk form (same as Violation, but the case kept raw).
type ReplayFile struct {
	Property string          `json:"property"`
	Check    string          `json:"check"`
	Seed     uint64          `json:"seed"`
	Kind     string          `json:"kind"`
	Case     json.RawMessage `json:"case"`
	Expected json.RawMessage `json:"expected,omitempty"`
	Got      json.RawMessage `json:"got,omitempty"`
	Note     string          `json:"note,omitempty"`
}

func ReadReplay(path string) (*ReplayFile, error) {
	b, err := os.ReadFile(path)
	if err != nil {
		return nil, err
	}
	var r ReplayFile
	if err := json.Unmarshal(b, &r); err != nil {
		return nil, err
	}
	return &r, nil
}

// JSON is a helper for building case payloads.
func JSON(v any) string {
	b, err := json.Marshal(v)
	if err != nil {
		return fmt.Sprintf("%q", fmt.Sprint(v))
	}
	return string(b)
}
