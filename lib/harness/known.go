package harness

import (
	"encoding/json"
	"os"
	"path/filepath"
)

// Finding is one entry of /verif/known_findings.json.
type Finding struct {
	Status   string `json:"status"` // "open" | "fixed"
	Property string `json:"property"`
	ID       string `json:"id"`
	What     string `json:"what"`
	Replay   string `json:"replay"` // path relative to /verif
	Class    string `json:"class,omitempty"`
	Commit   string `json:"commit,omitempty"`
}

// Root is /verif (VERIF_ROOT, or the parent of the checks directory).
func Root() string {
	if r := os.Getenv("VERIF_ROOT"); r != "" {
		return r
	}
	wd, _ := os.Getwd()
	return filepath.Dir(wd)
}

var findings = func() []Finding {
	b, err := os.ReadFile(filepath.Join(Root(), "known_findings.json"))
	if err != nil {
		return nil
	}
	var f struct {
		Findings []Finding `json:"findings"`
	}
	if json.Unmarshal(b, &f) != nil {
		return nil
	}
	return f.Findings
}()

// KnownOpen reports whether an open finding with this exclusion class is listed
// for the property; generators exclude that class by construction while it is.
func KnownOpen(property, class string) bool {
	for _, f := range findings {
		if f.Status == "open" && f.Property == property && f.Class == class {
			return true
		}
	}
	return false
}

// OpenReplays returns the replay paths (relative to Root) of open findings.
func OpenReplays(property string) map[string]bool {
	m := map[string]bool{}
	for _, f := range findings {
		if f.Status == "open" && f.Property == property {
			m[filepath.Clean(f.Replay)] = true
		}
	}
	return m
}
