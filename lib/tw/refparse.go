package tw

import (
	"fmt"
	"strings"
)

// ParseTokens is a small reference parser for expression token lists, written
// from the statement's table (ternary 1 < equality 2 < comparison 3 < additive 4
// < multiplicative 5 < member access 6 < prefix 7 < index 9 < postfix 10; left
// associative; a ternary nests to the right in its else part). It is used to
// check that what the printers write denotes the tree they were given: if not,
// the case is a harness error, never a violation.
func ParseTokens(toks []string) (e *Expr, err error) {
	p := &refParser{toks: toks}
	defer func() {
		if r := recover(); r != nil {
			e, err = nil, fmt.Errorf("%v", r)
		}
	}()
	e = p.expr(0)
	if p.pos != len(p.toks) {
		panic("trailing tokens: " + strings.Join(p.toks[p.pos:], " "))
	}
	return e, nil
}

type refParser struct {
	toks []string
	pos  int
}

func (p *refParser) peek() string {
	if p.pos < len(p.toks) {
		return p.toks[p.pos]
	}
	return ""
}

func (p *refParser) next() string {
	t := p.peek()
	p.pos++
	return t
}

func (p *refParser) expect(t string) {
	if p.next() != t {
		panic("expected " + t)
	}
}

func isWord(t string) bool { return t != "" && wordLike(t[0]) }

func (p *refParser) primary() *Expr {
	t := p.next()
	switch {
	case t == "-" || t == "!":
		k := ENeg
		if t == "!" {
			k = ENot
		}
		return Un(k, p.expr(7))
	case t == "(":
		e := p.expr(0)
		p.expect(")")
		c := *e
		c.Wrap++
		return &c
	case t == "[":
		a := Arr()
		for p.peek() != "]" {
			a.Kids = append(a.Kids, p.expr(0))
			if p.peek() == "," {
				p.next()
			}
		}
		p.next()
		return a
	case t == "{":
		o := Obj(nil, nil)
		for p.peek() != "}" {
			key := p.next()
			if len(key) >= 2 && (key[0] == '"' || key[0] == '\'') {
				key = key[1 : len(key)-1]
			}
			if p.peek() == "," || p.peek() == "}" {
				// shorthand: {name} is {name: name}
				o.Keys = append(o.Keys, key)
				o.Kids = append(o.Kids, Var(key))
				if p.peek() == "," {
					p.next()
				}
				continue
			}
			p.expect(":")
			o.Keys = append(o.Keys, key)
			o.Kids = append(o.Kids, p.expr(0))
			if p.peek() == "," {
				p.next()
			}
		}
		p.next()
		return o
	case t == "true" || t == "false":
		return Bool(t == "true")
	case t == "nil":
		return Nil()
	case t != "" && (t[0] == '"' || t[0] == '\''):
		q := t[:1]
		return &Expr{Kind: EStr, Str: strings.ReplaceAll(t[1:len(t)-1], "\\"+q, q), Quote: q}
	case t != "" && t[0] >= '0' && t[0] <= '9':
		if strings.Contains(t, ".") {
			return &Expr{Kind: EFloat, Text: t}
		}
		return &Expr{Kind: EInt, Text: t}
	case isWord(t):
		return Var(t)
	}
	panic("unexpected token " + t)
}

func (p *refParser) expr(min int) *Expr {
	left := p.primary()
	for {
		t := p.peek()
		switch {
		case OpLevel(t) > 0 && OpLevel(t) > min:
			p.next()
			left = Bin(t, left, p.expr(OpLevel(t)))
		case t == "?" && 1 > min:
			p.next()
			a := p.expr(1)
			p.expect(":")
			b := p.expr(0)
			left = Tern(left, a, b)
		case t == "." && 6 > min:
			p.next()
			name := p.next()
			if p.peek() == "(" {
				p.next()
				c := Call(left, name)
				for p.peek() != ")" {
					c.Kids = append(c.Kids, p.expr(0))
					if p.peek() == "," {
						p.next()
					}
				}
				p.next()
				left = c
			} else {
				left = Dot(left, name)
			}
		case t == "[" && 9 > min:
			p.next()
			i := p.expr(0)
			p.expect("]")
			left = Index(left, i)
		case (t == "++" || t == "--") && 10 > min:
			p.next()
			k := EInc
			if t == "--" {
				k = EDec
			}
			left = Un(k, left)
		default:
			return left
		}
	}
}

// SameTree compares two expression trees ignoring redundant parentheses and
// how literals are spelled (both are compared through their printed tokens).
func SameTree(a, b *Expr) bool {
	if a == nil || b == nil {
		return a == b
	}
	if a.Kind != b.Kind || len(a.Kids) != len(b.Kids) {
		return false
	}
	switch a.Kind {
	case EInt, EFloat:
		if litText(a) != litText(b) {
			return false
		}
	case EStr, EVar, EBin, EDot, ECall:
		if a.Str != b.Str {
			return false
		}
	case EBool:
		if a.Bool != b.Bool {
			return false
		}
	case EObj:
		if strings.Join(a.Keys, ",") != strings.Join(b.Keys, ",") {
			return false
		}
	case ERaw:
		return false
	}
	for i := range a.Kids {
		if !SameTree(a.Kids[i], b.Kids[i]) {
			return false
		}
	}
	return true
}

func litText(e *Expr) string {
	c := *e
	c.Wrap = 0
	return strings.Join(ExprTokens(&c, nil), "")
}

// RoundTrips reports whether the tokens printed for e under layout l parse back
// (by the reference parser) to e.
func RoundTrips(e *Expr, l *Layout) bool {
	back, err := ParseTokens(ExprTokens(e, l))
	return err == nil && SameTree(e, back)
}
