// Package tw is the harness's own template AST (independent of /repo/ast),
// with printers that turn a tree into source text under a chosen layout.
package tw

// Expr kinds.
const (
	EInt   = "int"
	EFloat = "float"
	EStr   = "str"
	EBool  = "bool"
	ENil   = "nil"
	EVar   = "var"
	ENeg   = "neg"   // -x
	ENot   = "not"   // !x
	EInc   = "inc"   // x++
	EDec   = "dec"   // x--
	EBin   = "bin"   // l OP r          (Str = operator)
	ETern  = "tern"  // c ? a : b
	EIndex = "index" // x[i]
	EDot   = "dot"   // x.name          (Str = name)
	ECall  = "call"  // x.f(args...)    (Str = f, Kids[0] = receiver)
	EArr   = "arr"
	EObj   = "obj" // Keys[i]: Kids[i]
	ERaw   = "raw" // verbatim source text (syntactic generators, fault injection)
)

type Expr struct {
	Kind  string   `json:"k"`
	Int   int64    `json:"i,omitempty"`
	Text  string   `json:"t,omitempty"` // literal text of int/float literals as written; raw text
	Float float64  `json:"f,omitempty"`
	Str   string   `json:"s,omitempty"`
	Bool  bool     `json:"b,omitempty"`
	Quote string   `json:"q,omitempty"` // "\"" or "'" for string literals
	Kids  []*Expr  `json:"c,omitempty"`
	Keys  []string `json:"keys,omitempty"`
	Wrap  int      `json:"w,omitempty"` // redundant parentheses around this node
	// KeyStyle (object literals): 0 bare keys, 1 "double-quoted" keys, 2 'single-quoted'
	// keys, 3 shorthand {name} for entries whose value is the variable of that name
	KeyStyle int `json:"ks,omitempty"`
}

func Int(v int64, text string) *Expr     { return &Expr{Kind: EInt, Int: v, Text: text} }
func Float(v float64, text string) *Expr { return &Expr{Kind: EFloat, Float: v, Text: text} }
func Str(s string) *Expr                 { return &Expr{Kind: EStr, Str: s, Quote: "\""} }
func Bool(b bool) *Expr                  { return &Expr{Kind: EBool, Bool: b} }
func Nil() *Expr                         { return &Expr{Kind: ENil} }
func Var(n string) *Expr                 { return &Expr{Kind: EVar, Str: n} }
func Un(kind string, x *Expr) *Expr      { return &Expr{Kind: kind, Kids: []*Expr{x}} }
func Bin(op string, l, r *Expr) *Expr    { return &Expr{Kind: EBin, Str: op, Kids: []*Expr{l, r}} }
func Tern(c, a, b *Expr) *Expr           { return &Expr{Kind: ETern, Kids: []*Expr{c, a, b}} }
func Index(x, i *Expr) *Expr             { return &Expr{Kind: EIndex, Kids: []*Expr{x, i}} }
func Dot(x *Expr, name string) *Expr     { return &Expr{Kind: EDot, Str: name, Kids: []*Expr{x}} }
func Call(x *Expr, fn string, args ...*Expr) *Expr {
	return &Expr{Kind: ECall, Str: fn, Kids: append([]*Expr{x}, args...)}
}
func Arr(el ...*Expr) *Expr { return &Expr{Kind: EArr, Kids: el} }
func Obj(keys []string, vals []*Expr) *Expr {
	return &Expr{Kind: EObj, Keys: keys, Kids: vals}
}
func Raw(text string) *Expr { return &Expr{Kind: ERaw, Text: text} }

// Stmt kinds.
const (
	SText       = "text"
	SPrint      = "print"  // {{ E }}
	SAssign     = "assign" // {{ name = E }}
	SCode       = "code"   // {{ s1; s2; ... }} with Body holding print/assign statements
	SIf         = "if"
	SEach       = "each"
	SFor        = "for"
	SBreak      = "break"
	SContinue   = "continue"
	SBreakIf    = "breakIf"
	SContinueIf = "continueIf"
	SComment    = "comment"
	SDump       = "dump"
	SUse        = "use"
	SReserve    = "reserve"
	SInsert     = "insert" // Name, either E (expression form) or Body (block form, Block=true)
	SComponent  = "component"
	SSlot       = "slot" // placeholder in a component file (no body) or slot passed at a use (inside Component.Slots)
	SRaw        = "raw"  // verbatim source
)

type Branch struct {
	Cond *Expr   `json:"cond"`
	Body []*Stmt `json:"body"`
}

type Stmt struct {
	Kind     string   `json:"k"`
	Text     string   `json:"t,omitempty"`    // text, comment body, raw
	Name     string   `json:"n,omitempty"`    // assign target, each var, for var, use/reserve/insert/component/slot name
	E        *Expr    `json:"e,omitempty"`    // print/assign value, each array, breakIf/continueIf condition, insert argument
	Args     []*Expr  `json:"args,omitempty"` // dump arguments
	Branches []Branch `json:"br,omitempty"`   // if: first is @if, rest @elseif
	Else     []*Stmt  `json:"else,omitempty"`
	HasElse  bool     `json:"has_else,omitempty"`
	Body     []*Stmt  `json:"body,omitempty"`      // each/for body, code statements, insert block
	Block    bool     `json:"block,omitempty"`     // insert: block form
	Init     *Expr    `json:"init,omitempty"`      // for: initial value of Name (nil = absent clause)
	Cond     *Expr    `json:"fcond,omitempty"`     // for: condition (nil = absent)
	Post     *Expr    `json:"post,omitempty"`      // for: post expression (nil = absent)
	PostName string   `json:"post_name,omitempty"` // for: the post clause is the assignment PostName = Post
	Arg      *Expr    `json:"arg,omitempty"`       // component argument (object literal)
	Slots    []*Stmt  `json:"slots,omitempty"`     // component: slots passed (Kind slot, Name, Body)
}

func Text(s string) *Stmt            { return &Stmt{Kind: SText, Text: s} }
func Print(e *Expr) *Stmt            { return &Stmt{Kind: SPrint, E: e} }
func Assign(n string, e *Expr) *Stmt { return &Stmt{Kind: SAssign, Name: n, E: e} }
