package tw

import (
	"strconv"
	"strings"
)

// Layout controls how a tree is written out. Seps is a cyclic list of
// separator choices consumed at each gap between two code tokens; it is drawn
// by the test's generator so that every random choice stays inside rapid.
type Layout struct {
	Full bool    `json:"full,omitempty"` // parenthesise every composite operand
	Seps []uint8 `json:"seps,omitempty"` // nil = single spaces
	pos  int
}

var sepChoices = []string{" ", "", "\n", "  ", "\t", "\r\n", " ", "", "\n ", " "}

func (l *Layout) next(canEmpty bool) string {
	if l == nil || len(l.Seps) == 0 {
		return " "
	}
	s := sepChoices[int(l.Seps[l.pos%len(l.Seps)])%len(sepChoices)]
	l.pos++
	if s == "" && !canEmpty {
		return " "
	}
	return s
}

// Span is a construct's extent in the printed source: a prefix that ends at an
// offset p with OpenEnd <= p < End stops inside the construct.
type Span struct {
	Kind    string `json:"kind"` // braces | comment | header | block
	Start   int    `json:"start"`
	OpenEnd int    `json:"open_end"`
	End     int    `json:"end"`
}

type Printed struct {
	Src   string
	Spans []Span
}

// ---------------------------------------------------------------- expressions

// Level is the binding level of the node's outermost operator.
func Level(e *Expr) int {
	if e.Wrap > 0 {
		return 11
	}
	switch e.Kind {
	case ETern:
		return 1
	case EBin:
		return OpLevel(e.Str)
	case EDot, ECall:
		return 6
	case ENeg, ENot:
		return 7
	case EIndex:
		return 9
	case EInc, EDec:
		return 10
	}
	return 11
}

func OpLevel(op string) int {
	switch op {
	case "==", "!=":
		return 2
	case "<", ">", "<=", ">=":
		return 3
	case "+", "-":
		return 4
	case "*", "/", "%":
		return 5
	}
	return 0
}

// leftSpineMin is the lowest level among the operators that are applied, one
// after the other, to the leftmost atom of e when e is written without
// parentheses around it.
func leftSpineMin(e *Expr) int {
	lv := Level(e)
	if e.Wrap > 0 {
		return lv
	}
	switch e.Kind {
	case EBin, ETern, EIndex, EDot, ECall, EInc, EDec:
		if m := leftSpineMin(e.Kids[0]); m < lv {
			return m
		}
	}
	return lv
}

func isAtom(e *Expr) bool {
	switch e.Kind {
	case EInt, EFloat, EStr, EBool, ENil, EVar, EArr, EObj, ERaw:
		return true
	}
	return e.Wrap > 0
}

type tokList struct {
	toks []string
}

func (t *tokList) add(s ...string) { t.toks = append(t.toks, s...) }

// QuoteStr writes a string literal the way the language reads it: the same
// kind of quote inside is written with a backslash.
func QuoteStr(s, q string) string {
	if q == "" {
		q = "\""
	}
	return q + strings.ReplaceAll(s, q, "\\"+q) + q
}

func (t *tokList) child(e *Expr, need bool, l *Layout) {
	if need || (l != nil && l.Full && !isAtom(e)) {
		t.add("(")
		t.expr(e, l)
		t.add(")")
		return
	}
	t.expr(e, l)
}

func (t *tokList) expr(e *Expr, l *Layout) {
	for i := 0; i < e.Wrap; i++ {
		t.add("(")
	}
	defer func() {
		for i := 0; i < e.Wrap; i++ {
			t.add(")")
		}
	}()
	switch e.Kind {
	case EInt:
		if e.Text != "" {
			t.add(e.Text)
		} else {
			t.add(strconv.FormatInt(e.Int, 10))
		}
	case EFloat:
		if e.Text != "" {
			t.add(e.Text)
		} else {
			t.add(strconv.FormatFloat(e.Float, 'f', -1, 64))
		}
	case EStr:
		t.add(QuoteStr(e.Str, e.Quote))
	case EBool:
		if e.Bool {
			t.add("true")
		} else {
			t.add("false")
		}
	case ENil:
		t.add("nil")
	case EVar:
		t.add(e.Str)
	case ERaw:
		t.add(e.Text)
	case ENeg, ENot:
		op := "-"
		if e.Kind == ENot {
			op = "!"
		}
		t.add(op)
		k := e.Kids[0]
		// a prefix operator takes only what binds tighter than itself: every
		// operator on the operand's left spine must do so (-(a.b++), not -a.b++)
		t.child(k, leftSpineMin(k) < 7, l)
	case EInc, EDec:
		k := e.Kids[0]
		lv := Level(k)
		t.child(k, lv < 6 || lv == 7, l)
		if e.Kind == EInc {
			t.add("++")
		} else {
			t.add("--")
		}
	case EBin:
		L := OpLevel(e.Str)
		t.child(e.Kids[0], Level(e.Kids[0]) < L, l)
		t.add(e.Str)
		t.child(e.Kids[1], Level(e.Kids[1]) <= L, l)
	case ETern:
		t.child(e.Kids[0], Level(e.Kids[0]) < 2, l)
		t.add("?")
		t.child(e.Kids[1], Level(e.Kids[1]) < 2, l)
		t.add(":")
		// the else part may be anything, also in full mode a bare ternary keeps
		// nesting to the right
		t.child(e.Kids[2], false, l)
	case EIndex:
		k := e.Kids[0]
		lv := Level(k)
		t.child(k, lv < 6 || lv == 7, l)
		t.add("[")
		t.expr(e.Kids[1], l)
		t.add("]")
	case EDot:
		k := e.Kids[0]
		t.child(k, Level(k) < 6, l)
		t.add(".", e.Str)
	case ECall:
		k := e.Kids[0]
		t.child(k, Level(k) < 6, l)
		t.add(".", e.Str, "(")
		for i, a := range e.Kids[1:] {
			if i > 0 {
				t.add(",")
			}
			t.expr(a, l)
		}
		t.add(")")
	case EArr:
		t.add("[")
		for i, a := range e.Kids {
			if i > 0 {
				t.add(",")
			}
			t.expr(a, l)
		}
		t.add("]")
	case EObj:
		t.add("{")
		style := e.KeyStyle
		if style == 0 && l != nil && len(l.Seps) > 0 {
			// like whitespace, the spelling of keys varies with the layout
			style = int(l.Seps[len(e.Keys)%len(l.Seps)]) % 4
		}
		for i, a := range e.Kids {
			if i > 0 {
				t.add(",")
			}
			switch {
			case style == 1:
				t.add("\""+e.Keys[i]+"\"", ":")
			case style == 2:
				t.add("'"+e.Keys[i]+"'", ":")
			case style == 3 && a.Kind == EVar && a.Str == e.Keys[i] && a.Wrap == 0:
				t.add(e.Keys[i])
				continue
			default:
				t.add(e.Keys[i], ":")
			}
			t.expr(a, l)
		}
		t.add("}")
	}
}

// ExprTokens returns the token list of e under layout l (parenthesisation only).
func ExprTokens(e *Expr, l *Layout) []string {
	var t tokList
	t.expr(e, l)
	return t.toks
}

func wordLike(c byte) bool {
	return c == '_' || c >= '0' && c <= '9' || c >= 'a' && c <= 'z' || c >= 'A' && c <= 'Z' || c >= 0x80
}

func opChar(c byte) bool { return strings.IndexByte("+-=!<>", c) >= 0 }

// mustSeparate reports whether tokens a and b would lex differently when
// written without whitespace between them.
func mustSeparate(a, b string) bool {
	if a == "" || b == "" {
		return false
	}
	x, y := a[len(a)-1], b[0]
	if wordLike(x) && wordLike(y) {
		return true
	}
	if opChar(x) && opChar(y) {
		return true
	}
	if x == '{' && y == '{' || x == '}' && y == '}' {
		return true
	}
	// "1" "." would start a float when a digit follows the dot; keep "1 ." apart
	// only when needed: digit '.' digit
	if x == '.' && y >= '0' && y <= '9' {
		return true
	}
	if x >= '0' && x <= '9' && y == '.' && false {
		return true
	}
	return false
}

// JoinTokens writes tokens with separators chosen by the layout.
func JoinTokens(toks []string, l *Layout) string {
	var b strings.Builder
	for i, t := range toks {
		if i > 0 {
			b.WriteString(l.next(!mustSeparate(toks[i-1], t)))
		}
		b.WriteString(t)
	}
	return b.String()
}

// ExprString prints an expression under a layout.
func ExprString(e *Expr, l *Layout) string { return JoinTokens(ExprTokens(e, l), l) }

// ---------------------------------------------------------------- statements

type printer struct {
	b     strings.Builder
	l     *Layout
	spans []Span
}

func (p *printer) code(toks []string) {
	p.b.WriteString(JoinTokens(toks, p.l))
}

// pad is the whitespace just inside "{{ }}" and directive parentheses.
func (p *printer) pad(after, before string) string {
	return p.l.next(!mustSeparate(after, before))
}

func (p *printer) braces(toks []string) {
	start := p.b.Len()
	p.b.WriteString("{{")
	first, last := "", ""
	if len(toks) > 0 {
		first, last = toks[0], toks[len(toks)-1]
	}
	// "{{-" followed by "-" would open a comment ("{{-x" is the unary minus glued to
	// the braces and fine); "{{" "{" is fine for the lexer but kept apart for
	// readability of shrunk cases
	s := p.pad("{{", first)
	if s == "" && (strings.HasPrefix(first, "--") || first == "-" && len(toks) > 1 && strings.HasPrefix(toks[1], "-") || strings.HasPrefix(first, "{")) {
		s = " "
	}
	p.b.WriteString(s)
	p.code(toks)
	s = p.pad(last, "}}")
	if s == "" && strings.HasSuffix(last, "}") {
		s = " "
	}
	p.b.WriteString(s)
	p.b.WriteString("}}")
	p.spans = append(p.spans, Span{Kind: "braces", Start: start, OpenEnd: start + 2, End: p.b.Len()})
}

func (p *printer) header(kw string, toks []string) {
	start := p.b.Len()
	p.b.WriteString(kw)
	if kw != "@slot" && p.l != nil && len(p.l.Seps) > 0 && p.l.Seps[len(kw)%len(p.l.Seps)]%3 == 0 {
		// white space between a directive and its "(" is legal ("@slot (" is not a named slot)
		p.b.WriteString(p.l.next(false))
	}
	p.b.WriteString("(")
	first, last := "", ""
	if len(toks) > 0 {
		first, last = toks[0], toks[len(toks)-1]
	}
	p.b.WriteString(p.pad("(", first))
	p.code(toks)
	p.b.WriteString(p.pad(last, ")"))
	p.b.WriteString(")")
	open := start + len(kw)
	if kw == "@slot" {
		open++ // "@slot" alone is complete; only "@slot(" opens an argument list
	}
	p.spans = append(p.spans, Span{Kind: "header", Start: start, OpenEnd: open, End: p.b.Len()})
}

func (p *printer) block(kw string, start int) {
	p.spans = append(p.spans, Span{Kind: "block", Start: start, OpenEnd: start + len(kw), End: p.b.Len()})
}

func stmtCodeTokens(s *Stmt, l *Layout) []string {
	switch s.Kind {
	case SPrint:
		return ExprTokens(s.E, l)
	case SAssign:
		return append([]string{s.Name, "="}, ExprTokens(s.E, l)...)
	}
	return nil
}

func (p *printer) stmts(ss []*Stmt) {
	for _, s := range ss {
		p.stmt(s)
	}
}

func (p *printer) stmt(s *Stmt) {
	switch s.Kind {
	case SText, SRaw:
		p.b.WriteString(s.Text)
	case SPrint, SAssign:
		p.braces(stmtCodeTokens(s, p.l))
	case SCode:
		var toks []string
		for i, c := range s.Body {
			if i > 0 {
				toks = append(toks, ";")
			}
			toks = append(toks, stmtCodeTokens(c, p.l)...)
		}
		p.braces(toks)
	case SComment:
		start := p.b.Len()
		p.b.WriteString("{{--" + s.Text + "--}}")
		p.spans = append(p.spans, Span{Kind: "comment", Start: start, OpenEnd: start + 4, End: p.b.Len()})
	case SIf:
		start := p.b.Len()
		for i, br := range s.Branches {
			kw := "@if"
			if i > 0 {
				kw = "@elseif"
			}
			p.header(kw, ExprTokens(br.Cond, p.l))
			p.stmts(br.Body)
		}
		if s.HasElse {
			p.b.WriteString("@else")
			p.stmts(s.Else)
		}
		p.b.WriteString("@end")
		p.block("@if", start)
	case SEach:
		start := p.b.Len()
		p.header("@each", append([]string{s.Name, "in"}, ExprTokens(s.E, p.l)...))
		p.stmts(s.Body)
		if s.HasElse {
			p.b.WriteString("@else")
			p.stmts(s.Else)
		}
		p.b.WriteString("@end")
		p.block("@each", start)
	case SFor:
		start := p.b.Len()
		var toks []string
		if s.Init != nil {
			toks = append(toks, s.Name, "=")
			toks = append(toks, ExprTokens(s.Init, p.l)...)
		}
		toks = append(toks, ";")
		if s.Cond != nil {
			toks = append(toks, ExprTokens(s.Cond, p.l)...)
		}
		toks = append(toks, ";")
		if s.Post != nil {
			if s.PostName != "" {
				toks = append(toks, s.PostName, "=")
			}
			toks = append(toks, ExprTokens(s.Post, p.l)...)
		}
		p.header("@for", toks)
		p.stmts(s.Body)
		if s.HasElse {
			p.b.WriteString("@else")
			p.stmts(s.Else)
		}
		p.b.WriteString("@end")
		p.block("@for", start)
	case SBreak:
		p.b.WriteString("@break")
	case SContinue:
		p.b.WriteString("@continue")
	case SBreakIf:
		p.header("@breakIf", ExprTokens(s.E, p.l))
	case SContinueIf:
		p.header("@continueIf", ExprTokens(s.E, p.l))
	case SDump:
		var toks []string
		for i, a := range s.Args {
			if i > 0 {
				toks = append(toks, ",")
			}
			toks = append(toks, ExprTokens(a, p.l)...)
		}
		p.header("@dump", toks)
	case SUse:
		p.header("@use", []string{QuoteStr(s.Name, "\"")})
	case SReserve:
		p.header("@reserve", []string{QuoteStr(s.Name, "\"")})
	case SInsert:
		start := p.b.Len()
		if s.Block {
			p.header("@insert", []string{QuoteStr(s.Name, "\"")})
			p.stmts(s.Body)
			p.b.WriteString("@end")
			p.block("@insert", start)
		} else {
			p.header("@insert", append([]string{QuoteStr(s.Name, "\""), ","}, ExprTokens(s.E, p.l)...))
		}
	case SComponent:
		start := p.b.Len()
		toks := []string{QuoteStr(s.Name, "\"")}
		if s.Arg != nil {
			toks = append(toks, ",")
			toks = append(toks, ExprTokens(s.Arg, p.l)...)
		}
		p.header("@component", toks)
		if len(s.Slots) > 0 {
			// up to the first "@slot" keyword the source is a complete slot-less use
			openEnd := 0
			for i, sl := range s.Slots {
				p.b.WriteString(sl.Text) // whitespace before the slot
				if i == 0 {
					openEnd = p.b.Len() + len("@slot")
				}
				if sl.Name == "" {
					p.b.WriteString("@slot")
				} else {
					p.header("@slot", []string{QuoteStr(sl.Name, "\"")})
				}
				p.stmts(sl.Body)
				p.b.WriteString("@end")
			}
			p.b.WriteString(s.Text) // whitespace before the closing @end
			p.b.WriteString("@end")
			p.spans = append(p.spans, Span{Kind: "block", Start: start, OpenEnd: openEnd, End: p.b.Len()})
		}
	case SSlot:
		if s.Name == "" {
			p.b.WriteString("@slot")
		} else {
			p.header("@slot", []string{QuoteStr(s.Name, "\"")})
		}
	}
}

// PrintStmts writes a statement list as template source.
func PrintStmts(ss []*Stmt, l *Layout) *Printed {
	if l != nil {
		l.pos = 0
	}
	p := &printer{l: l}
	p.stmts(ss)
	return &Printed{Src: p.b.String(), Spans: p.spans}
}

// PrintExpr writes "{{ E }}".
func PrintExpr(e *Expr, l *Layout) string {
	return PrintStmts([]*Stmt{Print(e)}, l).Src
}
