// Package spec describes Go data values as serialisable trees. A spec can be
// written to a replay file, built into the actual Go value with reflect
// (including struct types made at run time), turned into the model value the
// template is expected to see, and deep-copied for "data not modified" checks.
package spec

import (
	"fmt"
	"math"
	"reflect"

	"verif/lib/refint"
)

// Type kinds.
const (
	TInt     = "int"
	TInt8    = "int8"
	TInt16   = "int16"
	TInt32   = "int32"
	TInt64   = "int64"
	TUint    = "uint"
	TUint8   = "uint8"
	TUint16  = "uint16"
	TUint32  = "uint32"
	TUint64  = "uint64"
	TFloat32 = "float32"
	TFloat64 = "float64"
	TBool    = "bool"
	TString  = "string"
	TAny     = "any" // interface{}
	TPtr     = "ptr"
	TSlice   = "slice"
	TMap     = "map" // map[string]Elem
	TStruct  = "struct"
	// unsupported kinds
	TChan    = "chan"
	TFunc    = "func"
	TComplex = "complex128"
	TArray   = "array"   // [2]Elem
	TRoleMap = "rolemap" // map[Role]Elem with "type Role string": a string-keyed map like any other (Keys, Items)
	TIntMap  = "intmap"  // map[int]string: keys that are not strings are no property names
	TBoolMap = "boolmap" // map[bool]int
)

var IntKinds = []string{TInt, TInt8, TInt16, TInt32, TInt64, TUint, TUint8, TUint16, TUint32, TUint64}

type Field struct {
	Name string `json:"name"`
	T    *Type  `json:"t"`
}

type Type struct {
	K      string  `json:"k"`
	Elem   *Type   `json:"elem,omitempty"`
	Fields []Field `json:"fields,omitempty"`
	// Fixed names a hand-written struct type (see fixed.go) instead of a
	// reflect.StructOf type; needed for unexported and embedded fields.
	Fixed string `json:"fixed,omitempty"`
}

func T(k string) *Type      { return &Type{K: k} }
func PtrTo(e *Type) *Type   { return &Type{K: TPtr, Elem: e} }
func SliceOf(e *Type) *Type { return &Type{K: TSlice, Elem: e} }
func MapOf(e *Type) *Type   { return &Type{K: TMap, Elem: e} }

// Role is a defined string type used as a map key.
type Role string

// RoleMap makes a map[Role]elem value.
func RoleMap(elem *Type, keys []string, vals []*Value) *Value {
	return &Value{T: &Type{K: TRoleMap, Elem: elem}, Keys: keys, Items: vals}
}
func StructOf(f ...Field) *Type { return &Type{K: TStruct, Fields: f} }

// Value is a value of type T.
type Value struct {
	T      *Type    `json:"t"`
	I      int64    `json:"i,omitempty"`  // integer kinds (unsigned ones within int64)
	F      float64  `json:"f,omitempty"`  // float kinds (float32: already rounded)
	FBits  uint64   `json:"fb,omitempty"` // set for NaN/Inf/-0 so that JSON keeps them
	B      bool     `json:"b,omitempty"`
	S      string   `json:"s,omitempty"`     // string (may hold arbitrary bytes -> see SBytes)
	SBytes []byte   `json:"sb,omitempty"`    // string content when not valid UTF-8
	Nil    bool     `json:"nil,omitempty"`   // nil pointer / nil interface / nil slice / nil map
	Elem   *Value   `json:"elem,omitempty"`  // pointer target, interface content
	Items  []*Value `json:"items,omitempty"` // slice elements, struct field values (in Fields order), map values (Keys order)
	Keys   []string `json:"keys,omitempty"`  // map keys
	// Share: non-nil pointers with the same non-empty Share are one Go pointer
	// within one built value / data map (the first one met defines the target)
	Share string `json:"share,omitempty"`
}

func IntOf(kind string, i int64) *Value { return &Value{T: T(kind), I: i} }
func Float64(f float64) *Value          { return (&Value{T: T(TFloat64)}).setF(f) }
func Float32(f float32) *Value          { return (&Value{T: T(TFloat32)}).setF(float64(f)) }
func Bool(b bool) *Value                { return &Value{T: T(TBool), B: b} }
func String(s string) *Value            { return &Value{T: T(TString), S: s} }
func NilAny() *Value                    { return &Value{T: T(TAny), Nil: true} }
func Any(v *Value) *Value               { return &Value{T: T(TAny), Elem: v} }
func Ptr(v *Value) *Value               { return &Value{T: PtrTo(v.T), Elem: v} }
func NilPtr(t *Type) *Value             { return &Value{T: PtrTo(t), Nil: true} }
func Slice(elem *Type, items ...*Value) *Value {
	return &Value{T: SliceOf(elem), Items: items}
}
func Map(elem *Type, keys []string, vals []*Value) *Value {
	return &Value{T: MapOf(elem), Keys: keys, Items: vals}
}
func Struct(names []string, vals []*Value) *Value {
	t := &Type{K: TStruct}
	for i, n := range names {
		t.Fields = append(t.Fields, Field{Name: n, T: vals[i].T})
	}
	return &Value{T: t, Items: vals}
}
func Unsupported(kind string) *Value { return &Value{T: T(kind)} }

func (v *Value) setF(f float64) *Value {
	v.F = f
	if math.IsNaN(f) || math.IsInf(f, 0) || (f == 0 && math.Signbit(f)) {
		v.FBits = math.Float64bits(f)
		v.F = 0
	}
	return v
}

func (v *Value) Float() float64 {
	if v.FBits != 0 {
		return math.Float64frombits(v.FBits)
	}
	return v.F
}

func (v *Value) Str() string {
	if v.SBytes != nil {
		return string(v.SBytes)
	}
	return v.S
}

// BytesString makes a string value from arbitrary bytes.
func BytesString(b []byte) *Value {
	s := string(b)
	for _, r := range s {
		if r == 0xFFFD {
			return &Value{T: T(TString), SBytes: append([]byte{}, b...)}
		}
	}
	return &Value{T: T(TString), S: s}
}

// ---------------------------------------------------------------- Go types

var (
	anyType = reflect.TypeOf((*any)(nil)).Elem()
)

func GoType(t *Type) reflect.Type {
	switch t.K {
	case TInt:
		return reflect.TypeOf(int(0))
	case TInt8:
		return reflect.TypeOf(int8(0))
	case TInt16:
		return reflect.TypeOf(int16(0))
	case TInt32:
		return reflect.TypeOf(int32(0))
	case TInt64:
		return reflect.TypeOf(int64(0))
	case TUint:
		return reflect.TypeOf(uint(0))
	case TUint8:
		return reflect.TypeOf(uint8(0))
	case TUint16:
		return reflect.TypeOf(uint16(0))
	case TUint32:
		return reflect.TypeOf(uint32(0))
	case TUint64:
		return reflect.TypeOf(uint64(0))
	case TFloat32:
		return reflect.TypeOf(float32(0))
	case TFloat64:
		return reflect.TypeOf(float64(0))
	case TBool:
		return reflect.TypeOf(false)
	case TString:
		return reflect.TypeOf("")
	case TAny:
		return anyType
	case TPtr:
		return reflect.PointerTo(GoType(t.Elem))
	case TSlice:
		return reflect.SliceOf(GoType(t.Elem))
	case TMap:
		return reflect.MapOf(reflect.TypeOf(""), GoType(t.Elem))
	case TStruct:
		if t.Fixed != "" {
			return fixedTypes[t.Fixed].rt
		}
		fs := make([]reflect.StructField, len(t.Fields))
		for i, f := range t.Fields {
			fs[i] = reflect.StructField{Name: f.Name, Type: GoType(f.T)}
		}
		return reflect.StructOf(fs)
	case TChan:
		return reflect.TypeOf((chan int)(nil))
	case TFunc:
		return reflect.TypeOf((func())(nil))
	case TComplex:
		return reflect.TypeOf(complex128(0))
	case TRoleMap:
		return reflect.MapOf(reflect.TypeOf(Role("")), GoType(t.Elem))
	case TIntMap:
		return reflect.TypeOf(map[int]string(nil))
	case TBoolMap:
		return reflect.TypeOf(map[bool]int(nil))
	case TArray:
		e := t.Elem
		if e == nil {
			e = T(TInt)
		}
		return reflect.ArrayOf(2, GoType(e))
	}
	panic("spec: unknown type kind " + t.K)
}

// Build makes the Go value.
func Build(v *Value) reflect.Value { return (&builder{}).build(v) }

type builder struct{ shared map[string]reflect.Value }

func (b *builder) build(v *Value) reflect.Value {
	rt := GoType(v.T)
	rv := reflect.New(rt).Elem()
	switch v.T.K {
	case TInt, TInt8, TInt16, TInt32, TInt64:
		rv.SetInt(v.I)
	case TUint, TUint8, TUint16, TUint32, TUint64:
		rv.SetUint(uint64(v.I))
	case TFloat32, TFloat64:
		rv.SetFloat(v.Float())
	case TBool:
		rv.SetBool(v.B)
	case TString:
		rv.SetString(v.Str())
	case TAny:
		if !v.Nil && v.Elem != nil {
			rv.Set(b.build(v.Elem))
		}
	case TPtr:
		if !v.Nil {
			if v.Share != "" {
				if p, ok := b.shared[v.Share]; ok && p.Type() == rt {
					rv.Set(p)
					break
				}
			}
			p := reflect.New(rt.Elem())
			p.Elem().Set(b.build(v.Elem))
			rv.Set(p)
			if v.Share != "" {
				if b.shared == nil {
					b.shared = map[string]reflect.Value{}
				}
				b.shared[v.Share] = p
			}
		}
	case TSlice:
		if !v.Nil {
			s := reflect.MakeSlice(rt, len(v.Items), len(v.Items))
			for i, it := range v.Items {
				s.Index(i).Set(b.build(it))
			}
			rv.Set(s)
		}
	case TMap:
		if !v.Nil {
			m := reflect.MakeMapWithSize(rt, len(v.Keys))
			for i, k := range v.Keys {
				m.SetMapIndex(reflect.ValueOf(k), b.build(v.Items[i]))
			}
			rv.Set(m)
		}
	case TRoleMap:
		if !v.Nil {
			m := reflect.MakeMapWithSize(rt, len(v.Keys))
			for i, k := range v.Keys {
				m.SetMapIndex(reflect.ValueOf(Role(k)), b.build(v.Items[i]))
			}
			rv.Set(m)
		}
	case TStruct:
		if v.T.Fixed != "" {
			return fixedTypes[v.T.Fixed].build(v)
		}
		for i, it := range v.Items {
			rv.Field(i).Set(b.build(it))
		}
	case TChan:
		rv.Set(reflect.ValueOf(make(chan int)))
	case TFunc:
		rv.Set(reflect.ValueOf(func() {}))
	case TComplex:
		rv.SetComplex(complex(1, 2))
	case TIntMap:
		rv.Set(reflect.ValueOf(map[int]string{1: "a", 2: "b", 3: "c"}))
	case TBoolMap:
		rv.Set(reflect.ValueOf(map[bool]int{true: 1, false: 0}))
	case TArray:
	}
	return rv
}

// BuildAny returns the Go value as an interface (nil for a nil interface).
func BuildAny(v *Value) any { return (&builder{}).buildAny(v) }

func (b *builder) buildAny(v *Value) any {
	if v.T.K == TAny && (v.Nil || v.Elem == nil) {
		return nil
	}
	return b.build(v).Interface()
}

// Data is a data map in spec form (ordered by Keys for determinism).
type Data struct {
	Keys []string `json:"keys,omitempty"`
	Vals []*Value `json:"vals,omitempty"`
}

func (d *Data) Add(k string, v *Value) *Data {
	for i, kk := range d.Keys {
		if kk == k {
			d.Vals[i] = v
			return d
		}
	}
	d.Keys = append(d.Keys, k)
	d.Vals = append(d.Vals, v)
	return d
}

func (d *Data) Get(k string) *Value {
	if d == nil {
		return nil
	}
	for i, kk := range d.Keys {
		if kk == k {
			return d.Vals[i]
		}
	}
	return nil
}

// GoMap builds the map[string]any passed to the library (nil when d is nil).
func (d *Data) GoMap() map[string]any {
	if d == nil {
		return nil
	}
	m := make(map[string]any, len(d.Keys))
	b := &builder{}
	for i, k := range d.Keys {
		m[k] = b.buildAny(d.Vals[i])
	}
	return m
}

// Model returns the values the template is expected to see. ok is false when a
// value of an unsupported kind occurs anywhere (the call must then fail).
func (d *Data) Model() (m map[string]refint.Value, ok bool) {
	m = map[string]refint.Value{}
	ok = true
	if d == nil {
		return m, true
	}
	for i, k := range d.Keys {
		v, o := Model(d.Vals[i])
		if !o {
			ok = false
		}
		m[k] = v
	}
	return m, ok
}

// Model is the template-level value of v; ok=false if an unsupported kind
// occurs at any depth.
func Model(v *Value) (refint.Value, bool) {
	switch v.T.K {
	case TInt, TInt8, TInt16, TInt32, TInt64, TUint, TUint8, TUint16, TUint32, TUint64:
		return refint.IntV(v.I), true
	case TFloat32, TFloat64:
		return refint.FloatV(v.Float()), true
	case TBool:
		return refint.BoolV(v.B), true
	case TString:
		return refint.StrV(v.Str()), true
	case TAny, TPtr:
		if v.Nil || v.Elem == nil {
			return refint.NilV(), true
		}
		return Model(v.Elem)
	case TSlice:
		ok := true
		arr := make([]refint.Value, len(v.Items))
		for i, it := range v.Items {
			m, o := Model(it)
			ok = ok && o
			arr[i] = m
		}
		return refint.ArrV(arr), ok
	case TMap, TRoleMap:
		ok := true
		m := map[string]refint.Value{}
		for i, k := range v.Keys {
			mv, o := Model(v.Items[i])
			ok = ok && o
			m[k] = mv
		}
		return refint.ObjV(m), ok
	case TStruct:
		if v.T.Fixed != "" {
			return fixedTypes[v.T.Fixed].model(v)
		}
		ok := true
		m := map[string]refint.Value{}
		for i, f := range v.T.Fields {
			mv, o := Model(v.Items[i])
			ok = ok && o
			m[f.Name] = mv
		}
		o := refint.ObjV(m)
		o.Struct = true
		return o, ok
	}
	return refint.NilV(), false
}

// Describe is a short human-readable form used in samples.
func Describe(v *Value) string {
	switch v.T.K {
	case TAny:
		if v.Nil || v.Elem == nil {
			return "any(nil)"
		}
		return "any(" + Describe(v.Elem) + ")"
	case TPtr:
		if v.Nil {
			return "(*" + v.T.Elem.K + ")(nil)"
		}
		return "&" + Describe(v.Elem)
	case TSlice:
		s := "[]" + v.T.Elem.K + "{"
		for i, it := range v.Items {
			if i > 0 {
				s += ", "
			}
			s += Describe(it)
		}
		return s + "}"
	case TMap, TRoleMap:
		s := "map[string]" + v.T.Elem.K + "{"
		for i, k := range v.Keys {
			if i > 0 {
				s += ", "
			}
			s += fmt.Sprintf("%q: %s", k, Describe(v.Items[i]))
		}
		return s + "}"
	case TStruct:
		s := "struct{"
		for i, f := range v.T.Fields {
			if i > 0 {
				s += ", "
			}
			if i < len(v.Items) {
				s += f.Name + ": " + Describe(v.Items[i])
			}
		}
		return s + "}"
	case TString:
		return fmt.Sprintf("%q", v.Str())
	case TBool:
		return fmt.Sprint(v.B)
	case TFloat32, TFloat64:
		return fmt.Sprintf("%s(%v)", v.T.K, v.Float())
	case TChan, TFunc, TComplex, TArray, TIntMap, TBoolMap:
		return "<" + v.T.K + ">"
	}
	return fmt.Sprintf("%s(%d)", v.T.K, v.I)
}
