package spec

import (
	"reflect"

	"verif/lib/refint"
)

// Hand-written struct types for what reflect.StructOf cannot make: unexported
// fields and embedded structs. A Value of such a type carries in Items the
// values of the settable exported fields, in the order listed in fixedTypes.

type WithHidden struct {
	Name   string
	secret int
	Age    int
	hidden string
}

type Inner struct {
	Title string
	N     int
}

type Embeds struct {
	Inner
	Count int
}

type PtrFields struct {
	P  *int
	S  *string
	In *Inner
	A  any
}

type fixedType struct {
	rt     reflect.Type
	fields []string // exported fields set from Items
	build  func(v *Value) reflect.Value
	model  func(v *Value) (refint.Value, bool)
	// Unexported lists field names that must not be reachable
	unexported []string
}

var fixedTypes = map[string]*fixedType{}

func init() {
	reg := func(name string, sample any, fields []string, unexported []string) {
		rt := reflect.TypeOf(sample)
		ft := &fixedType{rt: rt, fields: fields, unexported: unexported}
		ft.build = func(v *Value) reflect.Value {
			rv := reflect.New(rt).Elem()
			for i, f := range fields {
				if i < len(v.Items) {
					rv.FieldByName(f).Set(Build(v.Items[i]))
				}
			}
			return rv
		}
		ft.model = func(v *Value) (refint.Value, bool) {
			ok := true
			m := map[string]refint.Value{}
			for i, f := range fields {
				if i < len(v.Items) {
					mv, o := Model(v.Items[i])
					ok = ok && o
					m[f] = mv
				}
			}
			o := refint.ObjV(m)
			o.Struct = true
			return o, ok
		}
		fixedTypes[name] = ft
	}
	reg("WithHidden", WithHidden{}, []string{"Name", "Age"}, []string{"secret", "hidden"})
	reg("Inner", Inner{}, []string{"Title", "N"}, nil)
	reg("Embeds", Embeds{}, []string{"Inner", "Count"}, nil)
	reg("PtrFields", PtrFields{}, []string{"P", "S", "In", "A"}, nil)
}

// FixedType returns the Type descriptor of a hand-written struct.
func FixedType(name string) *Type { return &Type{K: TStruct, Fixed: name} }

// FixedFields lists the settable exported fields and the unexported ones.
func FixedFields(name string) (exported, unexported []string) {
	ft := fixedTypes[name]
	return ft.fields, ft.unexported
}

// FixedFieldType is the Type of an exported field of a fixed struct.
func FixedFieldType(name, field string) *Type {
	switch name + "." + field {
	case "WithHidden.Name", "Inner.Title":
		return T(TString)
	case "WithHidden.Age", "Inner.N", "Embeds.Count":
		return T(TInt)
	case "Embeds.Inner":
		return FixedType("Inner")
	case "PtrFields.P":
		return PtrTo(T(TInt))
	case "PtrFields.S":
		return PtrTo(T(TString))
	case "PtrFields.In":
		return PtrTo(FixedType("Inner"))
	case "PtrFields.A":
		return T(TAny)
	}
	return nil
}
