package spec

import (
	"reflect"

	"verif/lib/refint"
)

// Hand-written struct types for what reflect.StructOf cannot make: unexported
// fields and embedded structs. A Value of such a type carries in Items the
// values of the settable exported fields, in the order listed in fixedTypes.

type WithHidden struct {
	Name   string
	secret int
	Age    int
	hidden string
}

type Inner struct {
	Title string
	N     int
}

type Embeds struct {
	Inner
	Count int
}

type PtrFields struct {
	P  *int
	S  *string
	In *Inner
	A  any
}

// EmbedsPtr embeds a pointer to a struct (nil or not): an exported field named Inner.
type EmbedsPtr struct {
	*Inner
	Label string
}

// personTypeA and personTypeB are two different struct types that print the
// same ("spec.Person"): types declared inside functions may share a name.
func personTypeA() reflect.Type {
	type Person struct {
		Name string
		Age  int
	}
	return reflect.TypeOf(Person{})
}

func personTypeB() reflect.Type {
	type Person struct {
		Age   int
		Name  string
		Email string
	}
	return reflect.TypeOf(Person{})
}

// Money is a struct type that also knows how to print itself (a value-receiver
// String method): data like any other struct.
type Money struct {
	Amount   int64
	Currency string
}

func (m Money) String() string { return "MONEY-AS-TEXT" }

// Stamp has a pointer-receiver String method and an error-like sibling.
type Stamp struct {
	Unix int64
	Zone string
}

func (s *Stamp) String() string { return "STAMP-AS-TEXT" }
func (s Stamp) Error() string   { return "STAMP-AS-ERROR" }

// Shadowed declares a field before embedding a struct that has a field of the same
// name: as in Go, the outer field is the one its name reaches.
type Audit struct {
	Name string
	Rev  int
}

type Shadowed struct {
	Name string
	Audit
	Count int
}

type fixedType struct {
	rt     reflect.Type
	fields []string // exported fields set from Items
	build  func(v *Value) reflect.Value
	model  func(v *Value) (refint.Value, bool)
	// Unexported lists field names that must not be reachable
	unexported []string
}

var fixedTypes = map[string]*fixedType{}

func init() {
	regT := func(name string, rt reflect.Type, fields []string, unexported []string) {
		ft := &fixedType{rt: rt, fields: fields, unexported: unexported}
		ft.build = func(v *Value) reflect.Value {
			rv := reflect.New(rt).Elem()
			for i, f := range fields {
				if i < len(v.Items) {
					rv.FieldByName(f).Set(Build(v.Items[i]))
				}
			}
			return rv
		}
		ft.model = func(v *Value) (refint.Value, bool) {
			ok := true
			m := map[string]refint.Value{}
			for i, f := range fields {
				if i < len(v.Items) {
					mv, o := Model(v.Items[i])
					ok = ok && o
					m[f] = mv
				}
			}
			o := refint.ObjV(m)
			o.Struct = true
			return o, ok
		}
		fixedTypes[name] = ft
	}
	reg := func(name string, sample any, fields []string, unexported []string) {
		regT(name, reflect.TypeOf(sample), fields, unexported)
	}
	reg("EmbedsPtr", EmbedsPtr{}, []string{"Inner", "Label"}, nil)
	reg("Money", Money{}, []string{"Amount", "Currency"}, nil)
	reg("Audit", Audit{}, []string{"Name", "Rev"}, nil)
	reg("Shadowed", Shadowed{}, []string{"Name", "Audit", "Count"}, nil)
	reg("Stamp", Stamp{}, []string{"Unix", "Zone"}, nil)
	regT("PersonA", personTypeA(), []string{"Name", "Age"}, nil)
	regT("PersonB", personTypeB(), []string{"Age", "Name", "Email"}, nil)
	reg("WithHidden", WithHidden{}, []string{"Name", "Age"}, []string{"secret", "hidden"})
	reg("Inner", Inner{}, []string{"Title", "N"}, nil)
	reg("Embeds", Embeds{}, []string{"Inner", "Count"}, nil)
	reg("PtrFields", PtrFields{}, []string{"P", "S", "In", "A"}, nil)
}

// FixedType returns the Type descriptor of a hand-written struct.
func FixedType(name string) *Type { return &Type{K: TStruct, Fixed: name} }

// FixedFields lists the settable exported fields and the unexported ones.
func FixedFields(name string) (exported, unexported []string) {
	ft := fixedTypes[name]
	return ft.fields, ft.unexported
}

// FixedFieldType is the Type of an exported field of a fixed struct.
func FixedFieldType(name, field string) *Type {
	switch name + "." + field {
	case "Audit.Name", "Shadowed.Name":
		return T(TString)
	case "Audit.Rev", "Shadowed.Count":
		return T(TInt)
	case "Shadowed.Audit":
		return FixedType("Audit")
	case "Money.Amount", "Stamp.Unix":
		return T(TInt64)
	case "Money.Currency", "Stamp.Zone":
		return T(TString)
	case "WithHidden.Name", "Inner.Title", "EmbedsPtr.Label", "PersonA.Name", "PersonB.Name", "PersonB.Email":
		return T(TString)
	case "WithHidden.Age", "Inner.N", "Embeds.Count", "PersonA.Age", "PersonB.Age":
		return T(TInt)
	case "EmbedsPtr.Inner":
		return PtrTo(FixedType("Inner"))
	case "Embeds.Inner":
		return FixedType("Inner")
	case "PtrFields.P":
		return PtrTo(T(TInt))
	case "PtrFields.S":
		return PtrTo(T(TString))
	case "PtrFields.In":
		return PtrTo(FixedType("Inner"))
	case "PtrFields.A":
		return T(TAny)
	}
	return nil
}
