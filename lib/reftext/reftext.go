// Package reftext is an independent reference for the text level of a Textwire
// template, written from the property statements (C05, C13, C19), not from the
// lexer: where interpreted constructs start in a text run, what an escape
// removes, and the offset <-> (line, column) index of a source string.
package reftext

import (
	"sort"
	"strings"
)

// Directives is the language's directive keyword list (from the documentation).
var Directives = []string{
	"@if", "@elseif", "@else", "@end", "@use", "@reserve", "@insert", "@for", "@each",
	"@continueIf", "@continue", "@breakIf", "@break", "@component", "@slot", "@dump",
}

var dirsLongestFirst = func() []string {
	d := append([]string(nil), Directives...)
	sort.Slice(d, func(i, j int) bool { return len(d[i]) > len(d[j]) })
	return d
}()

// Construct is something a text run would have interpreted at Pos.
type Construct struct {
	Pos     int    // offset of "{{" or of "@"
	Kind    string // "{{" or the directive keyword (longest match)
	Escaped bool   // a backslash stands immediately before Pos
}

// KeywordAt returns the longest directive keyword that s[i:] starts with, or "".
func KeywordAt(s string, i int) string {
	if i >= len(s) || s[i] != '@' {
		return ""
	}
	for _, d := range dirsLongestFirst {
		if strings.HasPrefix(s[i:], d) {
			return d
		}
	}
	return ""
}

// Scan lists every "{{" and every '@'+keyword of s, treating all of s as text.
func Scan(s string) []Construct {
	var out []Construct
	for i := 0; i < len(s); i++ {
		esc := i > 0 && s[i-1] == '\\'
		if s[i] == '{' && i+1 < len(s) && s[i+1] == '{' {
			out = append(out, Construct{Pos: i, Kind: "{{", Escaped: esc})
			continue
		}
		if kw := KeywordAt(s, i); kw != "" {
			out = append(out, Construct{Pos: i, Kind: kw, Escaped: esc})
		}
	}
	return out
}

// Class of a text with respect to C05.
type Class int

const (
	Plain       Class = iota // no "{{", no '@'+keyword: renders to itself
	AllEscaped               // every construct escaped, unambiguously
	Interpreted              // at least one unescaped construct
	Ambiguous                // escaped constructs overlap something the statement does not settle
)

// Classify says which C05 clause applies to s as a whole template and, for
// Plain and AllEscaped, what the rendering must be.
func Classify(s string) (Class, string) {
	cs := Scan(s)
	if len(cs) == 0 {
		return Plain, s
	}
	for _, c := range cs {
		if !c.Escaped {
			// an unescaped "{{" that directly follows an escaped "{{" ("\{{{") is
			// the overlap the statement leaves open
			if c.Kind == "{{" && c.Pos >= 2 && s[c.Pos-1] == '{' && s[c.Pos-2] == '\\' {
				return Ambiguous, ""
			}
			return Interpreted, ""
		}
	}
	// all escaped: drop the backslash before each construct
	var b strings.Builder
	drop := map[int]bool{}
	for _, c := range cs {
		drop[c.Pos-1] = true
	}
	for i := 0; i < len(s); i++ {
		if !drop[i] {
			b.WriteByte(s[i])
		}
	}
	return AllEscaped, b.String()
}

// ---------------------------------------------------------------- positions

// Index maps byte offsets to zero-based (line, byte column): a line ends with
// '\n'; the '\n' itself is the last column of its line.
type Index struct {
	lineStart []int
	n         int
}

func NewIndex(s string) *Index {
	ix := &Index{lineStart: []int{0}, n: len(s)}
	for i := 0; i < len(s); i++ {
		if s[i] == '\n' {
			ix.lineStart = append(ix.lineStart, i+1)
		}
	}
	return ix
}

// LineCol of offset off (0 <= off <= len).
func (ix *Index) LineCol(off int) (line, col int) {
	l := sort.Search(len(ix.lineStart), func(i int) bool { return ix.lineStart[i] > off }) - 1
	return l, off - ix.lineStart[l]
}

// Offset of (line, col), or -1 if there is no such byte (col beyond the line or
// line beyond the text). The position just past the last byte is valid.
func (ix *Index) Offset(line, col int) int {
	if line < 0 || line >= len(ix.lineStart) || col < 0 {
		return -1
	}
	off := ix.lineStart[line] + col
	end := ix.n
	if line+1 < len(ix.lineStart) {
		end = ix.lineStart[line+1] - 1
	}
	if off > end {
		return -1
	}
	return off
}

func (ix *Index) Lines() int { return len(ix.lineStart) }
