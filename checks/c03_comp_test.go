package checks

import (
	"fmt"
	"testing"

	"verif/lib/harness"
	"verif/lib/refint"
	"verif/lib/tw"
)

func init() { registerTreeReplayer("C03/bodies-with-components") }

// TestC03_BodiesWithComponents: a loop body runs once per element also when
// what it holds is a component use - the use is rendered anew in every pass,
// with that pass's loop variable and loop.* visible in the component file and
// in the slot body.
func TestC03_BodiesWithComponents(t *testing.T) {
	c := harness.New(t, "C03", "bodies-with-components",
		"template directories whose page is a loop (@each over a literal array of 0..3 elements, @each over a data-free nested pair of loops, @for with 0..3 passes) with a component use in its body: without arguments and slots, with an empty argument object, with the loop variable as argument, with a slot body that prints the loop variable; the component file reads the caller's loop variable, loop.index / loop.first / loop.last (in @each), its argument, and its placeholder; with @breakIf / @continueIf on the pass before or after the use, and the use under an @if on the pass, and in the @else of an empty loop. Expected rendering from the reference interpreter (the component's block encloses the caller's names). Exhaustive. Non-trivial: >= 2 passes. Distinct by construction.")
	defer c.Finish()
	in := interp()
	arrOf := func(n int) *tw.Expr {
		el := make([]*tw.Expr, n)
		for i := range el {
			el[i] = intLit(int64(10 + i))
		}
		return tw.Arr(el...)
	}
	type useForm struct {
		name string
		mk   func(v string) *tw.Stmt
	}
	uses := []useForm{
		{"bare", func(v string) *tw.Stmt { return &tw.Stmt{Kind: tw.SComponent, Name: "row"} }},
		{"empty-arg", func(v string) *tw.Stmt { return &tw.Stmt{Kind: tw.SComponent, Name: "row", Arg: tw.Obj(nil, nil)} }},
		{"arg", func(v string) *tw.Stmt {
			return &tw.Stmt{Kind: tw.SComponent, Name: "row", Arg: tw.Obj([]string{"x"}, []*tw.Expr{tw.Var(v)})}
		}},
		{"slot", func(v string) *tw.Stmt {
			return &tw.Stmt{Kind: tw.SComponent, Name: "row", Text: "\n", Slots: []*tw.Stmt{{Kind: tw.SSlot, Name: "", Text: "\n", Body: []*tw.Stmt{tw.Text("s"), tw.Print(tw.Var(v))}}}}
		}},
	}
	type fileForm struct {
		name     string
		body     func(v string) []*tw.Stmt
		needArg  bool
		needEach bool
	}
	files := []fileForm{
		{"reads-loop-variable", func(v string) []*tw.Stmt { return []*tw.Stmt{tw.Text("<"), tw.Print(tw.Var(v)), tw.Text(">")} }, false, false},
		{"reads-loop-index", func(v string) []*tw.Stmt {
			return []*tw.Stmt{tw.Text("<"), tw.Print(loopDot("index")), tw.Print(loopDot("first")), tw.Print(loopDot("last")), tw.Text(">")}
		}, false, true},
		{"reads-argument", func(v string) []*tw.Stmt { return []*tw.Stmt{tw.Text("<"), tw.Print(tw.Var("x")), tw.Text(">")} }, true, false},
		{"placeholder", func(v string) []*tw.Stmt {
			return []*tw.Stmt{tw.Text("<"), {Kind: tw.SSlot, Name: ""}, tw.Text("|"), tw.Print(tw.Var(v)), tw.Text(">")}
		}, false, false},
		{"constant", func(v string) []*tw.Stmt { return []*tw.Stmt{tw.Text("<k>")} }, false, false},
	}
	around := []struct {
		name string
		wrap func(use *tw.Stmt, v string, each bool) []*tw.Stmt
	}{
		{"plain", func(u *tw.Stmt, v string, each bool) []*tw.Stmt { return []*tw.Stmt{u, tw.Text(";")} }},
		{"twice", func(u *tw.Stmt, v string, each bool) []*tw.Stmt {
			u2 := *u
			return []*tw.Stmt{u, tw.Text(";"), &u2, tw.Text(";")}
		}},
		{"continueIf-before", func(u *tw.Stmt, v string, each bool) []*tw.Stmt {
			return []*tw.Stmt{{Kind: tw.SContinueIf, E: tw.Bin("==", tw.Var(v), intLit(10))}, u, tw.Text(";")}
		}},
		{"breakIf-after", func(u *tw.Stmt, v string, each bool) []*tw.Stmt {
			return []*tw.Stmt{u, tw.Text(";"), {Kind: tw.SBreakIf, E: tw.Bin("==", tw.Var(v), intLit(11))}, tw.Text("-")}
		}},
		{"under-if", func(u *tw.Stmt, v string, each bool) []*tw.Stmt {
			return []*tw.Stmt{{Kind: tw.SIf, Branches: []tw.Branch{{Cond: tw.Bin("!=", tw.Var(v), intLit(11)), Body: []*tw.Stmt{u, tw.Text(";")}}}, HasElse: true, Else: []*tw.Stmt{tw.Text("skip")}}}
		}},
	}
	idx := 0
	for n := 0; n <= 3; n++ {
		for _, shape := range []string{"each", "for", "each-in-each", "each-else"} {
			for _, u := range uses {
				for _, f := range files {
					for _, ar := range around {
						if f.needArg && u.name != "arg" {
							continue
						}
						each := shape != "for"
						if f.needEach && !each {
							continue
						}
						idx++
						if !harness.Mine(idx) {
							continue
						}
						v := "v"
						body := append([]*tw.Stmt{tw.Text("[")}, ar.wrap(u.mk(v), v, each)...)
						body = append(body, tw.Text("]"))
						var page []*tw.Stmt
						switch shape {
						case "each":
							page = []*tw.Stmt{{Kind: tw.SEach, Name: v, E: arrOf(n), Body: body}}
						case "for":
							page = []*tw.Stmt{{Kind: tw.SFor, Name: v, Init: intLit(10), Cond: tw.Bin("<", tw.Var(v), intLit(int64(10+n))), Post: tw.Un(tw.EInc, tw.Var(v)), Body: body}}
						case "each-in-each":
							page = []*tw.Stmt{{Kind: tw.SEach, Name: "o", E: tw.Arr(intLit(1), intLit(2)), Body: []*tw.Stmt{tw.Text("{"), {Kind: tw.SEach, Name: v, E: arrOf(n), Body: body}, tw.Text("}")}}}
						case "each-else":
							// the use stands in the @else of an inner loop that has nothing to iterate, inside an outer loop over v
							page = []*tw.Stmt{{Kind: tw.SEach, Name: v, E: arrOf(n), Body: []*tw.Stmt{{Kind: tw.SEach, Name: "e", E: tw.Arr(), Body: []*tw.Stmt{tw.Text("never")}, HasElse: true, Else: body}}}}
						}
						tree := refint.Files{"page": page, "row": f.body(v)}
						if le := refint.Validate(tree); le != nil {
							c.Class("harness:generated-tree-invalid:" + le.Why)
							continue
						}
						out, _ := in.RenderPage(tree, "page", nil)
						cs := treeCase{Files: printFiles(tree, nil), Dir: "t", Ext: ".tw", Page: "page", Want: wantFromOut(out), Note: fmt.Sprintf("%s n=%d use=%s file=%s %s", shape, n, u.name, f.name, ar.name)}
						nt := n >= 2
						c.CaseEnum(nt, "shape:"+shape, "use:"+u.name, "file:"+f.name, "outcome:"+out.St.String())
						if nt && idx%37 == 0 {
							c.Sample(cs.sample())
						}
						if r, fl := runTreeCase(c, cs); fl != "" {
							c.Fail(t, kindOf(fl), cs, cs.Want, r, fl)
						}
					}
				}
			}
		}
	}
	c.ExhaustivePart("0..3 passes x 4 loop shapes x 4 use forms x 5 component files x 5 surroundings")
}
