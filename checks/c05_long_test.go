package checks

import (
	"encoding/json"
	"fmt"
	"strings"
	"testing"

	"verif/lib/harness"
)

// C05/long-runs: text is emitted byte for byte, and an escape loses exactly its
// backslash, wherever it stands in a text run of any length: escaped {{ , an
// escaped directive and an escaped comment opener are placed at every offset
// around 1 KiB, 2 KiB, ... 128 KiB of a run, in runs with one escape and with
// an escape every few bytes.

// longRunCase describes a run compactly (the source itself may be hundreds of KiB).
type longRunCase struct {
	N         int `json:"backslash_at_byte,omitempty"` // 1-based position of the escape's backslash in the run
	Construct int `json:"construct"`
	Filler    int `json:"filler"`
	Stride    int `json:"stride,omitempty"` // dense run: an escape after every Stride-1 bytes
}

var longRunConstructs = [][2]string{{"\\{{ x }}", "{{ x }}"}, {"\\@if(y)", "@if(y)"}, {"\\{{-- c --}}", "{{-- c --}}"}, {"\\@end", "@end"}}
var longRunFillers = []string{"a", "é", "line\r\n"}

func (lc longRunCase) build() (src, want string) {
	if lc.Stride > 0 {
		unit := strings.Repeat("b", lc.Stride-1)
		var s, w strings.Builder
		for i := 0; i < 35000/lc.Stride; i++ {
			s.WriteString(unit + "\\{{c}}")
			w.WriteString(unit + "{{c}}")
		}
		return s.String(), w.String()
	}
	fill, cst := longRunFillers[lc.Filler%len(longRunFillers)], longRunConstructs[lc.Construct%len(longRunConstructs)]
	reps := (lc.N - 1) / len(fill)
	pre := strings.Repeat(fill, reps) + strings.Repeat("z", lc.N-1-reps*len(fill))
	return pre + cst[0] + " tail", pre + cst[1] + " tail"
}

func c05LongRun(c *harness.Check, lc longRunCase) string {
	src, want := lc.build()
	r, f := c05Run(c, textCase{Src: src, Want: want, Kind: "long-run"})
	if f == "output differs" {
		f = fmt.Sprintf("output of %d bytes, expected %d bytes; first difference at byte %d", len(r.Out), len(want), firstDiff(r.Out, want))
	}
	return f
}

func init() {
	harness.RegisterReplayer("C05/long-runs", func(raw json.RawMessage) string {
		lc, err := unJSON[longRunCase](raw)
		if err != nil {
			return "bad case: " + err.Error()
		}
		return c05LongRun(harness.New(nopTB{}, "C05", "replay", ""), lc)
	})
}

func TestC05_LongRuns(t *testing.T) {
	var bases []int
	for b := 1024; b <= harness.Pick(65536, 262144); b *= 2 {
		bases = append(bases, b)
	}
	c := harness.New(t, "C05", "long-runs",
		fmt.Sprintf("text runs with an escaped construct (\\{{ x }}, \\@if(y), \\{{-- c --}}, \\@end) whose backslash is the n-th byte of the run for every n within 6 of 1 KiB, 2 KiB, ... 64 KiB (quick) / 256 KiB (thorough) - %d sizes x 4 constructs x 3 fillers (a letter, a multi-byte character, lines with CR LF) - and runs of 35 000 bytes with an escape every 7 bytes: the output is the run without the escapes' backslashes, byte for byte. Exhaustive. Non-trivial: all. Distinct by construction.", len(bases)*13))
	defer c.Finish()
	idx := 0
	for _, base := range bases {
		for off := -6; off <= 6; off++ {
			for ci := range longRunConstructs {
				for fi := range longRunFillers {
					idx++
					if !harness.Mine(idx) {
						continue
					}
					lc := longRunCase{N: base + off, Construct: ci, Filler: fi}
					c.CaseEnum(true, fmt.Sprintf("construct:%d", ci), fmt.Sprintf("filler:%d", fi))
					if idx%157 == 0 {
						c.Sample(lc)
					}
					if f := c05LongRun(c, lc); f != "" {
						c.Fail(t, kindOf(f), lc, "the run without the escape's backslash", f, f)
					}
				}
			}
		}
	}
	// dense escapes: every stride-th byte is the backslash of an escape
	for _, stride := range []int{5, 7, 8, 9, 16} {
		idx++
		if !harness.Mine(idx) {
			continue
		}
		lc := longRunCase{Stride: stride}
		c.CaseEnum(true, "dense-escapes")
		if f := c05LongRun(c, lc); f != "" {
			c.Fail(t, kindOf(f), lc, "the run without the escapes' backslashes", f, f)
		}
	}
	c.ExhaustivePart(fmt.Sprintf("%d sizes x 13 offsets x 4 constructs x 3 fillers, 5 dense runs", len(bases)))
}

func firstDiff(a, b string) int {
	i := 0
	for i < len(a) && i < len(b) && a[i] == b[i] {
		i++
	}
	return i
}
