package checks

import (
	"math"
	"strconv"
	"strings"
	"unicode/utf8"

	"verif/lib/refint"
	"verif/lib/spec"
	"verif/lib/tw"
)

// Reference contracts of the built-in functions, written from the C11
// statement (rune-based string functions, clamping slice, structural contains,
// usual numeric conversions). Unspec wherever the contract is silent.

type V = refint.Value

func rOK(v V) refint.Res         { return refint.Res{St: refint.OK, V: v} }
func rErr(why string) refint.Res { return refint.Res{St: refint.Err, Why: why} }
func rUn(why string) refint.Res  { return refint.Res{St: refint.Unspec, Why: why} }

func strArr(ss []string) V {
	a := make([]V, len(ss))
	for i, s := range ss {
		a[i] = refint.StrV(s)
	}
	return refint.ArrV(a)
}

// argStr / argInt fetch a typed optional argument: (value, present, kindOK).
func argStr(args []V, i int) (string, bool, bool) {
	if i >= len(args) {
		return "", false, true
	}
	if args[i].K != refint.KStr {
		return "", true, false
	}
	return args[i].S, true, true
}

func argInt(args []V, i int) (int64, bool, bool) {
	if i >= len(args) {
		return 0, false, true
	}
	if args[i].K != refint.KInt {
		return 0, true, false
	}
	return args[i].I, true, true
}

func deepEqualSameType(a, b V) bool {
	if a.K != b.K {
		return false
	}
	switch a.K {
	case refint.KFloat:
		return a.F == b.F
	case refint.KArr:
		if len(a.Arr) != len(b.Arr) {
			return false
		}
		for i := range a.Arr {
			if !deepEqualSameType(a.Arr[i], b.Arr[i]) {
				return false
			}
		}
		return true
	case refint.KObj:
		if len(a.Obj) != len(b.Obj) {
			return false
		}
		for k, x := range a.Obj {
			y, ok := b.Obj[k]
			if !ok || !deepEqualSameType(x, y) {
				return false
			}
		}
		return true
	}
	return a.Equal(b)
}

const smallCount = 64

func refBuiltin(x V, fn string, args []V) refint.Res {
	switch x.K {
	case refint.KStr:
		return refStrFn(x.S, fn, args)
	case refint.KArr:
		return refArrFn(x.Arr, fn, args)
	case refint.KInt:
		return refIntFn(x.I, fn, args)
	case refint.KFloat:
		return refFloatFn(x.F, fn, args)
	case refint.KBool:
		switch fn {
		case "binary":
			if x.B {
				return rOK(refint.IntV(1))
			}
			return rOK(refint.IntV(0))
		case "then":
			if len(args) == 0 {
				return rUn("then without arguments")
			}
			if x.B {
				return rOK(args[0])
			}
			if len(args) >= 2 {
				return rOK(args[1])
			}
			return rOK(refint.NilV())
		}
	}
	return rUn("no contract for " + fn + " on " + x.K.String())
}

func refStrFn(s string, fn string, args []V) refint.Res {
	valid := utf8.ValidString(s)
	runes := []rune(s)
	switch fn {
	case "len":
		if !valid {
			return rUn("len of invalid UTF-8")
		}
		return rOK(refint.IntV(int64(len(runes))))
	case "upper":
		return rOK(refint.StrV(strings.ToUpper(s)))
	case "lower":
		return rOK(refint.StrV(strings.ToLower(s)))
	case "trim", "trimLeft", "trimRight":
		chars, present, ok := argStr(args, 0)
		if !ok {
			return rErr("first argument must be a string")
		}
		if !present {
			chars = "\t \n\r"
		}
		switch fn {
		case "trim":
			return rOK(refint.StrV(strings.Trim(s, chars)))
		case "trimLeft":
			return rOK(refint.StrV(strings.TrimLeft(s, chars)))
		}
		return rOK(refint.StrV(strings.TrimRight(s, chars)))
	case "split":
		sep, present, ok := argStr(args, 0)
		if !ok {
			return rErr("first argument must be a string")
		}
		if !present {
			sep = " "
		}
		return rOK(strArr(strings.Split(s, sep)))
	case "contains":
		sub, present, ok := argStr(args, 0)
		if !present {
			return rUn("contains without argument")
		}
		if !ok {
			return rErr("first argument must be a string")
		}
		return rOK(refint.BoolV(strings.Contains(s, sub)))
	case "repeat":
		n, present, ok := argInt(args, 0)
		if !present {
			return rUn("repeat without argument")
		}
		if !ok {
			return rErr("first argument must be an integer")
		}
		if n < 0 || n > smallCount {
			return rUn("repeat with a negative or large count")
		}
		return rOK(refint.StrV(strings.Repeat(s, int(n))))
	case "reverse":
		if !valid {
			return rUn("reverse of invalid UTF-8")
		}
		r := make([]rune, len(runes))
		for i, c := range runes {
			r[len(runes)-1-i] = c
		}
		return rOK(refint.StrV(string(r)))
	case "at", "first", "last":
		if !valid {
			return rUn("at on invalid UTF-8")
		}
		i := int64(0)
		if fn == "last" {
			i = -1
		}
		if fn == "at" {
			n, present, ok := argInt(args, 0)
			if !ok {
				return rErr("first argument must be an integer")
			}
			if present {
				i = n
			}
		}
		if i < 0 {
			i += int64(len(runes))
		}
		if i < 0 || i >= int64(len(runes)) {
			return rOK(refint.NilV())
		}
		return rOK(refint.StrV(string(runes[i])))
	case "truncate":
		n, present, ok := argInt(args, 0)
		if !present {
			return rUn("truncate without argument")
		}
		if !ok {
			return rErr("first argument must be an integer")
		}
		ell, epresent, eok := argStr(args, 1)
		if !valid {
			return rUn("truncate of invalid UTF-8")
		}
		if n >= int64(len(runes)) {
			if epresent && !eok {
				return rUn("bad ellipsis on a string that is not cut")
			}
			return rOK(refint.StrV(s))
		}
		if !eok {
			return rErr("second argument must be a string")
		}
		if !epresent {
			ell = "..."
		}
		if n < 0 {
			return rUn("negative truncate length")
		}
		return rOK(refint.StrV(string(runes[:n]) + ell))
	case "capitalize":
		if !valid {
			return rUn("capitalize of invalid UTF-8")
		}
		if len(runes) == 0 {
			return rOK(refint.StrV(""))
		}
		return rOK(refint.StrV(strings.ToUpper(string(runes[0])) + string(runes[1:])))
	case "decimal":
		return refDecimal(s, isPlainInt(s), args)
	}
	return rUn("no contract for " + fn + " on string")
}

func isPlainInt(s string) bool {
	if s == "" {
		return false
	}
	t := strings.TrimPrefix(s, "-")
	if t == "" || len(t) > 18 {
		return false
	}
	for i := 0; i < len(t); i++ {
		if t[i] < '0' || t[i] > '9' {
			return false
		}
	}
	return true
}

// refDecimal: an integer numeral gets sep + n zeros appended (default "." and
// 2); anything that is not a numeral is left alone.
func refDecimal(s string, numeral bool, args []V) refint.Res {
	if !numeral {
		if strings.ContainsAny(s, "0123456789") {
			return rUn("decimal on a string that looks partly numeric")
		}
		return rOK(refint.StrV(s))
	}
	sep, spresent, sok := argStr(args, 0)
	if !sok {
		return rErr("first argument must be a string")
	}
	if !spresent {
		sep = "."
	}
	n, npresent, nok := argInt(args, 1)
	if !nok {
		return rErr("second argument must be an integer")
	}
	if !npresent {
		n = 2
	}
	if len(args) > 2 {
		return rUn("decimal with more than two arguments")
	}
	if n < 0 || n > smallCount {
		return rUn("negative or large number of decimals")
	}
	if n == 0 {
		return rOK(refint.StrV(s))
	}
	return rOK(refint.StrV(s + sep + strings.Repeat("0", int(n))))
}

func refArrFn(a []V, fn string, args []V) refint.Res {
	switch fn {
	case "len":
		return rOK(refint.IntV(int64(len(a))))
	case "reverse":
		r := make([]V, len(a))
		for i, v := range a {
			r[len(a)-1-i] = v
		}
		return rOK(refint.ArrV(r))
	case "append":
		if len(args) == 0 {
			return rUn("append without arguments")
		}
		return rOK(refint.ArrV(append(append([]V{}, a...), args...)))
	case "prepend":
		if len(args) == 0 {
			return rUn("prepend without arguments")
		}
		return rOK(refint.ArrV(append(append([]V{}, args...), a...)))
	case "join":
		sep, present, ok := argStr(args, 0)
		if !ok {
			return rErr("first argument must be a string")
		}
		if !present {
			sep = ","
		}
		parts := make([]string, len(a))
		for i, v := range a {
			t, ok := v.Text(getCalib())
			if !ok {
				return rUn("join of elements without a settled text")
			}
			parts[i] = t
		}
		return rOK(refint.StrV(strings.Join(parts, sep)))
	case "contains":
		if len(args) == 0 {
			return rUn("contains without argument")
		}
		for _, v := range a {
			if deepEqualSameType(v, args[0]) {
				return rOK(refint.BoolV(true))
			}
		}
		return rOK(refint.BoolV(false))
	case "slice":
		s, present, ok := argInt(args, 0)
		if !present {
			return rUn("slice without argument")
		}
		if !ok {
			return rErr("first argument must be an integer")
		}
		n := int64(len(a))
		e, epresent, eok := argInt(args, 1)
		if !eok {
			return rErr("second argument must be an integer")
		}
		if s < 0 {
			s = 0
		}
		if s > n {
			s = n
		}
		if !epresent {
			return rOK(refint.ArrV(append([]V{}, a[s:]...)))
		}
		if e < 0 {
			return rUn("negative slice end")
		}
		if e > n {
			e = n
		}
		if s > e {
			return rUn("slice start beyond its end")
		}
		return rOK(refint.ArrV(append([]V{}, a[s:e]...)))
	}
	return rUn("no contract for " + fn + " on array")
}

func refIntFn(i int64, fn string, args []V) refint.Res {
	switch fn {
	case "float":
		return rOK(refint.FloatV(float64(i)))
	case "abs":
		if i == math.MinInt64 {
			return rUn("abs of MinInt64")
		}
		if i < 0 {
			i = -i
		}
		return rOK(refint.IntV(i))
	case "str":
		return rOK(refint.StrV(strconv.FormatInt(i, 10)))
	case "len":
		s := strconv.FormatInt(i, 10)
		return rOK(refint.IntV(int64(len(strings.TrimPrefix(s, "-")))))
	case "decimal":
		return refDecimal(strconv.FormatInt(i, 10), true, args)
	}
	return rUn("no contract for " + fn + " on int")
}

func refFloatFn(f float64, fn string, _ []V) refint.Res {
	inRange := math.Abs(f) < (1 << 62)
	switch fn {
	case "abs":
		return rOK(refint.FloatV(math.Abs(f)))
	case "int":
		if inRange {
			return rOK(refint.IntV(int64(f)))
		}
	case "ceil":
		if inRange {
			return rOK(refint.IntV(int64(math.Ceil(f))))
		}
	case "floor":
		if inRange {
			return rOK(refint.IntV(int64(math.Floor(f))))
		}
	case "round":
		if inRange {
			return rOK(refint.IntV(int64(math.Round(f))))
		}
	case "str":
		// a string that denotes the same number; compared by value
		return refint.Res{St: refint.OK, V: refint.FloatV(f), Why: "as-string"}
	}
	return rUn("no contract for " + fn + " on float")
}

// ---------------------------------------------------------------- model <-> literals / data

// litFromModel writes a model value as a literal expression (strings must not
// contain < > & since literals are escaped).
func litFromModel(v V) *tw.Expr {
	switch v.K {
	case refint.KInt:
		return intLit(v.I)
	case refint.KFloat:
		return floatLit(v.F)
	case refint.KStr:
		e := tw.Str(v.S)
		// a quote inside is written with a backslash when it is the delimiter: both ways of writing occur
		switch hasD, hasS := strings.Contains(v.S, "\""), strings.Contains(v.S, "'"); {
		case hasD && !hasS && len(v.S)%2 == 1, hasS && !hasD, hasS && hasD && len(v.S)%2 == 1:
			e.Quote = "'"
		}
		return e
	case refint.KBool:
		return tw.Bool(v.B)
	case refint.KArr:
		el := make([]*tw.Expr, len(v.Arr))
		for i, x := range v.Arr {
			el[i] = litFromModel(x)
		}
		return tw.Arr(el...)
	case refint.KObj:
		keys := v.Keys()
		vals := make([]*tw.Expr, len(keys))
		for i, k := range keys {
			vals[i] = litFromModel(v.Obj[k])
		}
		return tw.Obj(keys, vals)
	}
	return tw.Nil()
}

func literalSafe(v V) bool {
	switch v.K {
	case refint.KStr:
		return !strings.ContainsAny(v.S, "<>&\\") && utf8.ValidString(v.S)
	case refint.KFloat:
		return !math.IsNaN(v.F) && !math.IsInf(v.F, 0) && math.Abs(v.F) < 1e15 && !(v.F == 0 && math.Signbit(v.F))
	case refint.KInt:
		return v.I != math.MinInt64
	case refint.KArr:
		for _, x := range v.Arr {
			if !literalSafe(x) {
				return false
			}
		}
	case refint.KObj:
		for k, x := range v.Obj {
			if !literalSafe(x) || !isIdentKey(k) {
				return false
			}
		}
	}
	return true
}

func isIdentKey(k string) bool {
	if k == "" || k == "in" || k == "true" || k == "false" || k == "nil" {
		return false
	}
	for i := 0; i < len(k); i++ {
		c := k[i]
		if !(c == '_' || c >= 'a' && c <= 'z' || c >= 'A' && c <= 'Z' || (i > 0 && c >= '0' && c <= '9')) {
			return false
		}
	}
	return true
}

// specFromModel builds Go data with the plain shape: int64, float64, string,
// bool, nil, []any, map[string]any.
func specFromModel(v V) *spec.Value {
	switch v.K {
	case refint.KInt:
		return spec.IntOf(spec.TInt64, v.I)
	case refint.KFloat:
		return spec.Float64(v.F)
	case refint.KStr:
		return spec.BytesString([]byte(v.S))
	case refint.KBool:
		return spec.Bool(v.B)
	case refint.KArr:
		items := make([]*spec.Value, len(v.Arr))
		for i, x := range v.Arr {
			items[i] = spec.Any(specFromModel(x))
		}
		return spec.Slice(spec.T(spec.TAny), items...)
	case refint.KObj:
		keys := v.Keys()
		vals := make([]*spec.Value, len(keys))
		for i, k := range keys {
			vals[i] = spec.Any(specFromModel(v.Obj[k]))
		}
		return spec.Map(spec.T(spec.TAny), keys, vals)
	}
	return spec.NilAny()
}

func isASCII(s string) bool {
	for i := 0; i < len(s); i++ {
		if s[i] >= 0x80 {
			return false
		}
	}
	return true
}
