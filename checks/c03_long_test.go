package checks

import (
	"fmt"
	"strings"
	"testing"

	"verif/lib/harness"
	"verif/lib/spec"
)

// C03/long-loops: the statement's "for-loop bounds" and "array lengths 0..n"
// have no upper end: loops of hundreds to a hundred thousand passes, around
// every power of two and of ten on the way, render every pass. The bodies show
// only a few chosen passes (the first, one in the middle, the last) so that the
// expected output stays small and is computed directly.

func init() { registerRenderReplayer("C03/long-loops") }

func TestC03_LongLoops(t *testing.T) {
	var sizes []int
	for _, b := range []int{256, 1000, 4096, 10000, 16384, 32768, 65536, 100000} {
		if b > harness.Pick(20000, 100000) {
			continue
		}
		sizes = append(sizes, b-1, b, b+1)
	}
	c := harness.New(t, "C03", "long-loops",
		fmt.Sprintf("loops of n passes for n around 256, 1000, 4096, 10000, 16384 (quick) and 32768, 65536, 100000 (thorough) - %d sizes: @for counting up, counting down and stepping through an assignment, with the bound as a literal and from the data; @each over a data array of n integers and of n strings; a @break or @breakIf in the very last pass; a loop of n passes nested in a loop of two. Each body prints the first, the middle and the last pass only (chosen with @if / @continueIf on the counter or on loop.index / loop.last) and counts the passes in a variable of the enclosing block is not possible (block scope), so the count is shown by the last pass's loop.iter or counter. Expected output computed directly. Exhaustive over sizes x forms. Non-trivial: all. Distinct by construction.", len(sizes)))
	defer c.Finish()
	type form struct {
		name string
		mk   func(n int) (src string, data *spec.Data, want string)
	}
	ints := func(n int) *spec.Value {
		items := make([]*spec.Value, n)
		for i := range items {
			items[i] = spec.IntOf(spec.TInt, int64(i))
		}
		return spec.Slice(spec.T(spec.TInt), items...)
	}
	forms := []form{
		{"for-up-literal", func(n int) (string, *spec.Data, string) {
			mid := n / 2
			return fmt.Sprintf("@for(i = 0; i < %d; i++)@if(i == 0)[{{ i }}]@elseif(i == %d)[{{ i }}]@elseif(i == %d)[{{ i }}]@end@end.", n, mid, n-1), nil,
				fmt.Sprintf("[0][%d][%d].", mid, n-1)
		}},
		{"for-down-data", func(n int) (string, *spec.Data, string) {
			return "@for(i = n; i > 0; i--)@if(i == n)[{{ i }}]@elseif(i == 1)[{{ i }}]@end@end.", (&spec.Data{}).Add("n", spec.IntOf(spec.TInt, int64(n))),
				fmt.Sprintf("[%d][1].", n)
		}},
		{"for-assignment-step", func(n int) (string, *spec.Data, string) {
			// n passes with step 3
			return fmt.Sprintf("@for(i = 0; i < %d; i = i + 3)@if(i == 0)[{{ i }}]@elseif(i == %d)[{{ i }}]@end@end.", 3*n, 3*(n-1)), nil, fmt.Sprintf("[0][%d].", 3*(n-1))
		}},
		{"for-break-in-last-pass", func(n int) (string, *spec.Data, string) {
			return fmt.Sprintf("@for(i = 1; i <= %d; i++)@if(i == %d)[last {{ i }}]@break@end@end.@for(j = 1; true; j++)@breakIf(j == %d)@end.", n, n, n), nil, fmt.Sprintf("[last %d]..", n)
		}},
		{"each-ints", func(n int) (string, *spec.Data, string) {
			return "@each(v in items)@if(loop.first)[{{ v }}:{{ loop.index }}:{{ loop.iter }}]@elseif(loop.last)[{{ v }}:{{ loop.index }}:{{ loop.iter }}]@end@end.", (&spec.Data{}).Add("items", ints(n)),
				fmt.Sprintf("[0:0:1][%d:%d:%d].", n-1, n-1, n)
		}},
		{"each-strings-breakIf", func(n int) (string, *spec.Data, string) {
			items := make([]*spec.Value, n)
			for i := range items {
				items[i] = spec.String(fmt.Sprintf("s%d", i))
			}
			return "@each(s in items)@breakIf(loop.last)@continueIf(loop.index % 1000 != 0)[{{ s }}]@end.", (&spec.Data{}).Add("items", spec.Slice(spec.T(spec.TString), items...)),
				func() string {
					var b strings.Builder
					for i := 0; i < n-1; i += 1000 {
						fmt.Fprintf(&b, "[s%d]", i)
					}
					return b.String() + "."
				}()
		}},
		{"nested-in-two", func(n int) (string, *spec.Data, string) {
			return fmt.Sprintf("@each(o in [1, 2])<@for(i = 0; i < %d; i++)@if(i == %d)[{{ o }}:{{ i }}]@end@end>@end", n, n-1), nil, fmt.Sprintf("<[1:%d]><[2:%d]>", n-1, n-1)
		}},
	}
	idx := 0
	for _, n := range sizes {
		for _, f := range forms {
			idx++
			if !harness.Mine(idx) {
				continue
			}
			src, data, wantOut := f.mk(n)
			cs := renderCase{Src: src, Data: data, Want: want{St: "ok", Kind: "text", S: wantOut}, Note: fmt.Sprintf("%s, %d passes", f.name, n)}
			c.CaseEnum(true, "form:"+f.name)
			if idx%11 == 0 {
				c.Sample(map[string]any{"src": src, "passes": n, "want": wantOut})
			}
			r := evalString(c, "json", mustJSON(map[string]any{"form": f.name, "n": n, "src": src}), cs.Src, cs.Data.GoMap())
			if f := cs.Want.matches(r); f != "" {
				// (the replay file holds the source and the size, not the data array)
				c.Fail(t, failKind(r), map[string]any{"src": src, "passes": n, "form": fmt.Sprint(idx)}, wantOut, Result{Out: clip(r.Out, 300), Err: r.Err, Panic: r.Panic}, f)
			}
		}
	}
	c.ExhaustivePart(fmt.Sprintf("%d sizes x %d loop forms", len(sizes), len(forms)))
}
