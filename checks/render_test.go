package checks

import (
	"encoding/json"
	"fmt"
	"hash/fnv"
	"math"
	"path/filepath"
	"regexp"
	"strings"
	"sync"

	textwire "github.com/textwire/textwire/v2"
	"github.com/textwire/textwire/v2/config"
	"verif/lib/harness"
	"verif/lib/refint"
	"verif/lib/spec"
	"verif/lib/tree"
)

// calib learns how true/false/nil print (formatting no statement pins down).
var calibOnce sync.Once
var calib = refint.DefaultCalib

func getCalib() *refint.Calib {
	calibOnce.Do(func() {
		out, err := textwire.EvaluateString("{{ true }}|{{ false }}|{{ nil }}", nil)
		if err == nil {
			p := strings.Split(out, "|")
			if len(p) == 3 {
				calib.True, calib.False, calib.Nil = p[0], p[1], p[2]
			}
		}
	})
	return &calib
}

func interp() *refint.Interp { return &refint.Interp{Calib: getCalib()} }

// want is the serialisable expectation for one rendered expression/template.
type want struct {
	St   string  `json:"st"`             // ok | error | unspecified
	Kind string  `json:"kind,omitempty"` // value kind for single-expression cases; "text" for whole outputs
	I    int64   `json:"i,omitempty"`
	FB   uint64  `json:"fbits,omitempty"`
	AltB *uint64 `json:"alt_fbits,omitempty"`
	S    string  `json:"s,omitempty"`
	B    bool    `json:"b,omitempty"`
	Why  string  `json:"why,omitempty"`
}

func wantFromRes(r refint.Res) want {
	w := want{St: r.St.String(), Why: r.Why}
	if r.St != refint.OK {
		return w
	}
	w.Kind = r.V.K.String()
	switch r.V.K {
	case refint.KInt:
		w.I = r.V.I
	case refint.KFloat:
		w.FB = math.Float64bits(r.V.F)
		if r.Alt != nil {
			b := math.Float64bits(r.Alt.F)
			w.AltB = &b
		}
	case refint.KStr:
		w.S = r.V.S
	case refint.KBool:
		w.B = r.V.B
	}
	return w
}

func wantFromOut(o refint.Out) want {
	w := want{St: o.St.String(), Why: o.Why}
	if o.St == refint.OK {
		w.Kind = "text"
		w.S = o.Text
	}
	return w
}

// matches compares a library result with an expectation. It returns "" when
// they agree (or the expectation is unspecified and the call did not panic).
func (w want) matches(r Result) string {
	if w.St == "unspecified" {
		// not even a panic is this property's business here (that is C09's)
		return ""
	}
	if r.Panic != nil {
		return "panic: " + r.Panic.Value
	}
	switch w.St {
	case "error":
		if !r.IsErr() {
			return fmt.Sprintf("expected an error (%s), got output %q", w.Why, r.Out)
		}
		if r.Out != "" {
			return "error together with output"
		}
		return ""
	}
	if r.IsErr() {
		return "unexpected error: " + r.Err
	}
	c := getCalib()
	switch w.Kind {
	case "text", "str":
		if r.Out != w.S {
			return fmt.Sprintf("output %q, expected %q", r.Out, w.S)
		}
	case "int":
		if r.Out != fmt.Sprint(w.I) {
			return fmt.Sprintf("output %q, expected %d", r.Out, w.I)
		}
	case "bool":
		exp := c.False
		if w.B {
			exp = c.True
		}
		if r.Out != exp {
			return fmt.Sprintf("output %q, expected %q (%v)", r.Out, exp, w.B)
		}
	case "nil":
		if r.Out != c.Nil {
			return fmt.Sprintf("output %q, expected %q (nil)", r.Out, c.Nil)
		}
	case "float":
		f := math.Float64frombits(w.FB)
		if refint.FloatOutEqual(r.Out, f) {
			return ""
		}
		if w.AltB != nil && refint.FloatOutEqual(r.Out, math.Float64frombits(*w.AltB)) {
			return ""
		}
		return fmt.Sprintf("output %q does not denote %v", r.Out, f)
	}
	return ""
}

// renderCase is the generic replayable case: a template, data, expectation.
type renderCase struct {
	Src  string     `json:"src"`
	Data *spec.Data `json:"data,omitempty"`
	Want want       `json:"want"`
	// Src2, when set, is another layout of the same tree: both must render alike
	Src2 string `json:"src2,omitempty"`
	Note string `json:"note,omitempty"`
}

// sameOutcome compares two results of layouts of one tree: same output, same
// error-ness and same message apart from the reported line.
func sameOutcome(a, b Result) string {
	if a.Panic != nil || b.Panic != nil {
		if a.Panic != nil && b.Panic != nil {
			return ""
		}
		return "one layout panics, the other does not"
	}
	if a.IsErr() != b.IsErr() {
		return fmt.Sprintf("one layout fails, the other renders: %q / %q vs %q / %q", a.Out, a.Err, b.Out, b.Err)
	}
	if a.Out != b.Out {
		return fmt.Sprintf("outputs differ between layouts: %q vs %q", a.Out, b.Out)
	}
	return ""
}

// otherEntryPoints renders the case as the only file of a template directory:
// through NewTemplate + String (twice) and through EvaluateFile. What a
// template renders to does not depend on the way it reaches the evaluator.
func otherEntryPoints(c *harness.Check, cs renderCase, payload string) (Result, string) {
	root, err := tree.Materialise(tree.Tree{"t/page.tw": {Content: cs.Src}})
	if err != nil {
		return Result{}, ""
	}
	var viaTpl, viaTpl2, viaFile Result
	pi := c.Guard("json", payload, func() {
		textwire.VerifReset()
		res := func(out string, err error) Result {
			r := Result{Out: out}
			if err != nil {
				r.Err = err.Error()
				if r.Err == "" {
					r.Err = "(empty error text)"
				}
			}
			return r
		}
		tpl, lerr := textwire.NewTemplate(&config.Config{TemplateDir: "t", TemplateExt: ".tw"})
		if lerr != nil {
			viaTpl, viaTpl2 = res("", lerr), res("", lerr)
		} else {
			out, ferr := tpl.String("page", cs.Data.GoMap())
			if ferr != nil {
				viaTpl = res(out, ferr.Error())
			} else {
				viaTpl = res(out, nil)
			}
			out, ferr = tpl.String("page", cs.Data.GoMap())
			if ferr != nil {
				viaTpl2 = res(out, ferr.Error())
			} else {
				viaTpl2 = res(out, nil)
			}
		}
		viaFile = res(textwire.EvaluateFile(filepath.Join(root, "t", "page.tw"), cs.Data.GoMap()))
	})
	if pi != nil {
		return Result{Panic: pi}, "as a file of a template directory: panic: " + pi.Value
	}
	for _, v := range []struct {
		name string
		r    Result
	}{{"NewTemplate + String", viaTpl}, {"a second String on the same Template", viaTpl2}, {"EvaluateFile", viaFile}} {
		if f := cs.Want.matches(v.r); f != "" {
			return v.r, "through " + v.name + " (the source as file t/page.tw): " + f
		}
	}
	return viaTpl, ""
}

var directiveOfTrees = regexp.MustCompile(`@(use|insert|reserve|component|slot)\b`)

func runRenderCase(c *harness.Check, cs renderCase) (Result, string) {
	payload := mustJSON(cs)
	r := evalString(c, "json", payload, cs.Src, cs.Data.GoMap())
	if f := cs.Want.matches(r); f != "" {
		return r, f
	}
	// one case in eight (by its content) also goes through the other entry points
	if h := fnv.New32a(); true {
		h.Write([]byte(payload))
		if h.Sum32()%8 == 0 && !directiveOfTrees.MatchString(cs.Src) {
			c.Class("also-through:NewTemplate+String,EvaluateFile")
			if r2, f := otherEntryPoints(c, cs, payload); f != "" {
				return r2, f
			}
		}
	}
	if cs.Src2 != "" {
		r2 := evalString(c, "json", payload, cs.Src2, cs.Data.GoMap())
		if f := cs.Want.matches(r2); f != "" {
			return r2, "second layout: " + f
		}
		if f := sameOutcome(r, r2); f != "" {
			return r2, f
		}
	}
	return r, ""
}

func registerRenderReplayer(names ...string) {
	for _, n := range names {
		harness.RegisterReplayer(n, func(raw json.RawMessage) string {
			cs, err := unJSON[renderCase](raw)
			if err != nil {
				return "bad case: " + err.Error()
			}
			c := harness.New(nopTB{}, "replay", "replay", "")
			_, f := runRenderCase(c, cs)
			return f
		})
	}
}

// sample is the compact form of a render case kept in evidence samples.
func (cs renderCase) sample() map[string]any {
	m := map[string]any{"src": cs.Src, "want": cs.Want}
	if cs.Src2 != "" {
		m["src2"] = cs.Src2
	}
	if cs.Data != nil {
		d := map[string]string{}
		for i, k := range cs.Data.Keys {
			d[k] = spec.Describe(cs.Data.Vals[i])
		}
		m["data"] = d
	}
	if cs.Note != "" {
		m["note"] = cs.Note
	}
	return m
}
