package checks

import (
	"encoding/json"
	"fmt"
	"hash/fnv"
	"math"
	"net/http/httptest"
	"path/filepath"
	"reflect"
	"strings"
	"testing"
	"unicode"

	textwire "github.com/textwire/textwire/v2"
	"github.com/textwire/textwire/v2/config"
	"pgregory.net/rapid"
	"verif/lib/harness"
	"verif/lib/refint"
	"verif/lib/spec"
	"verif/lib/tree"
	"verif/lib/tw"
)

// C12 — Go data passed to a render is visible in the template with the same structure.

// dataCase: data map + a template; Expect describes the leaf reached.
type dataCase struct {
	Data   *spec.Data `json:"data"`
	Src    string     `json:"src"`
	Expect string     `json:"expect"` // int | str | bool | nil | float | len | error | unsupported | any
	I      int64      `json:"i,omitempty"`
	FB     uint64     `json:"fbits,omitempty"`
	S      []byte     `json:"s,omitempty"`
	B      bool       `json:"b,omitempty"`
	LitSrc string     `json:"lit_src,omitempty"` // template printing the equal literal
	Note   string     `json:"note,omitempty"`
}

func (cs dataCase) sample() map[string]any {
	d := map[string]string{}
	for i, k := range cs.Data.Keys {
		d[k] = spec.Describe(cs.Data.Vals[i])
	}
	return map[string]any{"data": d, "src": cs.Src, "expect": cs.Expect, "note": cs.Note}
}

func init() {
	for _, n := range []string{"access-paths", "unsupported", "not-modified", "fixed-shapes", "names", "deep-data"} {
		harness.RegisterReplayer("C12/"+n, func(raw json.RawMessage) string {
			cs, err := unJSON[dataCase](raw)
			if err != nil {
				return "bad case: " + err.Error()
			}
			c := harness.New(nopTB{}, "C12", "replay", "")
			return c12Run(c, cs)
		})
	}
}

func specHasNaN(v *spec.Value) bool {
	if v == nil {
		return false
	}
	if (v.T.K == spec.TFloat32 || v.T.K == spec.TFloat64) && math.IsNaN(v.Float()) {
		return true
	}
	if specHasNaN(v.Elem) {
		return true
	}
	for _, it := range v.Items {
		if specHasNaN(it) {
			return true
		}
	}
	return false
}

func c12Run(c *harness.Check, cs dataCase) string {
	goData := cs.Data.GoMap()
	before := cs.Data.GoMap()
	payload := mustJSON(cs)
	r := evalString(c, "json", payload, cs.Src, goData)
	if r.Panic != nil {
		return "panic: " + r.Panic.Value
	}
	hasNaN := false
	for _, v := range cs.Data.Vals {
		hasNaN = hasNaN || specHasNaN(v)
	}
	if !hasNaN && cs.Expect != "unsupported" && !reflect.DeepEqual(goData, before) {
		return "the caller's data map was modified by rendering"
	}
	switch cs.Expect {
	case "any":
		return ""
	case "unsupported", "error":
		if !r.IsErr() {
			return fmt.Sprintf("expected an error (%s), got output %q", cs.Note, r.Out)
		}
		if r.Out != "" {
			return "error together with output"
		}
		if cs.Expect == "unsupported" {
			// every render call refuses such data: one case in four (by its content) also goes
			// through EvaluateFile, Template.String and Template.Response (with and without a
			// working custom error page, debug on and off)
			h := fnv.New32a()
			h.Write([]byte(payload))
			if v := h.Sum32(); v%4 == 0 {
				c.Class("also-through:EvaluateFile,String,Response")
				return c12OtherEntryPoints(c, cs, payload, v/4)
			}
		}
		return ""
	}
	if r.IsErr() {
		return "unexpected error: " + r.Err
	}
	if cs.Note == c12AfterOperators {
		// what the operators printed is not looked at, only the read that follows them
		if i := strings.LastIndex(r.Out, "["); i >= 0 {
			r.Out = r.Out[i:]
		}
	}
	if !strings.HasPrefix(r.Out, "[") || !strings.HasSuffix(r.Out, "]") {
		return fmt.Sprintf("output %q lost its delimiters", r.Out)
	}
	out := r.Out[1 : len(r.Out)-1]
	cal := getCalib()
	switch cs.Expect {
	case "int", "len":
		if out != fmt.Sprint(cs.I) {
			return fmt.Sprintf("rendered %q, the value is %d", out, cs.I)
		}
	case "str":
		if out != string(cs.S) {
			return fmt.Sprintf("rendered %q, the string is %q", out, cs.S)
		}
	case "bool":
		exp := cal.False
		if cs.B {
			exp = cal.True
		}
		if out != exp {
			return fmt.Sprintf("rendered %q, the value is %v", out, cs.B)
		}
	case "nil":
		if out != cal.Nil {
			return fmt.Sprintf("rendered %q for nil", out)
		}
	case "float":
		f := math.Float64frombits(cs.FB)
		if !refint.FloatOutEqual(out, f) {
			return fmt.Sprintf("rendered %q, the value is %v", out, f)
		}
	}
	// numbers, booleans and nil print as the equal literal would
	if cs.LitSrc != "" {
		lr := evalString(c, "json", payload, cs.LitSrc, nil)
		if lr.Panic == nil && !lr.IsErr() && lr.Out != r.Out {
			return fmt.Sprintf("data value renders %q, the equal literal %s renders %q", r.Out, cs.LitSrc, lr.Out)
		}
	}
	return ""
}

func c12OtherEntryPoints(c *harness.Check, cs dataCase, payload string, variant uint32) string {
	root, err := tree.Materialise(tree.Tree{"t/page.tw": {Content: cs.Src}, "t/oops.tw": {Content: "<h1>sorry</h1>"}})
	if err != nil {
		return ""
	}
	failure := ""
	pi := c.Guard("json", payload, func() {
		textwire.VerifReset()
		conf := &config.Config{TemplateDir: "t", TemplateExt: ".tw", ErrorPagePath: []string{"oops", "", "nosuch"}[variant%3], DebugMode: variant%2 == 1}
		tpl, lerr := textwire.NewTemplate(conf)
		if lerr != nil {
			failure = "harness: the one-page directory does not load: " + lerr.Error()
			return
		}
		if out, ferr := tpl.String("page", cs.Data.GoMap()); ferr == nil {
			failure = fmt.Sprintf("Template.String: expected an error (%s), got output %q", cs.Note, out)
			return
		}
		w := httptest.NewRecorder()
		if rerr := tpl.Response(w, "page", cs.Data.GoMap()); rerr == nil {
			failure = fmt.Sprintf("Template.Response (error page %q, debug %v): expected an error (%s), got nil and the body %q", conf.ErrorPagePath, conf.DebugMode, cs.Note, clip(w.Body.String(), 200))
			return
		}
		if out, ferr := textwire.EvaluateFile(filepath.Join(root, "t", "page.tw"), cs.Data.GoMap()); ferr == nil {
			failure = fmt.Sprintf("EvaluateFile: expected an error (%s), got output %q", cs.Note, out)
		}
	})
	if pi != nil {
		return "panic: " + pi.Value
	}
	if strings.HasPrefix(failure, "harness:") {
		return ""
	}
	return failure
}

func lowerFirst(s string) string {
	if s == "" {
		return s
	}
	r := []rune(s)
	r[0] = unicode.ToLower(r[0])
	return string(r)
}

// walkPath descends from expr (denoting v) along a random path and returns the
// path expression and the spec value reached.
func walkPath(rt *rapid.T, expr string, v *spec.Value, steps *int) (string, *spec.Value, string) {
	for {
		switch v.T.K {
		case spec.TAny, spec.TPtr:
			if v.Nil || v.Elem == nil {
				return expr, v, ""
			}
			v = v.Elem // transparent
			continue
		case spec.TSlice:
			if len(v.Items) == 0 || rapid.IntRange(0, 4).Draw(rt, "stopAtSlice") == 0 {
				return expr, v, ""
			}
			i := rapid.IntRange(0, len(v.Items)-1).Draw(rt, "idx")
			expr, v = fmt.Sprintf("%s[%d]", expr, i), v.Items[i]
			*steps++
		case spec.TMap, spec.TRoleMap:
			if len(v.Keys) == 0 {
				return expr, v, ""
			}
			i := rapid.IntRange(0, len(v.Keys)-1).Draw(rt, "key")
			k := v.Keys[i]
			if isIdentKey(k) && rapid.Bool().Draw(rt, "dotForm") {
				expr += "." + k
			} else {
				expr += "[" + tw.QuoteStr(k, "\"") + "]"
				if strings.ContainsAny(k, "<>&\\") {
					return expr, v, "skip"
				}
			}
			v = v.Items[i]
			*steps++
		case spec.TStruct:
			names := []string{}
			if v.T.Fixed != "" {
				names, _ = spec.FixedFields(v.T.Fixed)
			} else {
				for _, f := range v.T.Fields {
					names = append(names, f.Name)
				}
			}
			if len(names) == 0 {
				return expr, v, ""
			}
			i := rapid.IntRange(0, len(names)-1).Draw(rt, "field")
			name := names[i]
			form := rapid.IntRange(0, 3).Draw(rt, "fieldForm")
			if form == 1 && !isIdentKey(lowerFirst(name)) {
				form = 3 // "in" is a keyword: d.in cannot be written, d["in"] can
			}
			switch form {
			case 0:
				expr += "." + name
			case 1:
				expr += "." + lowerFirst(name)
			case 2:
				expr += "[\"" + name + "\"]"
			default:
				expr += "[\"" + lowerFirst(name) + "\"]"
			}
			if i >= len(v.Items) {
				return expr, v, "skip"
			}
			v = v.Items[i]
			*steps++
		default:
			return expr, v, ""
		}
	}
}

const c12AfterOperators = "read after operators on the same path"

func leafCase(data *spec.Data, expr string, v *spec.Value) (dataCase, bool) {
	cs := dataCase{Data: data, Src: "[{{ " + expr + " }}]"}
	switch v.T.K {
	case spec.TAny, spec.TPtr:
		cs.Expect, cs.LitSrc = "nil", "[{{ nil }}]"
	case spec.TSlice:
		cs.Src = "[{{ " + expr + ".len() }}]"
		cs.Expect, cs.I = "len", int64(len(v.Items))
	case spec.TMap, spec.TRoleMap, spec.TStruct:
		// an object: truthy, and a property that does not exist is an error
		cs.Src = "[{{ " + expr + " ? 1 : 0 }}]"
		cs.Expect, cs.I = "int", 1
	case spec.TBool:
		cs.Expect, cs.B = "bool", v.B
		cs.LitSrc = "[{{ " + fmt.Sprint(v.B) + " }}]"
	case spec.TString:
		cs.Expect, cs.S = "str", []byte(v.Str())
	case spec.TFloat32, spec.TFloat64:
		f := v.Float()
		cs.Expect, cs.FB = "float", math.Float64bits(f)
		if !math.IsNaN(f) && !math.IsInf(f, 0) {
			cs.LitSrc = "[{{ " + tw.ExprString(floatLit(f), nil) + " }}]"
		}
	case spec.TChan, spec.TFunc, spec.TComplex, spec.TArray, spec.TIntMap, spec.TBoolMap:
		return cs, false
	default:
		cs.Expect, cs.I = "int", v.I
		if v.I != math.MinInt64 {
			cs.LitSrc = "[{{ " + tw.ExprString(intLit(v.I), nil) + " }}]"
		}
	}
	return cs, true
}

func TestC12_AccessPaths(t *testing.T) {
	c := harness.New(t, "C12", "access-paths",
		"data values generated by type-directed recursion to depth 4 (all integer widths, float32/64 incl. NaN/Inf/-0/extremes, bool, strings with arbitrary bytes, nil, pointers incl. nil and pointer-to-pointer, []T and []any, map[string]T, structs built at run time with reflect.StructOf, hand-written structs with unexported fields, embedded structs and pointer fields) and a random access path into them (.Field, .field, [\"key\"], .key, [i], mixed; pointers transparent): the leaf must render as its value (strings byte for byte, numbers/booleans/nil exactly as the equal literal renders, floats also by value), slices report their length, nil pointers render as nil; for one number leaf in three the read follows a postfix --, a postfix ++, a negation and an addition applied to the same path (they compute a value, the data keeps its own); the caller's map must stay deep-equal to a copy. Non-trivial: path of >= 2 steps or a pointer/struct inside a slice/map or a nil pointer. Distinct by hash of data + path.")
	defer c.Finish()
	runRapid(t, c, 20000, 180000, func(rt *rapid.T) {
		root := genSpecValue(4, false).Draw(rt, "value")
		data := (&spec.Data{}).Add("d", root)
		if rapid.Bool().Draw(rt, "sibling") {
			data.Add("other", genSpecValue(2, false).Draw(rt, "sibling"))
		}
		steps := 0
		expr, leaf, flag := walkPath(rt, "d", root, &steps)
		if flag == "skip" {
			c.Class("skipped:key-not-expressible")
			return
		}
		cs, ok := leafCase(data, expr, leaf)
		if !ok {
			return
		}
		desc := spec.Describe(root)
		nt := steps >= 2 || strings.Contains(desc, "(nil)") || strings.Contains(desc, "&")
		if (cs.Expect == "int" || cs.Expect == "float") && strings.HasPrefix(cs.Src, "[{{ "+expr+" }}") && rapid.IntRange(0, 2).Draw(rt, "afterOperators") == 0 {
			// the value is what the data holds also after operators were applied to it: they compute, they do not store
			cs.Src = "{{ (" + expr + ")-- }}{{ " + expr + "++ }}{{ (" + expr + ")++ }}{{ -(" + expr + ") }}{{ " + expr + " + " + expr + " }}" + cs.Src
			cs.Note = c12AfterOperators
			c.Class("read-after-operators")
		}
		c.Case(nt, cs.Src+"|"+mustJSON(data), "leaf:"+cs.Expect, fmt.Sprintf("steps:%d", min(steps, 4)))
		if nt {
			c.Sample(cs.sample())
		}
		if f := c12Run(c, cs); f != "" {
			c.Fail(rt, kindOf(f), cs, cs.Expect, f, f)
		}
	})
}

func TestC12_FixedShapes(t *testing.T) {
	c := harness.New(t, "C12", "fixed-shapes",
		"hand-written shapes: every integer width at its extremes (within int64), float32 rounding, unexported fields (must not be reachable by any spelling), embedded struct (reachable as a field), nil at every pointer/interface position of a struct, pointer to pointer, pointer to struct inside slice inside map, one pointer shared by several slice elements / struct fields / map values, several pointers to zero-size values, an embedded pointer to a struct (nil and set), two different struct types with the same printed name rendered one after the other, nil slice and nil map, first-letter fallback for struct fields only. Non-trivial: all. Distinct by construction.")
	defer c.Finish()
	type shape struct {
		name string
		v    *spec.Value
		expr string
		exp  func(cs *dataCase)
	}
	asInt := func(i int64) func(*dataCase) { return func(cs *dataCase) { cs.Expect, cs.I = "int", i } }
	asStr := func(s string) func(*dataCase) { return func(cs *dataCase) { cs.Expect, cs.S = "str", []byte(s) } }
	asNil := func(cs *dataCase) { cs.Expect = "nil" }
	asErr := func(cs *dataCase) { cs.Expect = "error" }
	hidden := &spec.Value{T: spec.FixedType("WithHidden"), Items: []*spec.Value{spec.String("nm"), spec.IntOf(spec.TInt, 41)}}
	emb := &spec.Value{T: spec.FixedType("Embeds"), Items: []*spec.Value{{T: spec.FixedType("Inner"), Items: []*spec.Value{spec.String("ti"), spec.IntOf(spec.TInt, 2)}}, spec.IntOf(spec.TInt, 3)}}
	one := spec.IntOf(spec.TInt, 1)
	pf := &spec.Value{T: spec.FixedType("PtrFields"), Items: []*spec.Value{spec.NilPtr(spec.T(spec.TInt)), spec.Ptr(spec.String("sv")), spec.NilPtr(spec.FixedType("Inner")), spec.NilAny()}}
	deep := spec.Map(spec.T(spec.TAny), []string{"list"}, []*spec.Value{spec.Any(spec.Slice(spec.PtrTo(spec.StructOf(spec.Field{Name: "Name", T: spec.T(spec.TString)})),
		spec.Ptr(spec.Struct([]string{"Name"}, []*spec.Value{spec.String("first")})), spec.Ptr(spec.Struct([]string{"Name"}, []*spec.Value{spec.String("second")}))))})
	// one pointer reachable several times (shared, not cyclic) is ordinary data
	author := spec.Ptr(spec.Struct([]string{"Name", "Age"}, []*spec.Value{spec.String("Ann"), spec.IntOf(spec.TInt, 33)}))
	author.Share = "author"
	post := func(title string) *spec.Value {
		return spec.Struct([]string{"Title", "Author"}, []*spec.Value{spec.String(title), author})
	}
	posts := spec.Slice(post("a").T, post("first"), post("second"), post("third"))
	sharedInt := spec.Ptr(spec.IntOf(spec.TInt, 77))
	sharedInt.Share = "n"
	twice := spec.Struct([]string{"A", "B", "L"}, []*spec.Value{sharedInt, sharedInt, spec.Slice(sharedInt.T, sharedInt, sharedInt)})
	sharedMap := spec.Map(spec.T(spec.TAny), []string{"x", "y"}, []*spec.Value{spec.Any(author), spec.Any(author)})
	empty := spec.Ptr(&spec.Value{T: spec.StructOf()})
	empties := spec.Slice(empty.T, empty, spec.Ptr(&spec.Value{T: spec.StructOf()}), spec.Ptr(&spec.Value{T: spec.StructOf()}))
	innerV := &spec.Value{T: spec.FixedType("Inner"), Items: []*spec.Value{spec.String("ti"), spec.IntOf(spec.TInt, 2)}}
	embNil := &spec.Value{T: spec.FixedType("EmbedsPtr"), Items: []*spec.Value{spec.NilPtr(spec.FixedType("Inner")), spec.String("lab")}}
	embSet := &spec.Value{T: spec.FixedType("EmbedsPtr"), Items: []*spec.Value{spec.Ptr(innerV), spec.String("lab")}}
	// two different struct types whose printed name is the same (declared in two functions)
	personA := &spec.Value{T: spec.FixedType("PersonA"), Items: []*spec.Value{spec.String("Ann"), spec.IntOf(spec.TInt, 31)}}
	personB := &spec.Value{T: spec.FixedType("PersonB"), Items: []*spec.Value{spec.IntOf(spec.TInt, 44), spec.String("Bob"), spec.String("bob@x")}}
	// a map keyed by a defined string type is a string-keyed map
	roles := spec.RoleMap(spec.T(spec.TInt), []string{"admin", "Guest"}, []*spec.Value{spec.IntOf(spec.TInt, 10), spec.IntOf(spec.TInt, 2)})
	account := spec.Struct([]string{"Name", "Quota"}, []*spec.Value{spec.String("acc"), roles})
	// structs with methods (String, Error) are structs: their fields are what the template sees
	money := &spec.Value{T: spec.FixedType("Money"), Items: []*spec.Value{spec.IntOf(spec.TInt64, 1250), spec.String("EUR")}}
	stamp := &spec.Value{T: spec.FixedType("Stamp"), Items: []*spec.Value{spec.IntOf(spec.TInt64, 86400), spec.String("UTC")}}
	shadowed := &spec.Value{T: spec.FixedType("Shadowed"), Items: []*spec.Value{spec.String("alice"),
		{T: spec.FixedType("Audit"), Items: []*spec.Value{spec.String("audit-row"), spec.IntOf(spec.TInt, 7)}}, spec.IntOf(spec.TInt, 30)}}
	shapes := []shape{
		{"own-field-before-embedded-namesake", shadowed, "d.Name", asStr("alice")}, {"own-field-before-embedded-namesake-lower", shadowed, "d.name", asStr("alice")},
		{"own-field-before-embedded-namesake-index", shadowed, `d["Name"]`, asStr("alice")}, {"embedded-namesake-itself", shadowed, "d.Audit.Name", asStr("audit-row")},
		{"embedded-sibling-after", shadowed, "d.count", asInt(30)}, {"own-field-before-embedded-behind-pointer", spec.Ptr(shadowed), "d.name", asStr("alice")},
		{"stringer-struct-field", money, "d.Amount", asInt(1250)}, {"stringer-struct-field-lower", money, "d.currency", asStr("EUR")},
		{"stringer-struct-index", money, `d["Currency"]`, asStr("EUR")}, {"stringer-struct-behind-pointer", spec.Ptr(money), "d.amount", asInt(1250)},
		{"stringer-struct-in-slice", spec.Slice(money.T, money), "d[0].Currency", asStr("EUR")},
		{"pointer-stringer-struct", stamp, "d.zone", asStr("UTC")}, {"pointer-stringer-struct-behind-pointer", spec.Ptr(stamp), "d.Unix", asInt(86400)},
		{"defined-string-key-dot", roles, "d.admin", asInt(10)}, {"defined-string-key-index", roles, `d["Guest"]`, asInt(2)},
		{"defined-string-key-in-struct", account, "d.quota.admin", asInt(10)}, {"defined-string-key-in-pointer", spec.Ptr(account), `d.Quota["Guest"]`, asInt(2)},
		{"defined-string-key-missing", roles, "d.nosuch", asErr}, {"defined-string-key-len-of-sibling", account, "d.name", asStr("acc")},
		{"embedded-nil-pointer-sibling", embNil, "d.label", asStr("lab")}, {"embedded-nil-pointer-itself", embNil, "d.Inner", asNil},
		{"embedded-nil-pointer-in-slice", spec.Slice(embNil.T, embNil, embSet), "d[1].inner.title", asStr("ti")}, {"embedded-pointer-field", embSet, "d.Inner.n", asInt(2)},
		{"same-named-type-first", personA, "d.name", asStr("Ann")}, {"same-named-type-first-age", personA, `d["age"]`, asInt(31)},
		{"same-named-type-second", personB, "d.name", asStr("Bob")}, {"same-named-type-second-age", personB, "d.Age", asInt(44)},
		{"same-named-type-second-extra-field", personB, "d.email", asStr("bob@x")}, {"same-named-type-first-again", personA, "d.Name", asStr("Ann")},
		{"same-named-types-together", spec.Slice(spec.T(spec.TAny), spec.Any(personB), spec.Any(personA)), "d[1].age", asInt(31)},
		{"shared-pointer-first-use", posts, "d[0].author.name", asStr("Ann")}, {"shared-pointer-second-use", posts, "d[1].author.name", asStr("Ann")},
		{"shared-pointer-third-use-index", posts, `d[2]["Author"].age`, asInt(33)}, {"shared-pointer-sibling-field", posts, "d[1].title", asStr("second")},
		{"shared-pointer-two-fields", twice, "d.b", asInt(77)}, {"shared-pointer-field-then-slice", twice, "d.l[1]", asInt(77)},
		{"shared-pointer-two-map-values", sharedMap, "d.y.name", asStr("Ann")},
		{"pointers-to-zero-size-values", empties, "d.len()", asInt(3)},
		{"int8-min", spec.IntOf(spec.TInt8, -128), "d", asInt(-128)}, {"int16-max", spec.IntOf(spec.TInt16, 32767), "d", asInt(32767)},
		{"int32-min", spec.IntOf(spec.TInt32, -2147483648), "d", asInt(-2147483648)}, {"int64-max", spec.IntOf(spec.TInt64, math.MaxInt64), "d", asInt(math.MaxInt64)},
		{"int64-min", spec.IntOf(spec.TInt64, math.MinInt64), "d", asInt(math.MinInt64)}, {"uint8-max", spec.IntOf(spec.TUint8, 255), "d", asInt(255)},
		{"uint16-max", spec.IntOf(spec.TUint16, 65535), "d", asInt(65535)}, {"uint32-max", spec.IntOf(spec.TUint32, 4294967295), "d", asInt(4294967295)},
		{"uint64-int64max", spec.IntOf(spec.TUint64, math.MaxInt64), "d", asInt(math.MaxInt64)}, {"uint-big", spec.IntOf(spec.TUint, 1<<40), "d", asInt(1 << 40)},
		{"unexported-exact", hidden, "d.secret", asErr}, {"unexported-upper", hidden, "d.Secret", asErr}, {"unexported-index", hidden, `d["secret"]`, asErr}, {"unexported-hidden", hidden, "d.hidden", asErr},
		{"exported-next-to-unexported", hidden, "d.age", asInt(41)}, {"exported-name", hidden, "d.Name", asStr("nm")},
		{"embedded-field", emb, "d.Inner.Title", asStr("ti")}, {"embedded-field-lower", emb, "d.inner.n", asInt(2)}, {"embedded-sibling", emb, "d.count", asInt(3)},
		{"nil-int-pointer-field", pf, "d.P", asNil}, {"string-pointer-field", pf, "d.s", asStr("sv")}, {"nil-struct-pointer-field", pf, "d.In", asNil}, {"nil-interface-field", pf, "d.a", asNil},
		{"property-of-nil-struct-pointer", pf, "d.In.Title", asErr},
		{"pointer-to-pointer", spec.Ptr(spec.Ptr(one)), "d", asInt(1)}, {"pointer-to-nil-pointer", spec.Ptr(spec.NilPtr(spec.T(spec.TInt))), "d", asNil},
		{"ptr-struct-in-slice-in-map", deep, "d.list[1].name", asStr("second")}, {"ptr-struct-in-slice-in-map-index", deep, `d["list"][0]["Name"]`, asStr("first")},
		{"nil-slice-len", &spec.Value{T: spec.SliceOf(spec.T(spec.TInt)), Nil: true}, "d.len()", asInt(0)}, {"map-missing-key", spec.Map(spec.T(spec.TInt), []string{"a"}, []*spec.Value{one}), "d.b", asErr},
		{"map-key-exact-case", spec.Map(spec.T(spec.TInt), []string{"Name"}, []*spec.Value{one}), "d.Name", asInt(1)},
		{"float32-rounding", spec.Float32(0.1), "d", func(cs *dataCase) { cs.Expect, cs.FB = "float", math.Float64bits(float64(float32(0.1))) }},
		{"bytes-string", spec.BytesString([]byte{0xff, 0x00, 'a', 0xc3}), "d", asStr("\xff\x00a\xc3")}, {"html-string-not-escaped", spec.String("<b>&amp;</b>"), "d", asStr("<b>&amp;</b>")},
		{"slice-of-slices", spec.Slice(spec.SliceOf(spec.T(spec.TInt)), spec.Slice(spec.T(spec.TInt), one), spec.Slice(spec.T(spec.TInt))), "d[1].len()", asInt(0)},
		{"any-holding-pointer", spec.Any(spec.Ptr(spec.String("ap"))), "d", asStr("ap")},
	}
	for _, sh := range shapes {
		data := (&spec.Data{}).Add("d", sh.v)
		cs := dataCase{Data: data, Src: "[{{ " + sh.expr + " }}]", Note: sh.name}
		sh.exp(&cs)
		c.CaseEnum(true, "expect:"+cs.Expect)
		c.Sample(cs.sample())
		if f := c12Run(c, cs); f != "" {
			c.Fail(t, kindOf(f), cs, cs.Expect, f, f)
		}
	}
	c.ExhaustivePart(fmt.Sprintf("%d hand-written shapes", len(shapes)))
}

func TestC12_Unsupported(t *testing.T) {
	c := harness.New(t, "C12", "unsupported",
		"data maps in which a value of an unsupported kind (chan, func, complex128, fixed-size array) occurs at top level or nested at any depth (inside pointers, []any, typed slices, maps, struct fields), next to healthy entries, with templates that do and do not touch it: the call must return an error, no output, no panic - through EvaluateString and, for one case in four, through EvaluateFile, Template.String and Template.Response (no, a working or a missing custom error page; debug on and off). Non-trivial: the unsupported value is nested. Distinct by hash.")
	defer c.Finish()
	runRapid(t, c, 6000, 60000, func(rt *rapid.T) {
		bad := spec.Unsupported(rapid.SampledFrom([]string{spec.TChan, spec.TFunc, spec.TComplex, spec.TArray, spec.TIntMap, spec.TBoolMap}).Draw(rt, "kind"))
		depth := rapid.IntRange(0, 3).Draw(rt, "depth")
		v := bad
		for i := 0; i < depth; i++ {
			switch rapid.IntRange(0, 5).Draw(rt, "wrap") {
			case 0:
				v = spec.Ptr(v)
			case 1:
				v = spec.Slice(spec.T(spec.TAny), spec.Any(spec.IntOf(spec.TInt, 1)), spec.Any(v))
			case 2:
				v = spec.Slice(v.T, v)
			case 3:
				v = spec.Map(spec.T(spec.TAny), []string{"ok", "bad"}, []*spec.Value{spec.Any(spec.String("fine")), spec.Any(v)})
			case 4:
				v = spec.Struct([]string{"Good", "Bad"}, []*spec.Value{spec.IntOf(spec.TInt, 1), v})
			default:
				v = spec.Any(v)
			}
		}
		data := (&spec.Data{}).Add("good", spec.String("g")).Add("d", v)
		if rapid.Bool().Draw(rt, "more") {
			data.Add("n", spec.IntOf(spec.TInt, 3))
		}
		src := rapid.SampledFrom([]string{"plain text", "{{ good }}", "{{ d }}", "@if(good)x@end", "{{ 1 + 2 }}", ""}).Draw(rt, "tmpl")
		cs := dataCase{Data: data, Src: src, Expect: "unsupported", Note: "unsupported " + bad.T.K + " at depth " + fmt.Sprint(depth)}
		c.Case(depth > 0, src+"|"+mustJSON(data), "kind:"+bad.T.K, fmt.Sprintf("depth:%d", depth))
		if depth > 0 {
			c.Sample(cs.sample())
		}
		if f := c12Run(c, cs); f != "" {
			c.Fail(rt, kindOf(f), cs, "error", f, f)
		}
	})
}

func TestC12_NotModified(t *testing.T) {
	c := harness.New(t, "C12", "not-modified",
		"generated data of every shape rendered by templates that assign to data names (same type), call append/prepend/reverse/slice/shuffle on data arrays (also chained and re-assigned), increment data numbers, iterate data arrays with a loop variable named like another data entry, and pass data to components-free expressions; afterwards the caller's map (pointers followed) must be deep-equal to an independently built copy. Non-trivial: the data has a slice, map or pointer and the template has an assignment or an array function. Distinct by hash.")
	defer c.Finish()
	tmpls := []string{
		"{{ d = d }}", "{{ x = d }}{{ x }}", "@each(e in d){{ e }}@end", "{{ d.append(1) }}", "{{ d = d.append(1); d }}", "{{ d.reverse().append(2).slice(1) }}", "{{ d.prepend(d) }}",
		"{{ d.shuffle() }}", "{{ d++ }}{{ d-- }}", "{{ d = d + d }}", "{{ d.upper() }}{{ d.reverse() }}", "@each(other in d){{ other }}@end", "@for(i = 0; i < 2; i++){{ d }}@end",
		"{{ d.list = 1 }}", "{{ d[0] }}{{ d.a }}", "@dump(d)", "{{ d ? d : other }}", "{{ [d, d].reverse()[0] }}", "{{ {k: d}.k }}", "{{ d.slice(0, 1).append(9).reverse() }}{{ d }}",
	}
	runRapid(t, c, 8000, 90000, func(rt *rapid.T) {
		root := genSpecValue(3, false).Draw(rt, "value")
		data := (&spec.Data{}).Add("d", root).Add("other", genSpecValue(2, false).Draw(rt, "other"))
		src := rapid.SampledFrom(tmpls).Draw(rt, "tmpl")
		cs := dataCase{Data: data, Src: src, Expect: "any"}
		desc := spec.Describe(root)
		nt := strings.ContainsAny(desc, "[&{") && (strings.Contains(src, "=") || strings.Contains(src, "."))
		c.Case(nt, src+"|"+mustJSON(data))
		if nt {
			c.Sample(cs.sample())
		}
		if f := c12Run(c, cs); f != "" {
			c.Fail(rt, kindOf(f), cs, "data unchanged", f, f)
		}
	})
}

// c12Keywords are words the language reserves: not usable as variable names.
var c12Keywords = map[string]bool{"in": true, "true": true, "false": true, "nil": true, "loop": true}

// TestC12_Names: a map's keys and a struct's fields are reachable by name for
// every name of the identifier alphabet, not only the ones the other checks use.
func TestC12_Names(t *testing.T) {
	c := harness.New(t, "C12", "names",
		"names over the whole identifier alphabet ([A-Za-z_][A-Za-z0-9_]*): exhaustively every single letter and '_', every letter followed by each of {a, z, A, Z, 0, 9, _}, and random names of 3..10 characters; each used as a variable of the data map ({{ n }}), as a key of a string-keyed map through dot and index syntax ({{ m.n }}, {{ m[\"n\"] }}), as the second step of a path ({{ m.inner.n }}) and, when it starts with an upper-case letter, as a struct field (exact and with the first letter lower-cased); the value is a distinct integer per name and must be printed. Names that are words of the language (in, true, false, nil, loop) are left out. Non-trivial: all. Distinct by construction / hash of the name.")
	defer c.Finish()
	letters := "abcdefghijklmnopqrstuvwxyzABCDEFGHIJKLMNOPQRSTUVWXYZ"
	var names []string
	for _, l := range letters {
		names = append(names, string(l))
		for _, m := range "azAZ09_" {
			names = append(names, string(l)+string(m))
		}
	}
	names = append(names, "_", "_a", "_Z", "_0", "__", "a_b_c", "x1y2z3")
	// names that are words of the language in another letter case are ordinary names
	names = append(names, "True", "TRUE", "tRue", "False", "FALSE", "Nil", "NIL", "nIl", "In", "IN", "iN", "Loop", "LOOP", "If", "Else", "End", "Each", "For")
	n := 0
	run := func(tb harness.TB, name string, enum bool) {
		if c12Keywords[name] {
			return
		}
		n++
		val := int64(1000 + n)
		iv := spec.IntOf(spec.TInt, val)
		inner := spec.Map(spec.T(spec.TInt), []string{name}, []*spec.Value{iv})
		data := (&spec.Data{}).Add(name, iv).Add("m0", spec.Map(spec.T(spec.TAny), []string{name, "inner"}, []*spec.Value{spec.Any(iv), spec.Any(inner)}))
		exprs := []string{name, "m0." + name, `m0["` + name + `"]`, "m0.inner." + name, `m0["inner"]["` + name + `"]`}
		if name == "m0" {
			return
		}
		if name[0] >= 'A' && name[0] <= 'Z' {
			data.Add("st0", spec.Struct([]string{name}, []*spec.Value{iv}))
			exprs = append(exprs, "st0."+name)
			if lf := lowerFirst(name); !c12Keywords[lf] {
				exprs = append(exprs, "st0."+lf)
			}
			exprs = append(exprs, `st0["`+lowerFirst(name)+`"]`)
		}
		for _, e := range exprs {
			cs := dataCase{Data: data, Src: "[{{ " + e + " }}]", Expect: "int", I: val, Note: "name " + name}
			if enum {
				c.CaseEnum(true, "form:"+strings.Replace(e, name, "N", -1))
			} else {
				c.Case(true, e, "form:"+strings.Replace(e, name, "N", -1))
			}
			if n%40 == 0 {
				c.Sample(cs.sample())
			}
			if f := c12Run(c, cs); f != "" {
				c.Fail(tb, kindOf(f), cs, cs.Expect, f, f)
			}
		}
	}
	for _, name := range names {
		run(t, name, true)
	}
	c.ExhaustivePart(fmt.Sprintf("%d names: single letters and letter + {a,z,A,Z,0,9,_}", len(names)))
	runRapid(t, c, 300, 3000, func(rt *rapid.T) {
		run(rt, rapid.StringMatching(`[A-Za-z_][A-Za-z0-9_]{2,9}`).Draw(rt, "name"), false)
	})
}
