package checks

import (
	"strings"
	"testing"

	"verif/lib/harness"
	"verif/lib/reftext"
	"verif/lib/spec"
)

// Coverage-guided fuzz targets (native go test -fuzz). They carry the same
// oracles as the registered checks C08, C19, C05 and C09 and are run by
// tools/fuzz_campaign.sh as unregistered campaigns: Go's fuzzer cannot be
// pinned to a seed and stops at the first crasher, so it is kept out of the
// commands registered in MANIFEST.json. Whatever a campaign finds is minimised,
// saved under corpus/<id>/ as a replay input and fixed or listed.
//
// Input decoding: the first byte selects the mode: even = the remaining bytes
// are the source; odd = each remaining byte indexes the lexeme alphabet, so the
// fuzzer reaches the parser instead of dying in the lexer.

func fuzzDecode(data []byte) string {
	if len(data) == 0 {
		return ""
	}
	if data[0]%2 == 0 {
		return string(data[1:])
	}
	alpha := c19Alphabet()
	var b strings.Builder
	for _, x := range data[1:] {
		b.WriteString(alpha[int(x)%len(alpha)])
	}
	return b.String()
}

var fuzzSeeds = []string{
	"", "plain text", "{{ 1 + 2 }}", "@if(true)a@elseif(false)b@else c@end", "@each(x in [1, 2]){{ x }}{{ loop.index }}@end",
	"@for(i = 0; i < 2; i++){{ i }}@end", "{{ x = {a: 1, b: [1, 2]}; x.a }}", "{{-- c --}}", "\\{{ x }} \\@if(y)", "{{ \"s\\\"q\" + 'z' }}",
	"@use(\"~l\")@insert(\"a\", 1)@insert(\"b\")x@end", "@component(\"c\", {a: 1})\n@slot(\"s\")x@end\n@end", "@dump(1, [2])", "{{ a ? b : c ? d : e }}",
	"{{ -a.b[0]++ }}", "@", "\\", "{{", "}}", "{{--", "--}}", "@if(", "{{ 1", "{{ \"", "{{ {a: ", "@each(x in", "\xff\xfe", "a\r\nb", "日本", "{{ 9223372036854775807 + 1 }}", "{{ 1.5.round() }}",
}

func addSeeds(f *testing.F) {
	for _, s := range fuzzSeeds {
		f.Add(append([]byte{0}, s...))
	}
	f.Add([]byte{1, 20, 40, 5, 22})
	f.Add([]byte{1})
}

func FuzzLexParse(f *testing.F) {
	addSeeds(f)
	c := harness.New(nopTB{}, "C08", "fuzz", "")
	f.Fuzz(func(t *testing.T, data []byte) {
		src := fuzzDecode(data)
		if f := c08Parse(c, parseCase{Src: src}, "raw", src); f != "" {
			t.Fatalf("C08 violated on %q: %s", src, f)
		}
	})
}

func FuzzPositions(f *testing.F) {
	addSeeds(f)
	f.Fuzz(func(t *testing.T, data []byte) {
		src := fuzzDecode(data)
		if strings.IndexByte(src, 0) >= 0 {
			return
		}
		var failure string
		if pi := harness.Safe(func() { failure = c19Oracle(src) }); pi != nil {
			failure = "panic: " + pi.Value
		}
		if failure != "" {
			t.Fatalf("C19 violated on %q: %s", src, failure)
		}
	})
}

func FuzzText(f *testing.F) {
	addSeeds(f)
	c := harness.New(nopTB{}, "C05", "fuzz", "")
	f.Fuzz(func(t *testing.T, data []byte) {
		src := fuzzDecode(data)
		if strings.IndexByte(src, 0) >= 0 {
			return
		}
		cl, want := reftext.Classify(src)
		if cl != reftext.Plain && cl != reftext.AllEscaped {
			return
		}
		if r, f := c05Run(c, textCase{Src: src, Want: want}); f != "" {
			t.Fatalf("C05 violated on %q: %s (got %q)", src, f, r.Out)
		}
	})
}

func FuzzEval(f *testing.F) {
	addSeeds(f)
	c := harness.New(nopTB{}, "C09", "fuzz", "")
	data := specData(map[string]any{"a": 1, "s": "str", "items": []int{1, 2, 3}, "flag": true, "f": 1.5, "n": nil}).
		Add("obj", spec.Map(spec.T(spec.TAny), []string{"k", "Name"}, []*spec.Value{spec.Any(spec.IntOf(spec.TInt, 1)), spec.Any(spec.String("v"))})).
		Add("p", spec.NilPtr(spec.T(spec.TInt)))
	f.Fuzz(func(t *testing.T, in []byte) {
		src := fuzzDecode(in)
		// unbounded loops and huge repeat counts are legitimate ways not to return soon
		if strings.Contains(src, "@for") || strings.Contains(src, "repeat") || strings.Contains(src, "decimal") || len(src) > 400 {
			return
		}
		if _, f := c09Run(c, evalCase{Src: src, Data: data}, "raw", src); f != "" {
			t.Fatalf("C09 violated on %q: %s", src, f)
		}
	})
}
