package checks

import (
	"encoding/json"
	"fmt"
	"strings"
	"testing"

	"pgregory.net/rapid"
	"verif/lib/harness"
	"verif/lib/refint"
	"verif/lib/spec"
	"verif/lib/tw"
)

// C11/one-call-site: the function a call runs is decided by the name and by
// the type of the receiver of that evaluation. One call written once in a loop
// body (receiver items[i], a ternary, a property of the loop element) is
// evaluated for receivers of different types in the passes of one render; each
// pass must show the contract's result for its own receiver, and the first
// receiver that has no such function (or wrong arguments) fails the render.

type siteCase struct {
	Recvs  []modelJSON `json:"receivers"`
	Fn     string      `json:"fn"`
	Args   []modelJSON `json:"args,omitempty"`
	Form   string      `json:"form"` // for-index | each-property | ternary
	AsData bool        `json:"as_data"`
}

func init() {
	harness.RegisterReplayer("C11/one-call-site", func(raw json.RawMessage) string {
		cs, err := unJSON[siteCase](raw)
		if err != nil {
			return "bad case: " + err.Error()
		}
		_, f := c11Site(harness.New(nopTB{}, "C11", "replay", ""), cs)
		return f
	})
}

// c11Site returns what the contract expects of the case (ok, error, unspec) and the failure, if any.
func c11Site(c *harness.Check, cs siteCase) (string, string) {
	args := make([]V, len(cs.Args))
	argLits := make([]string, len(cs.Args))
	for i, a := range cs.Args {
		args[i] = a.value()
		argLits[i] = litString(args[i])
	}
	recvs := make([]V, len(cs.Recvs))
	for i, r := range cs.Recvs {
		recvs[i] = r.value()
	}
	// expectation: per pass the text of the result; the first Err ends it
	var wantOut strings.Builder
	st := "ok"
	why := ""
	for _, r := range recvs {
		ref := refBuiltin(r, cs.Fn, args)
		if ref.St == refint.Err {
			st, why = "error", ref.Why
			break
		}
		if ref.St == refint.Unspec || ref.V.K == refint.KFloat || ref.V.K == refint.KObj {
			st = "unspec"
			break
		}
		t, ok := ref.V.Text(getCalib())
		if !ok {
			st = "unspec"
			break
		}
		wantOut.WriteString("[" + t + "]")
	}
	call := func(recv string) string { return recv + "." + cs.Fn + "(" + strings.Join(argLits, ", ") + ")" }
	var data *spec.Data
	items := "items"
	if cs.AsData {
		vals := make([]*spec.Value, len(recvs))
		for i, r := range recvs {
			vals[i] = spec.Any(specFromModel(r))
		}
		data = (&spec.Data{}).Add("items", spec.Slice(spec.T(spec.TAny), vals...))
	} else {
		lits := make([]string, len(recvs))
		for i, r := range recvs {
			lits[i] = litString(r)
		}
		items = "[" + strings.Join(lits, ", ") + "]"
	}
	var src string
	switch cs.Form {
	case "for-index":
		src = fmt.Sprintf("{{ its = %s }}@for(i = 0; i < %d; i++)[{{ %s }}]@end", items, len(recvs), call("its[i]"))
	case "each-property":
		// the loop variable itself keeps one type (an object); its property varies
		objs := make([]string, len(recvs))
		for i := range recvs {
			objs[i] = fmt.Sprintf("{v: its[%d]}", i)
		}
		src = fmt.Sprintf("{{ its = %s }}@each(o in [%s])[{{ %s }}]@end", items, strings.Join(objs, ", "), call("o.v"))
	default:
		// two receivers only: a ternary on the pass number
		src = fmt.Sprintf("{{ its = %s }}@each(n in [0, 1])[{{ %s }}]@end", items, call("(n == 0 ? its[0] : its[1])"))
	}
	r := evalString(c, "json", mustJSON(cs), src, data.GoMap())
	if r.Panic != nil {
		return st, "panic: " + r.Panic.Value
	}
	switch st {
	case "error":
		return st, (want{St: "error", Why: why}).matches(r)
	case "ok":
		if f := (want{St: "ok", Kind: "text", S: wantOut.String()}).matches(r); f != "" {
			return st, f + " (template " + src + ")"
		}
	}
	return st, ""
}

// litString writes v as a template literal.
func litString(v V) string { return tw.ExprString(litFromModel(v), nil) }

func TestC11_OneCallSite(t *testing.T) {
	c := harness.New(t, "C11", "one-call-site",
		"one call expression written once in a loop body and evaluated in the passes of one render for 2..4 receivers of different types (strings, arrays, ints, floats, bools, nil from the C11 pools): receiver items[i] in @for, a property o.v of the @each element, or a ternary on the pass; function names every built-in (those that exist for several receiver types - len, reverse, contains, abs, str, decimal, int, float, first, last - drawn more often), 0..2 arguments; receivers as literals or as data. Expected: per pass the reference contract's result for that pass's receiver, or the render fails at the first receiver without such a function. Non-trivial: >= 2 distinct receiver types. Distinct by hash of the case.")
	defer c.Finish()
	shared := []string{"len", "reverse", "contains", "abs", "str", "decimal", "int", "float", "first", "last", "at", "upper", "join"}
	runRapid(t, c, 6000, 70000, func(rt *rapid.T) {
		n := rapid.IntRange(2, 4).Draw(rt, "nReceivers")
		form := rapid.SampledFrom([]string{"for-index", "for-index", "each-property", "ternary"}).Draw(rt, "form")
		if form == "ternary" {
			n = 2
		}
		fn := rapid.SampledFrom(shared).Draw(rt, "sharedFn")
		if rapid.IntRange(0, 3).Draw(rt, "anyFn") == 0 {
			fn = rapid.SampledFrom(allBuiltinNames).Draw(rt, "fn")
		}
		var args []V
		switch fn {
		case "contains":
			args = []V{rapid.SampledFrom(append(c11StrArgs(), c11AnyArgs()...)).Draw(rt, "carg")}
		case "at", "repeat", "truncate", "slice":
			args = []V{refint.IntV(int64(rapid.IntRange(-1, 3).Draw(rt, "iarg")))}
		case "join", "split", "trim":
			if rapid.Bool().Draw(rt, "withArg") {
				args = []V{rapid.SampledFrom(c11StrArgs()).Draw(rt, "sarg")}
			}
		case "append", "prepend", "then":
			args = []V{rapid.SampledFrom(c11AnyArgs()).Draw(rt, "aarg")}
		}
		var recvs []V
		kinds := map[refint.Kind]bool{}
		for i := 0; i < n; i++ {
			var r V
			// mostly receivers for which the contract says something about this call
			for try := 0; try < 8; try++ {
				switch rapid.IntRange(0, 9).Draw(rt, "recvKind") {
				case 0, 1, 2:
					r = refint.StrV(rapid.SampledFrom(c11Strings).Draw(rt, "str"))
				case 3, 4, 5:
					r = rapid.SampledFrom(c11Arrays()).Draw(rt, "arr")
				case 6, 7:
					r = refint.IntV(rapid.SampledFrom(interestingInts).Draw(rt, "int"))
				case 8:
					r = refint.FloatV(rapid.SampledFrom(interestingFloats).Draw(rt, "float"))
				default:
					r = rapid.SampledFrom([]V{refint.BoolV(true), refint.BoolV(false), refint.NilV()}).Draw(rt, "other")
				}
				if ref := refBuiltin(r, fn, args); ref.St != refint.Unspec && (ref.St == refint.Err || ref.V.K != refint.KFloat && ref.V.K != refint.KObj) {
					break
				}
			}
			recvs = append(recvs, r)
			kinds[r.K] = true
		}
		cs := siteCase{Fn: fn, Args: mj(args...), Form: form, AsData: rapid.Bool().Draw(rt, "asData")}
		safe := true
		for _, r := range recvs {
			cs.Recvs = append(cs.Recvs, toModelJSON(r))
			safe = safe && literalSafe(r)
		}
		for _, a := range args {
			safe = safe && literalSafe(a)
		}
		if !safe {
			rt.Skip("argument not writable as a literal")
		}
		nt := len(kinds) >= 2
		st, f := c11Site(c, cs)
		c.Case(nt, mustJSON(cs), "form:"+form, fmt.Sprintf("receiver-types:%d", len(kinds)), "fn:"+fn, "expected:"+st)
		if nt {
			c.Sample(cs)
		}
		if f != "" {
			c.Fail(rt, kindOf(f), cs, "per pass the contract's result for that pass's receiver", f, f)
		}
	})
}
