package checks

import (
	"fmt"
	"strings"

	"pgregory.net/rapid"
	"verif/lib/refint"
	"verif/lib/spec"
	"verif/lib/tw"
)

// progGen generates statement-level programs (branches, loops, assignments,
// reads) whose expected rendering the reference interpreter computes. Bodies
// carry unique markers so that the output identifies the path taken.
type progGen struct {
	rt     *rapid.T
	env    *dataEnv
	eg     *exprGen
	marker int
	// static view of what is visible, to keep most programs well typed
	scopes    []map[string]refint.Kind
	loopDepth int
	eachBody  bool // directly inside an @each body (loop.* is specified there)
	// weights (0..10) of statement families
	wIf, wLoop, wAssign, wCtl int
	fewFailures               bool
	// component files generated on the way (nil: no component uses)
	comps  refint.Files
	wComp  int
	inComp bool // inside a component file or slot body: no further uses (only uses written in a page are in the domain)
	// layout mode (non-nil): the block being generated is a layout file; reserves are
	// emitted at any nesting position and the insert that fills each is generated on
	// the spot - its body runs in the layout's block at the reserve's place
	inserts  []*tw.Stmt
	wReserve int
	inUse    int // inside a component use (file or slot body): no reserves there
	// what the program contains, for non-triviality rules
	Feat map[string]int
}

func newProgGen(rt *rapid.T, env *dataEnv) *progGen {
	g := &progGen{rt: rt, env: env, Feat: map[string]int{}, wIf: 3, wLoop: 3, wAssign: 3, wCtl: 3}
	g.eg = &exprGen{env: env, locals: map[refint.Kind][]string{}}
	g.scopes = []map[string]refint.Kind{{}}
	return g
}

func (g *progGen) push() { g.scopes = append(g.scopes, map[string]refint.Kind{}) }
func (g *progGen) pop() {
	g.scopes = g.scopes[:len(g.scopes)-1]
	g.sync()
}
func (g *progGen) bind(name string, k refint.Kind) {
	g.scopes[len(g.scopes)-1][name] = k
	g.sync()
}

// sync rebuilds the expression generator's view of local names.
func (g *progGen) sync() {
	loc := map[refint.Kind][]string{}
	seen := map[string]bool{}
	for i := len(g.scopes) - 1; i >= 0; i-- {
		for n, k := range g.scopes[i] {
			if !seen[n] {
				seen[n] = true
				loc[k] = append(loc[k], n)
			}
		}
	}
	for _, names := range loc {
		sortStrings(names)
	}
	g.eg.locals = loc
}

func sortStrings(s []string) {
	for i := 1; i < len(s); i++ {
		for j := i; j > 0 && s[j] < s[j-1]; j-- {
			s[j], s[j-1] = s[j-1], s[j]
		}
	}
}

func (g *progGen) visibleKind(name string) (refint.Kind, bool) {
	for i := len(g.scopes) - 1; i >= 0; i-- {
		if k, ok := g.scopes[i][name]; ok {
			return k, true
		}
	}
	if g.env != nil {
		if v, ok := g.env.Model[name]; ok {
			return v.K, true
		}
	}
	return 0, false
}

func (g *progGen) mark() *tw.Stmt {
	g.marker++
	// one marker in six starts with a parenthesis or a quote: text directly
	// after @else/@end/@break/@continue or a header's ")" must stay text
	switch rapid.IntRange(0, 11).Draw(g.rt, "markerForm") {
	case 0:
		return tw.Text(fmt.Sprintf("(%d)", g.marker))
	case 1:
		return tw.Text(fmt.Sprintf("(m%d, x)", g.marker))
	}
	return tw.Text(fmt.Sprintf("<%d>", g.marker))
}

// ---------------------------------------------------------------- conditions

// condTable: one literal spelling per (type, truthiness).
func condLiterals() []*tw.Expr {
	return []*tw.Expr{
		// values produced by built-ins (fresh objects, not the evaluator's own constants)
		tw.Call(tw.Arr(intLit(1), intLit(2)), "contains", intLit(3)), tw.Call(tw.Arr(intLit(1), intLit(2)), "contains", intLit(2)),
		tw.Call(tw.Str("abc"), "contains", tw.Str("z")), tw.Call(tw.Str("abc"), "contains", tw.Str("b")),
		tw.Call(tw.Bool(false), "then", intLit(1)), tw.Call(tw.Bool(true), "then", tw.Str("")), tw.Call(tw.Bool(false), "then", intLit(1), intLit(0)),
		tw.Call(tw.Str(""), "len"), tw.Call(tw.Arr(), "len"), tw.Call(intLit(0), "float"), tw.Call(floatLit(0.4), "int"),
		tw.Bool(false), tw.Bool(true), tw.Nil(), intLit(0), intLit(1), intLit(-1), floatLit(0.0), floatLit(0.5),
		tw.Str(""), tw.Str("0"), tw.Str("a"), tw.Arr(), tw.Arr(intLit(0)), tw.Obj(nil, nil), tw.Obj([]string{"a"}, []*tw.Expr{intLit(1)}),
	}
}

var failingConds = []func() *tw.Expr{
	func() *tw.Expr { return tw.Var("zzUnknown") },
	func() *tw.Expr { return tw.Bin("/", intLit(1), intLit(0)) },
	func() *tw.Expr { return tw.Bin("+", intLit(1), tw.Str("a")) },
	func() *tw.Expr { return tw.Bin("%", intLit(1), intLit(0)) },
	func() *tw.Expr { return tw.Dot(tw.Obj([]string{"a"}, []*tw.Expr{intLit(1)}), "zz") },
}

// cond returns a condition; failing says that evaluating it is an error.
func (g *progGen) cond() (e *tw.Expr, failing bool) {
	form := rapid.IntRange(0, 9).Draw(g.rt, "condForm")
	if form == 0 && g.fewFailures && rapid.IntRange(0, 4).Draw(g.rt, "reallyFail") > 0 {
		form = 5
	}
	switch form {
	case 0:
		g.Feat["failing-cond"]++
		return failingConds[rapid.IntRange(0, len(failingConds)-1).Draw(g.rt, "fc")](), true
	case 1, 2, 3:
		g.Feat["nonbool-cond"]++
		return rapid.SampledFrom(condLiterals()).Draw(g.rt, "condLit"), false
	case 4:
		// data-supplied values of every kind
		if g.env != nil {
			names := []string{"i1", "f1", "s1", "b1", "ai", "om", "st", "nv", "ea", "eo", "np"}
			var have []string
			for _, n := range names {
				if _, ok := g.env.Model[n]; ok {
					have = append(have, n)
				}
			}
			if len(have) > 0 {
				g.Feat["data-cond"]++
				return tw.Var(rapid.SampledFrom(have).Draw(g.rt, "condVar")), false
			}
		}
		return tw.Bool(rapid.Bool().Draw(g.rt, "cb")), false
	case 5, 6:
		return tw.Bool(rapid.Bool().Draw(g.rt, "cb")), false
	default:
		return g.eg.cond(g.rt, 2), false
	}
}

// ---------------------------------------------------------------- statements

// postfixOnVariable: v++ / v-- on a visible number prints the stepped value and leaves v (and
// every other name that holds the same value) as it is, which the read that follows shows.
func (g *progGen) postfixOnVariable() []*tw.Stmt {
	if rapid.IntRange(0, 7).Draw(g.rt, "postfixOnVariable") != 0 {
		return nil
	}
	var nums []string
	nums = append(nums, g.eg.vars(refint.KFloat)...)
	nums = append(nums, g.eg.vars(refint.KFloat)...)
	nums = append(nums, g.eg.vars(refint.KInt)...)
	if len(nums) == 0 {
		return nil
	}
	g.Feat["postfix-on-variable"]++
	v := rapid.SampledFrom(nums).Draw(g.rt, "pfVar")
	op := rapid.SampledFrom([]string{tw.EInc, tw.EDec}).Draw(g.rt, "pfOp")
	zero := intLit(0)
	if k, _ := g.visibleKind(v); k == refint.KFloat {
		zero = floatLit(0)
	}
	// (only truth values are printed: a float inside other text has no pinned-down spelling)
	before := fmt.Sprintf("zzB%d", g.marker)
	g.marker++
	stepped := tw.Print(tw.Bin("==", tw.Un(op, tw.Var(v)), tw.Var(v)))
	out := []*tw.Stmt{tw.Assign(before, tw.Bin("+", tw.Var(v), zero)), tw.Text("<"), stepped}
	if rapid.Bool().Draw(g.rt, "pfInBlock") {
		// ... also when the step happens in a nested block
		out = []*tw.Stmt{tw.Assign(before, tw.Bin("+", tw.Var(v), zero)), tw.Text("<"), {Kind: tw.SIf, Branches: []tw.Branch{{Cond: tw.Bool(true), Body: []*tw.Stmt{stepped}}}}}
	}
	return append(out, tw.Text("|"), tw.Print(tw.Bin("==", tw.Var(v), tw.Var(before))), tw.Text(">"))
}

func (g *progGen) printable() *tw.Expr {
	k := rapid.SampledFrom([]refint.Kind{refint.KInt, refint.KInt, refint.KStr, refint.KBool}).Draw(g.rt, "pk")
	return g.eg.gen(g.rt, k, rapid.IntRange(0, 2).Draw(g.rt, "pdepth"))
}

// (A and B: names that differ from a and b only in the case of the first letter are different names)
// (... and names may be long: 63, 64 and 200 bytes)
var assignNames = []string{"a", "b", "c", "A", "B", "n" + strings.Repeat("x", 62), "n" + strings.Repeat("y", 63), "long_" + strings.Repeat("name_", 39)}

func (g *progGen) literalOf(k refint.Kind) *tw.Expr {
	switch k {
	case refint.KInt:
		return intLit(int64(rapid.IntRange(0, 9).Draw(g.rt, "li")))
	case refint.KFloat:
		return floatLit(rapid.SampledFrom([]float64{0.5, 1.5, 2.25}).Draw(g.rt, "lf"))
	case refint.KStr:
		return tw.Str(rapid.SampledFrom([]string{"x", "yy", ""}).Draw(g.rt, "ls"))
	case refint.KBool:
		return tw.Bool(rapid.Bool().Draw(g.rt, "lb"))
	case refint.KArr:
		return tw.Arr(intLit(1))
	case refint.KObj:
		return tw.Obj([]string{"k"}, []*tw.Expr{intLit(1)})
	}
	return tw.Nil()
}

func (g *progGen) assign() *tw.Stmt {
	name := rapid.SampledFrom(assignNames).Draw(g.rt, "aname")
	if rapid.IntRange(0, 30).Draw(g.rt, "assignLoop") == 0 && (g.comps == nil || rapid.IntRange(0, 4).Draw(g.rt, "assignLoop2") == 0) {
		name = "loop"
		g.Feat["assign-loop"]++
	}
	old, visible := g.visibleKind(name)
	k := rapid.SampledFrom([]refint.Kind{refint.KInt, refint.KInt, refint.KStr, refint.KBool, refint.KFloat, refint.KArr, refint.KObj, refint.KNil}).Draw(g.rt, "akind")
	if visible && rapid.IntRange(0, 4).Draw(g.rt, "keepType") > 0 {
		k = old
	}
	if visible && k != old {
		g.Feat["type-collision"]++
	}
	var val *tw.Expr
	if (k == refint.KInt || k == refint.KStr || k == refint.KBool) && rapid.Bool().Draw(g.rt, "exprValue") {
		val = g.eg.gen(g.rt, k, 1)
	} else {
		val = g.literalOf(k)
	}
	if len(g.scopes) > 1 {
		g.Feat["nested-assign"]++
		if visible {
			g.Feat["nested-assign-to-visible"]++
		}
	}
	if name != "loop" && (!visible || k == old) {
		g.bind(name, k)
	}
	return tw.Assign(name, val)
}

// compStmt generates a component use together with its file: the file is a
// block of its own (arguments bound in it, the caller's names visible), a slot
// body is a block at the placeholder's position.
func (g *progGen) compStmt(depth int) *tw.Stmt {
	name := fmt.Sprintf("k%d", len(g.comps))
	g.comps[name] = []*tw.Stmt{}
	st := &tw.Stmt{Kind: tw.SComponent, Name: name}
	g.Feat["component"]++
	loopDepth, eachBody := g.loopDepth, g.eachBody
	g.loopDepth, g.eachBody, g.inComp = 0, false, true
	g.inUse++
	defer func() { g.inUse-- }()
	var keys []string
	var vals []*tw.Expr
	kinds := map[string]refint.Kind{}
	for _, a := range assignNames {
		if rapid.IntRange(0, 3).Draw(g.rt, "passArg") != 0 {
			continue
		}
		old, visible := g.visibleKind(a)
		k := rapid.SampledFrom([]refint.Kind{refint.KInt, refint.KStr, refint.KBool, refint.KArr}).Draw(g.rt, "argKind")
		if visible {
			g.Feat["arg-named-like-visible"]++
			if rapid.IntRange(0, 6).Draw(g.rt, "argKeepType") > 0 {
				k = old
			}
		}
		keys = append(keys, a)
		val := g.literalOf(k)
		// an argument's value may name the caller's variables - also ones that are keys of this argument object
		for _, other := range assignNames {
			if ok2, vis := g.visibleKind(other); vis && ok2 == k && other != a && rapid.IntRange(0, 3).Draw(g.rt, "argFromName") == 0 {
				val = tw.Var(other)
				break
			}
		}
		vals = append(vals, val)
		kinds[a] = k
	}
	if rapid.IntRange(0, 19).Draw(g.rt, "argNamedLoop") == 0 {
		// the reserved name as an argument: it can be supplied this way no more than any other
		at := rapid.IntRange(0, len(keys)).Draw(g.rt, "argNamedLoopAt")
		keys = append(keys[:at], append([]string{"loop"}, keys[at:]...)...)
		vals = append(vals[:at], append([]*tw.Expr{g.literalOf(rapid.SampledFrom([]refint.Kind{refint.KInt, refint.KStr, refint.KObj, refint.KNil}).Draw(g.rt, "argNamedLoopKind"))}, vals[at:]...)...)
		g.Feat["arg-named-loop"]++
	}
	if len(keys) > 0 || rapid.Bool().Draw(g.rt, "emptyArgObj") {
		st.Arg = tw.Obj(keys, vals)
	}
	g.push()
	for a, k := range kinds {
		if old, visible := g.visibleKind(a); !visible || old == k {
			g.scopes[len(g.scopes)-1][a] = k
		}
	}
	g.sync()
	body := append([]*tw.Stmt{tw.Text("<" + name + ">")}, g.block(depth-1, false)...)
	if rapid.Bool().Draw(g.rt, "withSlot") {
		body = append(body, &tw.Stmt{Kind: tw.SSlot, Name: ""})
		if rapid.IntRange(0, 3).Draw(g.rt, "passSlot") > 0 {
			g.push()
			g.inComp = depth < 2 // a use inside a slot body is written in the page
			sb := g.block(depth-1, false)
			g.inComp = true
			g.pop()
			if len(sb) > 0 && sb[0].Kind == tw.SText && strings.HasPrefix(sb[0].Text, "(") {
				// "@slot(" would open a slot name
				sb = append([]*tw.Stmt{tw.Text("~")}, sb...)
			}
			g.Feat["slot-body"]++
			st.Slots = append(st.Slots, &tw.Stmt{Kind: tw.SSlot, Name: "", Body: sb, Text: rapid.SampledFrom([]string{"\n", " ", "", "\r\n", "\t"}).Draw(g.rt, "slotWs")})
			st.Text = rapid.SampledFrom([]string{"\n", "", " ", "\r\n"}).Draw(g.rt, "endWs")
		}
		rest := g.block(depth-1, false)
		if len(rest) > 0 && rest[0].Kind == tw.SText && strings.HasPrefix(rest[0].Text, "(") {
			rest = append([]*tw.Stmt{tw.Text("~")}, rest...)
		}
		body = append(body, rest...)
	}
	body = append(body, tw.Text("</"+name+">"))
	g.pop()
	g.loopDepth, g.eachBody, g.inComp = loopDepth, eachBody, false
	g.comps[name] = body
	return st
}

// reserveStmt emits @reserve("rN") and generates what the page inserts there:
// a block body (generated as if it stood at this place of the layout: it is
// evaluated in the block that holds the reserve), an expression, or nothing.
func (g *progGen) reserveStmt(depth int) []*tw.Stmt {
	name := fmt.Sprintf("r%d", g.Feat["reserve"])
	g.Feat["reserve"]++
	if len(g.scopes) > 1 {
		g.Feat["reserve-nested"]++
	}
	res := &tw.Stmt{Kind: tw.SReserve, Name: name}
	switch rapid.IntRange(0, 7).Draw(g.rt, "insertForm") {
	case 0:
		g.Feat["reserve-not-inserted"]++
	case 1:
		g.inserts = append(g.inserts, &tw.Stmt{Kind: tw.SInsert, Name: name, E: g.printable()})
	default:
		loopDepth := g.loopDepth
		g.loopDepth = 0 // control directives of an insert reaching the layout's loops: not generated
		wr, wc := g.wReserve, g.wComp
		g.wReserve, g.wComp = 0, 2 // a use written in the page (uses written in a layout file are not in the domain)
		before := g.Feat["nested-assign"]
		body := g.block(max(depth-1, 0), false)
		if rapid.Bool().Draw(g.rt, "insertAssigns") {
			// (not to the variable of a @for whose body holds the reserve: the insert runs in that body,
			// and a loop whose variable is set back in every pass never ends)
			if st := g.assign(); st.Name != avoidAssign {
				body = append(body, st)
			} else {
				body = append(body, g.read())
			}
		}
		if len(g.scopes) > 1 && g.Feat["nested-assign"] > before {
			g.Feat["insert-assigns-in-nested-block"]++
		}
		g.wReserve, g.wComp = wr, wc
		g.loopDepth = loopDepth
		g.inserts = append(g.inserts, &tw.Stmt{Kind: tw.SInsert, Name: name, Block: true, Body: body})
	}
	// the text after a reserve never starts with '(' (it would read as arguments)
	return []*tw.Stmt{res, tw.Text(";")}
}

func (g *progGen) read() *tw.Stmt {
	name := rapid.SampledFrom(assignNames).Draw(g.rt, "rname")
	if g.comps != nil && rapid.IntRange(0, 3).Draw(g.rt, "readVisible") > 0 {
		// programs with component files are long: keep most reads bound
		for _, n := range assignNames {
			if _, ok := g.visibleKind(n); ok {
				name = n
				if rapid.Bool().Draw(g.rt, "thisOne") {
					break
				}
			}
		}
	}
	if _, ok := g.visibleKind(name); !ok && g.comps != nil && rapid.IntRange(0, 9).Draw(g.rt, "keepUnbound") > 0 {
		return g.mark()
	}
	g.Feat["read"]++
	if _, ok := g.visibleKind(name); !ok {
		g.Feat["read-unbound"]++
	}
	return tw.Print(tw.Var(name))
}

func (g *progGen) loopMeta() *tw.Stmt {
	f := rapid.SampledFrom([]string{"index", "iter", "first", "last"}).Draw(g.rt, "meta")
	g.Feat["loop-meta"]++
	return tw.Print(tw.Dot(tw.Var("loop"), f))
}

func (g *progGen) ifStmt(depth int) *tw.Stmt {
	st := &tw.Stmt{Kind: tw.SIf}
	nb := 1 + rapid.IntRange(0, 3).Draw(g.rt, "nElseif")
	for b := 0; b < nb; b++ {
		c, _ := g.cond()
		g.push()
		body := g.block(depth-1, true)
		g.pop()
		st.Branches = append(st.Branches, tw.Branch{Cond: c, Body: body})
	}
	if rapid.Bool().Draw(g.rt, "hasElse") {
		st.HasElse = true
		g.push()
		st.Else = g.block(depth-1, true)
		g.pop()
	}
	g.Feat["if"]++
	if nb > 1 {
		g.Feat["elseif"]++
	}
	if g.loopDepth > 0 {
		g.Feat["if-in-loop"]++
	}
	return st
}

var loopVarNames = []string{"v", "w", "a", "b"}

func (g *progGen) eachStmt(depth int) *tw.Stmt {
	name := rapid.SampledFrom(loopVarNames).Draw(g.rt, "eachVar")
	var arr *tw.Expr
	var ek refint.Kind
	n := rapid.SampledFrom([]int{0, 1, 2, 2, 3, 3, 4}).Draw(g.rt, "eachLen")
	srcKind := rapid.IntRange(0, 19).Draw(g.rt, "eachSrc")
	switch {
	case srcKind <= 1:
		srcKind = 0
	case srcKind <= 9:
		srcKind = 1
	case srcKind <= 12:
		srcKind = 4
	case srcKind <= 14:
		srcKind = 5
	case srcKind <= 17:
		srcKind = 6
	default:
		srcKind = 7
	}
	switch srcKind {
	case 0:
		// data arrays
		if g.env != nil {
			arr, ek = tw.Var("ai"), refint.KInt
			if rapid.Bool().Draw(g.rt, "strArr") {
				arr, ek = tw.Var("as"), refint.KStr
			}
			if _, has := g.env.Model["ns"]; has && rapid.IntRange(0, 3).Draw(g.rt, "nilSlice") == 0 {
				arr, ek = tw.Var("ns"), refint.KStr // a nil Go slice: an array of length 0
			}
			g.Feat["each-data-array"]++
			break
		}
		fallthrough
	case 1, 2, 3:
		ek = refint.KInt
		el := make([]*tw.Expr, n)
		for i := range el {
			el[i] = intLit(int64(rapid.IntRange(0, 9).Draw(g.rt, "el")))
		}
		arr = tw.Arr(el...)
	case 4:
		ek = refint.KStr
		el := make([]*tw.Expr, n)
		for i := range el {
			el[i] = tw.Str(rapid.SampledFrom([]string{"p", "q", "rr"}).Draw(g.rt, "els"))
		}
		arr = tw.Arr(el...)
	case 5:
		ek = refint.KBool
		el := make([]*tw.Expr, n)
		for i := range el {
			el[i] = tw.Bool(rapid.Bool().Draw(g.rt, "elb"))
		}
		arr = tw.Arr(el...)
	case 6:
		ek = refint.KObj
		el := make([]*tw.Expr, n)
		for i := range el {
			el[i] = tw.Obj([]string{"k"}, []*tw.Expr{intLit(int64(i))})
		}
		arr = tw.Arr(el...)
	default:
		// not an array: must fail
		g.Feat["each-non-array"]++
		arr = rapid.SampledFrom([]*tw.Expr{intLit(5), tw.Str("abc"), tw.Nil(), tw.Obj([]string{"k"}, []*tw.Expr{intLit(1)}), tw.Bool(true), floatLit(1.5)}).Draw(g.rt, "nonArr")
		ek = refint.KInt
	}
	if arr.Kind == tw.EArr && len(arr.Kids) >= 2 && rapid.IntRange(0, 11).Draw(g.rt, "mixedArray") == 0 {
		// a later element of another type: binding the loop variable to it re-types a name that is
		// visible outside the loop (an error), or only the variable of the earlier pass (not settled)
		at := rapid.IntRange(1, len(arr.Kids)-1).Draw(g.rt, "mixedAt")
		other := rapid.SampledFrom([]*tw.Expr{tw.Str("other"), intLit(7), tw.Bool(true), floatLit(2.5), tw.Nil(), tw.Arr(intLit(1))}).Draw(g.rt, "mixedElem")
		arr.Kids[at] = other
		g.Feat["each-mixed-array"]++
	}
	if old, vis := g.visibleKind(name); vis {
		g.Feat["loopvar-shadows"]++
		if old != ek {
			g.Feat["loopvar-type-collision"]++
		}
	}
	st := &tw.Stmt{Kind: tw.SEach, Name: name, E: arr}
	g.push()
	g.bind(name, ek)
	g.loopDepth++
	wasEach := g.eachBody
	g.eachBody = true
	st.Body = g.block(depth-1, false)
	g.eachBody = wasEach
	g.loopDepth--
	g.pop()
	if rapid.IntRange(0, 2).Draw(g.rt, "eachElse") == 0 {
		st.HasElse = true
		g.push()
		was := g.eachBody
		g.eachBody = false
		st.Else = g.block(depth-1, true)
		g.eachBody = was
		g.pop()
	}
	g.Feat["each"]++
	if g.loopDepth > 0 {
		g.Feat["nested-loop"]++
	}
	return st
}

// forNoInit generates a @for without an init clause: no loop variable, the loop
// is a block all the same. Termination by construction: a false condition, a
// @break that ends the first pass, or a visible integer stepped by the post clause.
func (g *progGen) forNoInit(depth int) []*tw.Stmt {
	st := &tw.Stmt{Kind: tw.SFor}
	var pre []*tw.Stmt
	g.Feat["for-no-init"]++
	body := func(avoid string) []*tw.Stmt {
		g.push()
		g.loopDepth++
		wasEach := g.eachBody
		g.eachBody = false
		b := g.blockAvoiding(depth-1, avoid)
		g.eachBody = wasEach
		g.loopDepth--
		g.pop()
		return b
	}
	var counters []string
	for _, n := range assignNames {
		if k, ok := g.visibleKind(n); ok && k == refint.KInt {
			counters = append(counters, n)
		}
	}
	form := rapid.IntRange(0, 2).Draw(g.rt, "noInitForm")
	if form == 2 && len(counters) == 0 {
		form = 1
	}
	switch form {
	case 0: // never entered
		st.Cond = rapid.SampledFrom([]*tw.Expr{tw.Bool(false), tw.Bin("<", intLit(2), intLit(1)), tw.Nil()}).Draw(g.rt, "falseCond")
		st.Body = body("")
	case 1: // one pass, ended by @break; condition absent or true
		if rapid.Bool().Draw(g.rt, "condPresent") {
			st.Cond = tw.Bool(true)
		}
		// no @continue in this body: the @break at its end must be reached
		wCtl := g.wCtl
		g.wCtl = 0
		st.Body = append(body(""), &tw.Stmt{Kind: tw.SBreak})
		g.wCtl = wCtl
	default: // a visible integer counts up to a bound a few steps away (its value inside the loop only)
		n := rapid.SampledFrom(counters).Draw(g.rt, "counter")
		steps := rapid.IntRange(0, 3).Draw(g.rt, "steps")
		// bound = current value + steps, fixed before the loop in a fresh name
		bound := "lim" + fmt.Sprint(g.marker)
		g.marker++
		g.bind(bound, refint.KInt)
		pre = []*tw.Stmt{tw.Assign(bound, tw.Bin("+", tw.Var(n), intLit(int64(steps))))}
		st.Cond = tw.Bin("<", tw.Var(n), tw.Var(bound))
		st.PostName, st.Post = n, tw.Bin("+", tw.Var(n), intLit(1))
		st.Body = body(n)
	}
	if rapid.IntRange(0, 2).Draw(g.rt, "forElse") == 0 {
		st.HasElse = true
		g.push()
		st.Else = g.block(depth-1, true)
		g.pop()
	}
	g.Feat["for"]++
	return append(pre, st)
}

func (g *progGen) forStmt(depth int) []*tw.Stmt {
	if rapid.IntRange(0, 5).Draw(g.rt, "noInit") == 0 {
		return g.forNoInit(depth)
	}
	name := rapid.SampledFrom([]string{"i", "j", "a"}).Draw(g.rt, "forVar")
	a := rapid.IntRange(-3, 3).Draw(g.rt, "forFrom")
	b := rapid.IntRange(-3, 3).Draw(g.rt, "forTo")
	op := rapid.SampledFrom([]string{"<", "<=", ">", ">=", "!="}).Draw(g.rt, "forOp")
	post := tw.EInc
	switch op {
	case ">", ">=":
		post = tw.EDec
	case "!=":
		if a > b {
			post = tw.EDec
		}
	}
	if old, vis := g.visibleKind(name); vis {
		g.Feat["loopvar-shadows"]++
		if old != refint.KInt {
			g.Feat["loopvar-type-collision"]++
		}
	}
	st := &tw.Stmt{Kind: tw.SFor, Name: name, Init: intLit(int64(a)), Cond: tw.Bin(op, tw.Var(name), intLit(int64(b))), Post: tw.Un(post, tw.Var(name))}
	if op != "!=" && rapid.IntRange(0, 3).Draw(g.rt, "assignPost") == 0 {
		// the post clause written as an assignment, stepping by 1..3
		step := int64(rapid.IntRange(1, 3).Draw(g.rt, "step"))
		bop := "+"
		if post == tw.EDec {
			bop = "-"
		}
		st.PostName, st.Post = name, tw.Bin(bop, tw.Var(name), intLit(step))
		if rapid.Bool().Draw(g.rt, "plainStep") {
			st.PostName = "" // "i + 2": the value of the post clause becomes the variable
		}
		g.Feat["for-step"]++
	}
	// a fault in one of the clauses fails the render like a fault anywhere else
	if rapid.IntRange(0, 14).Draw(g.rt, "clauseFault") == 0 {
		bad := rapid.SampledFrom([]*tw.Expr{tw.Var("zzUnknown"), tw.Bin("/", intLit(1), intLit(0)), tw.Bin("+", intLit(1), tw.Str("s"))}).Draw(g.rt, "clauseFaultExpr")
		switch rapid.IntRange(0, 2).Draw(g.rt, "faultyClause") {
		case 0:
			st.Init = bad
		case 1:
			st.Cond = tw.Bin(op, tw.Var(name), bad)
			if post == tw.EInc && rapid.Bool().Draw(g.rt, "faultInLaterPass") {
				// fine at entry, division by zero when the condition is evaluated for the second pass
				st.Cond = tw.Bin("<", tw.Bin("/", intLit(0), tw.Bin("-", intLit(int64(a+1)), tw.Var(name))), intLit(1))
				st.PostName, st.Post = "", tw.Un(tw.EInc, tw.Var(name)) // step 1: the zero divisor is met
			}
		default:
			st.PostName, st.Post = "", tw.Bin("+", tw.Var(name), bad)
		}
		g.Feat["for-clause-fault"]++
	}
	stepInBody := st.PostName == "" && st.Post.Kind != tw.EBin && op != "!=" && rapid.IntRange(0, 7).Draw(g.rt, "stepInBody") == 0
	// the post clause is an assignment that must be refused: it re-types the loop variable or
	// another visible name, or names "loop" (the body steps the variable, so the loop ends anyway)
	var refusedPost *tw.Stmt
	if stepInBody && rapid.Bool().Draw(g.rt, "refusedPost") {
		target, val := name, tw.Str("s")
		switch rapid.IntRange(0, 2).Draw(g.rt, "refusedPostKind") {
		case 1:
			target, val = "loop", intLit(1)
		case 2:
			for _, k := range []refint.Kind{refint.KStr, refint.KBool, refint.KFloat} {
				if vs := g.eg.vars(k); len(vs) > 0 {
					target, val = rapid.SampledFrom(vs).Draw(g.rt, "refusedTarget"), tw.Var(name)
					break
				}
			}
		}
		refusedPost = &tw.Stmt{PostName: target, Post: val}
		g.Feat["for-refused-post"]++
	}
	g.push()
	g.bind(name, refint.KInt)
	g.loopDepth++
	wasEach := g.eachBody
	g.eachBody = false
	// the loop variable must not be assigned in the body (termination is by construction)
	st.Body = g.blockAvoiding(depth-1, name)
	if stepInBody {
		// no post clause: the body itself steps the variable, as its first statement
		// (a @continue further down must not skip it)
		bop := "+"
		if post == tw.EDec {
			bop = "-"
		}
		st.Post = nil
		if refusedPost != nil {
			st.PostName, st.Post = refusedPost.PostName, refusedPost.Post
		}
		st.Body = append([]*tw.Stmt{tw.Assign(name, tw.Bin(bop, tw.Var(name), intLit(1)))}, st.Body...)
		g.Feat["for-step-in-body"]++
	}
	g.eachBody = wasEach
	g.loopDepth--
	g.pop()
	if rapid.IntRange(0, 2).Draw(g.rt, "forElse") == 0 {
		st.HasElse = true
		g.push()
		st.Else = g.block(depth-1, true)
		g.pop()
	}
	g.Feat["for"]++
	if g.loopDepth > 0 {
		g.Feat["nested-loop"]++
	}
	return []*tw.Stmt{st}
}

func (g *progGen) ctl() *tw.Stmt {
	g.Feat["ctl"]++
	if len(g.scopes) > 2 {
		g.Feat["ctl-under-if"]++
	}
	switch rapid.IntRange(0, 5).Draw(g.rt, "ctlKind") {
	case 0:
		return &tw.Stmt{Kind: tw.SBreak}
	case 1:
		return &tw.Stmt{Kind: tw.SContinue}
	case 2, 3:
		return &tw.Stmt{Kind: tw.SBreakIf, E: g.ctlCond()}
	default:
		return &tw.Stmt{Kind: tw.SContinueIf, E: g.ctlCond()}
	}
}

// ctlCond depends on the position in the loop when possible.
func (g *progGen) ctlCond() *tw.Expr {
	if g.eachBody && rapid.Bool().Draw(g.rt, "metaCond") {
		return rapid.SampledFrom([]*tw.Expr{
			tw.Bin("==", tw.Dot(tw.Var("loop"), "index"), intLit(1)), tw.Dot(tw.Var("loop"), "first"), tw.Dot(tw.Var("loop"), "last"),
			tw.Bin(">", tw.Dot(tw.Var("loop"), "iter"), intLit(2)), tw.Bin("==", tw.Dot(tw.Var("loop"), "index"), intLit(0)),
		}).Draw(g.rt, "metaCondForm")
	}
	ints := g.eg.vars(refint.KInt)
	if len(ints) > 0 && rapid.Bool().Draw(g.rt, "varCond") {
		return tw.Bin(rapid.SampledFrom([]string{"==", ">", "<"}).Draw(g.rt, "vcop"), tw.Var(rapid.SampledFrom(ints).Draw(g.rt, "vcv")), intLit(int64(rapid.IntRange(-1, 3).Draw(g.rt, "vcn"))))
	}
	c, _ := g.cond()
	return c
}

var avoidAssign string

func (g *progGen) blockAvoiding(depth int, name string) []*tw.Stmt {
	old := avoidAssign
	avoidAssign = name
	defer func() { avoidAssign = old }()
	return g.block(depth, false)
}

// block generates a statement list. afterCtlSafe: whether the block is a
// branch body (control directives allowed when inside a loop).
func (g *progGen) block(depth int, _ bool) []*tw.Stmt {
	n := rapid.IntRange(0, 4).Draw(g.rt, "blockLen")
	out := []*tw.Stmt{}
	if n == 0 {
		g.Feat["empty-body"]++
	}
	for i := 0; i < n; i++ {
		wCtl := g.wCtl
		if g.loopDepth > 0 {
			wCtl *= 2
		}
		total := 4 + g.wIf + g.wLoop + g.wAssign + wCtl
		if g.comps != nil && depth > 0 && !g.inComp {
			total += g.wComp
		}
		if g.wReserve > 0 && g.inUse == 0 && rapid.IntRange(0, 19).Draw(g.rt, "reserveHere") < g.wReserve {
			out = append(out, g.reserveStmt(depth)...)
			continue
		}
		x := rapid.IntRange(0, total-1).Draw(g.rt, "stmtFamily")
		switch {
		case x >= 4+g.wIf+g.wLoop+g.wAssign+wCtl:
			out = append(out, g.compStmt(depth), tw.Text(";"))
		case x < 2:
			out = append(out, g.mark())
		case x < 3:
			if st := g.postfixOnVariable(); st != nil {
				out = append(out, st...)
				break
			}
			out = append(out, tw.Print(g.printable()))
		case x < 4:
			if g.eachBody {
				out = append(out, g.loopMeta())
			} else {
				out = append(out, g.mark())
			}
		case x < 4+g.wIf:
			if depth > 0 {
				out = append(out, g.ifStmt(depth))
			} else {
				out = append(out, g.mark())
			}
		case x < 4+g.wIf+g.wLoop:
			if depth > 0 {
				if rapid.IntRange(0, 2).Draw(g.rt, "loopKind") == 0 {
					out = append(out, g.forStmt(depth)...)
				} else {
					out = append(out, g.eachStmt(depth))
				}
			} else {
				out = append(out, g.mark())
			}
		case x < 4+g.wIf+g.wLoop+g.wAssign:
			if rapid.Bool().Draw(g.rt, "assignOrRead") {
				st := g.assign()
				if st.Name == avoidAssign {
					out = append(out, g.read())
				} else {
					out = append(out, st)
				}
			} else {
				out = append(out, g.read())
			}
		default:
			if g.loopDepth > 0 {
				out = append(out, g.ctl(), g.mark())
			} else {
				out = append(out, g.mark())
			}
		}
	}
	return out
}

// genProgEnv draws a data environment for statement-level programs: the usual
// variables plus empty containers, a nil pointer, and optionally pre-bound
// assignable names.
func genProgEnv() *rapid.Generator[*dataEnv] {
	return rapid.Custom(func(rt *rapid.T) *dataEnv {
		e := genDataEnv().Draw(rt, "base")
		e.add("ea", spec.Slice(spec.T(spec.TInt)))
		e.add("ns", &spec.Value{T: spec.SliceOf(spec.T(spec.TString)), Nil: true}) // a nil Go slice is an empty array
		e.add("eo", spec.Map(spec.T(spec.TInt), nil, nil))
		e.add("np", spec.NilPtr(spec.T(spec.TInt)))
		for _, n := range assignNames {
			switch rapid.IntRange(0, 5).Draw(rt, "prebind") {
			case 0:
				e.add(n, spec.IntOf(spec.TInt, int64(rapid.IntRange(0, 9).Draw(rt, "pbi"))))
			case 1:
				e.add(n, spec.String("pre"+n))
			}
		}
		return e
	})
}
