package checks

import (
	"fmt"
	"math"
	"strconv"
	"strings"

	"pgregory.net/rapid"
	"verif/lib/refint"
	"verif/lib/spec"
	"verif/lib/tw"
)

// ---------------------------------------------------------------- data environments

// dataEnv is a generated data map plus what the generators need to know about
// it: which names have which template-level kind.
type dataEnv struct {
	D      *spec.Data
	ByKind map[refint.Kind][]string // variable names by kind
	Model  map[string]refint.Value
}

func (e *dataEnv) add(name string, v *spec.Value) {
	e.D.Add(name, v)
	m, _ := spec.Model(v)
	e.Model[name] = m
	e.ByKind[m.K] = append(e.ByKind[m.K], name)
}

var interestingInts = []int64{0, 1, -1, 2, 3, 5, 7, 10, -7, 100, 255, 256, 1 << 31, -(1 << 31), math.MaxInt64, math.MinInt64, math.MaxInt64 - 1, 1 << 62}
var interestingFloats = []float64{0, 0.5, 1.5, -1.5, 2.25, 0.1, 3.0, 7.5, 4.4, 1e10, -0.5, 100.25, 1e-3}

// the last four hold character references: in a literal and in data they are ordinary characters
var plainStrings = []string{"", "a", "b", "ab", "x y", "0", "é", "日本", "A1", "hello", "q'q", "it\"s", "&lt;", "&amp;", "a&#65;b", "&copy"}

func genIntValue() *rapid.Generator[*spec.Value] {
	return rapid.Custom(func(rt *rapid.T) *spec.Value {
		kind := rapid.SampledFrom(spec.IntKinds).Draw(rt, "intKind")
		var v int64
		if rapid.Bool().Draw(rt, "interesting") {
			v = rapid.SampledFrom(interestingInts).Draw(rt, "iv")
		} else {
			v = rapid.Int64Range(-50, 50).Draw(rt, "iv")
		}
		return spec.IntOf(kind, clampInt(kind, v))
	})
}

// clampInt brings v into the range of the Go type (unsigned types stay within
// the int64 range, which is the property's domain).
func clampInt(kind string, v int64) int64 {
	lo, hi := int64(math.MinInt64), int64(math.MaxInt64)
	switch kind {
	case spec.TInt8:
		lo, hi = math.MinInt8, math.MaxInt8
	case spec.TInt16:
		lo, hi = math.MinInt16, math.MaxInt16
	case spec.TInt32:
		lo, hi = math.MinInt32, math.MaxInt32
	case spec.TUint8:
		lo, hi = 0, math.MaxUint8
	case spec.TUint16:
		lo, hi = 0, math.MaxUint16
	case spec.TUint32:
		lo, hi = 0, math.MaxUint32
	case spec.TUint, spec.TUint64:
		lo = 0
	}
	if v < lo {
		if v == math.MinInt64 {
			return lo
		}
		v = -v
		if v < lo {
			return lo
		}
	}
	if v > hi {
		return hi
	}
	return v
}

func genFloatValue() *rapid.Generator[*spec.Value] {
	return rapid.Custom(func(rt *rapid.T) *spec.Value {
		f := rapid.SampledFrom(interestingFloats).Draw(rt, "fv")
		if rapid.IntRange(0, 9).Draw(rt, "specialFloat") == 0 {
			// IEEE-754 specials: every ordered comparison with NaN is false, != is true
			f = rapid.SampledFrom([]float64{math.NaN(), math.Inf(1), math.Inf(-1), negZero()}).Draw(rt, "special")
		}
		if rapid.IntRange(0, 3).Draw(rt, "f32") == 0 {
			return spec.Float32(float32(f))
		}
		return spec.Float64(f)
	})
}

// genDataEnv draws a data map with a few variables of every kind.
func genDataEnv() *rapid.Generator[*dataEnv] {
	return rapid.Custom(func(rt *rapid.T) *dataEnv {
		e := &dataEnv{D: &spec.Data{}, ByKind: map[refint.Kind][]string{}, Model: map[string]refint.Value{}}
		e.add("i1", genIntValue().Draw(rt, "i1"))
		e.add("i2", genIntValue().Draw(rt, "i2"))
		e.add("f1", genFloatValue().Draw(rt, "f1"))
		e.add("s1", spec.String(rapid.SampledFrom(plainStrings).Draw(rt, "s1")))
		e.add("b1", spec.Bool(rapid.Bool().Draw(rt, "b1")))
		// (a key of the data map may be long)
		e.add("i_"+strings.Repeat("k", 64), spec.IntOf(spec.TInt, int64(rapid.IntRange(-5, 5).Draw(rt, "iLong"))))
		if rapid.IntRange(0, 3).Draw(rt, "keywordLikeNames") == 0 {
			// words of the language in another letter case are ordinary variable names
			e.add("True", spec.IntOf(spec.TInt, int64(rapid.IntRange(2, 9).Draw(rt, "vTrue"))))
			e.add("NIL", spec.String(rapid.SampledFrom(plainStrings).Draw(rt, "vNIL")))
			e.add("In", spec.Bool(rapid.Bool().Draw(rt, "vIn")))
		}
		if rapid.Bool().Draw(rt, "more") {
			e.add("i3", genIntValue().Draw(rt, "i3"))
			e.add("f2", genFloatValue().Draw(rt, "f2"))
			e.add("s2", spec.String(rapid.SampledFrom(plainStrings).Draw(rt, "s2")))
			e.add("b2", spec.Bool(rapid.Bool().Draw(rt, "b2")))
			e.add("nv", spec.NilAny())
		}
		// an int slice, a string slice, a map and a struct
		n := rapid.IntRange(0, 4).Draw(rt, "ailen")
		items := make([]*spec.Value, n)
		for i := range items {
			items[i] = spec.IntOf(spec.TInt, rapid.Int64Range(-9, 9).Draw(rt, "ai"))
		}
		e.add("ai", spec.Slice(spec.T(spec.TInt), items...))
		e.add("as", spec.Slice(spec.T(spec.TString), spec.String("p"), spec.String("q")))
		e.add("om", spec.Map(spec.T(spec.TAny), []string{"n", "s", "inner"}, []*spec.Value{
			spec.Any(spec.IntOf(spec.TInt, rapid.Int64Range(-9, 9).Draw(rt, "omn"))),
			spec.Any(spec.String("ms")),
			spec.Any(spec.Map(spec.T(spec.TInt), []string{"k"}, []*spec.Value{spec.IntOf(spec.TInt, 4)})),
		}))
		e.add("st", spec.Struct([]string{"Num", "Name", "Ptr"}, []*spec.Value{
			spec.IntOf(spec.TInt16, rapid.Int64Range(-9, 9).Draw(rt, "stn")),
			spec.String("sn"),
			spec.Ptr(spec.Float64(2.5)),
		}))
		// one of two different struct types that print the same name ("spec.Person"), with their
		// fields in different order: what a field access gives is decided by the value's own type
		if rapid.Bool().Draw(rt, "personA") {
			e.add("pp", &spec.Value{T: spec.FixedType("PersonA"), Items: []*spec.Value{spec.String(rapid.SampledFrom(plainStrings).Draw(rt, "ppName")), spec.IntOf(spec.TInt, rapid.Int64Range(-9, 99).Draw(rt, "ppAge"))}})
		} else {
			e.add("pp", &spec.Value{T: spec.FixedType("PersonB"), Items: []*spec.Value{spec.IntOf(spec.TInt, rapid.Int64Range(-9, 99).Draw(rt, "ppAge")), spec.String(rapid.SampledFrom(plainStrings).Draw(rt, "ppName")), spec.String("m@x")}})
		}
		return e
	})
}

// ---------------------------------------------------------------- literals

func intLit(v int64) *tw.Expr {
	if v < 0 {
		if v == math.MinInt64 {
			// not writable as a literal: (-9223372036854775807 - 1)
			return tw.Bin("-", tw.Un(tw.ENeg, tw.Int(math.MaxInt64, "")), tw.Int(1, ""))
		}
		return tw.Un(tw.ENeg, tw.Int(-v, ""))
	}
	return tw.Int(v, "")
}

func floatLit(f float64) *tw.Expr {
	neg := f < 0 || (f == 0 && math.Signbit(f))
	a := math.Abs(f)
	text := strconv.FormatFloat(a, 'f', -1, 64)
	if !containsDot(text) {
		text += ".0"
	}
	e := tw.Float(a, text)
	if neg {
		return tw.Un(tw.ENeg, e)
	}
	return e
}

func containsDot(s string) bool {
	for i := 0; i < len(s); i++ {
		if s[i] == '.' {
			return true
		}
	}
	return false
}

func strLit(rt *rapid.T, s string) *tw.Expr {
	e := tw.Str(s)
	if rapid.Bool().Draw(rt, "singleQuote") {
		e.Quote = "'"
	}
	return e
}

// ---------------------------------------------------------------- typed expression generator

type exprGen struct {
	env    *dataEnv
	locals map[refint.Kind][]string // extra visible names (loop vars, assigned vars)
}

func (g *exprGen) vars(k refint.Kind) []string {
	var out []string
	if g.env != nil {
		out = append(out, g.env.ByKind[k]...)
	}
	out = append(out, g.locals[k]...)
	return out
}

func (g *exprGen) gen(rt *rapid.T, k refint.Kind, depth int) *tw.Expr {
	if depth <= 0 {
		return g.leaf(rt, k)
	}
	switch k {
	case refint.KInt:
		switch rapid.IntRange(0, 13).Draw(rt, "intForm") {
		case 0, 1:
			return g.leaf(rt, k)
		case 2:
			return tw.Un(tw.ENeg, g.gen(rt, k, depth-1))
		case 3:
			return tw.Un(rapid.SampledFrom([]string{tw.EInc, tw.EDec}).Draw(rt, "pf"), g.gen(rt, k, depth-1))
		case 4, 5, 6, 7:
			op := rapid.SampledFrom([]string{"+", "-", "*", "/", "%", "+", "-", "*"}).Draw(rt, "op")
			return tw.Bin(op, g.gen(rt, k, depth-1), g.gen(rt, k, depth-1))
		case 8:
			return tw.Tern(g.cond(rt, depth-1), g.gen(rt, k, depth-1), g.gen(rt, k, depth-1))
		case 9:
			if g.env != nil {
				if n := len(g.env.Model["ai"].Arr); n > 0 {
					return tw.Index(tw.Var("ai"), intLit(int64(rapid.IntRange(0, n-1).Draw(rt, "idx"))))
				}
			}
			return tw.Index(tw.Arr(intLit(4), g.gen(rt, k, depth-1)), intLit(int64(rapid.IntRange(0, 1).Draw(rt, "idx"))))
		case 10:
			if g.env != nil {
				return rapid.SampledFrom([]*tw.Expr{
					tw.Dot(tw.Var("om"), "n"), tw.Index(tw.Var("om"), tw.Str("n")), tw.Dot(tw.Var("st"), "Num"),
					tw.Dot(tw.Var("st"), "num"), tw.Dot(tw.Dot(tw.Var("om"), "inner"), "k"), tw.Index(tw.Dot(tw.Var("om"), "inner"), tw.Str("k")),
					tw.Dot(tw.Var("pp"), "age"), tw.Dot(tw.Var("pp"), "Age"),
				}).Draw(rt, "member")
			}
			return tw.Dot(tw.Obj([]string{"a", "b"}, []*tw.Expr{g.gen(rt, k, depth-1), tw.Str("z")}), "a")
		case 11:
			return tw.Call(g.gen(rt, refint.KStr, depth-1), "len")
		case 12:
			return tw.Call(g.gen(rt, k, depth-1), "abs")
		default:
			return tw.Call(g.gen(rt, refint.KFloat, depth-1), "int")
		}
	case refint.KFloat:
		switch rapid.IntRange(0, 9).Draw(rt, "floatForm") {
		case 0, 1:
			return g.leaf(rt, k)
		case 2:
			return tw.Un(tw.ENeg, g.gen(rt, k, depth-1))
		case 3:
			return tw.Un(rapid.SampledFrom([]string{tw.EInc, tw.EDec}).Draw(rt, "pf"), g.gen(rt, k, depth-1))
		case 4, 5, 6:
			op := rapid.SampledFrom([]string{"+", "-", "*", "/"}).Draw(rt, "op")
			return tw.Bin(op, g.gen(rt, k, depth-1), g.gen(rt, k, depth-1))
		case 7:
			return tw.Tern(g.cond(rt, depth-1), g.gen(rt, k, depth-1), g.gen(rt, k, depth-1))
		case 8:
			return tw.Call(g.gen(rt, refint.KInt, depth-1), "float")
		default:
			return tw.Call(g.gen(rt, k, depth-1), "abs")
		}
	case refint.KStr:
		switch rapid.IntRange(0, 8).Draw(rt, "strForm") {
		case 0, 1:
			return g.leaf(rt, k)
		case 2, 3, 4:
			return tw.Bin("+", g.gen(rt, k, depth-1), g.gen(rt, k, depth-1))
		case 5:
			return tw.Tern(g.cond(rt, depth-1), g.gen(rt, k, depth-1), g.gen(rt, k, depth-1))
		case 6:
			return tw.Call(g.gen(rt, refint.KInt, depth-1), "str")
		case 7:
			if g.env != nil {
				return rapid.SampledFrom([]*tw.Expr{
					tw.Dot(tw.Var("om"), "s"), tw.Dot(tw.Var("st"), "name"), tw.Index(tw.Var("as"), intLit(1)), tw.Index(tw.Var("st"), tw.Str("Name")),
					tw.Dot(tw.Var("pp"), "name"),
				}).Draw(rt, "member")
			}
			return g.leaf(rt, k)
		default:
			return tw.Call(tw.Str(rapid.SampledFrom([]string{"ab", "x", "Hi"}).Draw(rt, "up")), "upper")
		}
	case refint.KBool:
		switch rapid.IntRange(0, 9).Draw(rt, "boolForm") {
		case 0:
			return g.leaf(rt, k)
		case 1:
			return tw.Un(tw.ENot, g.gen(rt, k, depth-1))
		case 2, 3, 4, 5:
			op := rapid.SampledFrom([]string{"==", "!=", "<", ">", "<=", ">="}).Draw(rt, "cmp")
			return tw.Bin(op, g.gen(rt, refint.KInt, depth-1), g.gen(rt, refint.KInt, depth-1))
		case 6:
			op := rapid.SampledFrom([]string{"==", "!=", "<", ">", "<=", ">="}).Draw(rt, "cmp")
			return tw.Bin(op, g.gen(rt, refint.KFloat, depth-1), g.gen(rt, refint.KFloat, depth-1))
		case 7:
			op := rapid.SampledFrom([]string{"==", "!="}).Draw(rt, "eq")
			return tw.Bin(op, g.gen(rt, refint.KStr, depth-1), g.gen(rt, refint.KStr, depth-1))
		default:
			return tw.Tern(g.cond(rt, depth-1), g.gen(rt, k, depth-1), g.gen(rt, k, depth-1))
		}
	}
	return g.leaf(rt, k)
}

// cond is an expression of any kind used as a condition.
func (g *exprGen) cond(rt *rapid.T, depth int) *tw.Expr {
	k := rapid.SampledFrom([]refint.Kind{refint.KBool, refint.KBool, refint.KInt, refint.KFloat, refint.KStr, refint.KNil, refint.KArr, refint.KObj}).Draw(rt, "condKind")
	switch k {
	case refint.KNil:
		return tw.Nil()
	case refint.KArr:
		if rapid.Bool().Draw(rt, "emptyArr") {
			return tw.Arr()
		}
		return tw.Arr(intLit(0))
	case refint.KObj:
		if rapid.Bool().Draw(rt, "emptyObj") {
			return tw.Obj(nil, nil)
		}
		return tw.Obj([]string{"a"}, []*tw.Expr{intLit(0)})
	}
	return g.gen(rt, k, depth)
}

func (g *exprGen) leaf(rt *rapid.T, k refint.Kind) *tw.Expr {
	vs := g.vars(k)
	if len(vs) > 0 && rapid.IntRange(0, 2).Draw(rt, "useVar") > 0 {
		return tw.Var(rapid.SampledFrom(vs).Draw(rt, "var"))
	}
	switch k {
	case refint.KInt:
		if rapid.IntRange(0, 5).Draw(rt, "bigInt") == 0 {
			return intLit(rapid.SampledFrom(interestingInts).Draw(rt, "lit"))
		}
		if rapid.IntRange(0, 7).Draw(rt, "zeroPadded") == 0 {
			// a decimal literal may be written with leading zeros: same value (never octal)
			v := rapid.SampledFrom([]int64{0, 7, 8, 9, 10, 12, 64, 77, 100, 123, 1000}).Draw(rt, "padLit")
			return tw.Int(v, rapid.SampledFrom([]string{"0", "00", "000"}).Draw(rt, "pad")+strconv.FormatInt(v, 10))
		}
		return intLit(int64(rapid.IntRange(0, 12).Draw(rt, "lit")))
	case refint.KFloat:
		if rapid.IntRange(0, 7).Draw(rt, "zeroPaddedF") == 0 {
			f := rapid.SampledFrom([]float64{0.5, 1.5, 8.25, 10.0, 77.125}).Draw(rt, "padFlit")
			text := strconv.FormatFloat(f, 'f', -1, 64)
			if !containsDot(text) {
				text += ".0"
			}
			return tw.Float(f, rapid.SampledFrom([]string{"0", "00"}).Draw(rt, "padF")+text+rapid.SampledFrom([]string{"", "0", "00"}).Draw(rt, "padFT"))
		}
		if rapid.IntRange(0, 11).Draw(rt, "computedSpecial") == 0 {
			// NaN and the infinities cannot be written as literals, only computed
			return rapid.SampledFrom([]*tw.Expr{tw.Bin("/", floatLit(0), floatLit(0)), tw.Bin("/", floatLit(1), floatLit(0)), tw.Bin("-", tw.Bin("/", floatLit(1), floatLit(0)), tw.Bin("/", floatLit(1), floatLit(0)))}).Draw(rt, "special")
		}
		return floatLit(rapid.SampledFrom(interestingFloats).Draw(rt, "flit"))
	case refint.KStr:
		return strLit(rt, rapid.SampledFrom(plainStrings).Draw(rt, "slit"))
	case refint.KBool:
		return tw.Bool(rapid.Bool().Draw(rt, "blit"))
	}
	return tw.Nil()
}

// ---------------------------------------------------------------- faults

// injectFault replaces one node of e by a faulty construct of a listed kind
// and returns the kind's name.
func injectFault(rt *rapid.T, g *exprGen, e *tw.Expr) (*tw.Expr, string) {
	kind := rapid.SampledFrom([]string{"mixed", "div0", "mod0", "unknown-ident", "huge-literal", "unknown-func", "unknown-prop"}).Draw(rt, "fault")
	var f *tw.Expr
	switch kind {
	case "mixed":
		f = rapid.SampledFrom([]*tw.Expr{
			tw.Bin("+", intLit(1), tw.Str("a")), tw.Bin("*", floatLit(1.5), intLit(2)), tw.Bin("==", tw.Str("a"), intLit(1)),
			tw.Bin("<", intLit(1), floatLit(2.0)), tw.Bin("-", tw.Bool(true), intLit(1)), tw.Bin("+", tw.Nil(), intLit(1)),
			tw.Bin("+", tw.Str("a"), tw.Arr(intLit(1))),
		}).Draw(rt, "mixedForm")
	case "div0":
		f = tw.Bin("/", g.gen(rt, refint.KInt, 1), rapid.SampledFrom([]*tw.Expr{intLit(0), tw.Bin("-", intLit(2), intLit(2))}).Draw(rt, "zero"))
	case "mod0":
		f = tw.Bin("%", g.gen(rt, refint.KInt, 1), intLit(0))
	case "unknown-ident":
		f = tw.Var("zzUnknown")
	case "huge-literal":
		f = tw.Int(0, rapid.SampledFrom([]string{"9223372036854775808", "99999999999999999999", "18446744073709551616"}).Draw(rt, "huge"))
	case "unknown-func":
		f = tw.Call(g.gen(rt, refint.KInt, 0), "nosuchfn")
	case "unknown-prop":
		f = tw.Dot(tw.Obj([]string{"a"}, []*tw.Expr{intLit(1)}), "zz")
	}
	// the faulty construct is sometimes the index (or the base) of an index
	// expression whose other side is an empty array: both sides are evaluated
	switch rapid.IntRange(0, 9).Draw(rt, "faultPlace") {
	case 0:
		f = tw.Index(tw.Arr(), f)
		kind += "-as-index-of-empty"
	case 1:
		if g.env != nil && len(g.env.Model["ai"].Arr) == 0 && g.env.Model["ai"].K == refint.KArr {
			f = tw.Index(tw.Var("ai"), f)
			kind += "-as-index-of-empty"
		}
	}
	// choose a node on a path that is certainly evaluated (strict positions only)
	target := e
	for {
		var strict []*tw.Expr
		switch target.Kind {
		case tw.EBin, tw.ENeg, tw.ENot, tw.EInc, tw.EDec:
			strict = target.Kids
		case tw.ETern:
			strict = target.Kids[:1]
		case tw.ECall, tw.EIndex, tw.EDot:
			strict = target.Kids
		}
		if len(strict) == 0 || rapid.IntRange(0, 2).Draw(rt, "stop") == 0 {
			break
		}
		target = strict[rapid.IntRange(0, len(strict)-1).Draw(rt, "path")]
	}
	*target = *f
	return e, kind
}

// ---------------------------------------------------------------- layouts

func genLayout() *rapid.Generator[*tw.Layout] {
	return rapid.Custom(func(rt *rapid.T) *tw.Layout {
		l := &tw.Layout{Full: rapid.IntRange(0, 3).Draw(rt, "full") == 0}
		if rapid.Bool().Draw(rt, "spaced") {
			l.Seps = rapid.SliceOfN(rapid.Uint8Range(0, 9), 1, 12).Draw(rt, "seps")
		}
		return l
	})
}

// addWraps puts redundant parentheses around random nodes (never around nodes
// that must stay literal syntax such as a component argument).
func addWraps(rt *rapid.T, e *tw.Expr) {
	if e == nil {
		return
	}
	if rapid.IntRange(0, 5).Draw(rt, "wrap") == 0 {
		e.Wrap = rapid.IntRange(1, 2).Draw(rt, "wrapN")
	}
	for _, k := range e.Kids {
		addWraps(rt, k)
	}
}

func cloneExpr(e *tw.Expr) *tw.Expr {
	if e == nil {
		return nil
	}
	c := *e
	c.Kids = make([]*tw.Expr, len(e.Kids))
	for i, k := range e.Kids {
		c.Kids[i] = cloneExpr(k)
	}
	c.Keys = append([]string(nil), e.Keys...)
	return &c
}

func countOps(e *tw.Expr, kinds map[string]bool) int {
	if e == nil {
		return 0
	}
	n := 0
	switch e.Kind {
	case tw.EBin:
		kinds["bin"+fmt.Sprint(tw.OpLevel(e.Str))] = true
		n++
	case tw.ENeg, tw.ENot, tw.EInc, tw.EDec, tw.ETern, tw.EIndex, tw.EDot, tw.ECall:
		kinds[e.Kind] = true
		n++
	}
	for _, k := range e.Kids {
		n += countOps(k, kinds)
	}
	return n
}

func (e *dataEnv) String() string { return "dataEnv" + mustJSON(e.D) }

// ---------------------------------------------------------------- arbitrary data values

var nastyStrings = []string{"", "a", "é", "日本", "<b>&amp;</b>", "a\"b'c", "\xff\xfe", "a\x00b", "   ", "0", "-12", "3.5", "{{ x }}", "@if(true)", "line1\nline2", "\\"}

// genSpecValue draws a Go value of any supported type (and, when unsupported
// is true, possibly a value of an unsupported kind somewhere inside).
func genSpecValue(depth int, unsupported bool) *rapid.Generator[*spec.Value] {
	return rapid.Custom(func(rt *rapid.T) *spec.Value {
		max := 12
		if depth <= 0 {
			max = 6
		}
		if unsupported && rapid.IntRange(0, 9).Draw(rt, "unsup") == 0 {
			return spec.Unsupported(rapid.SampledFrom([]string{spec.TChan, spec.TFunc, spec.TComplex, spec.TArray, spec.TIntMap, spec.TBoolMap}).Draw(rt, "unsupKind"))
		}
		switch rapid.IntRange(0, max).Draw(rt, "valueForm") {
		case 0, 1:
			return genIntValue().Draw(rt, "int")
		case 2:
			f := rapid.SampledFrom([]float64{0, 0.5, -1.5, 2.25, 1e10, 1e-7, 3, 123456.789, math.MaxFloat64, math.SmallestNonzeroFloat64, math.Inf(1), math.Inf(-1), math.NaN(), negZero()}).Draw(rt, "float")
			if rapid.IntRange(0, 3).Draw(rt, "f32") == 0 {
				return spec.Float32(float32(f))
			}
			return spec.Float64(f)
		case 3:
			return spec.Bool(rapid.Bool().Draw(rt, "bool"))
		case 4, 5:
			return spec.BytesString([]byte(rapid.SampledFrom(nastyStrings).Draw(rt, "str")))
		case 6:
			return spec.NilAny()
		case 7:
			if rapid.IntRange(0, 2).Draw(rt, "nilPtr") == 0 {
				return spec.NilPtr(spec.T(rapid.SampledFrom([]string{spec.TInt, spec.TString, spec.TFloat64, spec.TBool}).Draw(rt, "nilPtrT")))
			}
			return spec.Ptr(genSpecValue(depth-1, unsupported).Draw(rt, "ptrElem"))
		case 8:
			n := rapid.IntRange(0, 3).Draw(rt, "sliceLen")
			items := make([]*spec.Value, n)
			for i := range items {
				items[i] = spec.Any(genSpecValue(depth-1, unsupported).Draw(rt, "sliceElem"))
				if rapid.IntRange(0, 5).Draw(rt, "nilElem") == 0 {
					items[i] = spec.NilAny()
				}
			}
			return spec.Slice(spec.T(spec.TAny), items...)
		case 9:
			// typed slice
			n := rapid.IntRange(0, 3).Draw(rt, "tsliceLen")
			first := genSpecValue(depth-1, false).Draw(rt, "tsliceFirst")
			if rapid.IntRange(0, 3).Draw(rt, "ptrElems") == 0 {
				first = spec.Ptr(first)
			}
			items := make([]*spec.Value, n)
			shared := first.T.K == spec.TPtr && !first.Nil && rapid.Bool().Draw(rt, "sharedPtr")
			if shared {
				// one Go pointer reachable from several elements (shared, not cyclic)
				first.Share = fmt.Sprintf("p%d", rapid.IntRange(0, 1<<30).Draw(rt, "shareID"))
			}
			for i := range items {
				if shared && rapid.IntRange(0, 2).Draw(rt, "sameAgain") > 0 {
					items[i] = first
					continue
				}
				items[i] = cloneSpecWithSameType(rt, first)
			}
			return spec.Slice(first.T, items...)
		case 10:
			n := rapid.IntRange(0, 3).Draw(rt, "mapLen")
			keys := rapid.SliceOfNDistinct(rapid.SampledFrom([]string{"a", "b", "Key", "k1", "", "x y", "é"}), n, n, rapid.ID[string]).Draw(rt, "mapKeys")
			vals := make([]*spec.Value, n)
			for i := range vals {
				vals[i] = spec.Any(genSpecValue(depth-1, unsupported).Draw(rt, "mapVal"))
			}
			if rapid.IntRange(0, 4).Draw(rt, "definedKeyType") == 0 {
				return spec.RoleMap(spec.T(spec.TAny), keys, vals)
			}
			return spec.Map(spec.T(spec.TAny), keys, vals)
		case 11:
			n := rapid.IntRange(0, 3).Draw(rt, "structLen")
			names := rapid.SliceOfNDistinct(rapid.SampledFrom([]string{"Name", "Age", "Items", "Inner", "X", "URL"}), n, n, rapid.ID[string]).Draw(rt, "fields")
			vals := make([]*spec.Value, n)
			for i := range vals {
				vals[i] = genSpecValue(depth-1, unsupported).Draw(rt, "fieldVal")
			}
			return spec.Struct(names, vals)
		default:
			switch rapid.IntRange(0, 8).Draw(rt, "fixed") {
			case 8:
				return &spec.Value{T: spec.FixedType("Shadowed"), Items: []*spec.Value{spec.String("alice"),
					{T: spec.FixedType("Audit"), Items: []*spec.Value{spec.String("audit-row"), spec.IntOf(spec.TInt, 7)}}, spec.IntOf(spec.TInt, 30)}}
			case 6:
				return &spec.Value{T: spec.FixedType("Money"), Items: []*spec.Value{spec.IntOf(spec.TInt64, 1250), spec.String("EUR")}}
			case 7:
				return spec.Ptr(&spec.Value{T: spec.FixedType("Stamp"), Items: []*spec.Value{spec.IntOf(spec.TInt64, 86400), spec.String("UTC")}})
			case 3:
				inner := rapid.SampledFrom([]*spec.Value{spec.NilPtr(spec.FixedType("Inner")), spec.Ptr(&spec.Value{T: spec.FixedType("Inner"), Items: []*spec.Value{spec.String("t"), spec.IntOf(spec.TInt, 1)}})}).Draw(rt, "embPtr")
				return &spec.Value{T: spec.FixedType("EmbedsPtr"), Items: []*spec.Value{inner, spec.String("lab")}}
			case 4:
				return &spec.Value{T: spec.FixedType("PersonA"), Items: []*spec.Value{spec.String("Ann"), spec.IntOf(spec.TInt, 31)}}
			case 5:
				return &spec.Value{T: spec.FixedType("PersonB"), Items: []*spec.Value{spec.IntOf(spec.TInt, 44), spec.String("Bob"), spec.String("bob@x")}}
			case 0:
				return &spec.Value{T: spec.FixedType("WithHidden"), Items: []*spec.Value{spec.String("nm"), spec.IntOf(spec.TInt, 41)}}
			case 1:
				return &spec.Value{T: spec.FixedType("Embeds"), Items: []*spec.Value{{T: spec.FixedType("Inner"), Items: []*spec.Value{spec.String("ti"), spec.IntOf(spec.TInt, 2)}}, spec.IntOf(spec.TInt, 3)}}
			default:
				one := spec.IntOf(spec.TInt, 1)
				return &spec.Value{T: spec.FixedType("PtrFields"), Items: []*spec.Value{
					rapid.SampledFrom([]*spec.Value{spec.NilPtr(spec.T(spec.TInt)), spec.Ptr(one)}).Draw(rt, "pfP"),
					spec.NilPtr(spec.T(spec.TString)),
					rapid.SampledFrom([]*spec.Value{spec.NilPtr(spec.FixedType("Inner")), spec.Ptr(&spec.Value{T: spec.FixedType("Inner"), Items: []*spec.Value{spec.String("t"), one}})}).Draw(rt, "pfIn"),
					rapid.SampledFrom([]*spec.Value{spec.NilAny(), spec.Any(spec.String("any"))}).Draw(rt, "pfA"),
				}}
			}
		}
	})
}

// cloneSpecWithSameType returns a value of v's type (same scalars perturbed).
func cloneSpecWithSameType(rt *rapid.T, v *spec.Value) *spec.Value {
	c := *v
	switch v.T.K {
	case spec.TInt, spec.TInt8, spec.TInt16, spec.TInt32, spec.TInt64, spec.TUint, spec.TUint8, spec.TUint16, spec.TUint32, spec.TUint64:
		c.I = clampInt(v.T.K, rapid.Int64Range(0, 20).Draw(rt, "ci"))
	case spec.TString:
		c.S, c.SBytes = rapid.SampledFrom([]string{"p", "q", ""}).Draw(rt, "cs"), nil
	case spec.TBool:
		c.B = rapid.Bool().Draw(rt, "cb")
	}
	return &c
}

// specData builds a data spec from plain Go values (bool, string, int, float64,
// []string, []int, nil), keys in sorted order.
func specData(m map[string]any) *spec.Data {
	d := &spec.Data{}
	keys := make([]string, 0, len(m))
	for k := range m {
		keys = append(keys, k)
	}
	sortStrings(keys)
	for _, k := range keys {
		d.Add(k, specOf(m[k]))
	}
	return d
}

func specOf(v any) *spec.Value {
	switch x := v.(type) {
	case nil:
		return spec.NilAny()
	case bool:
		return spec.Bool(x)
	case string:
		return spec.String(x)
	case int:
		return spec.IntOf(spec.TInt, int64(x))
	case int64:
		return spec.IntOf(spec.TInt64, x)
	case float64:
		return spec.Float64(x)
	case []string:
		items := make([]*spec.Value, len(x))
		for i, s := range x {
			items[i] = spec.String(s)
		}
		return spec.Slice(spec.T(spec.TString), items...)
	case []int:
		items := make([]*spec.Value, len(x))
		for i, s := range x {
			items[i] = spec.IntOf(spec.TInt, int64(s))
		}
		return spec.Slice(spec.T(spec.TInt), items...)
	case *spec.Value:
		return x
	}
	panic(fmt.Sprintf("specOf: unsupported %T", v))
}
