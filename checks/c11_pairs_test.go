package checks

import (
	"fmt"
	"strings"
	"testing"

	"verif/lib/harness"
	"verif/lib/refint"
	"verif/lib/spec"
	"verif/lib/tw"
)

// C11/call-pairs: a built-in's result is given by the receiver's content - a
// call made on the same string before it (through the same variable, the same
// data entry, the same array element) changes nothing: 's.f() | s.g() | s' shows
// the contract's f(s), the contract's g(s) and s itself, for every ordered pair
// of string built-ins.

func init() { registerRenderReplayer("C11/call-pairs") }

func TestC11_CallPairs(t *testing.T) {
	type call struct {
		text string
		fn   string
		args []V
	}
	calls := []call{
		{"len()", "len", nil}, {"reverse()", "reverse", nil}, {"upper()", "upper", nil}, {"lower()", "lower", nil}, {"capitalize()", "capitalize", nil},
		{"first()", "first", nil}, {"last()", "last", nil}, {"at(1)", "at", []V{refint.IntV(1)}}, {"trim()", "trim", nil},
		{"truncate(2)", "truncate", []V{refint.IntV(2)}}, {"repeat(2)", "repeat", []V{refint.IntV(2)}}, {"contains(\"a\")", "contains", []V{refint.StrV("a")}},
	}
	c := harness.New(t, "C11", "call-pairs",
		fmt.Sprintf("'{{ s.f }}|{{ s.g }}|{{ s.len() }}' for every string of the C11 pool x every ordered pair (f, g) of %d string built-ins (len, reverse, upper, lower, capitalize, first, last, at, trim, truncate, repeat, contains), the string reached through a data variable, a template-assigned variable or an element of an array variable: the three parts must be the contract's f(s), g(s) and the length of s. Exhaustive. Non-trivial: f != g. Distinct by construction.", len(calls)))
	defer c.Finish()
	idx := 0
	cal := getCalib()
	for _, s := range c11Strings {
		sv := refint.StrV(s)
		for _, f := range calls {
			rf := refBuiltin(sv, f.fn, f.args)
			for _, g := range calls {
				rg := refBuiltin(sv, g.fn, g.args)
				for _, mode := range []string{"data", "assigned", "element"} {
					idx++
					if !harness.Mine(idx) {
						continue
					}
					if rf.St != refint.OK || rg.St != refint.OK {
						continue
					}
					tf, ok1 := rf.V.Text(cal)
					tg, ok2 := rg.V.Text(cal)
					if !ok1 || !ok2 {
						continue
					}
					recv := "s"
					var data *spec.Data
					pre := ""
					switch mode {
					case "data":
						data = (&spec.Data{}).Add("s", spec.String(s))
					case "assigned":
						if !literalSafe(sv) {
							continue
						}
						pre = "{{ s = " + tw.ExprString(litFromModel(sv), nil) + " }}"
					default:
						data = (&spec.Data{}).Add("arr", spec.Slice(spec.T(spec.TString), spec.String("zz"), spec.String(s)))
						recv = "arr[1]"
					}
					src := pre + "{{ " + recv + "." + f.text + " }}|{{ " + recv + "." + g.text + " }}|{{ " + recv + ".len() }}"
					wantOut := tf + "|" + tg + "|" + fmt.Sprint(len([]rune(s)))
					if strings.ContainsAny(s, "&<>") && mode == "assigned" {
						continue // a literal is escaped before the built-ins see it (C10)
					}
					cs := renderCase{Src: src, Data: data, Want: want{St: "ok", Kind: "text", S: wantOut}, Note: mode}
					c.CaseEnum(f.text != g.text, "mode:"+mode)
					if idx%1499 == 0 {
						c.Sample(cs.sample())
					}
					r := evalString(c, "json", mustJSON(cs), cs.Src, cs.Data.GoMap())
					if fl := cs.Want.matches(r); fl != "" {
						c.Fail(t, failKind(r), cs, wantOut, r, fl)
					}
				}
			}
		}
	}
	c.ExhaustivePart(fmt.Sprintf("%d strings x %d x %d calls x 3 ways of reaching the string", len(c11Strings), len(calls), len(calls)))
}
