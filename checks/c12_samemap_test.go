package checks

import (
	"encoding/json"
	"fmt"
	"strings"
	"testing"

	textwire "github.com/textwire/textwire/v2"
	"github.com/textwire/textwire/v2/config"
	"pgregory.net/rapid"

	"verif/lib/harness"
	"verif/lib/spec"
	"verif/lib/tree"
)

// C12/same-map-other-values: what a template sees is the data of the call at
// hand - also when the caller passes the very same map again after putting
// other values under its keys (a long-lived map that is updated in place).

type sameMapCase struct {
	First  *spec.Data `json:"first"`
	Second *spec.Data `json:"second"` // same keys as First
	Third  *spec.Data `json:"third,omitempty"`
	Via    string     `json:"via"` // string | response
}

const c12SameMapPage = "[{{ d }}]|{{ other }}|@dump(d)"

func c12SameMap(c *harness.Check, cs sameMapCase) string {
	if _, err := tree.Materialise(tree.Tree{"t/page.tw": {Content: c12SameMapPage}}); err != nil {
		return ""
	}
	failure := ""
	type res struct{ out, err string }
	fresh := func(d *spec.Data) res {
		textwire.VerifReset()
		tpl, lerr := textwire.NewTemplate(&config.Config{TemplateDir: "t", TemplateExt: ".tw"})
		if lerr != nil {
			return res{"", "load: " + lerr.Error()}
		}
		out, ferr := tpl.String("page", d.GoMap())
		if ferr != nil {
			return res{out, ferr.String()}
		}
		return res{out, ""}
	}
	pi := c.Guard("json", mustJSON(cs), func() {
		steps := []*spec.Data{cs.First, cs.Second}
		if cs.Third != nil {
			steps = append(steps, cs.Third)
		}
		// what each step's data gives on freshly loaded templates, from two independent builds of the Go values
		want := make([]res, len(steps))
		for i, d := range steps {
			a, b := fresh(d), fresh(d)
			if a != b {
				c.Class("skipped:render-depends-on-the-build-of-the-values")
				return
			}
			want[i] = a
		}
		textwire.VerifReset()
		tpl, lerr := textwire.NewTemplate(&config.Config{TemplateDir: "t", TemplateExt: ".tw"})
		if lerr != nil {
			failure = "harness: " + lerr.Error()
			return
		}
		m := map[string]any{}
		for i, d := range steps {
			// the same map object, other values under the same keys
			for k, v := range d.GoMap() {
				m[k] = v
			}
			out, ferr := tpl.String("page", m)
			got := res{out, ""}
			if ferr != nil {
				got.err = ferr.String()
			}
			if got != want[i] {
				failure = fmt.Sprintf("call %d with the same map holding other values: got %q / %q, freshly loaded templates and a fresh map give %q / %q", i+1, clip(got.out, 300), got.err, clip(want[i].out, 300), want[i].err)
				return
			}
		}
	})
	textwire.VerifReset()
	if pi != nil {
		return "panic: " + pi.Value
	}
	if strings.HasPrefix(failure, "harness:") {
		return ""
	}
	return failure
}

func init() {
	registerRenderReplayer("C12/namesakes-in-blocks")
	harness.RegisterReplayer("C12/same-map-other-values", func(raw json.RawMessage) string {
		cs, err := unJSON[sameMapCase](raw)
		if err != nil {
			return "bad case: " + err.Error()
		}
		return c12SameMap(harness.New(nopTB{}, "C12", "replay", ""), cs)
	})
}

func TestC12_SameMapOtherValues(t *testing.T) {
	c := harness.New(t, "C12", "same-map-other-values",
		"one loaded Template rendered two or three times in a row with the same Go map object, whose two keys hold other generated values each time (any shape: scalars of other kinds, slices, maps, structs, pointers; the last one sometimes a value of an unsupported kind, which must make that call fail): every call must give what freshly loaded templates give for a fresh map with those values - the output printing the value, its dump and a second key - or the same error. Cases whose fresh renders differ between two builds of the values are skipped. Non-trivial: the kinds of the values differ between the calls. Distinct by hash.")
	defer c.Finish()
	runRapid(t, c, 1500, 20000, func(rt *rapid.T) {
		mk := func(label string, unsupported bool) *spec.Data {
			return (&spec.Data{}).Add("d", genSpecValue(3, unsupported).Draw(rt, label)).Add("other", genSpecValue(1, false).Draw(rt, label+"Other"))
		}
		cs := sameMapCase{First: mk("first", false), Second: mk("second", false)}
		if rapid.Bool().Draw(rt, "third") {
			cs.Third = mk("third", true)
		}
		k1, k2 := spec.Describe(cs.First.Vals[0]), spec.Describe(cs.Second.Vals[0])
		nt := strings.SplitN(k1, "(", 2)[0] != strings.SplitN(k2, "(", 2)[0]
		c.Case(nt, mustJSON(cs))
		if nt && c.S.Evals%20 == 0 {
			c.Sample(map[string]any{"first": k1, "second": k2})
		}
		if f := c12SameMap(c, cs); f != "" {
			c.Fail(rt, kindOf(f), cs, "the data of the call at hand", f, f)
		}
	})
}

// TestC12_ReadsAfterArrayFunctions: "slices by position" - also after the
// template has taken parts of the slice and extended them: what slice(),
// append(), prepend() and reverse() return are values of their own.
func TestC12_ReadsAfterArrayFunctions(t *testing.T) {
	c := harness.New(t, "C12", "reads-after-array-functions",
		"a data slice of 2..6 integers or strings (at top level, in a struct field behind a pointer, as a map value) from which the template takes slice(0, k) / slice(j, k) / slice(k), appends or prepends one or two values to the part (directly and through a variable), reverses it - for every k - and then reads every position of the data slice and its length: they are the data's. Exhaustive. Non-trivial: all. Distinct by construction.")
	defer c.Finish()
	idx := 0
	for n := 2; n <= 6; n++ {
		for _, kind := range []string{"ints", "strings"} {
			for _, where := range []string{"top", "field", "mapvalue"} {
				for k := 0; k <= n; k++ {
					for form := 0; form < 5; form++ {
						idx++
						if !harness.Mine(idx) {
							continue
						}
						items := make([]*spec.Value, n)
						want := ""
						for i := range items {
							if kind == "ints" {
								items[i] = spec.IntOf(spec.TInt, int64(10*(i+1)))
								want += fmt.Sprintf("[%d]", 10*(i+1))
							} else {
								items[i] = spec.String(fmt.Sprintf("s%d", i))
								want += fmt.Sprintf("[s%d]", i)
							}
						}
						el := spec.T(spec.TInt)
						x := "99"
						if kind == "strings" {
							el, x = spec.T(spec.TString), "'x'"
						}
						sl := spec.Slice(el, items...)
						data, p := (&spec.Data{}).Add("d", sl), "d"
						switch where {
						case "field":
							data, p = (&spec.Data{}).Add("u", spec.Ptr(spec.Struct([]string{"Tags"}, []*spec.Value{sl}))), "u.tags"
						case "mapvalue":
							data, p = (&spec.Data{}).Add("m", spec.Map(spec.T(spec.TAny), []string{"list"}, []*spec.Value{spec.Any(sl)})), "m.list"
						}
						var use string
						switch form {
						case 0:
							use = fmt.Sprintf("{{ %s.slice(0, %d).append(%s).len() }}", p, k, x)
						case 1:
							use = fmt.Sprintf("{{ h = %s.slice(0, %d); more = h.append(%s, %s); more.len() }}", p, k, x, x)
						case 2:
							use = fmt.Sprintf("{{ %s.slice(%d).prepend(%s).append(%s).len() }}", p, k, x, x)
						case 3:
							use = fmt.Sprintf("{{ %s.slice(%d, %d).append(%s).reverse().len() }}", p, k/2, k, x)
						default:
							use = fmt.Sprintf("{{ a = %s.slice(0, %d).append(%s); b = %s.slice(0, %d).append(%s, %s); a.len() + b.len() }}", p, k, x, p, k, x, x)
						}
						src := use + "|"
						for i := 0; i < n; i++ {
							src += fmt.Sprintf("[{{ %s[%d] }}]", p, i)
						}
						src += fmt.Sprintf("|{{ %s.len() }}", p)
						c.CaseEnum(true, "where:"+where)
						if idx%61 == 0 {
							c.Sample(src)
						}
						r := evalString(c, "text", src, src, data.GoMap())
						parts := strings.SplitN(r.Out, "|", 2)
						switch {
						case r.Panic != nil:
							c.Fail(t, "panic", src, want, r, "panic: "+r.Panic.Value)
						case r.IsErr():
							c.Fail(t, "mismatch", src, want, r, "unexpected error: "+r.Err)
						case len(parts) != 2 || parts[1] != want+fmt.Sprintf("|%d", n):
							c.Fail(t, "mismatch", src, want+fmt.Sprintf("|%d", n), r, fmt.Sprintf("after %s the data slice reads %q, the data is %q", use, r.Out, want))
						}
					}
				}
			}
		}
	}
	c.ExhaustivePart("lengths 2..6 x 2 element kinds x 3 places x every cut x 5 ways to extend the part")
}

// TestC12_NamesakesInBlocks: a name a block binds for itself - the variable of
// an @each or @for, an assignment in a branch - is the block's own: the data
// entry of the same name reads as it was passed, during the block's siblings
// and after the block.
func TestC12_NamesakesInBlocks(t *testing.T) {
	c := harness.New(t, "C12", "namesakes-in-blocks",
		"data entries n (integer), s (string), user (a struct behind a pointer), row (a slice) next to lists of values of the same types; templates in which an @each variable, a @for variable, an assignment inside an @if branch or inside a loop body has the name of the data entry (same type, so the binding is legal), one and two blocks deep, followed by a read of the entry: it prints the data. Exhaustive. Non-trivial: all. Distinct by construction.")
	defer c.Finish()
	person := func(name string, age int64) *spec.Value {
		return spec.Ptr(spec.Struct([]string{"Name", "Age"}, []*spec.Value{spec.String(name), spec.IntOf(spec.TInt, age)}))
	}
	ints := func(xs ...int64) *spec.Value {
		it := make([]*spec.Value, len(xs))
		for i, x := range xs {
			it[i] = spec.IntOf(spec.TInt, x)
		}
		return spec.Slice(spec.T(spec.TInt), it...)
	}
	data := (&spec.Data{}).Add("n", spec.IntOf(spec.TInt, 7)).Add("nums", ints(1, 2, 3)).Add("s", spec.String("own")).Add("names", spec.Slice(spec.T(spec.TString), spec.String("a"), spec.String("b"))).
		Add("user", person("Anna", 30)).Add("users", spec.Slice(spec.T(spec.TAny), spec.Any(person("Bob", 41)), spec.Any(person("Cid", 52)))).
		Add("row", ints(9, 8)).Add("rows", spec.Slice(spec.T(spec.TAny), spec.Any(ints(1)), spec.Any(ints(2, 3))))
	cases := []struct{ src, want string }{
		{"@each(n in nums){{ n }}@end|{{ n }}", "123|7"},
		{"{{ n }}|@each(n in nums)@each(s in names){{ n }}{{ s }}@end@end|{{ n }}{{ s }}", "7|1a1b2a2b3a3b|7own"},
		{"@for(n = 0; n < 2; n++){{ n }}@end|{{ n }}", "01|7"},
		{"@if(true){{ n = 1 }}{{ n }}@end|{{ n }}", "1|7"},
		{"@if(true)@if(true){{ s = 'in' }}{{ s }}@end{{ s }}@end|{{ s }}", "inown|own"},
		{"{{ user.name }}|@each(user in users){{ user.name }},@end|{{ user.name }} {{ user.age }}", "Anna|Bob,Cid,|Anna 30"},
		{"@each(row in rows){{ row.len() }}@end|{{ row.len() }}{{ row[0] }}", "12|29"},
		{"@each(x in nums){{ n = x }}@end{{ n }}|@each(x in nums)@if(x == 2){{ n = 0 }}@end@end{{ n }}", "7|7"},
		{"@each(x in nums)@for(n = x; n < 3; n++){{ n }}@end;@end|{{ n }}", "12;2;;|7"},
		{"@if(false)a@else{{ user = users[1] }}{{ user.name }}@end|{{ user.name }}", "Cid|Anna"},
	}
	for i, cse := range cases {
		if !harness.Mine(i) {
			continue
		}
		cs := renderCase{Src: cse.src, Data: data, Want: want{St: "ok", Kind: "text", S: cse.want}}
		c.CaseEnum(true)
		c.Sample(cs.sample())
		if r, f := runRenderCase(c, cs); f != "" {
			c.Fail(t, failKind(r), cs, cs.Want, r, f)
		}
	}
	c.ExhaustivePart(fmt.Sprintf("%d templates", len(cases)))
}
