package checks

import (
	"encoding/json"
	"fmt"
	"io"
	"net/http"
	"net/http/httptest"
	"os"
	"path/filepath"
	"strings"
	"sync"
	"sync/atomic"
	"testing"

	textwire "github.com/textwire/textwire/v2"
	"github.com/textwire/textwire/v2/config"
	"pgregory.net/rapid"
	"verif/lib/harness"
	"verif/lib/spec"
	"verif/lib/tree"
)

// C17 — Response writes the page or one error page, and leaks no detail unless debugging.

type respCase struct {
	Files     map[string]string `json:"files"`
	ErrorPage string            `json:"error_page"` // "" | name of a template
	Debug     bool              `json:"debug"`
	Page      string            `json:"page"`
	Data      *spec.Data        `json:"data,omitempty"`
	Markers   []string          `json:"markers"` // unique texts of the page: none may appear in an error body
	Fails     bool              `json:"fails"`   // the page is expected to fail (by construction)
	Custom    string            `json:"custom"`  // none | valid | missing | failing
	// Defaults: NewTemplate(nil) over templates/*.tw.html, the documented defaults (no custom page, debug off)
	Defaults bool   `json:"defaults,omitempty"`
	Note     string `json:"note,omitempty"`
	// FaultText: the failing expression as written (once) in the page's own file; "" when the failure has no place in it
	FaultText string `json:"fault_text,omitempty"`
	// Linked: names whose file in the template directory is a symbolic link to a regular file kept elsewhere
	Linked []string `json:"linked,omitempty"`
}

func init() {
	for _, n := range []string{"configurations", "fixed-matrix"} {
		harness.RegisterReplayer("C17/"+n, func(raw json.RawMessage) string {
			cs, err := unJSON[respCase](raw)
			if err != nil {
				return "bad case: " + err.Error()
			}
			c := harness.New(nopTB{}, "C17", "replay", "")
			if f := c17Run(c, cs); !strings.HasPrefix(f, "harness:") {
				return f
			}
			return ""
		})
	}
}

var defaultErrorPageSrc = func() string {
	repo := "/repo"
	if alt := os.Getenv("VERIF_REPO"); alt != "" {
		repo = alt
	}
	b, err := os.ReadFile(repo + "/textwire/default-error-page.tw")
	if err != nil {
		return ""
	}
	return string(b)
}()

var (
	c17SrvOnce sync.Once
	c17Srv     *httptest.Server
	c17Handler atomic.Pointer[func(http.ResponseWriter)]
)

// c17OverHTTP runs write as the handler of one request to a local server and
// returns what the client read.
func c17OverHTTP(write func(http.ResponseWriter)) (string, string) {
	c17SrvOnce.Do(func() {
		defer func() { recover() }() // no loopback interface: the comparison is skipped
		c17Srv = httptest.NewServer(http.HandlerFunc(func(w http.ResponseWriter, r *http.Request) {
			if h := c17Handler.Load(); h != nil {
				(*h)(w)
			}
		}))
	})
	if c17Srv == nil {
		return "", "unavailable"
	}
	c17Handler.Store(&write)
	resp, err := http.Get(c17Srv.URL)
	if err != nil {
		return "", "request failed: " + err.Error()
	}
	defer resp.Body.Close()
	b, err := io.ReadAll(resp.Body)
	if err != nil {
		return string(b), "read error: " + err.Error()
	}
	return string(b), ""
}

func c17Run(c *harness.Check, cs respCase) string {
	tr := tree.Tree{}
	dir, ext := "t", ".tw"
	if cs.Defaults {
		dir, ext = "templates", ".tw.html"
	}
	linked := map[string]bool{}
	for _, n := range cs.Linked {
		linked[n] = true
	}
	for n, src := range cs.Files {
		if linked[n] {
			// a symbolic link to a regular file is a template file like any other
			flat := "shared/" + strings.ReplaceAll(n, "/", "_") + ".src"
			tr[flat] = tree.Entry{Content: src}
			tr[dir+"/"+n+ext] = tree.Entry{Kind: tree.Symlink, Content: strings.Repeat("../", strings.Count(dir+"/"+n, "/")) + flat}
			continue
		}
		tr[dir+"/"+n+ext] = tree.Entry{Content: src}
	}
	root, err := tree.Materialise(tr)
	if err != nil {
		return ""
	}
	var failure string
	pi := c.Guard("json", mustJSON(cs), func() {
		textwire.VerifReset()
		conf := &config.Config{TemplateDir: "t", TemplateExt: ".tw", ErrorPagePath: cs.ErrorPage, DebugMode: cs.Debug}
		if cs.Defaults {
			conf = nil
		}
		// zzRenderOther renders another template of the directory while a page is being
		// rendered (what a helper function of an application may do)
		var loaded *textwire.Template
		textwire.RegisterStrFunc("zzRenderOther", func(s string, args ...any) string {
			if loaded == nil {
				return "(not loaded)"
			}
			w := httptest.NewRecorder()
			loaded.Response(w, s, nil)
			return w.Body.String()
		})
		tpl, lerr := textwire.NewTemplate(conf)
		if conf != nil {
			// the configuration is what was passed to NewTemplate: what the caller does with its
			// own Config value afterwards is no input of later responses
			conf.DebugMode, conf.ErrorPagePath, conf.TemplateDir, conf.TemplateExt = !conf.DebugMode, "zz/other-error-page", "zz/elsewhere", ".zz"
		}
		if lerr != nil {
			failure = "harness: tree does not load: " + lerr.Error()
			return
		}
		loaded = tpl
		data := cs.Data.GoMap()
		strOut, ferr := tpl.String(cs.Page, data)
		w := httptest.NewRecorder()
		rerr := tpl.Response(w, cs.Page, data)
		body := w.Body.String()
		// what a client of a real net/http server receives is the same body (a server
		// enforces the headers the handler sets; a recorder does not)
		if got, herr := c17OverHTTP(func(hw http.ResponseWriter) { tpl.Response(hw, cs.Page, cs.Data.GoMap()) }); herr != "unavailable" && (herr != "" || got != body) {
			failure = fmt.Sprintf("over a net/http server the client receives %q (%s), the recorder holds %q", clip(got, 200), herr, clip(body, 200))
			return
		}
		if ferr == nil {
			if cs.Fails {
				// the run-time fault did not fail the render: whatever else that
				// violates, the body must not carry the error text or a file path
				if strings.Contains(body, "Textwire ERROR") || strings.Contains(body, root) {
					failure = fmt.Sprintf("the page's fault did not fail the render and the body carries error details / a path: %q", clip(body, 400))
					return
				}
				if strings.Contains(cs.Note, "bad-data") {
					// data of an unsupported kind (or the reserved key) fails every render: Response has nothing to show
					failure = fmt.Sprintf("the data cannot be bound, yet String renders and Response wrote %q and returned %v", clip(body, 200), rerr)
					return
				}
				failure = "harness: the page was built to fail but renders"
				return
			}
			if rerr != nil {
				failure = "Response returned an error for a page that renders: " + rerr.Error()
				return
			}
			if body != strOut {
				failure = fmt.Sprintf("Response wrote %q, String renders %q", clip(body, 300), clip(strOut, 300))
			}
			return
		}
		if !cs.Fails {
			// the page and everything it uses are sound files of the directory
			failure = "the page renders by construction, but String fails: " + ferr.String()
			return
		}
		if rerr == nil {
			failure = "Response returned nil although rendering fails: " + ferr.String()
			return
		}
		for _, m := range cs.Markers {
			if strings.Contains(body, m) {
				failure = fmt.Sprintf("the error body contains %q, a part of the failed page", m)
				return
			}
		}
		// which page must the body be?
		pageAbs := filepath.Join(root, dir, cs.Page+ext)
		builtin := func() string {
			out, err := textwire.EvaluateString(defaultErrorPageSrc, map[string]any{"path": ferr.Filepath(), "line": ferr.Line(), "message": ferr.Message(), "debugMode": cs.Debug})
			if err != nil {
				return "harness: built-in page does not render: " + err.Error()
			}
			return out
		}
		switch {
		case cs.Custom == "valid" && !cs.Debug:
			want, cerr := tpl.String(cs.ErrorPage, nil)
			if cerr != nil {
				failure = "the custom error page is a sound file of the directory, but rendering it fails: " + cerr.String()
				return
			}
			if body != want {
				failure = fmt.Sprintf("body is not the custom error page: %s", diffAt(want, body))
				return
			}
		case (cs.Custom == "missing" || cs.Custom == "failing") && !cs.Debug:
			if body != "" {
				failure = fmt.Sprintf("the custom error page itself fails, the body must be empty, got %q", clip(body, 300))
				return
			}
		default:
			want := builtin()
			if strings.HasPrefix(want, "harness:") {
				failure = want
				return
			}
			if body != want {
				failure = "body is not the built-in error page: " + diffAt(want, body)
				return
			}
		}
		msg := ferr.Message()
		cwd, _ := os.Getwd()
		if !cs.Debug {
			leaks := []string{msg, root, cwd, pageAbs, "t/" + cs.Page + ".tw", cs.Page + ".tw"}
			for _, l := range leaks {
				if l != "" && strings.Contains(body, l) {
					failure = fmt.Sprintf("debug mode is off but the body contains %q", l)
					return
				}
			}
		} else {
			needs := []string{msg, ferr.Filepath(), fmt.Sprint(ferr.Line())}
			if _, exists := cs.Files[cs.Page]; exists && ferr.Filepath() != "" {
				// every generated fault is written in the page's own file
				needs = append(needs, pageAbs)
				if i := strings.Index(cs.Files[cs.Page], cs.FaultText); cs.FaultText != "" && i >= 0 && ferr.Filepath() == pageAbs {
					// the line is the one the failing expression is written on (not the one the error object says)
					needs = append(needs, fmt.Sprintf("%s:%d", pageAbs, 1+strings.Count(cs.Files[cs.Page][:i], "\n")))
				}
			}
			for _, need := range needs {
				if !strings.Contains(body, need) {
					failure = fmt.Sprintf("debug mode is on but the body lacks %q", need)
					return
				}
			}
		}
	})
	if pi != nil {
		return "panic: " + pi.Value
	}
	return failure
}

// c17Page builds a page that emits k marked chunks and then (maybe) fails.
func c17Page(rt *rapid.T) (files map[string]string, page string, markers []string, fails bool, note string, faultText string) {
	defer func() {
		if fails && page == "page" && strings.Count(files["page"], faultText) == 1 {
			return
		}
		faultText = ""
	}()
	files = map[string]string{
		"layouts/l": "<LAYOUT-MARK>@reserve(\"body\")</LAYOUT-MARK>",
		"comp":      "<COMP-MARK>{{ v }}@slot</COMP-MARK>",
	}
	k := rapid.IntRange(1, 4).Draw(rt, "chunks")
	var b strings.Builder
	for i := 0; i < k; i++ {
		m := fmt.Sprintf("MARK-%d-%s", i, rapid.StringMatching("[a-z]{4}").Draw(rt, "mark"))
		markers = append(markers, m)
		// (percent signs: what is written to the response is data, never a format)
		b.WriteString("<p style=\"width: 100%;\">" + m + " 50% off %d %s %% – Zoë’s café</p>\n")
		// constructs that span lines: the line of a later fault counts the line ends inside them
		b.WriteString(rapid.SampledFrom([]string{"", "", "{{-- c\nc\n\nc --}}\n", "{{ \"s\nt\".len() }}\n", "{{\n1\n}}\n", "\r\n", "{{-- one --}}{{-- two\n --}}", "@if(\ntrue\n)\ny\n@end\n"}).Draw(rt, "spanning"))
	}
	long := "zz" + strings.Repeat("VeryLongIdentifier_", 16) // messages that embed a name can be long: shown whole or not at all
	fault := rapid.SampledFrom([]string{"{{ zzMissing }}", "{{ 1 / 0 }}", "{{ name + 1 }}", "{{ name.nosuchfn() }}", "{{ {a: 1}.zz }}",
		"{{ [1, 2]['1'] }}", "{{ {a: 1}[0] }}", "{{ [1, 2][name] }}", "{{ {a: 1}[nil] }}", "{{ [1, 2][1.5] }}", "{{ name[0] }}", "{{ 5 % 0 }}", "{{ [1].slice('a') }}", "{{ name.repeat(-1).at('x') }}", "{{ [name, zzMissing].join('/') }}", "{{ [name].append(name, zzMissing) }}", "{{ true.then(1, zzMissing) }}", "{{ {a: name, b: zzMissing}.a }}",
		"{{ " + long + " }}", "{{ {a: 1}." + long + " }}", "{{ name." + long + "() }}"}).Draw(rt, "fault")
	shape := rapid.SampledFrom([]string{"ok", "ok-layout", "top", "in-loop", "in-layout", "in-component", "in-slot", "missing", "after-nested-render", "ok-nested-render",
		"in-each-else", "in-for-else", "in-nested-else", "in-elseif", "in-header", "in-control", "in-insert-expression"}).Draw(rt, "shape")
	faultExpr := strings.TrimSuffix(strings.TrimPrefix(fault, "{{ "), " }}")
	faultText = faultExpr
	files["other"] = "<OTHER-MARK>{{ 1 + 1 }}</OTHER-MARK>"
	note = shape
	page = "page"
	switch shape {
	case "ok":
		files["page"] = b.String() + "{{ name }}"
	case "ok-layout":
		files["page"] = "@use(\"~l\")@insert(\"body\")" + b.String() + "@component(\"comp\", {v: name})\n@slot s@end\n@end;@end"
	case "top":
		files["page"], fails = b.String()+fault+"\nAFTER-MARK", true
		markers = append(markers, "AFTER-MARK")
	case "in-loop":
		files["page"], fails = b.String()+"@each(i in [1, 2, 3])<li>LOOP-MARK{{ i }}</li>@if(i == 2)"+fault+"@end@end", true
		markers = append(markers, "LOOP-MARK")
	case "in-layout":
		files["page"], fails = "@use(\"~l\")@insert(\"body\")"+b.String()+fault+"@end", true
		markers = append(markers, "LAYOUT-MARK")
	case "in-component":
		files["page"], fails = b.String()+"@component(\"comp\", {v: "+strings.TrimSuffix(strings.TrimPrefix(fault, "{{ "), " }}")+"});", true
		markers = append(markers, "COMP-MARK")
	case "in-slot":
		files["page"], fails = b.String()+"@component(\"comp\", {v: 1})\n@slot SLOT-MARK"+fault+"@end\n@end;", true
		markers = append(markers, "COMP-MARK", "SLOT-MARK")
	case "in-each-else":
		files["page"], fails = b.String()+"@each(i in [])never@else<i>ELSE-MARK</i>"+fault+"@end\nAFTER-MARK", true
		markers = append(markers, "ELSE-MARK", "AFTER-MARK")
	case "in-for-else":
		files["page"], fails = b.String()+"@for(i = 0; i < 0; i++)never@else<i>ELSE-MARK</i>"+fault+"@end\nAFTER-MARK", true
		markers = append(markers, "ELSE-MARK", "AFTER-MARK")
	case "in-nested-else":
		files["page"], fails = b.String()+"@each(o in [1, 2])LOOP-MARK@if(o == 2)@each(i in [])never@else"+fault+"@end@end@end\nAFTER-MARK", true
		markers = append(markers, "LOOP-MARK", "AFTER-MARK")
	case "in-elseif":
		files["page"], fails = b.String()+rapid.SampledFrom([]string{"@if(false)a@elseif(" + faultExpr + ")b@else c@end", "@if(false)a@elseif(true)" + fault + "@else c@end", "@if(false)a@elseif(false)b@else" + fault + "@end",
			"{{ true ? " + faultExpr + " : 1 }}", "{{ false ? 1 : " + faultExpr + " }}", "{{ [" + faultExpr + "] }}", "{{ x = " + faultExpr + " }}", "{{ 1; " + faultExpr + " }}"}).Draw(rt, "branchForm")+"\nAFTER-MARK", true
		markers = append(markers, "AFTER-MARK")
	case "in-header":
		files["page"], fails = b.String()+rapid.SampledFrom([]string{"@if(" + faultExpr + ")a@end", "@each(i in [" + faultExpr + "])a@end", "@each(i in " + faultExpr + ")a@else b@end", "@for(i = " + faultExpr + "; i < 2; i++)a@end",
			"@for(i = 0; " + faultExpr + "; i++)a@end", "@for(i = 0; i < 2; " + faultExpr + ")LOOP-MARK@end"}).Draw(rt, "headerForm")+"\nAFTER-MARK", true
		markers = append(markers, "AFTER-MARK")
	case "in-control":
		files["page"], fails = b.String()+"@each(i in [1, 2])LOOP-MARK"+rapid.SampledFrom([]string{"@breakIf(", "@continueIf("}).Draw(rt, "ctlForm")+faultExpr+")@end\nAFTER-MARK", true
		markers = append(markers, "AFTER-MARK", "LOOP-MARK")
	case "in-insert-expression":
		files["page"], fails = "@use(\"~l\")@insert(\"body\", "+faultExpr+")"+b.String(), true
		markers = append(markers, "LAYOUT-MARK")
	case "after-nested-render":
		// a custom function renders another template of the directory (one that works, fails or
		// does not exist) through Response, then the page fails
		files["page"], fails = b.String()+"{{ \""+rapid.SampledFrom([]string{"other", "other", "nosuchpage", "failing-other"}).Draw(rt, "nested")+"\".zzRenderOther() }}\n"+fault+"\nAFTER-MARK", true
		files["failing-other"] = "<OTHER-MARK>\n\n\n{{ zzOtherFault }}"
		markers = append(markers, "AFTER-MARK", "OTHER-MARK")
	case "ok-nested-render":
		files["page"] = b.String() + "{{ \"other\".zzRenderOther().raw() }}{{ name }}"
	case "missing":
		files["page"] = b.String()
		page, fails, markers = "nosuchpage", true, nil
	}
	return
}

func TestC17_Configurations(t *testing.T) {
	c := harness.New(t, "C17", "configurations",
		"all combinations of {debug on, off} x {no custom error page, a working one, one that does not exist, one that fails at run time} x generated pages {succeeding (plain, with layout and component); failing at run time after 1..4 uniquely marked chunks at top level, inside a loop pass, inside a layout's insert, inside a component argument, inside a slot body, inside the @else of an empty @each / @for (also nested in a loop pass), in an @elseif condition / @elseif body / @else body / ternary branch / array element / assignment / second statement of a print, in the header of @if / @each / @for (each clause), in @breakIf / @continueIf, in the expression form of an insert, because of the data (a value of an unsupported kind or the reserved key loop: failures without a file path), after a registered function has rendered another template of the directory (working, failing, missing) through Response; not existing} x data: success -> nil and body == String(); failure -> non-nil error, no marker of the failed page in the body, body == custom page (working one, debug off) / empty (custom page itself fails, debug off) / built-in page (rendered differentially from default-error-page.tw with the failure's fields); debug off -> neither message nor any path in the body; debug on -> message, path and line in it (the path being that of the page's own file, where every generated fault is written). In one case in six some of the files (the page, the custom error page, the component, the layout) are symbolic links to regular files kept outside the directory. One case in eight uses no configuration at all (NewTemplate(nil) over templates/*.tw.html): the documented defaults, debug off and no custom page, apply. Non-trivial: failing page and a non-default configuration, or the defaults. Distinct by hash.")
	defer c.Finish()
	runRapid(t, c, 3000, 30000, func(rt *rapid.T) {
		files, page, markers, fails, note, faultText := c17Page(rt)
		cs := respCase{Files: files, Page: page, Markers: markers, Fails: fails, Note: note, FaultText: faultText, Debug: rapid.Bool().Draw(rt, "debug"),
			Custom: rapid.SampledFrom([]string{"none", "valid", "missing", "failing"}).Draw(rt, "custom"),
			Data:   specData(map[string]any{"name": rapid.SampledFrom([]string{"Ann", "<b>x</b>", ""}).Draw(rt, "name")})}
		switch cs.Custom {
		case "valid":
			// the page's name is an ordinary template name: any directory depth, any last
			// character (also ones that occur in the extension), with or without dots
			cs.ErrorPage = rapid.SampledFrom([]string{"errors/custom", "fault", "errors/show", "e", "w", "errors/internal.t", "err.tw", "x/y/z/oops", "500", "tw"}).Draw(rt, "customName")
			// the error page is rendered on its own: names of the failed page's data mean nothing in it
			files[cs.ErrorPage] = rapid.SampledFrom([]string{"<h1>CUSTOM-ERROR-PAGE</h1>{{ 1 + 1 }}", "<h1 style=\"width: 100%;\">CUSTOM-ERROR-PAGE</h1>{{ name = 404 }}{{ name + 1 }} (20%) %s %d %%", "{{ title = 5; name = [1] }}<h1>CUSTOM-ERROR-PAGE</h1>100% Désolé…"}).Draw(rt, "customBody")
		case "missing":
			cs.ErrorPage = "errors/nosuch"
		case "failing":
			cs.ErrorPage = "errors/broken"
			files["errors/broken"] = rapid.SampledFrom([]string{"<h1>BROKEN-PAGE-MARK</h1>{{ zzUndefined }}", "<h1>BROKEN-PAGE-MARK</h1>{{ name }}", "<h1>BROKEN-PAGE-MARK</h1>{{ name.len() }}"}).Draw(rt, "brokenBody")
			cs.Markers = append(cs.Markers, "BROKEN-PAGE-MARK")
		}
		if rapid.IntRange(0, 7).Draw(rt, "defaults") == 0 {
			// the documented defaults: no configuration at all
			delete(files, cs.ErrorPage)
			cs.Defaults, cs.Debug, cs.Custom, cs.ErrorPage = true, false, "none", ""
		}
		if src, ok := files["page"]; ok && cs.Page == "page" && rapid.IntRange(0, 2).Draw(rt, "pageInOddDirectory") == 0 {
			// the page in a sub-directory whose name holds a blank, a non-ASCII letter, a percent sign or brackets: the path
			// shown with debug mode on is the path of the file, as it is
			cs.Page = rapid.SampledFrom([]string{"sp ace/pa ge", "caf\u00e9/page", "50%off/page", "a(b)[c]/page", "q?x=1#y/page"}).Draw(rt, "oddPath")
			files[cs.Page] = src
			delete(files, "page")
		}
		if rapid.IntRange(0, 5).Draw(rt, "symlinks") == 0 {
			for _, n := range []string{cs.Page, cs.ErrorPage, "comp", "layouts/l"} {
				if _, ok := files[n]; ok && rapid.Bool().Draw(rt, "link") {
					cs.Linked = append(cs.Linked, n)
				}
			}
		}
		if !fails && rapid.IntRange(0, 2).Draw(rt, "badData") == 0 {
			// the page is sound, the data is not: a value of an unsupported kind (at the top or nested)
			// or the reserved key; such failures carry no file path
			bad := rapid.SampledFrom([]*spec.Value{spec.Unsupported(spec.TChan), spec.Unsupported(spec.TFunc), spec.Slice(spec.T(spec.TAny), spec.Any(spec.Unsupported(spec.TComplex))), spec.Unsupported(spec.TIntMap),
				spec.Slice(spec.T(spec.TAny), spec.Any(spec.String("go")), spec.Any(spec.Unsupported(spec.TChan))), spec.Slice(spec.T(spec.TChan), spec.Unsupported(spec.TChan)),
				spec.Slice(spec.T(spec.TAny), spec.Any(spec.Slice(spec.T(spec.TAny), spec.Any(spec.IntOf(spec.TInt, 3)), spec.Any(spec.Unsupported(spec.TFunc))))),
				spec.Struct([]string{"Items"}, []*spec.Value{spec.Slice(spec.T(spec.TAny), spec.Any(spec.Unsupported(spec.TBoolMap)))}),
				spec.Map(spec.T(spec.TAny), []string{"k"}, []*spec.Value{spec.Any(spec.Slice(spec.T(spec.TAny), spec.Any(spec.Unsupported(spec.TArray))))})}).Draw(rt, "badValue")
			key := rapid.SampledFrom([]string{"zbad", "loop", "aaa"}).Draw(rt, "badKey")
			if key == "loop" {
				bad = spec.IntOf(spec.TInt, 1)
			}
			cs.Data = specData(map[string]any{"name": "Ann"}).Add(key, bad)
			cs.Fails, fails = true, true
			cs.Note, note = note+"+bad-data", note+"+bad-data"
		}
		nt := fails && (cs.Debug || cs.Custom != "none" || cs.Defaults)
		c.Case(nt, mustJSON(cs), "shape:"+note, "custom:"+cs.Custom, fmt.Sprintf("debug:%v", cs.Debug), fmt.Sprintf("defaults:%v", cs.Defaults), fmt.Sprintf("symlinked-files:%d", len(cs.Linked)))
		if nt {
			c.Sample(map[string]any{"page": files["page"], "shape": note, "custom": cs.Custom, "debug": cs.Debug})
		}
		if f := c17Run(c, cs); strings.HasPrefix(f, "harness:") {
			c.Class(firstWords(f, 5))
		} else if f != "" {
			c.Fail(rt, kindOf(f), cs, "page or one error page", f, f)
		}
	})
}
