package checks

import (
	"fmt"
	"strings"
	"testing"

	"verif/lib/harness"
)

// C08/deep-nesting: termination and "program or error" hold at any nesting
// depth: parentheses, array and object literals, ternaries, @if / @each / @for
// blocks and component slots nested 10 to 2000 levels deep, complete, cut
// half-way, and followed or interrupted by an illegal character or an
// unterminated construct (which must be rejected).

func TestC08_DeepNesting(t *testing.T) {
	depths := []int{10, 50, 99, 100, 101, 127, 128, 129, 255, 256, 257, 500, 1000}
	if harness.Pick(0, 1) == 1 {
		depths = append(depths, 2000)
	}
	c := harness.New(t, "C08", "deep-nesting",
		fmt.Sprintf("constructs nested d levels deep for %d depths from 10 to 1000 (2000 in the thorough tier; around 100, 128, 256 to the level): parentheses, array literals, object literals, ternaries in the else part, unary minus chains, @if, @each and @for blocks, alternating @if/@each; each complete, cut in the middle (must be rejected), and with one of five defective tails after it or in its innermost place - an illegal character in a block, in a directive header, an unterminated string, an unterminated comment, a stray illegal character after valid text (all must be rejected). Oracle of C08 (the lexer reaches EOF/ILLEGAL, the parser returns a program or errors with lines; no panic, no hang). Exhaustive. Non-trivial: all. Distinct by construction.", len(depths)))
	defer c.Finish()
	type shape struct {
		name        string
		open, shut  string
		core        string
		pre, post   string
		inDirective bool
	}
	shapes := []shape{
		{name: "parentheses", open: "(", shut: ")", core: "1", pre: "{{ ", post: " }}"},
		{name: "arrays", open: "[", shut: "]", core: "1", pre: "{{ ", post: " }}"},
		{name: "objects", open: "{k: ", shut: "}", core: "1", pre: "{{ ", post: " }}"},
		{name: "ternaries", open: "false ? 0 : (", shut: ")", core: "1", pre: "{{ ", post: " }}"},
		{name: "minus-chain", open: "-(", shut: ")", core: "1", pre: "{{ ", post: " }}"},
		{name: "if-blocks", open: "@if(true)a", shut: "b@end", core: "X"},
		{name: "each-blocks", open: "@each(v in [1])", shut: "@end", core: "X"},
		{name: "for-blocks", open: "@for(i = 0; i < 1; i++)", shut: "@end", core: "X"},
		{name: "if-else-blocks", open: "@if(false)n@else", shut: "@end", core: "X"},
	}
	tails := []struct {
		name, src string
		reject    bool
	}{
		{"none", "", false}, {"illegal-in-block", "\n{{ 1 # 2 }}", true}, {"illegal-in-header", "\n@if(a ~ b)x@end", true}, {"open-string", "\n{{ \"abc }}", true},
		{"open-comment", "\n{{-- never closed", true}, {"illegal-after-text", " text {{ $ }}", true},
	}
	idx := 0
	for _, d := range depths {
		for _, sh := range shapes {
			full := sh.pre + strings.Repeat(sh.open, d) + sh.core + strings.Repeat(sh.shut, d) + sh.post
			half := sh.pre + strings.Repeat(sh.open, d) + sh.core + strings.Repeat(sh.shut, d/2)
			inner := sh.pre + strings.Repeat(sh.open, d) + "#" + strings.Repeat(sh.shut, d) + sh.post
			if sh.pre == "" {
				inner = strings.Repeat(sh.open, d) + "{{ # }}" + strings.Repeat(sh.shut, d)
			}
			cases := []parseCase{{Src: half, MustReject: true, Why: "cut in the middle of " + sh.name}, {Src: inner, MustReject: true, Why: "illegal character in the innermost place of " + sh.name}}
			for _, tl := range tails {
				cases = append(cases, parseCase{Src: full + tl.src, MustReject: tl.reject, Why: "tail " + tl.name + " after " + sh.name})
				if tl.reject {
					// ... and the same tail first, the deep construct after it
					cases = append(cases, parseCase{Src: strings.TrimPrefix(tl.src, "\n") + "\n" + full, MustReject: true, Why: "tail " + tl.name + " before " + sh.name})
				}
			}
			for _, cs := range cases {
				idx++
				if !harness.Mine(idx) {
					continue
				}
				c.CaseEnum(true, "shape:"+sh.name, fmt.Sprintf("must-reject:%v", cs.MustReject))
				if idx%499 == 0 {
					c.Sample(map[string]any{"depth": d, "shape": sh.name, "why": cs.Why, "bytes": len(cs.Src)})
				}
				if f := c08Parse(c, cs, "json", mustJSON(cs)); f != "" {
					c.Fail(t, kindOf(f), cs, "program or error", clip(f, 600), fmt.Sprintf("depth %d, %s: %s", d, cs.Why, clip(f, 600)))
				}
			}
		}
	}
	c.ExhaustivePart(fmt.Sprintf("%d depths x %d shapes x 13 variants", len(depths), len(shapes)))
}
