package checks

import (
	"encoding/json"
	"flag"
	"fmt"
	"os"
	"path/filepath"
	"regexp"
	"sort"
	"strconv"
	"testing"

	textwire "github.com/textwire/textwire/v2"
	"pgregory.net/rapid"
	"verif/lib/harness"
	"verif/lib/tree"
)

// Result of one call into the library.
type Result struct {
	Out   string             `json:"out"`
	Err   string             `json:"err,omitempty"`
	Panic *harness.PanicInfo `json:"panic,omitempty"`
}

func (r Result) IsErr() bool { return r.Err != "" }

// evalString calls textwire.EvaluateString under the guard.
func evalString(c *harness.Check, kind, payload, src string, data map[string]any) Result {
	var r Result
	r.Panic = c.Guard(kind, payload, func() {
		out, err := textwire.EvaluateString(src, data)
		r.Out = out
		if err != nil {
			r.Err = err.Error()
			if r.Err == "" {
				r.Err = "(empty error text)"
			}
		}
	})
	return r
}

var errLineRe = regexp.MustCompile(`^\[Textwire ERROR(?: in (.*))?:(\d+)\]:\n`)

// errLine extracts the line (and path) from an error text "[Textwire ERROR in P:L]:\nmsg".
func errLine(msg string) (line int, path string, ok bool) {
	m := errLineRe.FindStringSubmatch(msg)
	if m == nil {
		return 0, "", false
	}
	n, _ := strconv.Atoi(m[2])
	return n, m[1], true
}

func errMessage(msg string) string {
	loc := errLineRe.FindStringIndex(msg)
	if loc == nil {
		return msg
	}
	return msg[loc[1]:]
}

// TestReplay re-executes the case of a replay file (VERIF_REPLAY) through the
// oracle of the check that wrote it; it fails iff the violation reproduces.
func TestReplay(t *testing.T) {
	path := harness.ReplayPath()
	if path == "" {
		t.Skip("no VERIF_REPLAY")
	}
	rf, err := harness.ReadReplay(path)
	if err != nil {
		fmt.Printf("REPLAY-ERROR cannot read %s: %v\n", path, err)
		os.Exit(2)
	}
	rp, ok := harness.LookupReplayer(rf.Property + "/" + rf.Check)
	if !ok {
		fmt.Printf("REPLAY-ERROR no replayer for %s/%s\n", rf.Property, rf.Check)
		os.Exit(2)
	}
	c := harness.New(t, rf.Property, "replay-"+rf.Check, "replay")
	var failure string
	pi := c.Guard("json", string(rf.Case), func() { failure = rp(rf.Case) })
	if pi != nil {
		failure = "panic: " + pi.Value
	}
	if failure != "" {
		fmt.Printf("REPLAY-REPRODUCED %s/%s: %s\n", rf.Property, rf.Check, failure)
		t.Fatalf("reproduced: %s", failure)
	}
	fmt.Printf("REPLAY-PASSED %s/%s\n", rf.Property, rf.Check)
}

func mustJSON(v any) string {
	b, err := json.Marshal(v)
	if err != nil {
		panic(err)
	}
	return string(b)
}

func unJSON[T any](raw json.RawMessage) (T, error) {
	var v T
	err := json.Unmarshal(raw, &v)
	return v, err
}

// TestCorpus replays every saved regression input of the property named by
// VERIF_CORPUS (corpus/<id>/*.json: shrunk failures found earlier, whether fixed
// since or seeded) through its check's oracle. Inputs of open known findings
// are skipped here; the driver probes those separately.
func TestCorpus(t *testing.T) {
	prop := os.Getenv("VERIF_CORPUS")
	if prop == "" {
		t.Skip("no VERIF_CORPUS")
	}
	c := harness.New(t, prop, "corpus", "saved regression inputs (shrunk failures found earlier) replayed through the oracle of the check that found them; every file is distinct and non-trivial by construction")
	defer c.Finish()
	files, _ := filepath.Glob(filepath.Join(harness.Root(), "corpus", prop, "*.json"))
	sort.Strings(files)
	open := harness.OpenReplays(prop)
	for _, f := range files {
		rel, _ := filepath.Rel(harness.Root(), f)
		if open[filepath.Clean(rel)] {
			continue
		}
		rf, err := harness.ReadReplay(f)
		if err != nil {
			t.Fatalf("bad corpus file %s: %v", f, err)
		}
		rp, ok := harness.LookupReplayer(rf.Property + "/" + rf.Check)
		if !ok {
			t.Fatalf("corpus file %s: no replayer for %s/%s", f, rf.Property, rf.Check)
		}
		var failure string
		pi := c.Guard("json", string(rf.Case), func() { failure = rp(rf.Case) })
		if pi != nil {
			failure = "panic: " + pi.Value
		}
		c.CaseEnum(true, "corpus-file")
		if failure != "" {
			var cs any
			json.Unmarshal(rf.Case, &cs)
			c.Record("regression", cs, nil, failure, "saved input "+rel+" fails again: "+failure)
			t.Errorf("corpus input %s fails: %s", rel, failure)
			c.Finish()
		}
	}
}

// runRapid runs a rapid property with a per-tier number of cases.
func runRapid(t *testing.T, c *harness.Check, quick, thorough int, prop func(rt *rapid.T)) {
	n := harness.Pick(quick, thorough)
	if v, err := strconv.ParseFloat(os.Getenv("VERIF_SCALE"), 64); err == nil && v > 0 {
		n = int(float64(n) * v)
	}
	if n < 1 {
		n = 1
	}
	flag.Set("rapid.checks", strconv.Itoa(n))
	rapid.Check(t, func(rt *rapid.T) {
		c.S.RapidRuns++
		prop(rt)
	})
}

func TestMain(m *testing.M) {
	code := m.Run()
	tree.Cleanup()
	os.Exit(code)
}

// TestAdhoc renders VERIF_ADHOC (a template) with VERIF_ADHOC_DATA (a JSON object) once and prints
// the outcome; a development aid, skipped in every registered run.
func TestAdhoc(t *testing.T) {
	src := os.Getenv("VERIF_ADHOC")
	if src == "" {
		t.Skip("no VERIF_ADHOC")
	}
	data := map[string]any{}
	if d := os.Getenv("VERIF_ADHOC_DATA"); d != "" {
		if err := json.Unmarshal([]byte(d), &data); err != nil {
			t.Fatal(err)
		}
	}
	out, err := textwire.EvaluateString(src, data)
	fmt.Printf("ADHOC out=%q err=%v\n", out, err)
}

// TestAdhocTree: VERIF_ADHOC_TREE is a JSON object {name: source}; the page "page" is rendered
// from a scratch directory (extension .tw). A development aid, skipped in registered runs.
func TestAdhocTree(t *testing.T) {
	raw := os.Getenv("VERIF_ADHOC_TREE")
	if raw == "" {
		t.Skip("no VERIF_ADHOC_TREE")
	}
	files := map[string]string{}
	if err := json.Unmarshal([]byte(raw), &files); err != nil {
		t.Fatal(err)
	}
	c := harness.New(nopTB{}, "adhoc", "adhoc", "")
	tr := loadAndRender(c, treeCase{Files: files, Dir: "t", Ext: ".tw", Page: "page"})
	fmt.Printf("ADHOC load_err=%q out=%q err=%q panic=%v\n", tr.LoadErr, tr.Out, tr.Err, tr.Panic)
}
