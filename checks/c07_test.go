package checks

import (
	"fmt"
	"strings"
	"testing"

	"pgregory.net/rapid"
	"verif/lib/harness"
	"verif/lib/refint"
	"verif/lib/spec"
	"verif/lib/tw"
)

// C07 — each @component use renders the component file with its own arguments and slots.

func init() {
	registerTreeReplayer("C07/components", "C07/errors", "C07/collisions", "C07/two-uses-enum")
}

// component files: name -> statements, declared slots and argument names.
type compDef struct {
	name  string
	stmts []*tw.Stmt
	slots []string // declared slot names ("" = default)
	args  []string
	needs string // usable only where this loop variable is visible
}

func c07Components() []compDef {
	slot := func(n string) *tw.Stmt { return &tw.Stmt{Kind: tw.SSlot, Name: n} }
	return []compDef{
		{name: "c0", args: []string{"n", "s"}, stmts: []*tw.Stmt{tw.Text("<c0 n="), tw.Print(tw.Var("n")), tw.Text(" s="), tw.Print(tw.Var("s")), tw.Text(">")}},
		{name: "c1", args: []string{"flag", "s"}, slots: []string{"", "head"}, stmts: []*tw.Stmt{tw.Text("<c1>\n"), slot("head"), tw.Text("\n"),
			{Kind: tw.SIf, Branches: []tw.Branch{{Cond: tw.Var("flag"), Body: []*tw.Stmt{tw.Text("ON:"), tw.Print(tw.Var("s"))}}}, HasElse: true, Else: []*tw.Stmt{tw.Text("OFF")}},
			tw.Text("|"), slot(""), tw.Text("</c1>")}},
		{name: "components/card.v2", args: []string{"n"}, slots: []string{"body", "foot"}, stmts: []*tw.Stmt{tw.Text("<card "), tw.Print(tw.Bin("+", tw.Var("n"), intLit(1))), tw.Text(" page="), tw.Print(tw.Var("i1")), tw.Text(">"),
			slot("body"), tw.Text("<hr>"), slot("foot"), tw.Text("</card>\n")}},
		{name: "c2", args: nil, slots: []string{""}, stmts: []*tw.Stmt{tw.Text("<c2 "), tw.Print(tw.Var("s1")), tw.Text(">"), slot(""), tw.Text("</c2>")}},
		// two placeholders whose names differ in letter case only: each shows the body passed under exactly its name
		{name: "c5", slots: []string{"title", "Title"}, stmts: []*tw.Stmt{tw.Text("<c5>"), slot("title"), tw.Text("|"), slot("Title"), tw.Text("</c5>")}},
		// a dozen placeholders
		{name: "c6", slots: []string{"s01", "s02", "s03", "s04", "s05", "s06", "s07", "s08", "s09", "s10", "s11", "s12"}, stmts: func() []*tw.Stmt {
			out := []*tw.Stmt{tw.Text("<c6>")}
			for i := 1; i <= 12; i++ {
				out = append(out, slot(fmt.Sprintf("s%02d", i)), tw.Text(fmt.Sprintf("/%d", i)))
			}
			return append(out, tw.Text("</c6>"))
		}()},
		// nothing is passed to these two: all they show comes from the surrounding loop
		{name: "c3", needs: "lv", stmts: []*tw.Stmt{tw.Text("<c3 "), tw.Print(tw.Var("lv")), tw.Text(" "), tw.Print(tw.Bin("+", tw.Var("i1"), intLit(1))), tw.Text(">")}},
		{name: "c4", needs: "fv", stmts: []*tw.Stmt{tw.Text("<c4 "), tw.Print(tw.Bin("*", tw.Var("fv"), intLit(10))), tw.Text(">")}},
	}
}

func compFiles() refint.Files {
	f := refint.Files{}
	for _, d := range c07Components() {
		f[d.name] = d.stmts
	}
	return f
}

type useGen struct {
	rt   *rapid.T
	env  *dataEnv
	uid  int
	eg   *exprGen
	uses map[string]int
	// inSlot: generating a slot body (no further nesting of uses in it)
	inSlot bool
}

// argExpr generates the value of argument a; loopVar, when set, is an int
// variable of an enclosing loop the argument may use.
func (u *useGen) argExpr(a, loopVar string) *tw.Expr {
	u.uid++
	// the page also has variables named like the arguments (same types): an
	// argument expression may use them, and it must see the page's values
	if u.env.Model["n"].K == refint.KInt && rapid.IntRange(0, 2).Draw(u.rt, "argFromNamesake") == 0 {
		switch a {
		case "n":
			return rapid.SampledFrom([]*tw.Expr{tw.Bin("+", tw.Var("n"), intLit(1)), tw.Call(tw.Var("s"), "len"), tw.Tern(tw.Var("flag"), intLit(1), tw.Var("n")), tw.Var("n"), tw.Var("n")}).Draw(u.rt, "argNNamesake")
		case "s":
			return rapid.SampledFrom([]*tw.Expr{tw.Call(tw.Var("n"), "str"), tw.Bin("+", tw.Var("s"), tw.Str("!")), tw.Tern(tw.Var("flag"), tw.Str("yes"), tw.Var("s")), tw.Var("s"), tw.Var("s")}).Draw(u.rt, "argSNamesake")
		default:
			return rapid.SampledFrom([]*tw.Expr{tw.Un(tw.ENot, tw.Var("flag")), tw.Bin(">", tw.Var("n"), intLit(0)), tw.Bin("==", tw.Var("s"), tw.Str("zz")), tw.Var("flag"), tw.Var("flag")}).Draw(u.rt, "argFlagNamesake")
		}
	}
	switch a {
	case "n":
		if loopVar != "" && rapid.Bool().Draw(u.rt, "argFromLoop") {
			return tw.Bin("*", tw.Var(loopVar), intLit(10))
		}
		return rapid.SampledFrom([]*tw.Expr{intLit(int64(u.uid)), tw.Var("i1"), tw.Bin("+", tw.Var("i2"), intLit(int64(u.uid)))}).Draw(u.rt, "argN")
	case "s":
		return rapid.SampledFrom([]*tw.Expr{tw.Str(fmt.Sprintf("str%d", u.uid)), tw.Var("s1"), tw.Bin("+", tw.Str("p"), tw.Var("s1"))}).Draw(u.rt, "argS")
	default:
		return rapid.SampledFrom([]*tw.Expr{tw.Bool(true), tw.Bool(false), tw.Var("b1"), tw.Bin("<", tw.Var("i1"), intLit(3))}).Draw(u.rt, "argFlag")
	}
}

func (u *useGen) slotBody(loopVar string) []*tw.Stmt {
	u.uid++
	body := []*tw.Stmt{tw.Text(fmt.Sprintf("slot#%d", u.uid))}
	switch rapid.IntRange(0, 5).Draw(u.rt, "slotBodyForm") {
	case 0:
		body = append(body, tw.Print(tw.Var("s1")))
	case 1:
		if loopVar != "" {
			body = append(body, tw.Text("@"), tw.Print(tw.Var(loopVar)))
		}
	case 2:
		body = append(body, &tw.Stmt{Kind: tw.SIf, Branches: []tw.Branch{{Cond: tw.Var("b1"), Body: []*tw.Stmt{tw.Text("(b1)")}}}})
	case 3:
		body = append(body, tw.Print(tw.Bin("+", tw.Var("i1"), intLit(int64(u.uid)))))
	case 4:
		// a use written in the page inside a slot body (one level)
		if !u.inSlot {
			u.inSlot = true
			body = append(body, u.use(loopVar)...)
			u.inSlot = false
			u.uses["in-slot-body"]++
		}
	}
	return body
}

func (u *useGen) use(loopVar string) []*tw.Stmt {
	var defs []compDef
	for _, d := range c07Components() {
		if d.needs == "" || d.needs == loopVar {
			defs = append(defs, d)
			if d.needs != "" {
				defs = append(defs, d, d) // favoured where they are possible
			}
		}
	}
	d := defs[rapid.IntRange(0, len(defs)-1).Draw(u.rt, "comp")]
	ref := d.name
	if d.name == "components/card.v2" && rapid.Bool().Draw(u.rt, "alias") {
		ref = "~card.v2"
	} else if rapid.IntRange(0, 3).Draw(u.rt, "refSpelling") == 0 {
		// other spellings of the same relative path
		ref = rapid.SampledFrom([]string{"/" + d.name, "./" + d.name, "x/../" + d.name, strings.Replace("sub/../"+d.name, "components/", "components//", 1)}).Draw(u.rt, "spelling")
	}
	u.uses[d.name]++
	st := &tw.Stmt{Kind: tw.SComponent, Name: ref}
	var keys []string
	var vals []*tw.Expr
	for _, a := range d.args {
		if rapid.IntRange(0, 9).Draw(u.rt, "omitArg") == 0 {
			continue
		}
		keys = append(keys, a)
		vals = append(vals, u.argExpr(a, loopVar))
	}
	if len(keys) > 0 || rapid.Bool().Draw(u.rt, "emptyArgObj") {
		st.Arg = tw.Obj(keys, vals)
	}
	for _, sn := range d.slots {
		if rapid.IntRange(0, 2).Draw(u.rt, "passSlot") == 0 {
			continue
		}
		st.Slots = append(st.Slots, &tw.Stmt{Kind: tw.SSlot, Name: sn, Body: u.slotBody(loopVar), Text: rapid.SampledFrom([]string{"\n", " ", "\n  ", "", "\r\n", "\r\n\t", "\t", " \r\n \n", "\n{{-- the next slot --}}\n", " {{-- a --}}{{-- b --}} ", "\n{{-- @slot @end }} --}}"}).Draw(u.rt, "slotWs")})
	}
	if len(st.Slots) > 0 {
		st.Text = rapid.SampledFrom([]string{"\n", "", " ", "\r\n", "\t\r\n", "\n{{-- end of the use --}}\n", "{{-- x --}}"}).Draw(u.rt, "endWs")
		return []*tw.Stmt{st, tw.Text(";")}
	}
	// a slot-less use must be followed by something that is not whitespace
	return []*tw.Stmt{st, tw.Text(";")}
}

func (u *useGen) page(depth int) []*tw.Stmt {
	var out []*tw.Stmt
	n := rapid.IntRange(1, 4).Draw(u.rt, "nUses")
	for i := 0; i < n; i++ {
		out = append(out, tw.Text(fmt.Sprintf("\n<u%d>", i)))
		switch rapid.IntRange(0, 7).Draw(u.rt, "useWhere") {
		case 6:
			// in the @else of a loop over an empty (or not empty) array
			arr := rapid.SampledFrom([]*tw.Expr{tw.Arr(), tw.Arr(), tw.Arr(intLit(1))}).Draw(u.rt, "elseArr")
			out = append(out, &tw.Stmt{Kind: tw.SEach, Name: "ev", E: arr, Body: []*tw.Stmt{tw.Text("(item)")}, HasElse: true, Else: u.use("")})
			u.uses["in-loop-else"]++
		case 7:
			out = append(out, &tw.Stmt{Kind: tw.SIf, Branches: []tw.Branch{{Cond: tw.Bool(false), Body: []*tw.Stmt{tw.Text("no")}}, {Cond: tw.Var("b1"), Body: u.use("")}}, HasElse: true, Else: []*tw.Stmt{
				{Kind: tw.SFor, Name: "fz", Init: intLit(0), Cond: tw.Bin("<", tw.Var("fz"), intLit(0)), Post: tw.Un(tw.EInc, tw.Var("fz")), Body: []*tw.Stmt{tw.Text("never")}, HasElse: true, Else: u.use("")}}})
			u.uses["in-elseif-or-for-else"]++
		case 0, 1, 2:
			out = append(out, u.use("")...)
		case 3:
			arr := rapid.SampledFrom([]*tw.Expr{tw.Arr(intLit(1), intLit(2)), tw.Arr(intLit(3), intLit(4), intLit(5)), tw.Var("ai"), tw.Arr()}).Draw(u.rt, "loopArr")
			out = append(out, &tw.Stmt{Kind: tw.SEach, Name: "lv", E: arr, Body: append([]*tw.Stmt{tw.Text("{")}, append(u.use("lv"), tw.Text("}"))...)})
			u.uses["in-loop"]++
		case 4:
			out = append(out, &tw.Stmt{Kind: tw.SIf, Branches: []tw.Branch{{Cond: tw.Var("b1"), Body: u.use("")}}, HasElse: true, Else: u.use("")})
		default:
			out = append(out, &tw.Stmt{Kind: tw.SFor, Name: "fv", Init: intLit(0), Cond: tw.Bin("<", tw.Var("fv"), intLit(2)), Post: tw.Un(tw.EInc, tw.Var("fv")), Body: u.use("fv")})
			u.uses["in-loop"]++
		}
	}
	return out
}

func TestC07_Components(t *testing.T) {
	c := harness.New(t, "C07", "components",
		"pages with 1..4 uses of eight component files (one with twelve placeholders; two placeholders whose names differ in letter case only; arguments used in text, expressions and conditions; a page variable that is not passed; two files that take nothing and show the variable of the loop around the use; default and named top-level slots; one under components/ addressed by '~name'): the same component several times with different arguments and different / missing slot bodies, uses inside @each and @for (arguments and slot bodies from the loop variable, >= 2 passes), inside @if/@elseif/@else, inside the @else of @each and @for, inside @insert blocks of a layout, and inside the slot body passed to another use; slot bodies with text and {{ }} over page variables; blanks, line ends and comments before the first slot, between slots and before the closing @end; in one directory of five some component and layout files are symbolic links to files kept elsewhere. Expected: reference instantiation (arguments evaluated at the place of use, surrounding scope visible, each placeholder replaced by the body passed by that use or nothing). Non-trivial: one component used >= 2 times or a use evaluated in a loop. Distinct by hash of files + data.")
	defer c.Finish()
	in := interp()
	runRapid(t, c, 4000, 45000, func(rt *rapid.T) {
		env := genDataEnv().Draw(rt, "data")
		if rapid.Bool().Draw(rt, "namesakes") {
			env.add("n", spec.IntOf(spec.TInt, int64(rapid.IntRange(-5, 50).Draw(rt, "pageN"))))
			env.add("s", spec.String(rapid.SampledFrom([]string{"page-s", "", "zz"}).Draw(rt, "pageS")))
			env.add("flag", spec.Bool(rapid.Bool().Draw(rt, "pageFlag")))
		}
		u := &useGen{rt: rt, env: env, uses: map[string]int{}}
		page := u.page(2)
		files := compFiles()
		pageName := "page"
		if rapid.IntRange(0, 3).Draw(rt, "withLayout") == 0 {
			files["layouts/l"] = []*tw.Stmt{tw.Text("<L>"), {Kind: tw.SReserve, Name: "main"}, tw.Text("</L>")}
			page = []*tw.Stmt{{Kind: tw.SUse, Name: "~l"}, tw.Text("\n"), {Kind: tw.SInsert, Name: "main", Block: true, Body: page}}
			u.uses["in-insert"]++
		}
		files[pageName] = page
		if le := refint.Validate(files); le != nil {
			c.Class("harness:generated-tree-invalid:" + le.Why)
			return
		}
		out, _ := in.RenderPage(files, pageName, env.Model)
		cs := treeCase{Files: printFiles(files, genLayout().Draw(rt, "layout")), Dir: "t", Ext: ".tw", Page: pageName, Data: env.D, Want: wantFromOut(out)}
		if rapid.IntRange(0, 4).Draw(rt, "linkedFiles") == 0 {
			// some of the files are symbolic links to files kept outside the template directory (a shared component library)
			for n := range cs.Files {
				if n != pageName {
					cs.Linked = append(cs.Linked, n)
				}
			}
			sortStrings(cs.Linked)
			cs.Linked = rapid.SliceOfNDistinct(rapid.SampledFrom(cs.Linked), 1, len(cs.Linked), rapid.ID[string]).Draw(rt, "linked")
		}
		maxUses := 0
		for _, d := range c07Components() {
			if u.uses[d.name] > maxUses {
				maxUses = u.uses[d.name]
			}
		}
		nt := maxUses >= 2 || u.uses["in-loop"] > 0
		classes := []string{"outcome:" + out.St.String(), fmt.Sprintf("max-uses-of-one:%d", min(maxUses, 4))}
		for _, k := range []string{"in-loop", "in-insert", "in-slot-body", "in-loop-else", "in-elseif-or-for-else"} {
			if u.uses[k] > 0 {
				classes = append(classes, "use:"+k)
			}
		}
		if len(cs.Linked) > 0 {
			classes = append(classes, "symlinked-component-files")
		}
		if out.St == refint.Unspec {
			classes = append(classes, "unspecified:"+firstWords(out.Why, 4))
		}
		c.Case(nt, mustJSON(cs.Files)+mustJSON(cs.Linked)+mustJSON(env.D), classes...)
		if nt {
			c.Sample(cs.sample())
		}
		if r, f := runTreeCase(c, cs); f != "" {
			c.Fail(rt, kindOf(f), cs, cs.Want, r, f)
		}
	})
}

func TestC07_TwoUsesEnum(t *testing.T) {
	c := harness.New(t, "C07", "two-uses-enum",
		"two uses of one component (default + named slot) in one page: every combination of {slot passed, not passed} for both slots of both uses, with distinct bodies and arguments, at top level and with the second use inside a loop of 2 passes: exhaustive; every use must show its own arguments and slot bodies. Non-trivial: all. Distinct by construction.")
	defer c.Finish()
	in := interp()
	comp := []*tw.Stmt{tw.Text("["), tw.Print(tw.Var("n")), tw.Text("|"), {Kind: tw.SSlot, Name: "a"}, tw.Text("|"), {Kind: tw.SSlot, Name: ""}, tw.Text("]")}
	idx := 0
	for bits := 0; bits < 16; bits++ {
		for _, shape := range []string{"flat", "second-in-loop", "both-in-loop", "three-uses"} {
			idx++
			if !harness.Mine(idx) {
				continue
			}
			mk := func(id int, passA, passD bool, n *tw.Expr) *tw.Stmt {
				st := &tw.Stmt{Kind: tw.SComponent, Name: "box", Arg: tw.Obj([]string{"n"}, []*tw.Expr{n})}
				if passA {
					st.Slots = append(st.Slots, &tw.Stmt{Kind: tw.SSlot, Name: "a", Body: []*tw.Stmt{tw.Text(fmt.Sprintf("A%d", id))}, Text: "\n"})
				}
				if passD {
					st.Slots = append(st.Slots, &tw.Stmt{Kind: tw.SSlot, Name: "", Body: []*tw.Stmt{tw.Text(fmt.Sprintf(" D%d", id))}, Text: " "})
				}
				st.Text = "\n"
				return st
			}
			u1 := mk(1, bits&1 != 0, bits&2 != 0, intLit(1))
			u2 := mk(2, bits&4 != 0, bits&8 != 0, intLit(2))
			var page []*tw.Stmt
			switch shape {
			case "flat":
				page = []*tw.Stmt{u1, tw.Text(" and "), u2, tw.Text(".")}
			case "second-in-loop":
				u2.Arg = tw.Obj([]string{"n"}, []*tw.Expr{tw.Var("v")})
				page = []*tw.Stmt{u1, tw.Text(" and "), {Kind: tw.SEach, Name: "v", E: tw.Arr(intLit(7), intLit(8)), Body: []*tw.Stmt{u2, tw.Text(",")}}}
			case "both-in-loop":
				u1.Arg = tw.Obj([]string{"n"}, []*tw.Expr{tw.Var("v")})
				u2.Arg = tw.Obj([]string{"n"}, []*tw.Expr{tw.Bin("*", tw.Var("v"), intLit(2))})
				page = []*tw.Stmt{{Kind: tw.SEach, Name: "v", E: tw.Arr(intLit(7), intLit(8)), Body: []*tw.Stmt{u1, tw.Text("+"), u2, tw.Text(",")}}}
			case "three-uses":
				u3 := mk(3, bits&1 == 0, bits&8 == 0, intLit(3))
				page = []*tw.Stmt{u1, tw.Text(" and "), u2, tw.Text(" and "), u3, tw.Text(".")}
			}
			files := refint.Files{"box": comp, "page": page}
			out, _ := in.RenderPage(files, "page", nil)
			cs := treeCase{Files: printFiles(files, nil), Dir: "t", Ext: ".tw", Page: "page", Want: wantFromOut(out)}
			c.CaseEnum(true, "shape:"+shape)
			if idx%7 == 0 {
				c.Sample(cs.sample())
			}
			if r, f := runTreeCase(c, cs); f != "" {
				c.Fail(t, kindOf(f), cs, cs.Want, r, f)
			}
		}
	}
	c.ExhaustivePart("16 slot-passing combinations x 4 page shapes")
}

func TestC07_Errors(t *testing.T) {
	c := harness.New(t, "C07", "errors",
		"load-time error classes, each inside an otherwise valid generated page: a slot the component does not declare (named - an unrelated name, a declared name in another letter case, with a trailing blank, shortened or lengthened - and default), a slot passed twice (named and default; any one of the twelve slots of a use that passes them all) - the offending body being text, a blank, a comment, an empty print or nothing at all -, a missing component file (plain and '~' name); NewTemplate must fail and the message must name the component. Non-trivial: all. Distinct by hash.")
	defer c.Finish()
	runRapid(t, c, 600, 7500, func(rt *rapid.T) {
		env := genDataEnv().Draw(rt, "data")
		u := &useGen{rt: rt, env: env, uses: map[string]int{}}
		page := u.page(2)
		files := compFiles()
		// (the body passed under the bad name may be text, a blank, a comment or nothing at all)
		body := rapid.SampledFrom([][]*tw.Stmt{{tw.Text("x")}, {tw.Text("x")}, nil, {tw.Text("{{-- nothing --}}")}, {tw.Text(" ")}, {tw.Print(tw.Str(""))}}).Draw(rt, "badBody")
		kind := rapid.SampledFrom([]string{"undeclared-named-slot", "undeclared-default-slot", "duplicate-named-slot", "duplicate-default-slot", "missing-component", "missing-alias-component", "duplicate-among-many-slots"}).Draw(rt, "errorKind")
		var bad *tw.Stmt
		mention := ""
		switch kind {
		case "undeclared-named-slot":
			// an unrelated name, or a declared name in another letter case or with a blank: not that slot
			bad = &tw.Stmt{Kind: tw.SComponent, Name: "c1", Arg: tw.Obj([]string{"flag", "s"}, []*tw.Expr{tw.Bool(true), tw.Str("s")}), Slots: []*tw.Stmt{{Kind: tw.SSlot, Name: rapid.SampledFrom([]string{"nosuch", "Head", "HEAD", "head ", "hea", "heads"}).Draw(rt, "undeclaredName"), Body: body, Text: "\n"}}, Text: "\n"}
			mention = "c1"
		case "undeclared-default-slot":
			bad = &tw.Stmt{Kind: tw.SComponent, Name: "~card.v2", Arg: tw.Obj([]string{"n"}, []*tw.Expr{intLit(1)}), Slots: []*tw.Stmt{{Kind: tw.SSlot, Name: "", Body: body, Text: "\n"}}, Text: "\n"}
			mention = "components/card.v2"
		case "duplicate-named-slot":
			bad = &tw.Stmt{Kind: tw.SComponent, Name: "c1", Arg: tw.Obj([]string{"flag", "s"}, []*tw.Expr{tw.Bool(true), tw.Str("s")}), Slots: []*tw.Stmt{{Kind: tw.SSlot, Name: "head", Body: body, Text: "\n"}, {Kind: tw.SSlot, Name: "head", Body: body, Text: "\n"}}, Text: "\n"}
			mention = "c1"
		case "duplicate-among-many-slots":
			// all twelve slots of c6 passed, one of them (the k-th written) a second time
			k := rapid.IntRange(0, 11).Draw(rt, "dupAt")
			var slots []*tw.Stmt
			for i := 1; i <= 12; i++ {
				slots = append(slots, &tw.Stmt{Kind: tw.SSlot, Name: fmt.Sprintf("s%02d", i), Body: []*tw.Stmt{tw.Text(fmt.Sprintf("b%d", i))}, Text: "\n"})
			}
			at := rapid.IntRange(k+1, 12).Draw(rt, "dupWrittenAt")
			dup := &tw.Stmt{Kind: tw.SSlot, Name: fmt.Sprintf("s%02d", k+1), Body: []*tw.Stmt{tw.Text("again")}, Text: "\n"}
			slots = append(slots[:at], append([]*tw.Stmt{dup}, slots[at:]...)...)
			bad = &tw.Stmt{Kind: tw.SComponent, Name: "c6", Slots: slots, Text: "\n"}
			mention = "c6"
		case "duplicate-default-slot":
			bad = &tw.Stmt{Kind: tw.SComponent, Name: "c2", Slots: []*tw.Stmt{{Kind: tw.SSlot, Name: "", Body: body, Text: "\n"}, {Kind: tw.SSlot, Name: "", Body: body, Text: " "}}, Text: "\n"}
			mention = "c2"
		case "missing-component":
			bad = &tw.Stmt{Kind: tw.SComponent, Name: "nosuchcomp"}
			mention = "nosuchcomp"
		default:
			bad = &tw.Stmt{Kind: tw.SComponent, Name: "~nosuchcomp"}
			mention = "nosuchcomp"
		}
		at := rapid.IntRange(0, len(page)).Draw(rt, "badAt")
		page = append(page[:at], append([]*tw.Stmt{bad, tw.Text(";")}, page[at:]...)...)
		files["page"] = page
		le := refint.Validate(files)
		if le == nil {
			c.Class("harness:error-tree-valid")
			return
		}
		cs := treeCase{Files: printFiles(files, nil), Dir: "t", Ext: ".tw", Page: "page", Data: env.D, LoadErr: true, Mentions: mention, Note: kind}
		c.Case(true, mustJSON(cs.Files), "error:"+kind)
		c.Sample(cs.sample())
		if r, f := runTreeCase(c, cs); f != "" {
			c.Fail(rt, kindOf(f), cs, "load error naming "+mention, r, f)
		}
	})
}

func TestC07_Collisions(t *testing.T) {
	c := harness.New(t, "C07", "collisions",
		"a component argument whose name is visible at the place of use with a different type (assigned in the page, supplied as data, or a loop variable): accepted outcomes are an error or the argument's own value; the outer value must never show (type stability: never silently). Also the same-type case (argument shadows and the outer value is restored afterwards) and the argument name 'loop' (must fail). Non-trivial: all. Distinct by construction.")
	defer c.Finish()
	comp := []*tw.Stmt{tw.Text("["), tw.Print(tw.Var("n")), tw.Text("]")}
	type col struct {
		name    string
		page    []*tw.Stmt
		data    *spec.Data
		forbid  string
		mustErr bool
		want    string
	}
	use := func(arg *tw.Expr) *tw.Stmt {
		return &tw.Stmt{Kind: tw.SComponent, Name: "show", Arg: tw.Obj([]string{"n"}, []*tw.Expr{arg})}
	}
	cases := []col{
		{name: "assigned-string-vs-int-arg", page: []*tw.Stmt{tw.Assign("n", tw.Str("OUTER")), use(intLit(5)), tw.Text(";")}, forbid: "OUTER"},
		{name: "data-string-vs-int-arg", page: []*tw.Stmt{use(intLit(5)), tw.Text(";")}, data: specData(map[string]any{"n": "OUTER"}), forbid: "OUTER"},
		{name: "data-int-vs-string-arg", page: []*tw.Stmt{use(tw.Str("arg")), tw.Text(";")}, data: specData(map[string]any{"n": 777}), forbid: "777"},
		{name: "loopvar-int-vs-string-arg", page: []*tw.Stmt{{Kind: tw.SEach, Name: "n", E: tw.Arr(intLit(777), intLit(888)), Body: []*tw.Stmt{use(tw.Str("arg")), tw.Text(";")}}}, forbid: "777"},
		{name: "data-bool-vs-array-arg", page: []*tw.Stmt{use(tw.Arr(intLit(4))), tw.Text(";")}, data: specData(map[string]any{"n": "OUTER"}), forbid: "OUTER"},
		{name: "same-type-shadow", page: []*tw.Stmt{tw.Assign("n", intLit(1)), use(intLit(5)), tw.Text(";"), tw.Print(tw.Var("n"))}, want: "[5];1"},
		{name: "same-type-shadow-data", page: []*tw.Stmt{use(tw.Bin("+", tw.Var("n"), intLit(1))), tw.Text(";"), tw.Print(tw.Var("n"))}, data: specData(map[string]any{"n": 41}), want: "[42];41"},
		{name: "argument-named-loop", page: []*tw.Stmt{{Kind: tw.SComponent, Name: "show", Arg: tw.Obj([]string{"n", "loop"}, []*tw.Expr{intLit(1), intLit(2)})}, tw.Text(";")}, mustErr: true},
	}
	for _, cl := range cases {
		files := refint.Files{"show": comp, "page": cl.page}
		cs := treeCase{Files: printFiles(files, nil), Dir: "t", Ext: ".tw", Page: "page", Data: cl.data, Want: want{St: "unspecified"}, NotContains: cl.forbid, Note: cl.name}
		if cl.mustErr {
			cs.Want = want{St: "error", Why: "loop as argument"}
		}
		if cl.want != "" {
			cs.Want = want{St: "ok", Kind: "text", S: cl.want}
		}
		c.CaseEnum(true, "collision:"+cl.name)
		c.Sample(cs.sample())
		if r, f := runTreeCase(c, cs); f != "" {
			c.Fail(t, kindOf(f), cs, "error or the argument's value", r, f)
		}
	}
	// arguments are evaluated at the place of use: an argument expression that
	// names a page variable sees the page's value even when another argument of
	// the same use has that name
	for i, sh := range []struct{ page, want string }{
		{`{{ a = "A"; b = "B" }}@component("pair", {a: b, b: a});`, "<B|A>;"},
		{`{{ a = 1; b = 10; c = 100 }}@component("triple", {a: c, b: a + 1, c: a + b});`, "<100|2|11>;"},
		{`@each(a in [1, 2])@component("triple", {a: a * 10, b: a, c: a + 1})@end;`, "<10|1|2><20|2|3>;"},
		{`{{ b = 5 }}@component("pair", {a: b, b: b + 1}),{{ b }};`, "<5|6>,5;"},
	} {
		files := refint.Files{"pair": []*tw.Stmt{tw.Text("<"), tw.Print(tw.Var("a")), tw.Text("|"), tw.Print(tw.Var("b")), tw.Text(">")},
			"triple": []*tw.Stmt{tw.Text("<"), tw.Print(tw.Var("a")), tw.Text("|"), tw.Print(tw.Var("b")), tw.Text("|"), tw.Print(tw.Var("c")), tw.Text(">")}}
		src := printFiles(files, nil)
		src["page"] = sh.page
		cs := treeCase{Files: src, Dir: "t", Ext: ".tw", Page: "page", Want: want{St: "ok", Kind: "text", S: sh.want}, Note: fmt.Sprintf("argument-order-%d", i)}
		c.CaseEnum(true, "collision:arguments-naming-each-other")
		c.Sample(cs.sample())
		if r, f := runTreeCase(c, cs); f != "" {
			c.Fail(t, kindOf(f), cs, sh.want, r, f)
		}
	}
	// a component is a block: what it (or a slot body evaluated in it) assigns
	// is gone when the use ends, with and without an argument object
	for i, sh := range []struct {
		page string
		w    want
	}{
		{`{{ n = 1 }}@component("setter");[{{ n }}]`, want{St: "ok", Kind: "text", S: "<set 5>;[1]"}},
		{`{{ n = 1 }}@component("setter", {});[{{ n }}]`, want{St: "ok", Kind: "text", S: "<set 5>;[1]"}},
		{`{{ n = 1 }}@component("setter", {other: 2});[{{ n }}]`, want{St: "ok", Kind: "text", S: "<set 5>;[1]"}},
		{`@component("setter");[{{ n }}]`, want{St: "error", Why: "n is not visible after the component"}},
		{`@component("holder")
@slot{{ v = "x" }}{{ v }}@end
@end;{{ v = 1 }}[{{ v }}]`, want{St: "ok", Kind: "text", S: "<x>;[1]"}},
		{`@each(k in [1, 2])@component("setter");{{ k }}@end`, want{St: "ok", Kind: "text", S: "<set 5>;1<set 5>;2"}},
		{`@component("holder", {a: 1})
@slot{{ w = 2 }}{{ w }}@end
@end;[{{ w }}]`, want{St: "error", Why: "w is not visible after the component"}},
	} {
		src := map[string]string{"setter": "<set {{ n = 5 }}{{ n }}>", "holder": "<@slot>", "page": sh.page}
		cs := treeCase{Files: src, Dir: "t", Ext: ".tw", Page: "page", Want: sh.w, Note: fmt.Sprintf("component-scope-%d", i)}
		c.CaseEnum(true, "collision:component-is-a-block")
		c.Sample(cs.sample())
		if r, f := runTreeCase(c, cs); f != "" {
			c.Fail(t, kindOf(f), cs, sh.w, r, f)
		}
	}
	c.ExhaustivePart("8 hand-written collision shapes + 4 shapes with arguments that name each other + 7 component-scope shapes")
}
