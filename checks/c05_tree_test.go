package checks

import (
	"fmt"
	"testing"

	"verif/lib/harness"
)

// C05/after-component: text that follows a directive of the template API (a
// component use without slots) is text like any other, also when it is white
// space only and whatever stands behind it.

func init() {
	registerTreeReplayer("C05/after-component")
}

func TestC05_AfterComponent(t *testing.T) {
	c := harness.New(t, "C05", "after-component",
		"pages of a template directory in which a component use without slots - @component(\"c\"), @component(\"c\", {}), @component(\"c\", {a: 1}) - is followed by every text run of <= 2 pieces from {space, LF, TAB, CRLF, NBSP, U+3000, U+2003, U+0085, FF, VT, a letter} and then by each of {a {{ }} block, an @if block, a comment, another use, plain text, the end of the file}; the component file has a placeholder or none. Exhaustive. Expected: text before + the component's rendering + the run byte for byte + the rendering of what follows. Non-trivial: a run of white space only. Distinct by construction.")
	defer c.Finish()
	pieces := []string{"", " ", "\n", "\t", "\r\n", " ", "　", " ", "\u0085", "\f", "\v", "x"}
	followers := []struct{ src, out string }{{"{{ 1 + 1 }}", "2"}, {"@if(true)y@end", "y"}, {"{{-- note --}}", ""}, {"@component(\"c\")", "<c>"}, {"tail", "tail"}, {"", ""}}
	uses := []string{`@component("c")`, `@component("c", {})`, `@component("c", {a: 1})`, `@component( "c" )`}
	idx := 0
	for ci, comp := range []string{"<c>", "<c>@slot"} {
		for _, p1 := range pieces {
			for _, p2 := range pieces {
				run := p1 + p2
				if p1 == "" && p2 != "" {
					continue // the same runs as (p2, "")
				}
				for fi, f := range followers {
					idx++
					if !harness.Mine(idx) {
						continue
					}
					use := uses[idx%len(uses)]
					cs := treeCase{Files: map[string]string{"c": comp, "page": "A-" + use + run + f.src}, Dir: "t", Ext: ".tw", Page: "page",
						Want: want{St: "ok", Kind: "text", S: "A-<c>" + run + f.out}, Note: fmt.Sprintf("component %d, follower %d", ci, fi)}
					ws := true
					for _, r := range run {
						ws = ws && r != 'x'
					}
					c.CaseEnum(ws && run != "", fmt.Sprintf("follower:%d", fi), fmt.Sprintf("whitespace-only:%v", ws && run != ""))
					if idx%97 == 0 {
						c.Sample(cs.sample())
					}
					if r, fl := runTreeCase(c, cs); fl != "" {
						c.Fail(t, kindOf(fl), cs, cs.Want, r, fl)
					}
				}
			}
		}
	}
	c.ExhaustivePart("2 component files x 133 runs x 6 followers x 4 spellings of the use (rotating)")
}
