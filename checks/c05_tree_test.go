package checks

import (
	"encoding/json"
	"fmt"
	"net/http/httptest"
	"strings"
	"testing"

	textwire "github.com/textwire/textwire/v2"
	"github.com/textwire/textwire/v2/config"
	"verif/lib/harness"
	"verif/lib/reftext"
	"verif/lib/tree"
)

// C05/after-component: text that follows a directive of the template API (a
// component use without slots) is text like any other, also when it is white
// space only and whatever stands behind it.

func init() {
	registerTreeReplayer("C05/after-component")
	harness.RegisterReplayer("C05/response-body", func(raw json.RawMessage) string {
		cs, err := unJSON[treeCase](raw)
		if err != nil {
			return "bad case: " + err.Error()
		}
		return c05Response(harness.New(nopTB{}, "C05", "replay", ""), cs)
	})
}

func TestC05_AfterComponent(t *testing.T) {
	c := harness.New(t, "C05", "after-component",
		"pages of a template directory in which a component use without slots - @component(\"c\"), @component(\"c\", {}), @component(\"c\", {a: 1}) - (and, where the component file has a placeholder, a use that passes a slot body) is followed by every text run of <= 2 pieces from {space, LF, TAB, CRLF, NBSP, U+3000, U+2003, U+0085, FF, VT, a letter} and then by each of {a {{ }} block, an @if block, a comment, another use, plain text, the end of the file}; the component file has a placeholder or none; the same runs between the ')' of a use and its first @slot (blanks, tabs and line ends belong to the use, anything else is text and stays); pages with three uses of one component, with and without slot bodies, in every order. Exhaustive. Expected: text before + the component's rendering + the run byte for byte + the rendering of what follows. Non-trivial: a run of white space only. Distinct by construction.")
	defer c.Finish()
	pieces := []string{"", " ", "\n", "\t", "\r\n", " ", "　", " ", "\u0085", "\f", "\v", "x"}
	followers := []struct{ src, out string }{{"{{ 1 + 1 }}", "2"}, {"@if(true)y@end", "y"}, {"{{-- note --}}", ""}, {"@component(\"c\")", "<c>"}, {"tail", "tail"}, {"", ""}}
	uses := []string{`@component("c")`, `@component("c", {})`, `@component("c", {a: 1})`, `@component( "c" )`}
	// with a placeholder in the component file: uses that pass a slot body (text after their closing @end is text too)
	slotted := []string{"@component(\"c\")@slot[s]@end@end", "@component(\"c\", {a: 1})\n@slot[s]@end\n@end", "@component(\"c\")\n  @slot[s]@end @end"}
	idx := 0
	for ci, comp := range []string{"<c>", "<c>@slot"} {
		for _, p1 := range pieces {
			for _, p2 := range pieces {
				run := p1 + p2
				if p1 == "" && p2 != "" {
					continue // the same runs as (p2, "")
				}
				for fi, f := range followers {
					idx++
					if !harness.Mine(idx) {
						continue
					}
					use, compOut, follOut := uses[idx%len(uses)], "<c>", f.out
					if ci == 1 && idx%2 == 0 {
						use, compOut = slotted[idx/2%len(slotted)], "<c>[s]"
					}
					cs := treeCase{Files: map[string]string{"c": comp, "page": "A-" + use + run + f.src}, Dir: "t", Ext: ".tw", Page: "page",
						Want: want{St: "ok", Kind: "text", S: "A-" + compOut + run + follOut}, Note: fmt.Sprintf("component %d, follower %d", ci, fi)}
					ws := true
					for _, r := range run {
						ws = ws && r != 'x'
					}
					c.CaseEnum(ws && run != "", fmt.Sprintf("follower:%d", fi), fmt.Sprintf("whitespace-only:%v", ws && run != ""))
					if idx%97 == 0 {
						c.Sample(cs.sample())
					}
					if r, fl := runTreeCase(c, cs); fl != "" {
						c.Fail(t, kindOf(fl), cs, cs.Want, r, fl)
					}
				}
			}
		}
	}
	// the same runs between the ')' of a use and its first @slot: blanks, tabs and line ends there belong to the
	// use; any other character - also one that only looks like white space - is text of the page and stays
	for _, p1 := range pieces {
		for _, p2 := range pieces {
			run := p1 + p2
			if p1 == "" && p2 != "" {
				continue
			}
			idx++
			if !harness.Mine(idx) {
				continue
			}
			cs := treeCase{Files: map[string]string{"c": "<c>@slot", "page": "A-@component(\"c\")" + run + "@slot[s]@end@end-Z"}, Dir: "t", Ext: ".tw", Page: "page", Note: "run before the first slot"}
			if strings.Trim(run, " \t\r\n") == "" {
				cs.Want = want{St: "ok", Kind: "text", S: "A-<c>[s]-Z"}
			} else {
				// (what becomes of the slot block after text is not settled; the text is)
				cs.Want, cs.MustContain = want{St: "unspecified", Why: "a slot block after text that ends the use"}, "A-<c>"+run
			}
			c.CaseEnum(run != "" && !strings.Contains(run, "x"), "run-before-first-slot")
			if r, fl := runTreeCase(c, cs); fl != "" {
				c.Fail(t, kindOf(fl), cs, cs.Want, r, fl)
			}
		}
	}
	// several uses of one component on a page, with and without slot bodies, in every order: the text of a slot body
	// appears where it is written, once
	forms := []struct{ src, out string }{{"@component(\"c\");", "<c>;"}, {"@component(\"c\")@slot[s1 }} é]@end@end", "<c>[s1 }} é]"}, {"@component(\"c\", {a: 1})\n@slot[s2]@end\n@end", "<c>[s2]"}, {"@component(\"c\", {});", "<c>;"}}
	for i := range forms {
		for j := range forms {
			for k := range forms {
				idx++
				if !harness.Mine(idx) {
					continue
				}
				use := []int{i, j, k}
				src, out := "A", "A"
				for n, u := range use {
					src += forms[u].src + fmt.Sprintf("-%d-", n)
					out += forms[u].out + fmt.Sprintf("-%d-", n)
				}
				cs := treeCase{Files: map[string]string{"c": "<c>@slot", "page": src}, Dir: "t", Ext: ".tw", Page: "page", Want: want{St: "ok", Kind: "text", S: out}, Note: "three uses of one component"}
				c.CaseEnum(true, "several-uses")
				if r, fl := runTreeCase(c, cs); fl != "" {
					c.Fail(t, kindOf(fl), cs, cs.Want, r, fl)
				}
			}
		}
	}
	c.ExhaustivePart("2 component files x 133 runs x 6 followers x 4 spellings of the use (rotating); 133 runs before the first slot; 64 pages with three uses")
}

// TestC05_ResponseBody: the same bytes reach an http.ResponseWriter.
func TestC05_ResponseBody(t *testing.T) {
	c := harness.New(t, "C05", "response-body",
		"every sequence of <= 3 pieces from {%, %d, %s, %v, %%, 100%;, %!, (MISSING), a letter, space, LF, CRLF, }}, {, backslash, é, @, -, an escaped {{, an escaped @if, a byte order mark U+FEFF} written as the only page of a template directory and rendered with String and with Response (httptest recorder): both give the text the reference scanner expects (plain text unchanged, escapes without their backslash), the returned error is nil; the same file configured as custom error page is written byte for byte by a failing Response. Exhaustive. Non-trivial: contains a percent sign or an escape. Distinct by construction.")
	defer c.Finish()
	pieces := []string{"%", "%d", "%s", "%v", "%%", "100%;", "%!", "(MISSING)", "a", " ", "\n", "\r\n", "}}", "{", "\\", "é", "@", "-", "\\{{", "\\@if", "\uFEFF"}
	idx := 0
	var rec func(prefix string, depth int)
	rec = func(prefix string, depth int) {
		if prefix != "" {
			idx++
			if harness.Mine(idx) {
				cls, wantOut := reftext.Classify(prefix)
				if cls == reftext.Plain || cls == reftext.AllEscaped {
					nt := strings.Contains(prefix, "%") || cls == reftext.AllEscaped
					c.CaseEnum(nt, fmt.Sprintf("class:%d", cls))
					cs := treeCase{Files: map[string]string{"page": prefix}, Dir: "t", Ext: ".tw", Page: "page", Want: want{St: "ok", Kind: "text", S: wantOut}}
					if idx%211 == 0 {
						c.Sample(cs.sample())
					}
					if f := c05Response(c, cs); f != "" {
						c.Fail(t, kindOf(f), cs, cs.Want, f, f)
					}
				}
			}
		}
		if depth == 3 {
			return
		}
		for _, p := range pieces {
			rec(prefix+p, depth+1)
		}
	}
	rec("", 0)
	c.ExhaustivePart("21 pieces, sequences of length 1..3 that are plain or fully escaped")
}

func c05Response(c *harness.Check, cs treeCase) string {
	if _, err := tree.Materialise(cs.tree()); err != nil {
		return ""
	}
	var failure string
	pi := c.Guard("json", mustJSON(cs), func() {
		textwire.VerifReset()
		tpl, err := textwire.NewTemplate(&config.Config{TemplateDir: cs.Dir, TemplateExt: cs.Ext})
		if err != nil {
			failure = "unexpected load error: " + err.Error()
			return
		}
		out, ferr := tpl.String(cs.Page, nil)
		if ferr != nil || out != cs.Want.S {
			failure = fmt.Sprintf("String renders %q / %v, expected %q", out, ferr, cs.Want.S)
			return
		}
		w := httptest.NewRecorder()
		if rerr := tpl.Response(w, cs.Page, nil); rerr != nil {
			failure = "Response returned an error: " + rerr.Error()
			return
		}
		if body := w.Body.String(); body != cs.Want.S {
			failure = fmt.Sprintf("Response wrote %q, the text is %q", body, cs.Want.S)
			return
		}
		// the same text as the custom error page of a failing page: it is a template's text like any other
		textwire.VerifReset()
		tpl, err = textwire.NewTemplate(&config.Config{TemplateDir: cs.Dir, TemplateExt: cs.Ext, ErrorPagePath: cs.Page})
		if err != nil {
			failure = "unexpected load error with the page as custom error page: " + err.Error()
			return
		}
		w = httptest.NewRecorder()
		if rerr := tpl.Response(w, "zz/no-such-page", nil); rerr == nil {
			failure = "Response of an unknown page returned nil"
			return
		}
		if body := w.Body.String(); body != cs.Want.S {
			failure = fmt.Sprintf("as the custom error page of a failing render Response wrote %q, the text is %q", body, cs.Want.S)
		}
	})
	if pi != nil {
		return "panic: " + pi.Value
	}
	return failure
}
