package checks

import (
	"encoding/json"
	"fmt"
	"testing"

	textwire "github.com/textwire/textwire/v2"
	"github.com/textwire/textwire/v2/config"
	"pgregory.net/rapid"
	"verif/lib/harness"
	"verif/lib/tree"
)

// C16/reused-data: a caller may keep one data map (and the slices, maps and
// structs in it) alive and change it between calls. Each call is decided by
// what the data holds when the call is made: its result must equal the result
// of the same call given a freshly built copy of that data - whatever the same
// objects held in earlier calls.

type reusedOp struct {
	Kind string `json:"kind"` // set-item | set-field | set-key | swap-key | set-top | retype-top | add-top | del-top | render
	I    int    `json:"i,omitempty"`
	V    int    `json:"v,omitempty"`
	Via  string `json:"via,omitempty"` // render: string | response | evalstring | evalfile
}

type reusedCase struct {
	Ops []reusedOp `json:"ops"`
}

type reusedUser struct {
	Name string
	Tags []string
	Boss *reusedUser
}

func init() {
	harness.RegisterReplayer("C16/reused-data", func(raw json.RawMessage) string {
		cs, err := unJSON[reusedCase](raw)
		if err != nil {
			return "bad case: " + err.Error()
		}
		return c16Reused(harness.New(nopTB{}, "C16", "replay", ""), cs)
	})
}

const reusedPage = `@each(v in items)[{{ loop.iter }}={{ v }}]@end|@for(i = bounds[0]; i < bounds[1]; i++){{ i }},@else none@end|` +
	`{{ user.name }}:{{ user.boss.name }}:@each(t in user.tags){{ t }};@end|{{ m.k }}/{{ m.other }}|@if(flag)on@else off@end|{{ n + 1 }}|{{ x }}`

// reusedState is the caller's long-lived data and a way to build an equal copy from scratch.
type reusedState struct {
	items  []int
	bounds []int
	user   *reusedUser
	m      map[string]any
	top    map[string]any
}

func newReusedState() *reusedState {
	st := &reusedState{items: []int{1, 2, 3}, bounds: []int{0, 2}, user: &reusedUser{Name: "Ann", Tags: []string{"a", "b"}, Boss: &reusedUser{Name: "Bo"}},
		m: map[string]any{"k": 1, "other": "o"}}
	st.top = map[string]any{"items": st.items, "bounds": st.bounds, "user": st.user, "m": st.m, "flag": true, "n": 5, "x": "s"}
	return st
}

// fresh builds the same content out of new objects.
func (st *reusedState) fresh() map[string]any {
	cp := map[string]any{}
	for k, v := range st.top {
		switch k {
		case "items":
			cp[k] = append([]int{}, st.items...)
		case "bounds":
			cp[k] = append([]int{}, st.bounds...)
		case "user":
			u := *st.user
			u.Tags = append([]string{}, st.user.Tags...)
			b := *st.user.Boss
			u.Boss = &b
			cp[k] = &u
		case "m":
			m := map[string]any{}
			for mk, mv := range st.m {
				m[mk] = mv
			}
			cp[k] = m
		default:
			cp[k] = v
		}
	}
	return cp
}

func c16Reused(c *harness.Check, cs reusedCase) string {
	root, err := tree.Materialise(tree.Tree{"t/page.tw": {Content: reusedPage}})
	if err != nil {
		return ""
	}
	failure := ""
	pi := c.Guard("json", mustJSON(cs), func() {
		textwire.VerifReset()
		tpl, lerr := textwire.NewTemplate(&config.Config{TemplateDir: "t", TemplateExt: ".tw"})
		if lerr != nil {
			failure = "unexpected load error: " + lerr.Error()
			return
		}
		h := &histEnv{tpl: tpl, root: root}
		st := newReusedState()
		type pendingRender struct {
			step     int
			via, got string
			snapshot map[string]any
		}
		var pending []pendingRender
		call := func(via string, data map[string]any) string {
			return h.execWith(histOp{Kind: via, Name: "page", Src: reusedPage}, data)
		}
		for step, op := range cs.Ops {
			switch op.Kind {
			case "set-item":
				st.items[op.I%len(st.items)] = op.V
			case "set-bound":
				st.bounds[op.I%2] = op.V % 4
			case "set-field":
				switch op.I % 3 {
				case 0:
					st.user.Name = fmt.Sprintf("N%d", op.V)
				case 1:
					st.user.Boss.Name = fmt.Sprintf("B%d", op.V)
				default:
					st.user.Tags[op.I%len(st.user.Tags)] = fmt.Sprintf("t%d", op.V)
				}
			case "set-key":
				st.m["k"] = op.V
			case "swap-key":
				// same size, other keys
				if _, ok := st.m["other"]; ok {
					delete(st.m, "other")
					st.m["another"] = op.V
				} else {
					delete(st.m, "another")
					st.m["other"] = "o2"
				}
			case "set-top":
				st.top["n"] = op.V
				st.top["flag"] = op.V%2 == 0
			case "retype-top":
				// same key, a value of another type
				if _, isStr := st.top["x"].(string); isStr {
					st.top["x"] = op.V
				} else {
					st.top["x"] = fmt.Sprintf("s%d", op.V)
				}
			case "swap-top":
				// same size: one key leaves, another comes
				if _, ok := st.top["x"]; ok {
					delete(st.top, "x")
					st.top["y"] = op.V
				} else {
					delete(st.top, "y")
					st.top["x"] = "back"
				}
			case "render":
				// (the copies are rendered after the whole history, so that nothing comes between
				// two calls that are given the same objects)
				pending = append(pending, pendingRender{step: step + 1, via: op.Via, got: call(op.Via, st.top), snapshot: st.fresh()})
			}
		}
		for _, p := range pending {
			if want := call(p.via, p.snapshot); p.got != want {
				failure = fmt.Sprintf("step %d (%s): with the caller's long-lived data the call gave %q, a freshly built copy of what the data held then gives %q", p.step, p.via, clip(p.got, 300), clip(want, 300))
				return
			}
		}
	})
	if pi != nil {
		return "panic: " + pi.Value
	}
	return failure
}

func TestC16_ReusedData(t *testing.T) {
	c := harness.New(t, "C16", "reused-data",
		"one data map kept by the caller across 6..30 steps on one loaded page (loops over a slice, @for bounds from a slice, fields of a pointer to a struct with a nested pointer and a string slice, map keys, a flag, a number, a string): between renders (String, Response, EvaluateString, EvaluateFile) the caller changes it in place - an element, a bound, a field behind a pointer, a map value, a map key swapped for another (same size), a top-level value, a top-level value replaced by one of another type, a top-level key swapped for another. Every render is compared with the same call given a freshly built copy of the data's present content. Non-trivial: >= 2 renders with an in-place change between them. Distinct by hash of the steps.")
	defer c.Finish()
	kinds := []string{"set-item", "set-bound", "set-field", "set-key", "swap-key", "set-top", "retype-top", "swap-top"}
	runRapid(t, c, 400, 6000, func(rt *rapid.T) {
		n := rapid.IntRange(6, 30).Draw(rt, "steps")
		var cs reusedCase
		renders, changedBetween := 0, false
		nt := false
		for i := 0; i < n; i++ {
			if i%3 == 2 || rapid.IntRange(0, 3).Draw(rt, "render") == 0 {
				cs.Ops = append(cs.Ops, reusedOp{Kind: "render", Via: rapid.SampledFrom([]string{"string", "string", "response", "evalstring", "evalfile"}).Draw(rt, "via")})
				renders++
				if renders >= 2 && changedBetween {
					nt = true
				}
				changedBetween = false
				continue
			}
			cs.Ops = append(cs.Ops, reusedOp{Kind: rapid.SampledFrom(kinds).Draw(rt, "kind"), I: rapid.IntRange(0, 5).Draw(rt, "i"), V: rapid.IntRange(0, 9).Draw(rt, "v")})
			changedBetween = true
		}
		c.Case(nt, mustJSON(cs), fmt.Sprintf("renders:%d", renders/3*3))
		if nt && c.S.Evals%20 == 1 {
			c.Sample(cs)
		}
		if f := c16Reused(c, cs); f != "" {
			c.Fail(rt, kindOf(f), cs, "the result of the call with a fresh copy of the data", f, f)
		}
	})
	textwire.VerifReset()
}
