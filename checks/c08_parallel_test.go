package checks

import (
	"encoding/json"
	"fmt"
	"strings"
	"sync"
	"testing"

	textwire "github.com/textwire/textwire/v2"
	"pgregory.net/rapid"
	"verif/lib/harness"
)

// C08/parallel-parses: every call returns, also when many sources are lexed and
// parsed at the same time through the string API (which C15 declares safe for
// concurrent use): a batch of distinct lexeme soups is evaluated by 16
// goroutines at once, each source for the first time in the process; every call
// must return, and with the outcome the same source gives when evaluated alone
// afterwards.

type batchCase struct {
	Sources []string `json:"sources"`
	Rounds  int      `json:"rounds,omitempty"`
}

func init() {
	harness.RegisterReplayer("C08/parallel-parses", func(raw json.RawMessage) string {
		cs, err := unJSON[batchCase](raw)
		if err != nil {
			return "bad case: " + err.Error()
		}
		cs.Rounds = 40
		return c08Parallel(harness.New(nopTB{}, "C08", "replay", ""), cs)
	})
}

func c08Outcome(src string) (res string) {
	if pi := harness.Safe(func() {
		out, err := textwire.EvaluateString(src, nil)
		if err != nil {
			res = "error: " + err.Error()
			return
		}
		res = "ok: " + out
	}); pi != nil {
		return "panic: " + pi.Value
	}
	return res
}

func c08Parallel(c *harness.Check, cs batchCase) string {
	failure := ""
	rounds := cs.Rounds
	if rounds < 1 {
		rounds = 1
	}
	pi := c.Guard("json", mustJSON(cs), func() {
		for round := 0; round < rounds && failure == ""; round++ {
			srcs := make([]string, len(cs.Sources))
			for i, s := range cs.Sources {
				srcs[i] = s
				if round > 0 {
					// a text not seen before by this process; the comment renders to nothing
					srcs[i] = fmt.Sprintf("{{-- %d --}}", round) + s
				}
			}
			got := make([]string, len(srcs))
			var wg sync.WaitGroup
			start := make(chan struct{})
			const workers = 16
			for w := 0; w < workers; w++ {
				wg.Add(1)
				go func(w int) {
					defer wg.Done()
					<-start
					for i := w; i < len(srcs); i += workers {
						got[i] = c08Outcome(srcs[i])
					}
				}(w)
			}
			close(start)
			wg.Wait()
			for i, s := range srcs {
				if strings.HasPrefix(got[i], "panic: ") {
					failure = fmt.Sprintf("source %d: %s", i, got[i])
					return
				}
				if alone := c08Outcome(s); alone != got[i] {
					failure = fmt.Sprintf("source %d %q evaluated among 16 concurrent calls: %s; evaluated alone: %s", i, s, clip(got[i], 300), clip(alone, 300))
					return
				}
			}
		}
	})
	if pi != nil {
		return "panic: " + pi.Value
	}
	return failure
}

func TestC08_ParallelParses(t *testing.T) {
	c := harness.New(t, "C08", "parallel-parses",
		"batches of 64 distinct lexeme soups (0..25 lexemes of the C08 alphabet, occasional raw bytes), each batch lexed, parsed and evaluated through EvaluateString by 16 goroutines at once, every source for the first time in the process; each call must return (a crash of the process is found through the heartbeat and confirmed by replaying the batch 40 times with fresh texts) with the same outcome - output or error text - as the same source evaluated alone afterwards. Non-trivial: the batch has >= 32 distinct sources with an opener. Distinct by hash of the batch.")
	defer c.Finish()
	alpha := c08Alphabet()
	runRapid(t, c, 120, 1500, func(rt *rapid.T) {
		seen := map[string]bool{}
		var cs batchCase
		nt := 0
		for len(cs.Sources) < 64 {
			n := rapid.IntRange(0, 25).Draw(rt, "n")
			var b strings.Builder
			for i := 0; i < n; i++ {
				if rapid.IntRange(0, 19).Draw(rt, "rawByte") == 0 {
					b.WriteByte(rapid.Byte().Draw(rt, "byte"))
				} else {
					b.WriteString(rapid.SampledFrom(alpha).Draw(rt, "lx"))
				}
			}
			src := fmt.Sprintf("%d:", len(cs.Sources)) + b.String()
			if seen[src] || strings.Contains(src, "@for") {
				// (a soup that happens to be a valid endless @for would not return when evaluated: not a parsing matter)
				continue
			}
			seen[src] = true
			if c08NonTrivial(src) {
				nt++
			}
			cs.Sources = append(cs.Sources, src)
		}
		c.Case(nt >= 32, mustJSON(cs), fmt.Sprintf("sources-with-opener:%d", nt/16*16))
		if c.S.Evals%40 == 1 {
			c.Sample(cs.Sources[:4])
		}
		if f := c08Parallel(c, cs); f != "" {
			c.Fail(rt, kindOf(f), cs, "every call returns with the outcome of the call made alone", f, f)
		}
	})
}
