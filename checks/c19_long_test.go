package checks

import (
	"fmt"
	"strings"
	"testing"

	"verif/lib/harness"
)

// C19/long-lines: positions are exact on lines and in files of any length:
// lines of 255..70 000 bytes (around every power of two up to 2^17), made of one
// long text run, of thousands of small tokens, of a long string literal or a long
// comment; and files of tens of thousands of short lines.

func TestC19_LongLines(t *testing.T) {
	var lens []int
	for _, b := range []int{256, 4096, 32768, 65536, 131072} {
		lens = append(lens, b-2, b-1, b, b+1, b+3)
	}
	c := harness.New(t, "C19", "long-lines",
		fmt.Sprintf("one-line sources whose tokens stand around column 256, 4096, 32768, 65536, 131072 (%d lengths): a text run of that length followed by {{ name + \"s\" }} and text; a string literal of that length inside {{ }}; a comment of that length followed by tokens; that many bytes of '{{ a }}' tokens in a row; and sources of that many lines of 'x {{ a }}' ; each held to the C19 oracle (exact start and end of every token, tokens tile the source, end-of-input just past the last byte). Exhaustive. Non-trivial: all. Distinct by construction.", len(lens)))
	defer c.Finish()
	shapes := []struct {
		name string
		mk   func(n int) string
	}{
		{"text-run", func(n int) string { return "<p>" + strings.Repeat("x", n) + "{{ name + \"s\" }}</p> @if(y)z@end" }},
		{"string-literal", func(n int) string { return "{{ \"" + strings.Repeat("s", n) + "\" + name }} tail {{ b }}" }},
		{"comment", func(n int) string { return "{{-- " + strings.Repeat("c", n) + " --}}{{ a.b(1) }} tail" }},
		{"many-tokens", func(n int) string { return strings.Repeat("{{ a }}", n/7+1) + "end" }},
		{"multi-byte", func(n int) string {
			return strings.Repeat("é", n/2) + "{{ a }}" + strings.Repeat("日", 10) + "{{ b }}"
		}},
		{"many-lines", func(n int) string { return strings.Repeat("x {{ a }}\n", n/10+1) + "{{ last }}" }},
	}
	idx := 0
	for _, n := range lens {
		for _, sh := range shapes {
			idx++
			if !harness.Mine(idx) {
				continue
			}
			src := sh.mk(n)
			c.CaseEnum(true, "shape:"+sh.name)
			if idx%17 == 0 {
				c.Sample(map[string]any{"shape": sh.name, "n": n, "bytes": len(src)})
			}
			var f string
			if pi := c.Guard("json", mustJSON(map[string]any{"shape": sh.name, "n": n}), func() { f = c19Oracle(src) }); pi != nil {
				f = "panic: " + pi.Value
			}
			if f != "" {
				c.Fail(t, kindOf(f), src, "exact positions", clip(f, 400), fmt.Sprintf("%s of %d: %s", sh.name, n, clip(f, 400)))
			}
		}
	}
	c.ExhaustivePart(fmt.Sprintf("%d lengths x %d shapes", len(lens), len(shapes)))
}
