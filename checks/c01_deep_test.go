package checks

import (
	"fmt"
	"strings"
	"testing"

	"verif/lib/harness"
	"verif/lib/spec"
)

func init() { registerRenderReplayer("C01/deep-spellings") }

// TestC01_DeepSpellings: "redundant parentheses never change the result" and the
// grouping rules hold at any depth of the spelling, not only at the depths a
// random tree reaches: the value is known in closed form.
func TestC01_DeepSpellings(t *testing.T) {
	depths := []int{1, 2, 3, 7, 8, 9, 15, 16, 17, 31, 32, 33, 62, 63, 64, 65, 66, 100, 127, 128, 129, 200, 255, 256, 257, 500}
	if harness.Pick(0, 1) == 1 {
		depths = append(depths, 1000, 1500)
	}
	c := harness.New(t, "C01", "deep-spellings",
		fmt.Sprintf("expressions whose spelling is d levels deep for %d depths from 1 to 500 (1500 in the thorough tier; around every power of two to the level) and whose value is known in closed form: an operand of '(1 + 2) * 2' wrapped in d redundant parentheses; d unary minus signs (separated by blanks: '--' is the decrement operator) / d '!' in a row (with and without parentheses); a ternary chain with d links in the else part selecting the k-th; right-nested sums 1 + (1 + (1 + ...)); left-deep sums and differences of d operands; d-fold nested array literals indexed d times; d chained calls (abs, str) and d chained index / member steps on data; d-fold nested arguments f(f(f(x))) of a built-in; a string concatenation of d parenthesised parts. Expected: the closed-form value. Exhaustive. Non-trivial: all. Distinct by construction.", len(depths)))
	defer c.Finish()
	data := (&spec.Data{}).Add("x", spec.IntOf(spec.TInt, 69)).Add("t", spec.Bool(true))
	idx := 0
	run := func(name, src, expect string, d int) {
		idx++
		if !harness.Mine(idx) {
			return
		}
		cs := renderCase{Src: "[{{ " + src + " }}]", Data: data, Want: want{St: "ok", Kind: "text", S: "[" + expect + "]"}, Note: fmt.Sprintf("%s depth %d", name, d)}
		c.CaseEnum(true, "shape:"+name)
		if idx%29 == 0 && d <= 9 {
			c.Sample(cs.sample())
		}
		if r, f := runRenderCase(c, cs); f != "" {
			c.Fail(t, failKind(r), cs, cs.Want, r, f)
		}
	}
	cal := getCalib()
	for _, d := range depths {
		op, cl := strings.Repeat("(", d), strings.Repeat(")", d)
		run("parenthesised-operand", op+"1 + 2"+cl+" * 2", "6", d)
		run("parenthesised-whole", op+"x"+cl, "69", d)
		run("parenthesised-spaced", strings.Repeat("( ", d)+"x - 1"+strings.Repeat(" )", d)+" - 1", "67", d)
		sign := "69"
		if d%2 == 1 {
			sign = "-69"
		}
		run("minus-chain-spaced", strings.Repeat("- ", d)+"x", sign, d)
		run("minus-chain-parenthesised", strings.Repeat("-(", d)+"x"+cl, sign, d)
		nt := cal.True
		if d%2 == 1 {
			nt = cal.False
		}
		run("not-chain", strings.Repeat("!", d)+"t", nt, d)
		// ternary chain: x == 0 ? 0 : x == 1 ? 10 : ... : -1, selecting the last link or none
		var tern strings.Builder
		for i := 0; i < d; i++ {
			fmt.Fprintf(&tern, "x == %d ? %d : ", 70-d+i, (70-d+i)*10)
		}
		run("ternary-chain-last", tern.String()+"-1", "690", d)
		tern.Reset()
		for i := 0; i < d; i++ {
			fmt.Fprintf(&tern, "x == %d ? %d : ", 100+i, i)
		}
		run("ternary-chain-none", tern.String()+"-1", "-1", d)
		run("ternary-nested-in-then", strings.Repeat("t ? (", d)+"x"+strings.Repeat(") : 0", d), "69", d)
		run("right-nested-sum", strings.Repeat("1 + (", d)+"1"+cl, fmt.Sprint(d+1), d)
		run("left-deep-sum", "1"+strings.Repeat(" + 1", d), fmt.Sprint(d+1), d)
		run("left-deep-difference", "1000"+strings.Repeat(" - 1", d), fmt.Sprint(1000-d), d)
		run("nested-arrays-indexed", strings.Repeat("[", d)+"x"+strings.Repeat("]", d)+strings.Repeat("[0]", d), "69", d)
		run("call-chain", "x"+strings.Repeat(".abs()", d), "69", d)
		run("call-chain-on-negative", "(0 - x)"+strings.Repeat(".abs()", d), "69", d)
		run("str-chain", "x.str()"+strings.Repeat(".trim()", d)+".len()", "2", d)
		run("nested-arguments", strings.Repeat("t.then(", d)+"x"+cl, "69", d)
		run("concatenation-of-parenthesised-parts", strings.Repeat("('a' + ", d)+"'b'"+cl+".len()", fmt.Sprint(d+1), d)
		run("append-chain", "[]"+strings.Repeat(".append(x)", d)+".len()", fmt.Sprint(d), d)
	}
	c.ExhaustivePart(fmt.Sprintf("%d depths x 19 shapes", len(depths)))
}
