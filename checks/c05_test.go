package checks

import (
	"encoding/json"
	"fmt"
	"sort"
	"strings"
	"testing"

	textwire "github.com/textwire/textwire/v2"
	"pgregory.net/rapid"
	"verif/lib/harness"
	"verif/lib/reftext"
)

// C05 — text passthrough, escapes, comments, splice.

// textCase is the case type of the C05 checks: a template without data and what
// it must render to.
type textCase struct {
	Src  string `json:"src"`
	Want string `json:"want"`
	Kind string `json:"kind"` // plain | escaped | comment | splice
}

var c05Calls int

func c05Run(c *harness.Check, cs textCase) (Result, string) {
	// now and then a render that fails after having produced output goes first:
	// nothing of it may show in what the next template renders to
	if c05Calls++; c05Calls%5 == 0 {
		harness.Safe(func() { textwire.EvaluateString("<p>leftover</p>@each(n in [1, 2])[{{ n }}]@end{{ zzMissing }}", nil) })
	}
	r := evalString(c, "json", mustJSON(cs), cs.Src, nil)
	switch {
	case r.Panic != nil:
		return r, "panic: " + r.Panic.Value
	case r.IsErr():
		return r, "error instead of output: " + r.Err
	case r.Out != cs.Want:
		return r, "output differs"
	}
	return r, ""
}

func init() {
	for _, n := range []string{"passthrough-enum", "passthrough-random", "comments", "splice"} {
		n := n
		harness.RegisterReplayer("C05/"+n, func(raw json.RawMessage) string {
			cs, err := unJSON[textCase](raw)
			if err != nil {
				return "bad case: " + err.Error()
			}
			c := harness.New(nopTB{}, "C05", "replay", "")
			_, f := c05Run(c, cs)
			return f
		})
	}
}

var c05Core = []string{
	"@", "\\", "{", "}", "{{", "}}", "-", "--}", "(", ")", "\"", "'", " ", "\n", "\r\n", "é", "a", "If", "if",
	"@if", "@else", "@end", "@break", "@each", "@slot", "@e", "@els", "@breakI", "@dump", "{{--", "--}}",
	"\\{{", "\\@if", "\\@end", "\\@else", "\\@continue",
}

func c05AllPieces() []string {
	set := map[string]bool{}
	for _, p := range c05Core {
		set[p] = true
	}
	for _, d := range reftext.Directives {
		for i := 2; i <= len(d); i++ {
			set[d[:i]] = true
		}
		set["\\"+d] = true
	}
	for _, p := range []string{"日", "😀", "\t", "\r", "--", "x", "1", "<b>", "&", ":", ";", ",", ".", "[", "]", "\\\\", "}}}", "{ {", "} }", "in", "true"} {
		set[p] = true
	}
	out := make([]string, 0, len(set))
	for p := range set {
		out = append(out, p)
	}
	sort.Strings(out)
	return out
}

func c05NonTrivial(s string) bool {
	if strings.ContainsAny(s, "@\\{}\r") {
		return true
	}
	for i := 0; i < len(s); i++ {
		if s[i] >= 0x80 {
			return true
		}
	}
	return false
}

// c05CheckText classifies s with the reference scanner and, for the two classes
// the statement settles, compares the rendering.
func c05CheckText(t harness.TB, c *harness.Check, s string, enum bool) {
	class, want := reftext.Classify(s)
	var kind string
	switch class {
	case reftext.Plain:
		kind = "plain"
	case reftext.AllEscaped:
		kind = "escaped"
	case reftext.Interpreted:
		c.Class("skipped:interpreted")
		return
	default:
		c.Class("skipped:ambiguous")
		return
	}
	if strings.IndexByte(s, 0) >= 0 {
		c.Class("skipped:nul")
		return
	}
	cs := textCase{Src: s, Want: want, Kind: kind}
	nt := c05NonTrivial(s)
	classes := []string{"kind:" + kind}
	if strings.HasPrefix(s, "}}") {
		classes = append(classes, "starts-with-}}")
	}
	if enum {
		c.CaseEnum(nt, classes...)
	} else {
		c.Case(nt, s, classes...)
	}
	if nt {
		c.Sample(cs)
	}
	if r, f := c05Run(c, cs); f != "" {
		c.Fail(t, failKind(r), cs, want, r, f)
	}
}

func failKind(r Result) string {
	if r.Panic != nil {
		return "panic"
	}
	return "mismatch"
}

// enumStrings calls fn for every concatenation of 0..maxLen pieces; shard-aware
// on the first piece. fn returns false to stop.
func enumStrings(pieces []string, maxLen int, fn func(s string) bool) {
	var rec func(prefix string, depth int) bool
	rec = func(prefix string, depth int) bool {
		if !fn(prefix) {
			return false
		}
		if depth == maxLen {
			return true
		}
		for _, p := range pieces {
			if !rec(prefix+p, depth+1) {
				return false
			}
		}
		return true
	}
	if harness.Shard() == 0 {
		if !fn("") {
			return
		}
	}
	if maxLen == 0 {
		return
	}
	for i, p := range pieces {
		if !harness.Mine(i) {
			continue
		}
		if !rec(p, 1) {
			return
		}
	}
}

func TestC05_PassthroughEnum(t *testing.T) {
	c := harness.New(t, "C05", "passthrough-enum",
		"every concatenation of up to k pieces from an adversarial piece alphabet (@, backslash, braces, dashes, directive names and all their proper prefixes, pre-escaped constructs, quotes, newlines, CRLF, UTF-8); classified by an independent scanner as plain (must render to itself) or all-escaped (must render to itself minus the escape backslashes); strings with an unescaped construct are skipped here. Non-trivial: contains one of @ \\ { } CR or a non-ASCII byte. Distinct by construction per (alphabet, length) pass.")
	defer c.Finish()
	core, all := c05Core, c05AllPieces()
	coreLen, allLen := harness.Pick(3, 4), harness.Pick(2, 3)
	seen := 0
	stop := false
	enumStrings(core, coreLen, func(s string) bool {
		seen++
		c05CheckText(t, c, s, true)
		return !stop
	})
	c.ExhaustivePart(fmt.Sprintf("core alphabet (%d pieces) up to %d pieces", len(core), coreLen))
	// the full alphabet pass repeats some core strings; those are not counted as
	// distinct again: skip strings made only of core pieces
	coreSet := map[string]bool{}
	for _, p := range core {
		coreSet[p] = true
	}
	var rec func(prefix string, depth int, onlyCore bool)
	rec = func(prefix string, depth int, onlyCore bool) {
		if depth > 0 && !onlyCore {
			c05CheckText(t, c, prefix, true)
		}
		if depth == allLen {
			return
		}
		for i, p := range all {
			if depth == 0 && !harness.Mine(i) {
				continue
			}
			rec(prefix+p, depth+1, onlyCore && coreSet[p])
		}
	}
	rec("", 0, true)
	c.ExhaustivePart(fmt.Sprintf("full alphabet (%d pieces) up to %d pieces", len(all), allLen))
}

func TestC05_PassthroughRandom(t *testing.T) {
	c := harness.New(t, "C05", "passthrough-random",
		"random concatenations of 0..40 pieces from the same alphabet, biased to escaped constructs; same oracle as passthrough-enum. Non-trivial: as there; distinct by hash of the source.")
	defer c.Finish()
	all := c05AllPieces()
	// bias: plain pieces only (no unescaped constructs) plus escaped constructs
	var safe []string
	for _, p := range all {
		if cl, _ := reftext.Classify(p); cl == reftext.Plain || cl == reftext.AllEscaped {
			safe = append(safe, p)
		}
	}
	gen := rapid.Custom(func(rt *rapid.T) string {
		n := rapid.IntRange(0, 40).Draw(rt, "n")
		var b strings.Builder
		for i := 0; i < n; i++ {
			if rapid.IntRange(0, 9).Draw(rt, "anyPiece") == 0 {
				b.WriteString(rapid.SampledFrom(all).Draw(rt, "p"))
			} else {
				b.WriteString(rapid.SampledFrom(safe).Draw(rt, "p"))
			}
		}
		return b.String()
	})
	runRapid(t, c, 30000, 300000, func(rt *rapid.T) {
		c05CheckText(rt, c, gen.Draw(rt, "src"), false)
	})
}

// ---------------------------------------------------------------- comments

var c05CommentBodyPieces = []string{"}", "-}", "--", "--}", "- -", "{{", "}}", "@if(", "@end", "\"", "'", "\n", "\r\n", " ", "a", "é", "-", "{", "\\", "--} }", "{{--", "@", "x = 1", "{{ 1 }}"}
var c05TextAround = []string{"", "a", " ", "\n", "x\ny", "é", "}", "}}", "}} x", "-", "--}}", ")", "(", "@", "\\x", "{ a }", "b "}

func TestC05_Comments(t *testing.T) {
	c := harness.New(t, "C05", "comments",
		"pre + '{{--' + body + '--}}' + post for every body of up to k body pieces rich in } -} -- --} {{ @if( quotes newlines (bodies containing the terminator excluded) and pre/post from a list of plain text runs (incl. runs starting with }} and --}}); must render to pre+post. Then random bodies/neighbours. Non-trivial: body contains } or -- or {{ or @, or post starts with }. Distinct by hash of the source.")
	defer c.Finish()
	check := func(tb harness.TB, pre, body, post string) {
		// the terminator must not occur earlier, not even overlapping the opener's dashes
		if strings.Index("--"+body+"--}}", "--}}") != len(body)+2 {
			c.Class("skipped:terminator-in-body")
			return
		}
		if strings.HasSuffix(pre, "\\") || strings.HasSuffix(pre, "{") {
			c.Class("skipped:pre-merges")
			return
		}
		if cl, _ := reftext.Classify(pre); cl != reftext.Plain {
			c.Class("skipped:pre-not-plain")
			return
		}
		if cl, _ := reftext.Classify(post); cl != reftext.Plain {
			c.Class("skipped:post-not-plain")
			return
		}
		src := pre + "{{--" + body + "--}}" + post
		cs := textCase{Src: src, Want: pre + post, Kind: "comment"}
		nt := strings.ContainsAny(body, "}{@") || strings.Contains(body, "--") || strings.HasPrefix(post, "}")
		var classes []string
		if strings.HasPrefix(post, "}}") {
			classes = append(classes, "post-starts-with-}}")
		}
		if strings.Contains(body, "--}") {
			classes = append(classes, "body-has---}")
		}
		c.Case(nt, src, classes...)
		if nt {
			c.Sample(cs)
		}
		if r, f := c05Run(c, cs); f != "" {
			c.Fail(tb, failKind(r), cs, cs.Want, r, f)
		}
	}
	maxLen := harness.Pick(2, 3)
	i := 0
	enumStringsAll(c05CommentBodyPieces, maxLen, func(body string) {
		i++
		if !harness.Mine(i) {
			return
		}
		for _, pre := range []string{"", "a", "x\n"} {
			for _, post := range c05TextAround {
				check(t, pre, body, post)
			}
		}
	})
	c.ExhaustivePart(fmt.Sprintf("comment bodies of up to %d pieces x 3 pre x %d post", maxLen, len(c05TextAround)))
	runRapid(t, c, 20000, 180000, func(rt *rapid.T) {
		body := strings.Join(rapid.SliceOfN(rapid.SampledFrom(c05CommentBodyPieces), 0, 12).Draw(rt, "body"), "")
		pre := rapid.SampledFrom(c05TextAround).Draw(rt, "pre")
		post := rapid.SampledFrom(c05TextAround).Draw(rt, "post")
		check(rt, pre, body, post)
	})
}

func enumStringsAll(pieces []string, maxLen int, fn func(s string)) {
	var rec func(prefix string, depth int)
	rec = func(prefix string, depth int) {
		fn(prefix)
		if depth == maxLen {
			return
		}
		for _, p := range pieces {
			rec(prefix+p, depth+1)
		}
	}
	rec("", 0)
}

// ---------------------------------------------------------------- splice

// spliceItem is a node of the splice generator's own template tree.
type spliceItem struct {
	Kind string       // text | print | if | ifelse | each | comment | eachctl | forctl
	K    int          // eachctl / forctl: the pass (1-based) in which the control directive fires
	Ctl  string       // eachctl / forctl: breakIf | continueIf | if-break | if-continue (Body before it, Else after it)
	Text string       // text run, printed literal, comment body
	Out  string       // for print: what it renders
	Cond bool         // if / ifelse
	N    int          // each: number of passes
	Body []spliceItem // if / each / ifelse-then
	Else []spliceItem // ifelse
}

// render writes the source and returns the expected output. marks collects the
// offsets at which an interpreted construct is meant to start, and code the
// [from,to) ranges that are inside constructs (not text).
type spliceOut struct {
	src   strings.Builder
	marks map[int]string
	code  [][2]int
	gap   string // white space written between a directive's name and its parenthesis
}

func (o *spliceOut) construct(kw, full string) {
	if o.gap != "" && strings.HasPrefix(full, kw+"(") {
		full = kw + o.gap + full[len(kw):]
	}
	o.marks[o.src.Len()] = kw
	from := o.src.Len()
	o.src.WriteString(full)
	o.code = append(o.code, [2]int{from + len(kw), o.src.Len()})
}

func spliceRender(items []spliceItem, o *spliceOut) string {
	var out strings.Builder
	for _, it := range items {
		switch it.Kind {
		case "text":
			o.src.WriteString(it.Text)
			out.WriteString(it.Text)
		case "print":
			o.construct("{{", "{{ "+it.Text+" }}")
			out.WriteString(it.Out)
		case "comment":
			o.construct("{{", "{{--"+it.Text+"--}}")
		case "if", "ifelse":
			cond := "false"
			if it.Cond {
				cond = "true"
			}
			o.construct("@if", "@if("+cond+")")
			body := spliceRender(it.Body, o)
			els := ""
			if it.Kind == "ifelse" {
				o.construct("@else", "@else")
				els = spliceRender(it.Else, o)
			}
			o.construct("@end", "@end")
			if it.Cond {
				out.WriteString(body)
			} else {
				out.WriteString(els)
			}
		case "elseif":
			// @if(false) .. @elseif(c) Body @else Else @end
			o.construct("@if", "@if(false)")
			o.src.WriteString("n")
			cond := "false"
			if it.Cond {
				cond = "true"
			}
			o.construct("@elseif", "@elseif("+cond+")")
			body := spliceRender(it.Body, o)
			o.construct("@else", "@else")
			els := spliceRender(it.Else, o)
			o.construct("@end", "@end")
			if it.Cond {
				out.WriteString(body)
			} else {
				out.WriteString(els)
			}
		case "each":
			arr := make([]string, it.N)
			for i := range arr {
				arr[i] = fmt.Sprint(i + 1)
			}
			o.construct("@each", "@each(v in ["+strings.Join(arr, ", ")+"])")
			body := spliceRender(it.Body, o)
			o.construct("@end", "@end")
			for i := 0; i < it.N; i++ {
				out.WriteString(body)
			}
		case "eachctl", "forctl":
			// a loop whose body holds a control directive between two stretches of items:
			// the pass in which it fires shows the first stretch only, and @break ends the loop
			v := "v"
			if it.Kind == "eachctl" {
				arr := make([]string, it.N)
				for i := range arr {
					arr[i] = fmt.Sprint(i + 1)
				}
				o.construct("@each", "@each(v in ["+strings.Join(arr, ", ")+"])")
			} else {
				v = "i"
				o.construct("@for", fmt.Sprintf("@for(i = 1; i <= %d; i++)", it.N))
			}
			b1 := spliceRender(it.Body, o)
			switch it.Ctl {
			case "breakIf":
				o.construct("@breakIf", fmt.Sprintf("@breakIf(%s == %d)", v, it.K))
			case "continueIf":
				o.construct("@continueIf", fmt.Sprintf("@continueIf(%s == %d)", v, it.K))
			case "if-break":
				o.construct("@if", fmt.Sprintf("@if(%s == %d)", v, it.K))
				o.construct("@break", "@break")
				o.construct("@end", "@end")
			default:
				o.construct("@if", fmt.Sprintf("@if(%s == %d)", v, it.K))
				o.construct("@continue", "@continue")
				o.construct("@end", "@end")
			}
			b2 := spliceRender(it.Else, o)
			o.construct("@end", "@end")
			for pass := 1; pass <= it.N; pass++ {
				out.WriteString(b1)
				if pass == it.K {
					if it.Ctl == "breakIf" || it.Ctl == "if-break" {
						break
					}
					continue
				}
				out.WriteString(b2)
			}
		}
	}
	return out.String()
}

var c05SpliceTexts = []string{
	"a", " ", "\n", "\r\n", "x y", "é", "日本", "}}", "}} x", "}", ")", "--}}", "(", "(x)", "{ a }", "@", "@ x", "\\x", "-", "{", "if", "If ", "\"", "'", "<p>", "</p>\n", "a@b.c", "\\\\", "e@", "@i", "@els", "\\@if(x)", "\\{{ y }}", "\\@end", "1", ";", ":", ",", "]",
}

func genSpliceItems(depth int) *rapid.Generator[[]spliceItem] {
	return rapid.Custom(func(rt *rapid.T) []spliceItem {
		n := rapid.IntRange(0, 4).Draw(rt, "n")
		var items []spliceItem
		for i := 0; i < n; i++ {
			k := rapid.IntRange(0, 12).Draw(rt, "kind")
			if depth <= 0 && k >= 7 {
				k = 0
			}
			switch {
			case k == 12:
				items = append(items, spliceItem{Kind: "elseif", Cond: rapid.Bool().Draw(rt, "cond"), Body: genSpliceItems(depth-1).Draw(rt, "body"), Else: genSpliceItems(depth-1).Draw(rt, "else")})
			case k <= 3:
				parts := rapid.SliceOfN(rapid.SampledFrom(c05SpliceTexts), 1, 3).Draw(rt, "text")
				items = append(items, spliceItem{Kind: "text", Text: strings.Join(parts, "")})
			case k == 4:
				lit := rapid.SampledFrom([][2]string{{"1", "1"}, {`"s"`, "s"}, {"1 + 2", "3"}, {"nil", ""}, {`'q'`, "q"}}).Draw(rt, "lit")
				items = append(items, spliceItem{Kind: "print", Text: lit[0], Out: lit[1]})
			case k == 5:
				body := strings.Join(rapid.SliceOfN(rapid.SampledFrom(c05CommentBodyPieces), 0, 4).Draw(rt, "cbody"), "")
				items = append(items, spliceItem{Kind: "comment", Text: body})
			case k == 6 || k == 7:
				items = append(items, spliceItem{Kind: "if", Cond: rapid.Bool().Draw(rt, "cond"), Body: genSpliceItems(depth-1).Draw(rt, "body")})
			case k == 8:
				items = append(items, spliceItem{Kind: "ifelse", Cond: rapid.Bool().Draw(rt, "cond"), Body: genSpliceItems(depth-1).Draw(rt, "body"), Else: genSpliceItems(depth-1).Draw(rt, "else")})
			case k == 9:
				items = append(items, spliceItem{Kind: "each", N: rapid.IntRange(0, 3).Draw(rt, "n"), Body: genSpliceItems(depth-1).Draw(rt, "body")})
			default:
				items = append(items, spliceItem{
					Kind: rapid.SampledFrom([]string{"eachctl", "forctl"}).Draw(rt, "loop"),
					N:    rapid.IntRange(0, 3).Draw(rt, "n"), K: rapid.IntRange(1, 4).Draw(rt, "firesIn"),
					Ctl:  rapid.SampledFrom([]string{"breakIf", "continueIf", "if-break", "if-continue"}).Draw(rt, "ctl"),
					Body: genSpliceItems(depth-1).Draw(rt, "before"), Else: genSpliceItems(depth-1).Draw(rt, "after"),
				})
			}
		}
		return items
	})
}

// spliceSound reports whether the reference scanner, run over the text parts of
// src, finds constructs exactly at the intended offsets (so that no text run
// merges with a neighbouring construct or forms one by itself, except escaped
// ones), and returns the output expected after escape removal.
func spliceSound(src string, o *spliceOut) (ok bool, why string) {
	inCode := make([]bool, len(src)+1)
	for _, r := range o.code {
		for i := r[0]; i < r[1]; i++ {
			inCode[i] = true
		}
	}
	for _, cst := range reftext.Scan(src) {
		if inCode[cst.Pos] {
			continue
		}
		kw, intended := o.marks[cst.Pos]
		switch {
		case intended && cst.Escaped:
			return false, "text run ends in a backslash before a construct"
		case intended && kw != cst.Kind:
			return false, "keyword merges with following text"
		case !intended && !cst.Escaped:
			return false, "text run forms a construct"
		case !intended && cst.Escaped:
			for q := cst.Pos + 1; q < cst.Pos+len(cst.Kind); q++ {
				if _, m := o.marks[q]; m {
					return false, "escaped construct overlaps a real one"
				}
			}
		}
	}
	return true, ""
}

func TestC05_Splice(t *testing.T) {
	c := harness.New(t, "C05", "splice",
		"random templates made of adversarial text runs (starting with }}, }, ), --}}; escapes; multi-byte; CRLF) spliced around {{ literal }}, @if/@else/@end and @if/@elseif/@else/@end with literal conditions, @each over literal arrays, @each/@for loops whose body holds @breakIf / @continueIf / @if(..)@break@end / @if(..)@continue@end firing in a chosen pass (or never) between two stretches of items, and comments, nested to depth 2, every directive of a case written with the same white space (none, blank, tab, LF, CR LF, two blanks) between its name and its parenthesis; output must be the concatenation of the text runs (minus escape backslashes) and the blocks' known outputs. Cases in which the reference scanner says a text run would merge with a neighbouring construct are skipped. Non-trivial: >= 1 construct and a text run that contains one of @ \\ { } ) or non-ASCII directly after a construct. Distinct by hash of the source.")
	defer c.Finish()
	runRapid(t, c, 40000, 360000, func(rt *rapid.T) {
		items := genSpliceItems(2).Draw(rt, "items")
		o := &spliceOut{marks: map[int]string{}, gap: rapid.SampledFrom([]string{"", "", "", " ", "\t", "\n", "\r\n", "  "}).Draw(rt, "headerGap")}
		want := spliceRender(items, o)
		src := o.src.String()
		if ok, why := spliceSound(src, o); !ok {
			c.Class("skipped:" + why)
			return
		}
		// comment bodies must not contain the terminator early
		for _, it := range flattenSplice(items) {
			if it.Kind == "comment" && strings.Index("--"+it.Text+"--}}", "--}}") != len(it.Text)+2 {
				c.Class("skipped:terminator-in-body")
				return
			}
		}
		// escapes inside text runs: expected output drops the backslashes
		want = spliceUnescape(items, want)
		if hasEmptyBody(items) {
			// empty block bodies are C02/C03 territory; counted separately
			c.Class("has-empty-body")
		}
		cs := textCase{Src: src, Want: want, Kind: "splice"}
		nt := len(o.marks) > 0 && c05NonTrivial(stripConstructs(src, o))
		classes := []string{fmt.Sprintf("constructs:%d", min(len(o.marks), 6))}
		if strings.Contains(src, ")}}") || strings.Contains(src, "}}}}") || strings.Contains(src, "@end}}") || strings.Contains(src, "@else}}") {
			classes = append(classes, "run-starts-with-}}")
		}
		c.Case(nt, src, classes...)
		if nt {
			c.Sample(cs)
		}
		if r, f := c05Run(c, cs); f != "" {
			c.Fail(rt, failKind(r), cs, want, r, f)
		}
	})
}

func flattenSplice(items []spliceItem) []spliceItem {
	var out []spliceItem
	for _, it := range items {
		out = append(out, it)
		out = append(out, flattenSplice(it.Body)...)
		out = append(out, flattenSplice(it.Else)...)
	}
	return out
}

func hasEmptyBody(items []spliceItem) bool {
	for _, it := range flattenSplice(items) {
		switch it.Kind {
		case "if", "each":
			if len(it.Body) == 0 {
				return true
			}
		case "ifelse", "elseif":
			if len(it.Body) == 0 || len(it.Else) == 0 {
				return true
			}
		}
	}
	return false
}

// spliceUnescape recomputes the expected output with escape backslashes of the
// text runs removed (text runs are classified one by one; adjacent text items
// are merged first because an escape may straddle them).
func spliceUnescape(items []spliceItem, _ string) string {
	merged := mergeTexts(items)
	o := &spliceOut{marks: map[int]string{}}
	return spliceRender(unescapeTexts(merged), o)
}

func mergeTexts(items []spliceItem) []spliceItem {
	var out []spliceItem
	for _, it := range items {
		it.Body = mergeTexts(it.Body)
		it.Else = mergeTexts(it.Else)
		if it.Kind == "text" && len(out) > 0 && out[len(out)-1].Kind == "text" {
			out[len(out)-1].Text += it.Text
			continue
		}
		out = append(out, it)
	}
	return out
}

func unescapeTexts(items []spliceItem) []spliceItem {
	out := make([]spliceItem, len(items))
	for i, it := range items {
		it.Body = unescapeTexts(it.Body)
		it.Else = unescapeTexts(it.Else)
		if it.Kind == "text" {
			if cl, w := reftext.Classify(it.Text); cl == reftext.AllEscaped {
				it.Text = w
			}
		}
		out[i] = it
	}
	return out
}

func stripConstructs(src string, o *spliceOut) string {
	var b strings.Builder
	inCode := make([]bool, len(src)+1)
	for _, r := range o.code {
		for i := r[0]; i < r[1]; i++ {
			inCode[i] = true
		}
	}
	for i := 0; i < len(src); i++ {
		if !inCode[i] {
			b.WriteByte(src[i])
		}
	}
	s := b.String()
	for _, kw := range []string{"{{", "@if", "@else", "@end", "@each"} {
		s = strings.ReplaceAll(s, kw, "")
	}
	return s
}

// nopTB is used by replayers, which report through their return value.
type nopTB struct{}

func (nopTB) Helper()               {}
func (nopTB) Failed() bool          { return false }
func (nopTB) Fatalf(string, ...any) {}
func (nopTB) Errorf(string, ...any) {}
func (nopTB) Logf(string, ...any)   {}
