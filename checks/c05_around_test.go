package checks

import (
	"encoding/json"
	"fmt"
	"strings"
	"testing"

	"verif/lib/harness"
)

// C05/around-doubtful-blocks: the text before and after a {{ }} block or a
// directive is no part of it - also when the block is written in a way whose
// validity no statement settles (a trailing or doubled semicolon, an empty
// block, white space in odd places, a trailing comma). Such a template either
// fails as a whole (an error, no output) or renders with every byte of the text
// before and after the block in place: what it may not do is succeed and lose
// or repeat text.

type aroundCase struct {
	Before string `json:"before"`
	Block  string `json:"block"`
	After  string `json:"after"`
	Nest   string `json:"nest"` // top | if | each
}

func (cs aroundCase) src() (string, string, string) {
	switch cs.Nest {
	case "if":
		return "A@if(true)" + cs.Before + cs.Block + cs.After + "@end;Z", "A" + cs.Before, cs.After + ";Z"
	case "each":
		return "A@each(q in [1])" + cs.Before + cs.Block + cs.After + "@end;Z", "A" + cs.Before, cs.After + ";Z"
	}
	return cs.Before + cs.Block + cs.After, cs.Before, cs.After
}

func c05Around(c *harness.Check, cs aroundCase) string {
	src, pre, post := cs.src()
	r := evalString(c, "json", mustJSON(cs), src, map[string]any{"n": 7, "ok": true})
	if r.Panic != nil {
		return "panic: " + r.Panic.Value
	}
	if r.IsErr() {
		if r.Out != "" {
			return "error together with output"
		}
		return ""
	}
	if !strings.HasPrefix(r.Out, pre) || !strings.HasSuffix(r.Out, post) || len(r.Out) < len(pre)+len(post) {
		return fmt.Sprintf("the template renders, but not as %q + block + %q: %q", pre, post, r.Out)
	}
	return ""
}

func init() {
	harness.RegisterReplayer("C05/around-doubtful-blocks", func(raw json.RawMessage) string {
		cs, err := unJSON[aroundCase](raw)
		if err != nil {
			return "bad case: " + err.Error()
		}
		return c05Around(harness.New(nopTB{}, "C05", "replay", ""), cs)
	})
}

func TestC05_AroundDoubtfulBlocks(t *testing.T) {
	blocks := []string{
		"{{ n; }}", "{{ n ; }}", "{{ x = 1; }}", "{{ n;; }}", "{{ ; }}", "{{ ;n }}", "{{ n; n; }}", "{{ }}", "{{}}", "{{ n, }}", "{{ [1, 2,] }}", "{{ {a: 1,} }}", "{{ n\n;\n}}", "{{ (n) }}", "{{ n }}", "{{ n;n }}",
		"{{ n.str(), }}", "{{ n.str(1,) }}", "{{ -; }}", "{{ n ? 1 : 2; }}", "@if(ok;)y@end", "@if(ok)@end", "@if(ok)y@else@end", "@each(v in [1];)y@end", "@each(v in [1, 2,])y@end", "@for(i = 0; i < 1; i++;)y@end",
		"@for(;;)@break@end", "@dump(n;)", "@dump(n,)", "@dump()", "{{-- c --}}", "{{----}}", "{{ n }}{{ n; }}", "{{ n; }}{{ n }}",
	}
	texts := []string{"", "a", "<p>", "</p>\n", " ", "\n", "x y", "é", "}}", "} ", "(t)", ";", "@ x", "\\\\x", "1"}
	c := harness.New(t, "C05", "around-doubtful-blocks",
		fmt.Sprintf("%d blocks and directives whose validity no statement settles (trailing, leading and doubled semicolons, empty blocks, trailing commas, semicolons in directive headers, empty bodies) and some plainly valid ones, each between every pair of %d text pieces, at top level, inside @if(true) and inside a one-pass @each: the template fails as a whole (error, no output) or its output starts with the text before the block and ends with the text after it. Exhaustive. Non-trivial: a non-empty text after the block. Distinct by construction.", len(blocks), len(texts)))
	defer c.Finish()
	idx := 0
	for _, b := range blocks {
		for _, before := range texts {
			for _, after := range texts {
				for _, nest := range []string{"top", "if", "each"} {
					idx++
					if !harness.Mine(idx) {
						continue
					}
					if before == "\\\\x" && strings.HasPrefix(b, "{{") || strings.HasSuffix(before, "@ x") && false {
						continue
					}
					cs := aroundCase{Before: before, Block: b, After: after, Nest: nest}
					c.CaseEnum(after != "", "nest:"+nest)
					if idx%997 == 0 {
						s, _, _ := cs.src()
						c.Sample(s)
					}
					if f := c05Around(c, cs); f != "" {
						c.Fail(t, kindOf(f), cs, "an error, or the text before and after the block in place", f, f)
					}
				}
			}
		}
	}
	c.ExhaustivePart(fmt.Sprintf("%d blocks x %d x %d texts x 3 nestings", len(blocks), len(texts), len(texts)))
}
