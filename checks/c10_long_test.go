package checks

import (
	"encoding/json"
	"fmt"
	"strings"
	"testing"
	"unicode/utf8"

	"verif/lib/harness"
	"verif/lib/tw"
)

// C10/long-literals: the statement holds for literals of any length: contents of
// 255 bytes to 200 KiB (around 4 KiB, 64 KiB and 128 KiB to the byte), built from
// units rich in < > & quotes and entities, in both quote styles, printed,
// assigned, concatenated, in an array and through raw().

type longLitCase struct {
	Unit    string `json:"unit"`
	Bytes   int    `json:"bytes"`
	Quote   string `json:"quote"`
	Context int    `json:"context"`
}

func (lc longLitCase) esc() escCase {
	content := strings.Repeat(lc.Unit, lc.Bytes/len(lc.Unit)+1)[:lc.Bytes]
	// the cut may have split a multi-byte character: drop the broken tail
	for len(content) > 0 && !utf8.ValidString(content[max(0, len(content)-4):]) {
		content = content[:len(content)-1]
	}
	content = strings.TrimRight(content, "\\")
	lit := tw.QuoteStr(content, lc.Quote)
	all := c10Contexts(lit)
	cs := all[lc.Context%len(all)]
	cs.Content, cs.Quote = content, lc.Quote
	return cs
}

func init() {
	harness.RegisterReplayer("C10/long-literals", func(raw json.RawMessage) string {
		lc, err := unJSON[longLitCase](raw)
		if err != nil {
			return "bad case: " + err.Error()
		}
		return c10LongRun(harness.New(nopTB{}, "C10", "replay", ""), lc)
	})
}

func c10LongRun(c *harness.Check, lc longLitCase) string {
	cs := lc.esc()
	r := evalString(c, "json", mustJSON(lc), cs.Src, nil)
	if r.Panic != nil {
		return "panic: " + r.Panic.Value
	}
	if r.IsErr() {
		return "unexpected error: " + clip(r.Err, 300)
	}
	if f := c10CheckOutput(cs, r.Out); f != "" {
		return clip(f, 400)
	}
	return ""
}

func TestC10_LongLiterals(t *testing.T) {
	sizes := []int{255, 256, 257, 1023, 1025, 4095, 4096, 4097, 16384, 65535, 65536, 65537, 70000, 131071, 131073, 200000}
	units := []string{"<b>&x", "a&amp;b'\"", "é<日>", "&lt;&#34;;#"}
	c := harness.New(t, "C10", "long-literals",
		fmt.Sprintf("literal contents of %d lengths from 255 bytes to 200 KiB (around 256, 1 KiB, 4 KiB, 64 KiB, 128 KiB to the byte) built by repeating one of %d units rich in < > & ; # quotes, entities and multi-byte characters, in both quote styles, in six contexts (printed, assigned, concatenated, array element, raw(), raw() after assignment): the same oracle as C10/contents-enum. Exhaustive. Non-trivial: all. Distinct by construction.", len(sizes), len(units)))
	defer c.Finish()
	ctxNames := map[string]bool{"printed": true, "assigned": true, "concat-left": true, "array-index": true, "raw": true, "raw-assigned": true}
	var ctxIdx []int
	for i, cs := range c10Contexts(`"x"`) {
		if ctxNames[cs.Context] {
			ctxIdx = append(ctxIdx, i)
		}
	}
	idx := 0
	for _, n := range sizes {
		for _, u := range units {
			for _, q := range []string{"\"", "'"} {
				for _, ci := range ctxIdx {
					idx++
					if !harness.Mine(idx) {
						continue
					}
					lc := longLitCase{Unit: u, Bytes: n, Quote: q, Context: ci}
					c.CaseEnum(true, fmt.Sprintf("bytes:%d", n))
					if idx%97 == 0 {
						c.Sample(lc)
					}
					if f := c10LongRun(c, lc); f != "" {
						c.Fail(t, kindOf(f), lc, "escaped content / content", f, f)
					}
				}
			}
		}
	}
	c.ExhaustivePart(fmt.Sprintf("%d lengths x %d units x 2 quote styles x %d contexts", len(sizes), len(units), len(ctxIdx)))
}
