package checks

import (
	"encoding/json"
	"fmt"
	"strings"
	"sync"
	"testing"

	textwire "github.com/textwire/textwire/v2"
	"pgregory.net/rapid"
	"verif/lib/harness"
)

// C11/parallel-calls: a built-in's result is given by its receiver and
// arguments alone - also while other renders call built-ins at the same time
// (the library is documented as safe for concurrent use, C15). A batch of calls
// on long receivers is evaluated by 16 goroutines at once, several rounds; each
// result must equal the result of the same call evaluated alone.

type parCallsCase struct {
	Calls  []string `json:"calls"` // template sources, one call chain each
	Rounds int      `json:"rounds"`
}

func init() {
	harness.RegisterReplayer("C11/parallel-calls", func(raw json.RawMessage) string {
		cs, err := unJSON[parCallsCase](raw)
		if err != nil {
			return "bad case: " + err.Error()
		}
		cs.Rounds = 200
		return c11Parallel(harness.New(nopTB{}, "C11", "replay", ""), cs)
	})
}

func c11Parallel(c *harness.Check, cs parCallsCase) string {
	failure := ""
	pi := c.Guard("json", mustJSON(cs), func() {
		alone := make([]string, len(cs.Calls))
		for i, src := range cs.Calls {
			alone[i] = c08Outcome(src)
		}
		var mu sync.Mutex
		for round := 0; round < cs.Rounds && failure == ""; round++ {
			var wg sync.WaitGroup
			start := make(chan struct{})
			const workers = 16
			for w := 0; w < workers; w++ {
				wg.Add(1)
				go func(w int) {
					defer wg.Done()
					<-start
					for i := w; i < len(cs.Calls); i += workers {
						if got := c08Outcome(cs.Calls[i]); got != alone[i] {
							mu.Lock()
							if failure == "" {
								failure = fmt.Sprintf("call %d %s among 16 concurrent renders: %s; alone: %s", i, clip(cs.Calls[i], 120), clip(got, 200), clip(alone[i], 200))
							}
							mu.Unlock()
							return
						}
					}
				}(w)
			}
			close(start)
			wg.Wait()
		}
	})
	if pi != nil {
		return "panic: " + pi.Value
	}
	return failure
}

func TestC11_ParallelCalls(t *testing.T) {
	c := harness.New(t, "C11", "parallel-calls",
		"batches of 64 templates, each calling 1..4 built-ins (reverse, upper, lower, capitalize, first, last, at, truncate, repeat, trim, split+join, len, contains on strings; reverse, join, slice, append, prepend, len, contains on arrays; abs, str, decimal on numbers) on a receiver of its own - strings and arrays of 200..3000 elements drawn from the C11 pools and repeated - evaluated by 16 goroutines at once for 12 (quick) or 40 (thorough) rounds; every result must equal the result of the same template evaluated alone beforehand. Non-trivial: all (64 distinct receivers). Distinct by hash of the batch.")
	defer c.Finish()
	strFns := []string{"reverse()", "upper()", "lower()", "capitalize()", "first()", "last()", "at(7)", "truncate(150, '~')", "trim()", "split(' ').join('+')", "len()", "contains('zz')", "repeat(2).len()", "reverse().reverse()"}
	arrFns := []string{"reverse()", "join('-')", "slice(3, 40)", "append(0).len()", "prepend(0).len()", "len()", "contains(5)", "reverse().join(',')"}
	rounds := harness.Pick(12, 40)
	runRapid(t, c, 25, 400, func(rt *rapid.T) {
		cs := parCallsCase{Rounds: rounds}
		for i := 0; i < 64; i++ {
			n := rapid.SampledFrom([]int{200, 500, 1000, 3000}).Draw(rt, "len")
			var src string
			if rapid.IntRange(0, 3).Draw(rt, "kind") > 0 {
				unit := rapid.SampledFrom(c11Strings[1:]).Draw(rt, "unit") + fmt.Sprint(i)
				recv := strings.Repeat(unit, n/len(unit)+1)
				recv = strings.NewReplacer("\\", "", "\"", "", "\n", " ", "\t", " ").Replace(recv)
				k := rapid.IntRange(1, 3).Draw(rt, "nCalls")
				var parts []string
				for j := 0; j < k; j++ {
					parts = append(parts, "{{ s."+rapid.SampledFrom(strFns).Draw(rt, "sfn")+" }}")
				}
				src = "{{ s = \"" + recv + "\" }}" + strings.Join(parts, "|")
			} else {
				el := make([]string, n/4)
				for j := range el {
					el[j] = fmt.Sprint((j*7 + i) % 100)
				}
				k := rapid.IntRange(1, 3).Draw(rt, "nCalls")
				var parts []string
				for j := 0; j < k; j++ {
					parts = append(parts, "{{ a."+rapid.SampledFrom(arrFns).Draw(rt, "afn")+" }}")
				}
				src = "{{ a = [" + strings.Join(el, ", ") + "] }}" + strings.Join(parts, "|")
			}
			cs.Calls = append(cs.Calls, src)
		}
		c.Case(true, mustJSON(cs.Calls))
		if c.S.Evals%10 == 1 {
			c.Sample(map[string]any{"first_call": clip(cs.Calls[0], 200), "calls": len(cs.Calls), "rounds": rounds})
		}
		if f := c11Parallel(c, cs); f != "" {
			c.Fail(rt, kindOf(f), cs, "every result equal to the result of the call evaluated alone", f, f)
		}
	})
	textwire.VerifReset()
}
