package checks

import (
	"fmt"
	"testing"

	"pgregory.net/rapid"
	"verif/lib/harness"
	"verif/lib/refint"
	"verif/lib/spec"
	"verif/lib/tw"
)

// C04 — block scoping, type stability, reserved 'loop'.

func init() {
	registerRenderReplayer("C04/programs-enum", "C04/reserved-loop", "C04/random-programs")
	registerTreeReplayer("C04/components", "C04/layouts")
}

// c04Simple is the alphabet of simple statements of the enumeration.
func c04Simple() []func() *tw.Stmt {
	lit := map[string]func() *tw.Expr{
		"int":  func() *tw.Expr { return intLit(7) },
		"str":  func() *tw.Expr { return tw.Str("s") },
		"bool": func() *tw.Expr { return tw.Bool(true) },
	}
	var out []func() *tw.Stmt
	for _, n := range []string{"a", "b"} {
		n := n
		for _, k := range []string{"int", "str", "bool"} {
			k := k
			out = append(out, func() *tw.Stmt { return tw.Assign(n, lit[k]()) })
		}
		out = append(out, func() *tw.Stmt {
			return &tw.Stmt{Kind: tw.SCode, Body: []*tw.Stmt{tw.Print(tw.Str("(")), tw.Print(tw.Var(n)), tw.Print(tw.Str(")"))}}
		})
	}
	return out
}

// c04Blocks wraps a body in each nesting form.
func c04Blocks() []func(body []*tw.Stmt) *tw.Stmt {
	return []func(body []*tw.Stmt) *tw.Stmt{
		func(b []*tw.Stmt) *tw.Stmt {
			return &tw.Stmt{Kind: tw.SIf, Branches: []tw.Branch{{Cond: tw.Bool(true), Body: b}}}
		},
		func(b []*tw.Stmt) *tw.Stmt {
			return &tw.Stmt{Kind: tw.SIf, Branches: []tw.Branch{{Cond: tw.Bool(false), Body: []*tw.Stmt{tw.Assign("a", intLit(1))}}}, HasElse: true, Else: b}
		},
		func(b []*tw.Stmt) *tw.Stmt {
			return &tw.Stmt{Kind: tw.SEach, Name: "v", E: tw.Arr(intLit(1), intLit(2)), Body: b}
		},
		func(b []*tw.Stmt) *tw.Stmt { return &tw.Stmt{Kind: tw.SEach, Name: "a", E: tw.Arr(intLit(5)), Body: b} },
		func(b []*tw.Stmt) *tw.Stmt {
			return &tw.Stmt{Kind: tw.SFor, Name: "b", Init: intLit(0), Cond: tw.Bin("<", tw.Var("b"), intLit(1)), Post: tw.Un(tw.EInc, tw.Var("b")), Body: b}
		},
	}
}

// c04Enum calls fn for every program with at most budget statements.
func c04Enum(budget int, fn func(prog []*tw.Stmt)) {
	simple, blocks := c04Simple(), c04Blocks()
	// seqs(n) enumerates statement lists that use exactly <= n statements via callback
	var seqs func(n int, emit func([]*tw.Stmt, int))
	seqs = func(n int, emit func([]*tw.Stmt, int)) {
		emit(nil, 0)
		if n == 0 {
			return
		}
		// first item simple
		for _, s := range simple {
			seqs(n-1, func(rest []*tw.Stmt, used int) {
				emit(append([]*tw.Stmt{s()}, rest...), used+1)
			})
		}
		// first item a block with a body of k statements
		for _, b := range blocks {
			seqs(n-1, func(body []*tw.Stmt, usedBody int) {
				seqs(n-1-usedBody, func(rest []*tw.Stmt, usedRest int) {
					emit(append([]*tw.Stmt{b(cloneStmts(body))}, rest...), 1+usedBody+usedRest)
				})
			})
		}
	}
	seqs(budget, func(p []*tw.Stmt, _ int) { fn(p) })
}

func cloneStmts(ss []*tw.Stmt) []*tw.Stmt {
	out := make([]*tw.Stmt, len(ss))
	for i, s := range ss {
		c := *s
		c.Body = cloneStmts(s.Body)
		c.Else = cloneStmts(s.Else)
		c.Branches = append([]tw.Branch(nil), s.Branches...)
		for j := range c.Branches {
			c.Branches[j].Body = cloneStmts(c.Branches[j].Body)
		}
		out[i] = &c
	}
	return out
}

func stmtDepthAssign(ss []*tw.Stmt, depth int, f map[string]int) {
	for _, s := range ss {
		switch s.Kind {
		case tw.SAssign:
			if depth > 0 {
				f["nested-assign"]++
			}
		case tw.SIf:
			for _, b := range s.Branches {
				stmtDepthAssign(b.Body, depth+1, f)
			}
			stmtDepthAssign(s.Else, depth+1, f)
		case tw.SEach, tw.SFor:
			stmtDepthAssign(s.Body, depth+1, f)
		case tw.SCode:
			f["read"]++
		}
	}
}

func TestC04_ProgramsEnum(t *testing.T) {
	budget := harness.Pick(3, 4)
	c := harness.New(t, "C04", "programs-enum",
		fmt.Sprintf("every program of at most %d statements (3 quick, 4 thorough) over: assignments of an int / string / bool literal to a or b, delimited reads of a or b, and the nesting forms @if(true){..}, @if(false){a = 1}@else{..}, @if(false){b = 2}@elseif(true){..}, @each(v in [1,2]){..}, @each(a in [5]){..} (loop variable shadowing a), @for(b = 0; b < 1; b++){..}; each under three data maps (none, a pre-bound as int, a pre-bound as string). Expected output or error-ness from the reference scope chain (block scoping, type stability, loop variables vanish). Non-trivial: an assignment inside a nested block and a read, or an error outcome. Distinct by construction.", budget))
	defer c.Finish()
	in := interp()
	datas := []*spec.Data{nil, (&spec.Data{}).Add("a", spec.IntOf(spec.TInt8, 3)), (&spec.Data{}).Add("a", spec.String("pre"))}
	idx := 0
	c04Enum(budget, func(prog []*tw.Stmt) {
		idx++
		if !harness.Mine(idx) {
			return
		}
		f := map[string]int{}
		stmtDepthAssign(prog, 0, f)
		src := tw.PrintStmts(prog, nil).Src
		for di, d := range datas {
			model, _ := d.Model()
			out, _ := in.Render(prog, model)
			cs := renderCase{Src: src, Data: d, Want: wantFromOut(out)}
			nt := (f["nested-assign"] > 0 && f["read"] > 0) || out.St == refint.Err
			c.CaseEnum(nt, "outcome:"+out.St.String(), fmt.Sprintf("data:%d", di))
			if nt && idx%2503 == 0 {
				c.Sample(cs.sample())
			}
			if r, fl := runRenderCase(c, cs); fl != "" {
				c.Fail(t, failKind(r), cs, cs.Want, r, fl)
			}
		}
	})
	c.ExhaustivePart(fmt.Sprintf("all programs with <= %d statements x 3 data maps", budget))
}

func TestC04_ReservedLoop(t *testing.T) {
	c := harness.New(t, "C04", "reserved-loop",
		"the name loop can never be assigned or supplied: 'loop = X' for every value type at top level, inside @if, inside @each and @for bodies, and inside an @else; loop supplied as data of every kind (with templates that do and do not mention it); loop as @each / @for variable. Every such render must fail. Non-trivial: all. Distinct by construction.")
	defer c.Finish()
	in := interp()
	vals := []*tw.Expr{intLit(1), tw.Str("s"), tw.Bool(true), tw.Nil(), floatLit(1.5), tw.Arr(intLit(1)), tw.Obj([]string{"index"}, []*tw.Expr{intLit(9)})}
	wraps := []func(s *tw.Stmt) []*tw.Stmt{
		func(s *tw.Stmt) []*tw.Stmt { return []*tw.Stmt{tw.Text("a"), s, tw.Text("b")} },
		func(s *tw.Stmt) []*tw.Stmt {
			return []*tw.Stmt{{Kind: tw.SIf, Branches: []tw.Branch{{Cond: tw.Bool(true), Body: []*tw.Stmt{tw.Text("x"), s}}}}}
		},
		func(s *tw.Stmt) []*tw.Stmt {
			return []*tw.Stmt{{Kind: tw.SEach, Name: "v", E: tw.Arr(intLit(1), intLit(2)), Body: []*tw.Stmt{tw.Print(tw.Dot(tw.Var("loop"), "index")), s}}}
		},
		func(s *tw.Stmt) []*tw.Stmt {
			return []*tw.Stmt{{Kind: tw.SFor, Name: "i", Init: intLit(0), Cond: tw.Bin("<", tw.Var("i"), intLit(2)), Post: tw.Un(tw.EInc, tw.Var("i")), Body: []*tw.Stmt{tw.Text("x"), s}}}
		},
		func(s *tw.Stmt) []*tw.Stmt {
			return []*tw.Stmt{{Kind: tw.SEach, Name: "v", E: tw.Arr(), Body: []*tw.Stmt{tw.Text("x")}, HasElse: true, Else: []*tw.Stmt{s}}}
		},
	}
	run := func(prog []*tw.Stmt, d *spec.Data, note string) {
		model, _ := d.Model()
		out, _ := in.Render(prog, model)
		cs := renderCase{Src: tw.PrintStmts(prog, nil).Src, Data: d, Want: wantFromOut(out), Note: note}
		c.CaseEnum(true, "outcome:"+out.St.String())
		c.Sample(cs.sample())
		if r, f := runRenderCase(c, cs); f != "" {
			c.Fail(t, failKind(r), cs, cs.Want, r, f)
		}
	}
	for _, v := range vals {
		for _, w := range wraps {
			run(w(tw.Assign("loop", v)), nil, "assign loop")
		}
	}
	for _, dv := range []*spec.Value{spec.IntOf(spec.TInt, 1), spec.String("s"), spec.NilAny(), spec.Bool(false), spec.Slice(spec.T(spec.TInt)), spec.Map(spec.T(spec.TInt), []string{"index"}, []*spec.Value{spec.IntOf(spec.TInt, 5)})} {
		d := (&spec.Data{}).Add("loop", dv).Add("x", spec.IntOf(spec.TInt, 1))
		run([]*tw.Stmt{tw.Text("plain text")}, d, "loop supplied as data, unused")
		run([]*tw.Stmt{tw.Print(tw.Var("x"))}, d, "loop supplied as data")
		run([]*tw.Stmt{{Kind: tw.SEach, Name: "v", E: tw.Arr(intLit(1)), Body: []*tw.Stmt{tw.Print(tw.Dot(tw.Var("loop"), "index"))}}}, d, "loop supplied as data, each")
	}
	run([]*tw.Stmt{{Kind: tw.SEach, Name: "loop", E: tw.Arr(intLit(1)), Body: []*tw.Stmt{tw.Text("x")}}}, nil, "loop as each variable")
	run([]*tw.Stmt{{Kind: tw.SFor, Name: "loop", Init: intLit(0), Cond: tw.Bin("<", tw.Var("i"), intLit(2)), Post: tw.Un(tw.EInc, tw.Var("i")), Body: []*tw.Stmt{tw.Text("x")}}}, nil, "loop as for variable")
	c.ExhaustivePart("assignment of 7 value types x 5 positions; 6 data kinds x 3 templates; loop as loop variable")
}

func TestC04_RandomPrograms(t *testing.T) {
	c := harness.New(t, "C04", "random-programs",
		"random programs biased to assignments and reads over names {a, b, c, loop} at every nesting position of @if/@elseif/@else, @each and @for (depth 3), with values of int, float, string, bool, array, object and nil type (literals and expressions), loop variables that shadow visible names (same and different type), and data maps that pre-bind a random subset of the names; expected rendering or error from the reference scope chain. Non-trivial: an assignment in a nested block to a visible name followed by reads, or a type collision, or a loop variable shadowing a visible name. Distinct by hash of source + data.")
	defer c.Finish()
	in := interp()
	runRapid(t, c, 12000, 120000, func(rt *rapid.T) {
		env := genProgEnv().Draw(rt, "data")
		g := newProgGen(rt, env)
		g.wIf, g.wLoop, g.wAssign, g.wCtl = 3, 3, 8, 1
		g.fewFailures = true
		prog := g.block(3, false)
		out, _ := in.Render(prog, env.Model)
		lay := genLayout().Draw(rt, "layout")
		src := tw.PrintStmts(prog, lay).Src
		cs := renderCase{Src: src, Data: env.D, Want: wantFromOut(out)}
		nt := (g.Feat["nested-assign-to-visible"] > 0 && g.Feat["read"] > 0) || g.Feat["type-collision"] > 0 || g.Feat["loopvar-shadows"] > 0
		classes := []string{"outcome:" + out.St.String()}
		for _, f := range []string{"nested-assign", "nested-assign-to-visible", "type-collision", "loopvar-shadows", "loopvar-type-collision", "read-unbound", "assign-loop"} {
			if g.Feat[f] > 0 {
				classes = append(classes, "has:"+f)
			}
		}
		if out.St == refint.Unspec {
			classes = append(classes, "unspecified:"+firstWords(out.Why, 4))
		}
		c.Case(nt, src+"|"+mustJSON(env.D), classes...)
		if nt {
			c.Sample(cs.sample())
		}
		if r, f := runRenderCase(c, cs); f != "" {
			c.Fail(rt, failKind(r), cs, cs.Want, r, f)
		}
	})
}

// TestC04_Components: a component (and a slot body evaluated in it) is a block.
func TestC04_Components(t *testing.T) {
	c := harness.New(t, "C04", "components",
		"template directories generated with the program generator of random-programs in which component uses appear at every nesting position: each use has a component file of its own that is a generated block (assignments and reads over {a, b, c, loop}, @if/@each/@for), 0..3 arguments named like the assignable names (same or different type as a visible namesake; one use in twenty also an argument named loop, which must fail), optionally a placeholder and a slot body that is again a generated block, and the page goes on reading and assigning after the use; with and without an argument object. Expected rendering or error from the reference scope chain (the component's block encloses the caller's names; what it binds is gone after the use). Non-trivial: a component file or slot body that assigns a name which the page reads later, or an argument named like a visible name. Distinct by hash of files + data.")
	defer c.Finish()
	in := interp()
	runRapid(t, c, 3000, 40000, func(rt *rapid.T) {
		env := genProgEnv().Draw(rt, "data")
		g := newProgGen(rt, env)
		g.wIf, g.wLoop, g.wAssign, g.wCtl, g.wComp = 2, 2, 8, 0, 5
		g.fewFailures = true
		g.comps = refint.Files{}
		page := g.block(3, false)
		if g.Feat["component"] == 0 {
			page = append(page, g.compStmt(2), tw.Text(";"))
		}
		// the page reads the names afterwards (mostly the ones it can see, so
		// that a leak from a component shows as a changed value, sometimes an
		// unbound one, so that a leak shows as a missing error)
		unbound := rapid.IntRange(0, 7).Draw(rt, "readUnbound") == 0
		for _, n := range assignNames {
			if _, vis := g.visibleKind(n); vis || unbound {
				page = append(page, tw.Text("|"), tw.Print(tw.Var(n)))
				g.Feat["read"]++
			}
		}
		files := g.comps
		files["page"] = page
		if le := refint.Validate(files); le != nil {
			c.Class("harness:generated-tree-invalid:" + le.Why)
			return
		}
		out, _ := in.RenderPage(files, "page", env.Model)
		cs := treeCase{Files: printFiles(files, genLayout().Draw(rt, "layout")), Dir: "t", Ext: ".tw", Page: "page", Data: env.D, Want: wantFromOut(out)}
		nt := g.Feat["nested-assign"] > 0 && g.Feat["read"] > 0 || g.Feat["arg-named-like-visible"] > 0
		classes := []string{"outcome:" + out.St.String(), fmt.Sprintf("components:%d", min(g.Feat["component"], 4))}
		for _, f := range []string{"slot-body", "arg-named-like-visible", "nested-assign-to-visible", "type-collision", "arg-named-loop"} {
			if g.Feat[f] > 0 {
				classes = append(classes, "has:"+f)
			}
		}
		if out.St == refint.Unspec {
			classes = append(classes, "unspecified:"+firstWords(out.Why, 4))
		}
		if out.St == refint.Err {
			classes = append(classes, "error:"+firstWords(out.Why, 3))
		}
		c.Case(nt, mustJSON(cs.Files)+mustJSON(env.D), classes...)
		if nt {
			c.Sample(cs.sample())
		}
		if r, f := runTreeCase(c, cs); f != "" {
			c.Fail(rt, kindOf(f), cs, cs.Want, r, f)
		}
	})
}

// TestC04_Layouts: an insert is not a block of its own - it runs in the block
// that holds its reserve, and that block ends where it ends in the layout.
func TestC04_Layouts(t *testing.T) {
	c := harness.New(t, "C04", "layouts",
		"template directories whose layout file is a generated block (assignments and reads over the assignable names, @if/@elseif/@else, @each, @for) with reserves at every nesting position - directly in a branch of an @if, in a loop body, in an @else, at top level - and whose page inserts, for each reserve, a generated block (assignments, reads, nested blocks, component uses), an expression, or nothing; the layout goes on reading and assigning after each reserve and reads every name at its end. Expected rendering or error from the reference scope chain: an insert's statements run in the block that holds the reserve, so what they bind is visible after the reserve inside that block and gone after the block's @end. Non-trivial: an insert at a nested position that assigns, with a read afterwards. Distinct by hash of files + data.")
	defer c.Finish()
	in := interp()
	runRapid(t, c, 3000, 40000, func(rt *rapid.T) {
		env := genProgEnv().Draw(rt, "data")
		g := newProgGen(rt, env)
		g.wIf, g.wLoop, g.wAssign, g.wCtl, g.wComp = 4, 2, 7, 0, 0
		g.fewFailures = true
		g.comps = refint.Files{}
		g.wReserve = 3
		layout := g.block(3, false)
		if g.Feat["reserve-nested"] == 0 {
			// at least one reserve directly inside a branch that runs
			g.push()
			body := append([]*tw.Stmt{g.mark()}, g.reserveStmt(2)...)
			g.Feat["reserve-nested"]++
			body = append(body, g.read())
			g.pop()
			if rapid.Bool().Draw(rt, "inElse") {
				layout = append(layout, &tw.Stmt{Kind: tw.SIf, Branches: []tw.Branch{{Cond: tw.Bool(false), Body: []*tw.Stmt{g.mark()}}}, HasElse: true, Else: body})
			} else {
				layout = append(layout, &tw.Stmt{Kind: tw.SIf, Branches: []tw.Branch{{Cond: tw.Bool(true), Body: body}}})
			}
		}
		unbound := rapid.IntRange(0, 3).Draw(rt, "readUnbound") == 0
		for _, n := range assignNames {
			if _, vis := g.visibleKind(n); vis || unbound {
				layout = append(layout, tw.Text("|"), tw.Print(tw.Var(n)))
				g.Feat["read"]++
			}
		}
		page := []*tw.Stmt{{Kind: tw.SUse, Name: "~main"}}
		inserts := rapid.Permutation(g.inserts).Draw(rt, "insertOrder")
		for _, ins := range inserts {
			page = append(page, tw.Text(rapid.SampledFrom([]string{"\n", "", " ignored ", "\r\n"}).Draw(rt, "between")), ins)
		}
		files := g.comps
		files["layouts/main"] = layout
		files["page"] = page
		if le := refint.Validate(files); le != nil {
			c.Class("harness:generated-tree-invalid:" + le.Why)
			return
		}
		out, _ := in.RenderPage(files, "page", env.Model)
		cs := treeCase{Files: printFiles(files, genLayout().Draw(rt, "layout")), Dir: "t", Ext: ".tw", Page: "page", Data: env.D, Want: wantFromOut(out)}
		nt := g.Feat["insert-assigns-in-nested-block"] > 0 && g.Feat["read"] > 0
		classes := []string{"outcome:" + out.St.String(), fmt.Sprintf("reserves:%d", min(g.Feat["reserve"], 4))}
		for _, f := range []string{"reserve-nested", "reserve-not-inserted", "insert-assigns-in-nested-block", "component", "type-collision"} {
			if g.Feat[f] > 0 {
				classes = append(classes, "has:"+f)
			}
		}
		if out.St == refint.Unspec {
			classes = append(classes, "unspecified:"+firstWords(out.Why, 4))
		}
		if out.St == refint.Err {
			classes = append(classes, "error:"+firstWords(out.Why, 3))
		}
		c.Case(nt, mustJSON(cs.Files)+mustJSON(env.D), classes...)
		if nt {
			c.Sample(cs.sample())
		}
		if r, f := runTreeCase(c, cs); f != "" {
			c.Fail(rt, kindOf(f), cs, cs.Want, r, f)
		}
	})
}
