package checks

import (
	"encoding/json"
	"fmt"
	"strings"
	"testing"

	"verif/lib/harness"
	"verif/lib/spec"
)

// C09/big-values: arrays, strings and objects with hundreds to tens of thousands
// of elements, characters or keys reach every construct that walks a value:
// loops, @dump, printing, the built-ins. Whatever the size, the render returns
// output or an error.

type bigCase struct {
	Kind     string `json:"kind"` // ints | strings | string | object | nested
	N        int    `json:"n"`
	Consumer int    `json:"consumer"`
}

var bigConsumers = []string{
	"@each(v in x){{ loop.iter }}@end", "@each(v in x)@breakIf(loop.last){{ loop.index }}@end", "@dump(x)", "{{ x }}", "{{ x.len() }}", "{{ x.reverse().len() }}",
	"{{ x.join(\"\") .len() }}", "{{ x.slice(1).len() }}{{ x.slice(0, 300).len() }}", "{{ x.contains(7) }}", "{{ x[0] }}{{ x[255] }}{{ x[256] }}", "{{ x.first() }}{{ x.last() }}",
	"{{ x.append(1).len() }}{{ x.prepend(1).len() }}", "{{ x.shuffle().len() }}", "{{ x.upper().len() }}{{ x.truncate(300).len() }}{{ x.repeat(2).len() }}", "{{ x.split(\"a\").len() }}",
	"{{ x.k255 }}{{ x.k256 }}", "@for(i = 0; i < x.len(); i++)@end{{ x.len() }}", "{{ y = x; y == x }}",
}

func (bc bigCase) build() (string, *spec.Data) {
	var v *spec.Value
	switch bc.Kind {
	case "ints":
		items := make([]*spec.Value, bc.N)
		for i := range items {
			items[i] = spec.IntOf(spec.TInt, int64(i%100))
		}
		v = spec.Slice(spec.T(spec.TInt), items...)
	case "strings":
		items := make([]*spec.Value, bc.N)
		for i := range items {
			items[i] = spec.String(fmt.Sprintf("s%d", i))
		}
		v = spec.Slice(spec.T(spec.TString), items...)
	case "string":
		v = spec.String(strings.Repeat("aé ", bc.N/4+1))
	case "object":
		keys := make([]string, bc.N)
		vals := make([]*spec.Value, bc.N)
		for i := range keys {
			keys[i], vals[i] = fmt.Sprintf("k%d", i), spec.Any(spec.IntOf(spec.TInt, int64(i)))
		}
		v = spec.Map(spec.T(spec.TAny), keys, vals)
	default:
		rows := make([]*spec.Value, bc.N/16+1)
		for i := range rows {
			cells := make([]*spec.Value, 16)
			for j := range cells {
				cells[j] = spec.Any(spec.IntOf(spec.TInt, int64(j)))
			}
			rows[i] = spec.Any(spec.Slice(spec.T(spec.TAny), cells...))
		}
		v = spec.Slice(spec.T(spec.TAny), rows...)
	}
	src := bigConsumers[bc.Consumer%len(bigConsumers)]
	if bc.N > 5000 && strings.HasPrefix(src, "@for(i = 0; i < x.len(); i++)") {
		// len() in the condition is evaluated in every pass: on a string it counts characters, so the
		// template itself asks for n*n steps (14 s for 65536 on a busy machine - reported as a hang by the
		// watchdog in one thorough run, a false alarm of the machinery). Beyond 5000 the length is taken once.
		src = "{{ n = x.len() }}@for(i = 0; i < n; i++)@end{{ n }}"
	}
	return src, (&spec.Data{}).Add("x", v)
}

func init() {
	harness.RegisterReplayer("C09/big-values", func(raw json.RawMessage) string {
		bc, err := unJSON[bigCase](raw)
		if err != nil {
			return "bad case: " + err.Error()
		}
		return c09Big(harness.New(nopTB{}, "C09", "replay", ""), bc)
	})
}

func c09Big(c *harness.Check, bc bigCase) string {
	src, data := bc.build()
	r := evalString(c, "json", mustJSON(bc), src, data.GoMap())
	if r.Panic != nil {
		return "panic: " + r.Panic.Value
	}
	if r.IsErr() && r.Out != "" {
		return "error together with output"
	}
	return ""
}

func TestC09_BigValues(t *testing.T) {
	var sizes []int
	for _, b := range []int{128, 256, 1024, 4096, 65536} {
		if b > harness.Pick(4096, 65536) {
			continue
		}
		sizes = append(sizes, b-1, b, b+1)
	}
	c := harness.New(t, "C09", "big-values",
		fmt.Sprintf("a data value x of n elements for n around 128, 256, 1024, 4096 (quick) and 65536 (thorough) - an int slice, a string slice, a string of that many characters, a map with that many keys, rows of 16 cells - given to %d consumers (@each with loop.*, @breakIf in the last pass, @dump, printing, len, reverse, join, slice, contains, indexes 0 / 255 / 256, first / last, append / prepend, shuffle, upper / truncate / repeat, split, properties k255 / k256, a @for up to len - the length evaluated in every pass up to 4097 elements, once beyond -, comparison with itself). Oracle: output or error, no panic, no hang. Exhaustive over size x kind x consumer. Non-trivial: all. Distinct by construction.", len(bigConsumers)))
	defer c.Finish()
	idx := 0
	for _, n := range sizes {
		for _, kind := range []string{"ints", "strings", "string", "object", "nested"} {
			for ci := range bigConsumers {
				idx++
				if !harness.Mine(idx) {
					continue
				}
				bc := bigCase{Kind: kind, N: n, Consumer: ci}
				c.CaseEnum(true, "kind:"+kind)
				if idx%211 == 0 {
					c.Sample(bc)
				}
				if f := c09Big(c, bc); f != "" {
					c.Fail(t, kindOf(f), bc, "output or error", f, f)
				}
			}
		}
	}
	c.ExhaustivePart(fmt.Sprintf("%d sizes x 5 kinds x %d consumers", len(sizes), len(bigConsumers)))
}
