package checks

import (
	"encoding/json"
	"fmt"
	"net/http/httptest"
	"strings"
	"testing"

	textwire "github.com/textwire/textwire/v2"
	"github.com/textwire/textwire/v2/config"
	"verif/lib/harness"
	"verif/lib/tree"
)

// C09/faults-in-used-files: a run-time fault may sit in the layout or in a
// component of the page, on any line - also on a line the page's own file does
// not have. Rendering through String and through Response (debug on and off;
// no, a working, a failing custom error page) returns output or an error.

type usedFaultCase struct {
	Where     string `json:"where"` // layout | component | slot-body | insert
	Line      int    `json:"line"`  // line of the fault in its file
	PageLines int    `json:"page_lines"`
	Fault     string `json:"fault"`
	Debug     bool   `json:"debug"`
	ErrorPage string `json:"error_page"`
}

func init() {
	harness.RegisterReplayer("C09/faults-in-used-files", func(raw json.RawMessage) string {
		cs, err := unJSON[usedFaultCase](raw)
		if err != nil {
			return "bad case: " + err.Error()
		}
		return c09UsedFiles(harness.New(nopTB{}, "C09", "replay", ""), cs)
	})
}

func c09UsedFiles(c *harness.Check, cs usedFaultCase) string {
	fill := func(n int) string { return strings.Repeat("line\n", n) }
	layout := "<html>@reserve(\"body\")</html>"
	comp := "<c>{{ v }}@slot</c>"
	page := "@use(\"~main\")@insert(\"body\")@component(\"comp\", {v: 1})\n@slot s@end\n@end;@end"
	switch cs.Where {
	case "layout":
		layout = fill(cs.Line-1) + cs.Fault + "\n<html>@reserve(\"body\")</html>"
	case "component":
		comp = fill(cs.Line-1) + cs.Fault + "\n<c>{{ v }}@slot</c>"
	case "slot-body":
		page = "@use(\"~main\")@insert(\"body\")@component(\"comp\", {v: 1})\n@slot " + fill(cs.Line-1) + cs.Fault + "@end\n@end;@end"
	case "insert-expression", "component-argument", "second-insert-expression":
		// the fault as the value of a short-form insert or of a component argument (statement-shaped faults go into an array's length)
		expr := "[1].len()"
		if strings.HasPrefix(cs.Fault, "{{ ") {
			expr = strings.TrimSuffix(strings.TrimPrefix(cs.Fault, "{{ "), " }}")
		}
		switch cs.Where {
		case "insert-expression":
			page = "@use(\"~main\")" + fill(cs.Line-1) + "@insert(\"body\", " + expr + ")"
		case "second-insert-expression":
			layout = "<html>@reserve(\"head\")|@reserve(\"body\")</html>"
			page = "@use(\"~main\")@insert(\"head\", 1)" + fill(cs.Line-1) + "@insert(\"body\", " + expr + ")"
		default:
			page = "@use(\"~main\")@insert(\"body\")" + fill(cs.Line-1) + "@component(\"comp\", {v: " + expr + "});@end"
		}
	default:
		page = "@use(\"~main\")@insert(\"body\")" + fill(cs.Line-1) + cs.Fault + "@end"
	}
	if cs.Where == "layout" || cs.Where == "component" {
		page += fill(cs.PageLines - 3)
	}
	if _, err := tree.Materialise(tree.Tree{"t/layouts/main.tw": {Content: layout}, "t/comp.tw": {Content: comp}, "t/page.tw": {Content: page},
		"t/oops.tw": {Content: "<h1>oops</h1>"}, "t/broken.tw": {Content: "{{ message }}"}}); err != nil {
		return ""
	}
	failure := ""
	pi := c.Guard("json", mustJSON(cs), func() {
		textwire.VerifReset()
		tpl, lerr := textwire.NewTemplate(&config.Config{TemplateDir: "t", TemplateExt: ".tw", DebugMode: cs.Debug, ErrorPagePath: cs.ErrorPage})
		if lerr != nil {
			failure = "harness: the directory does not load: " + lerr.Error()
			return
		}
		out, serr := tpl.String("page", map[string]any{"zero": 0})
		w := httptest.NewRecorder()
		rerr := tpl.Response(w, "page", map[string]any{"zero": 0})
		if (serr == nil) != (rerr == nil) {
			failure = fmt.Sprintf("String returns %v, Response returns %v", serr, rerr)
			return
		}
		// each of the faults is one the statement lists: it is reported as an error, not rendered
		if strings.HasPrefix(cs.Fault, "{{ ") || !strings.HasSuffix(cs.Where, "-expression") && cs.Where != "component-argument" {
			if serr == nil {
				failure = fmt.Sprintf("the fault %s was not reported: String returned %q and no error", cs.Fault, out)
			} else if out != "" {
				failure = fmt.Sprintf("error together with output %q", out)
			}
		}
	})
	if pi != nil {
		return "panic: " + pi.Value
	}
	if strings.HasPrefix(failure, "harness:") {
		return ""
	}
	return failure
}

func TestC09_FaultsInUsedFiles(t *testing.T) {
	faults := []string{"{{ 10 % zero }}", "{{ 1 / zero }}", "{{ zzUnknown }}", "{{ zero.nosuch }}", "@each(x in zero)a@end", "{{ \"s\".zzNoFn() }}", "{{ [1][9].x }}",
		// the fault in a later element of a literal or a later argument of a call
		"{{ [1, 10 % zero].len() }}", "{{ \"abc\".truncate(2, zzUnknown) }}", "{{ true.then(\"y\", 1 / zero) }}"}
	c := harness.New(t, "C09", "faults-in-used-files",
		fmt.Sprintf("%d run-time faults on line 1..12 of the layout, of a component, of a slot body or of an insert (block form; as the value of a short-form insert, first or second; as a component argument) of a page whose own file has 1..14 lines (so the fault's line may not exist in the page's file), rendered through String and Response with debug on / off and no, a working, a failing or a missing custom error page: both return (no panic), String returns an error and no output, and Response fails exactly when String fails. Exhaustive. Non-trivial: the fault stands in a used file on a line beyond the page's last line. Distinct by construction.", len(faults)))
	defer c.Finish()
	idx := 0
	for _, where := range []string{"layout", "component", "slot-body", "insert", "insert-expression", "second-insert-expression", "component-argument"} {
		for line := 1; line <= 12; line++ {
			for _, pageLines := range []int{3, 5, 14} {
				for fi, fault := range faults {
					for _, debug := range []bool{true, false} {
						for _, ep := range []string{"", "oops", "broken", "nosuch"} {
							idx++
							if !harness.Mine(idx) || (idx+fi)%3 != 0 && !debug {
								continue
							}
							cs := usedFaultCase{Where: where, Line: line, PageLines: pageLines, Fault: fault, Debug: debug, ErrorPage: ep}
							c.CaseEnum((where == "layout" || where == "component") && line > pageLines, "where:"+where, fmt.Sprintf("debug:%v", debug))
							if idx%499 == 0 {
								c.Sample(cs)
							}
							if f := c09UsedFiles(c, cs); f != "" {
								c.Fail(t, kindOf(f), cs, "output or error", f, f)
							}
						}
					}
				}
			}
		}
	}
	textwire.VerifReset()
	c.ExhaustivePart("7 places x 12 lines x 3 page lengths x 7 faults x debug on (all) / off (a third) x 4 error page settings")
}
