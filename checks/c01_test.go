package checks

import (
	"fmt"
	"strings"
	"testing"

	"pgregory.net/rapid"
	"verif/lib/harness"
	"verif/lib/refint"
	"verif/lib/spec"
	"verif/lib/tw"
)

// C01 — precedence, associativity, typed arithmetic.

func init() {
	registerRenderReplayer("C01/op-sequences", "C01/unary-postfix", "C01/random-trees", "C01/assignment")
}

var binOps = []string{"+", "-", "*", "/", "%", "==", "!=", "<", ">", "<=", ">="}

// climb parses a flat operand/operator sequence with the statement's table:
// higher level binds tighter, equal levels group left to right.
func climb(operands []*tw.Expr, ops []string) *tw.Expr {
	pos := 0
	var parse func(min int) *tw.Expr
	parse = func(min int) *tw.Expr {
		left := operands[pos]
		for pos < len(ops) && tw.OpLevel(ops[pos]) >= min {
			op := ops[pos]
			pos++
			right := parse(tw.OpLevel(op) + 1)
			left = tw.Bin(op, left, right)
		}
		return left
	}
	return parse(0)
}

// operand sets: name -> four operands; chosen so that competing groupings give
// different values or a different error.
type operandSet struct {
	name string
	ops  []*tw.Expr
	data *spec.Data
}

func c01OperandSets() []operandSet {
	lits := func(name string, e ...*tw.Expr) operandSet { return operandSet{name: name, ops: e} }
	data := (&spec.Data{}).Add("a", spec.IntOf(spec.TInt8, 7)).Add("b", spec.IntOf(spec.TUint16, 3)).Add("c", spec.IntOf(spec.TInt64, 2)).Add("d", spec.IntOf(spec.TUint32, 5))
	fdata := (&spec.Data{}).Add("a", spec.Float64(7.5)).Add("b", spec.Float32(2.0)).Add("c", spec.Float64(0.5)).Add("d", spec.Float64(4.0))
	sets := []operandSet{
		lits("ints", intLit(7), intLit(3), intLit(2), intLit(5)),
		lits("floats", floatLit(7.5), floatLit(2.0), floatLit(0.5), floatLit(4.0)),
		{name: "int-vars", ops: []*tw.Expr{tw.Var("a"), tw.Var("b"), tw.Var("c"), tw.Var("d")}, data: data},
		{name: "float-vars", ops: []*tw.Expr{tw.Var("a"), tw.Var("b"), tw.Var("c"), tw.Var("d")}, data: fdata},
		lits("strings", tw.Str("a"), tw.Str("b"), tw.Str("a"), tw.Str("c")),
		lits("ints-big", intLit(100), intLit(7), intLit(1<<40), intLit(3)),
		lits("zero-2nd", intLit(7), intLit(0), intLit(2), intLit(5)),
		lits("zero-3rd", intLit(7), intLit(3), intLit(0), intLit(5)),
		lits("zero-4th", intLit(7), intLit(3), intLit(2), intLit(0)),
		lits("neg", intLit(-7), intLit(3), intLit(-2), intLit(5)),
	}
	return sets
}

func TestC01_OpSequences(t *testing.T) {
	c := harness.New(t, "C01", "op-sequences",
		"flat sequences 'a OP1 b', 'a OP1 b OP2 c' and 'a OP1 b OP2 c OP3 d' over all 11 binary operators (11 + 121 + 1331 per operand set, exhaustive) and operand sets (int/float/string literals, data variables of several Go widths, a zero in each position); expected value from a precedence-climbing reference parser (statement's table, left associative) evaluated by the reference interpreter; each also as value of an assignment. Non-trivial: >= 2 operators whose levels differ or that are non-commutative neighbours (every pair/triple). Distinct by construction.")
	defer c.Finish()
	in := interp()
	sets := c01OperandSets()
	nsets := harness.Pick(4, len(sets))
	idx := 0
	for si, set := range sets[:nsets] {
		model, _ := set.data.Model()
		for n := 1; n <= 3; n++ {
			total := 1
			for i := 0; i < n; i++ {
				total *= len(binOps)
			}
			for code := 0; code < total; code++ {
				idx++
				if !harness.Mine(idx) {
					continue
				}
				ops := make([]string, n)
				x := code
				for i := range ops {
					ops[i] = binOps[x%len(binOps)]
					x /= len(binOps)
				}
				tree := climb(set.ops[:n+1], ops)
				res := in.Eval(tree, refint.RootScope(model))
				// flat source: operands and operators as written, no parentheses
				var toks []string
				for i := 0; i <= n; i++ {
					toks = append(toks, tw.ExprTokens(set.ops[i], nil)...)
					if i < n {
						toks = append(toks, ops[i])
					}
				}
				flat := strings.Join(toks, " ")
				src := "{{ " + flat + " }}"
				cs := renderCase{Src: src, Data: set.data, Want: wantFromRes(res), Note: "grouping: " + tw.ExprString(tree, &tw.Layout{Full: true})}
				if si%2 == 0 {
					cs.Src2 = "{{ zz = " + flat + "; zz }}"
				}
				nt := n >= 2
				c.CaseEnum(nt, "set:"+set.name, "outcome:"+res.St.String(), fmt.Sprintf("operators:%d", n))
				if nt && code%97 == 0 {
					c.Sample(cs.sample())
				}
				if r, f := runRenderCase(c, cs); f != "" {
					c.Fail(t, failKind(r), cs, cs.Want, r, f)
				}
			}
		}
	}
	c.ExhaustivePart(fmt.Sprintf("all operator sequences of length 1..3 over %d operand sets", nsets))
}

func TestC01_UnaryPostfix(t *testing.T) {
	c := harness.New(t, "C01", "unary-postfix",
		"every binary operator combined with unary -, !, postfix ++/-- on either operand, member access / index / call chains under - ! ++ --, and ternaries nested in condition, then-part and else-part; trees printed with minimal parentheses per the statement's table, with full parentheses and with redundant ones: all must render the reference value. Non-trivial: all (each mixes operator classes). Distinct by construction.")
	defer c.Finish()
	in := interp()
	data := (&spec.Data{}).Add("n", spec.IntOf(spec.TInt32, 6)).Add("f", spec.Float64(2.5)).Add("p", spec.Bool(true)).Add("q", spec.Bool(false)).
		Add("arr", spec.Slice(spec.T(spec.TInt), spec.IntOf(spec.TInt, 4), spec.IntOf(spec.TInt, 9))).
		Add("o", spec.Map(spec.T(spec.TAny), []string{"k", "inner"}, []*spec.Value{spec.Any(spec.IntOf(spec.TInt, 3)), spec.Any(spec.Map(spec.T(spec.TInt), []string{"z"}, []*spec.Value{spec.IntOf(spec.TInt, 8)}))})).
		Add("s", spec.String("abc")).Add("es", spec.String("")).
		Add("em", spec.Map(spec.T(spec.TInt), []string{"", "a"}, []*spec.Value{spec.IntOf(spec.TInt, 41), spec.IntOf(spec.TInt, 1)}))
	model, _ := data.Model()
	var trees []*tw.Expr
	n, f := func() *tw.Expr { return tw.Var("n") }, func() *tw.Expr { return tw.Var("f") }
	unaries := []func(*tw.Expr) *tw.Expr{
		func(x *tw.Expr) *tw.Expr { return tw.Un(tw.ENeg, x) },
		func(x *tw.Expr) *tw.Expr { return tw.Un(tw.EInc, x) },
		func(x *tw.Expr) *tw.Expr { return tw.Un(tw.EDec, x) },
		func(x *tw.Expr) *tw.Expr { return tw.Un(tw.ENeg, tw.Un(tw.ENeg, x)) },
		func(x *tw.Expr) *tw.Expr { return tw.Un(tw.ENeg, tw.Un(tw.EInc, x)) },
		func(x *tw.Expr) *tw.Expr { return tw.Un(tw.EDec, tw.Un(tw.ENeg, x)) },
	}
	for _, op := range binOps {
		for _, u := range unaries {
			trees = append(trees,
				tw.Bin(op, u(n()), intLit(4)), tw.Bin(op, intLit(4), u(n())), u(tw.Bin(op, n(), intLit(4))),
				tw.Bin(op, u(f()), floatLit(1.5)), tw.Bin(op, floatLit(1.5), u(f())), u(tw.Bin(op, f(), floatLit(1.5))),
				tw.Bin(op, u(n()), u(intLit(2))))
		}
		// ! with comparisons and equality
		trees = append(trees, tw.Un(tw.ENot, tw.Bin(op, n(), intLit(4))), tw.Bin(op, tw.Un(tw.ENot, tw.Var("p")), tw.Var("q")),
			tw.Bin(op, tw.Var("p"), tw.Un(tw.ENot, tw.Var("q"))))
		// ternaries against binary operators
		trees = append(trees,
			tw.Tern(tw.Bin(op, n(), intLit(4)), intLit(1), intLit(2)),
			tw.Tern(tw.Var("p"), tw.Bin(op, n(), intLit(4)), intLit(2)),
			tw.Tern(tw.Var("q"), intLit(1), tw.Bin(op, n(), intLit(4))),
			tw.Bin(op, tw.Tern(tw.Var("q"), intLit(1), n()), intLit(4)),
			tw.Bin(op, intLit(4), tw.Tern(tw.Var("p"), n(), intLit(1))),
		)
		// member / index / call against binary operators
		trees = append(trees,
			tw.Bin(op, tw.Dot(tw.Var("o"), "k"), intLit(4)), tw.Bin(op, intLit(4), tw.Index(tw.Var("arr"), intLit(1))),
			tw.Bin(op, tw.Call(tw.Var("s"), "len"), tw.Dot(tw.Dot(tw.Var("o"), "inner"), "z")),
			tw.Bin(op, tw.Index(tw.Var("arr"), tw.Bin("-", intLit(1), intLit(1))), tw.Call(n(), "abs")),
		)
	}
	// chains under prefix/postfix
	chain := []*tw.Expr{
		tw.Un(tw.ENeg, tw.Dot(tw.Var("o"), "k")), tw.Dot(tw.Un(tw.ENeg, n()), "zz"), tw.Call(tw.Un(tw.ENeg, n()), "abs"), tw.Un(tw.ENeg, tw.Call(tw.Un(tw.ENeg, n()), "abs")),
		tw.Un(tw.ENeg, tw.Index(tw.Var("arr"), intLit(0))), tw.Un(tw.EInc, tw.Index(tw.Var("arr"), intLit(1))), tw.Un(tw.EDec, tw.Dot(tw.Var("o"), "k")),
		tw.Un(tw.ENeg, tw.Un(tw.EInc, tw.Dot(tw.Dot(tw.Var("o"), "inner"), "z"))), tw.Call(tw.Un(tw.EInc, n()), "abs"), tw.Call(tw.Un(tw.ENeg, f()), "abs"),
		tw.Call(tw.Un(tw.ENeg, f()), "int"), tw.Un(tw.ENeg, tw.Call(f(), "int")), tw.Un(tw.ENot, tw.Bin("==", tw.Call(tw.Var("s"), "len"), intLit(3))),
		tw.Index(tw.Arr(intLit(1), tw.Bin("+", intLit(1), intLit(1))), intLit(1)), tw.Un(tw.EInc, tw.Index(tw.Arr(intLit(1), intLit(5)), intLit(1))),
		tw.Call(tw.Bin("+", tw.Str("ab"), tw.Str("c")), "len"), tw.Bin("+", tw.Str("ab"), tw.Call(tw.Str("c"), "upper")), tw.Call(tw.Bin("*", n(), intLit(-2)), "abs"),
		tw.Tern(tw.Tern(tw.Var("q"), tw.Var("p"), tw.Var("q")), intLit(1), intLit(2)), tw.Tern(tw.Var("p"), tw.Tern(tw.Var("q"), intLit(1), intLit(2)), intLit(3)),
		tw.Tern(tw.Var("q"), intLit(1), tw.Tern(tw.Var("q"), intLit(2), tw.Tern(tw.Var("p"), intLit(3), intLit(4)))),
		tw.Tern(tw.Var("q"), intLit(1), tw.Tern(tw.Var("p"), tw.Tern(tw.Var("q"), intLit(5), intLit(6)), intLit(4))),
		tw.Un(tw.ENeg, tw.Tern(tw.Var("p"), intLit(1), intLit(2))), tw.Un(tw.EDec, tw.Tern(tw.Var("q"), intLit(1), intLit(2))),
		tw.Index(tw.Tern(tw.Var("p"), tw.Var("arr"), tw.Arr()), intLit(1)), tw.Dot(tw.Tern(tw.Var("p"), tw.Var("o"), tw.Obj(nil, nil)), "k"),
		// an index is any expression, and a key any string - the empty one included
		tw.Bin("+", tw.Index(tw.Var("em"), tw.Str("")), intLit(1)), tw.Bin("*", tw.Index(tw.Var("em"), tw.Var("es")), intLit(2)), tw.Index(tw.Var("em"), tw.Bin("+", tw.Var("es"), tw.Str(""))),
		tw.Un(tw.ENeg, tw.Index(tw.Var("em"), tw.Call(tw.Var("s"), "trim", tw.Str("abc")))), tw.Bin("-", tw.Index(tw.Var("em"), tw.Tern(tw.Var("q"), tw.Str("a"), tw.Str(""))), tw.Index(tw.Var("em"), tw.Str("a"))),
		tw.Index(tw.Var("em"), tw.Call(tw.Var("s"), "truncate", intLit(0), tw.Str(""))), tw.Index(tw.Var("arr"), tw.Bin("-", tw.Index(tw.Var("em"), tw.Str("")), intLit(40))),
	}
	trees = append(trees, chain...)
	for i, tree := range trees {
		if !harness.Mine(i) {
			continue
		}
		res := in.Eval(tree, refint.RootScope(model))
		min := tw.PrintExpr(tree, nil)
		full := tw.PrintExpr(tree, &tw.Layout{Full: true})
		wrapped := cloneExpr(tree)
		wrapAll(wrapped, i)
		if !tw.RoundTrips(tree, nil) || !tw.RoundTrips(tree, &tw.Layout{Full: true}) || !tw.RoundTrips(wrapped, nil) {
			c.Class("harness:printer-roundtrip-mismatch")
			continue
		}
		cs := renderCase{Src: min, Src2: full, Data: data, Want: wantFromRes(res)}
		c.CaseEnum(true, "outcome:"+res.St.String())
		if i%41 == 0 {
			c.Sample(cs.sample())
		}
		if r, f := runRenderCase(c, cs); f != "" {
			c.Fail(t, failKind(r), cs, cs.Want, r, f)
		}
		cs2 := renderCase{Src: min, Src2: tw.PrintExpr(wrapped, &tw.Layout{Seps: []uint8{2, 1, 0, 5, 1, 3}}), Data: data, Want: wantFromRes(res)}
		c.CaseEnum(true, "layout:wrapped+spaced")
		if r, f := runRenderCase(c, cs2); f != "" {
			c.Fail(t, failKind(r), cs2, cs2.Want, r, f)
		}
	}
	c.ExhaustivePart(fmt.Sprintf("%d hand-enumerated operator-class combinations x 3 layouts", len(trees)))
}

// wrapAll adds redundant parentheses deterministically (every third node).
func wrapAll(e *tw.Expr, salt int) {
	n := salt
	var rec func(e *tw.Expr)
	rec = func(e *tw.Expr) {
		n++
		if n%3 == 0 {
			e.Wrap = 1 + n%2
		}
		for _, k := range e.Kids {
			rec(k)
		}
	}
	rec(e)
}

func TestC01_RandomTrees(t *testing.T) {
	c := harness.New(t, "C01", "random-trees",
		"random typed expression trees to depth 5 over literals, data variables of every integer width / float32/64 / string / bool / nil / slices / maps / structs, unary - !, postfix ++ --, all binary operators, ternary, index, member access, calls of contract-trivial built-ins; ~15% with one injected fault (mixed types, /0, %0, unknown identifier, out-of-range literal, unknown function/property) on a certainly evaluated path. Each tree is printed in two layouts (minimal parentheses vs. random: full parentheses, redundant parentheses, random whitespace/newlines/CRLF) and both must render the reference value and agree with each other; in one case of three the second layout stands 1..4 blocks deep (taken branches, one-pass loops). Non-trivial: >= 2 operators of different classes and minimal != full parenthesisation, or a faulted tree. Distinct by hash of the minimal source + data.")
	defer c.Finish()
	in := interp()
	runRapid(t, c, 25000, 180000, func(rt *rapid.T) {
		env := genDataEnv().Draw(rt, "data")
		g := &exprGen{env: env}
		k := rapid.SampledFrom([]refint.Kind{refint.KInt, refint.KInt, refint.KFloat, refint.KStr, refint.KBool}).Draw(rt, "kind")
		depth := rapid.IntRange(1, 5).Draw(rt, "depth")
		tree := g.gen(rt, k, depth)
		fault := ""
		if rapid.IntRange(0, 6).Draw(rt, "faulted") == 0 {
			tree, fault = injectFault(rt, g, tree)
		}
		res := in.Eval(tree, refint.RootScope(env.Model))
		if refint.StaticErrExpr(tree) {
			res = refint.Res{St: refint.Err, Why: "integer literal out of range"}
		}
		min := tw.PrintExpr(tree, nil)
		alt := cloneExpr(tree)
		addWraps(rt, alt)
		lay := genLayout().Draw(rt, "layout")
		src2 := tw.PrintExpr(alt, lay)
		if !tw.RoundTrips(tree, nil) || !tw.RoundTrips(alt, lay) {
			c.Class("harness:printer-roundtrip-mismatch")
			return
		}
		if rapid.IntRange(0, 2).Draw(rt, "nested") == 0 {
			// the same expression some blocks deep - inside branches that are taken and one-pass loops: what it
			// reads is bound two, three or four blocks further out
			open, shut := "", ""
			for d := rapid.IntRange(1, 4).Draw(rt, "nestDepth"); d > 0; d-- {
				switch rapid.IntRange(0, 3).Draw(rt, "nestKind") {
				case 0:
					open, shut = open+"@if(true)", "@end"+shut
				case 1:
					open, shut = open+"@if(false)n@else", "@end"+shut
				case 2:
					open, shut = open+fmt.Sprintf("@each(zzq%d in [%d])", d, d), "@end"+shut
				default:
					open, shut = open+fmt.Sprintf("@for(zzj%d = 0; zzj%d < 1; zzj%d++)", d, d, d), "@end"+shut
				}
			}
			src2 = open + src2 + shut
			if strings.HasPrefix(min, "{{") && strings.HasSuffix(min, "}}") {
				c.Class("second-layout-nested-in-blocks")
			}
		}
		cs := renderCase{Src: min, Src2: src2, Data: env.D, Want: wantFromRes(res), Note: fault}
		kinds := map[string]bool{}
		nops := countOps(tree, kinds)
		full := tw.PrintExpr(tree, &tw.Layout{Full: true})
		nt := fault != "" || (nops >= 2 && len(kinds) >= 2 && strings.Count(full, "(") != strings.Count(min, "("))
		classes := []string{"outcome:" + res.St.String(), "result:" + k.String()}
		if fault != "" {
			classes = append(classes, "fault:"+fault)
		}
		if lay.Full {
			classes = append(classes, "layout:full")
		}
		if strings.Contains(src2, "\n") {
			classes = append(classes, "layout:newlines")
		}
		if res.St == refint.Unspec {
			classes = append(classes, "unspecified:"+firstWords(res.Why, 3))
		}
		c.Case(nt, min+"|"+mustJSON(env.D), classes...)
		if nt {
			c.Sample(cs.sample())
		}
		if r, f := runRenderCase(c, cs); f != "" {
			c.Fail(rt, failKind(r), cs, cs.Want, r, f)
		}
	})
}

func firstWords(s string, n int) string {
	f := strings.Fields(s)
	if len(f) > n {
		f = f[:n]
	}
	return strings.Join(f, " ")
}

func TestC01_Assignment(t *testing.T) {
	c := harness.New(t, "C01", "assignment",
		"'{{ x = E; x }}' for random typed trees E (including ternaries and comparisons at top level) must render what '{{ E }}' renders: the right-hand side of an assignment is a complete expression. Non-trivial: E has an operator of level below additive (comparison, equality, ternary) or two operators. Distinct by hash of source + data.")
	defer c.Finish()
	in := interp()
	runRapid(t, c, 8000, 75000, func(rt *rapid.T) {
		env := genDataEnv().Draw(rt, "data")
		g := &exprGen{env: env}
		k := rapid.SampledFrom([]refint.Kind{refint.KInt, refint.KFloat, refint.KStr, refint.KBool, refint.KBool}).Draw(rt, "kind")
		tree := g.gen(rt, k, rapid.IntRange(1, 3).Draw(rt, "depth"))
		res := in.Eval(tree, refint.RootScope(env.Model))
		lay := genLayout().Draw(rt, "layout")
		if !tw.RoundTrips(tree, nil) || !tw.RoundTrips(tree, lay) {
			c.Class("harness:printer-roundtrip-mismatch")
			return
		}
		stmts := []*tw.Stmt{{Kind: tw.SCode, Body: []*tw.Stmt{tw.Assign("zz", tree), tw.Print(tw.Var("zz"))}}}
		src := tw.PrintStmts(stmts, lay).Src
		cs := renderCase{Src: src, Src2: "{{ zz = " + tw.ExprString(tree, nil) + " }}{{ zz }}", Data: env.D, Want: wantFromRes(res)}
		kinds := map[string]bool{}
		nops := countOps(tree, kinds)
		nt := nops >= 2 || kinds["bin2"] || kinds["bin3"] || kinds[tw.ETern]
		c.Case(nt, src+"|"+mustJSON(env.D), "outcome:"+res.St.String(), "top:"+tree.Kind)
		if nt {
			c.Sample(cs.sample())
		}
		if r, f := runRenderCase(c, cs); f != "" {
			c.Fail(rt, failKind(r), cs, cs.Want, r, f)
		}
	})
}
