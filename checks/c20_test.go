package checks

import (
	"encoding/json"
	"fmt"
	"reflect"
	"strings"
	"testing"

	textwire "github.com/textwire/textwire/v2"
	"github.com/textwire/textwire/v2/config"
	"pgregory.net/rapid"
	"verif/lib/harness"
	"verif/lib/refint"
	"verif/lib/tree"
	"verif/lib/tw"
)

// C20 — custom functions: unique registration, faithful argument/result conversion.

// regOp is one step of a registry history.
type regOp struct {
	Kind   string      `json:"kind"`           // register | call | load
	Type   string      `json:"type,omitempty"` // str | arr | int | float | bool
	Name   string      `json:"name,omitempty"`
	Recv   *modelJSON  `json:"recv,omitempty"`
	Args   []modelJSON `json:"args,omitempty"`
	ViaVar bool        `json:"via_var,omitempty"` // receiver and arguments as variables
	ViaTpl bool        `json:"via_tpl,omitempty"` // through a loaded template's String
	BadRet bool        `json:"bad_ret,omitempty"` // (arr) registered function returns a value of an unsupported kind
	Place  string      `json:"place,omitempty"`   // via_tpl: where the call stands: page | component | slot | insert
	// FailArg k >= 1: the k-th argument is an expression that fails (an undefined name or a
	// call of an unregistered function): the render fails and no function is invoked
	FailArg  int    `json:"fail_arg,omitempty"`
	FailExpr string `json:"fail_expr,omitempty"`
}

func (o regOp) String() string {
	switch o.Kind {
	case "register":
		return fmt.Sprintf("Register(%s, %q)", o.Type, o.Name)
	case "load":
		return "LoadTemplates"
	}
	a := make([]string, len(o.Args))
	for i, x := range o.Args {
		a[i] = describeModel(x.value())
	}
	if o.FailArg > 0 && o.FailArg <= len(a) {
		a[o.FailArg-1] = "FAILING " + o.FailExpr
	}
	return fmt.Sprintf("call %s.%s(%s) var=%v tpl=%v", describeModel(o.Recv.value()), o.Name, strings.Join(a, ", "), o.ViaVar, o.ViaTpl)
}

func init() {
	for _, n := range []string{"histories-enum", "state-machine"} {
		harness.RegisterReplayer("C20/"+n, func(raw json.RawMessage) string {
			ops, err := unJSON[[]regOp](raw)
			if err != nil {
				return "bad case: " + err.Error()
			}
			c := harness.New(nopTB{}, "C20", "replay", "")
			var failure string
			pi := c.Guard("json", string(raw), func() {
				m := newRegModel()
				for i, op := range ops {
					if f := m.apply(op); f != "" {
						failure = fmt.Sprintf("step %d %s: %s", i+1, op, f)
						return
					}
				}
			})
			if pi != nil {
				return "panic: " + pi.Value
			}
			return failure
		})
	}
}

var typeWords = map[string][]string{"str": {"string", "str"}, "arr": {"array", "arr"}, "int": {"integer", "int"}, "float": {"float"}, "bool": {"boolean", "bool"}}

var builtinsOf = map[string]map[string]bool{
	"str":   setOf("len", "split", "raw", "trim", "trimRight", "trimLeft", "upper", "lower", "capitalize", "reverse", "contains", "truncate", "decimal", "at", "first", "last", "repeat"),
	"arr":   setOf("len", "join", "rand", "reverse", "slice", "shuffle", "contains", "append", "prepend"),
	"int":   setOf("float", "abs", "str", "len", "decimal"),
	"float": setOf("int", "str", "abs", "ceil", "floor", "round"),
	"bool":  setOf("binary", "then"),
}

func setOf(s ...string) map[string]bool {
	m := map[string]bool{}
	for _, x := range s {
		m[x] = true
	}
	return m
}

// recorded call of a custom function.
type recCall struct {
	id   int
	recv any
	args []any
}

// regModel is the reference registry plus the live library state.
type regModel struct {
	reg    map[string]map[string]int // type -> name -> id
	nextID int
	last   *recCall
	tpl    *textwire.Template
	loaded bool
}

func newRegModel() *regModel {
	textwire.VerifReset()
	return &regModel{reg: map[string]map[string]int{"str": {}, "arr": {}, "int": {}, "float": {}, "bool": {}}}
}

// expectedGo converts a model value into the plain Go value a custom function
// must receive: int64, float64, string, bool, nil, []any, map[string]any.
func expectedGo(v V) any {
	switch v.K {
	case refint.KInt:
		return v.I
	case refint.KFloat:
		return v.F
	case refint.KStr:
		return v.S
	case refint.KBool:
		return v.B
	case refint.KArr:
		out := make([]any, len(v.Arr))
		for i, x := range v.Arr {
			out[i] = expectedGo(x)
		}
		return out
	case refint.KObj:
		out := map[string]any{}
		for k, x := range v.Obj {
			out[k] = expectedGo(x)
		}
		return out
	}
	return nil
}

// sameGo is deep equality where an empty []any equals a nil []any.
func sameGo(a, b any) bool {
	as, aok := a.([]any)
	bs, bok := b.([]any)
	if aok && bok {
		if len(as) != len(bs) {
			return false
		}
		for i := range as {
			if !sameGo(as[i], bs[i]) {
				return false
			}
		}
		return true
	}
	am, aok := a.(map[string]any)
	bm, bok := b.(map[string]any)
	if aok && bok {
		if len(am) != len(bm) {
			return false
		}
		for k, x := range am {
			y, ok := bm[k]
			if !ok || !sameGo(x, y) {
				return false
			}
		}
		return true
	}
	return reflect.DeepEqual(a, b)
}

// resultOf is what the custom function with this id returns for these inputs.
func strResult(id int, s string, args []any) string {
	return fmt.Sprintf("F%d(%s|%d)", id, s, len(args))
}
func arrResult(id int, a []any, args []any, bad bool) []any {
	if bad {
		return []any{1, make(chan int)}
	}
	return []any{id, len(a), "s", map[string]any{"k": []any{int64(7), "z"}, "n": nil}, nil, 2.5, true, args}
}

func (m *regModel) register(typ, name string) error {
	id := m.nextID + 1
	rec := func(recv any, args []any) {
		m.last = &recCall{id: id, recv: recv, args: args}
	}
	var err error
	switch typ {
	case "str":
		err = textwire.RegisterStrFunc(name, func(s string, a ...any) string { rec(s, a); return strResult(id, s, a) })
	case "arr":
		bad := strings.HasPrefix(name, "bad")
		err = textwire.RegisterArrFunc(name, func(x []any, a ...any) []any { rec(x, a); return arrResult(id, x, a, bad) })
	case "int":
		err = textwire.RegisterIntFunc(name, func(i int, a ...any) int { rec(i, a); return i*100 + id })
	case "float":
		err = textwire.RegisterFloatFunc(name, func(f float64, a ...any) float64 { rec(f, a); return f + float64(id) + 0.5 })
	case "bool":
		err = textwire.RegisterBoolFunc(name, func(b bool, a ...any) bool { rec(b, a); return !b })
	}
	if err == nil {
		m.nextID = id
	}
	return err
}

func typeOfModel(v V) string {
	switch v.K {
	case refint.KStr:
		return "str"
	case refint.KArr:
		return "arr"
	case refint.KInt:
		return "int"
	case refint.KFloat:
		return "float"
	case refint.KBool:
		return "bool"
	}
	return ""
}

func (m *regModel) apply(op regOp) string {
	switch op.Kind {
	case "register":
		_, present := m.reg[op.Type][op.Name]
		err := m.register(op.Type, op.Name)
		if present && err == nil {
			return "a second registration of the same name for the same type succeeded"
		}
		if !present && err != nil {
			return "first registration failed: " + err.Error()
		}
		if !present {
			m.reg[op.Type][op.Name] = m.nextID
		}
	case "load":
		tr := tree.Tree{"t/page.tw": {Content: "<page>{{ expr }}</page>"}}
		if _, err := tree.Materialise(tr); err != nil {
			return ""
		}
		// NewTemplate must not disturb the registry (no VerifReset here)
		tpl, err := textwire.NewTemplate(&config.Config{TemplateDir: "t", TemplateExt: ".tw"})
		if err != nil {
			return "loading templates failed: " + err.Error()
		}
		m.tpl, m.loaded = tpl, true
	case "call":
		return m.call(op)
	}
	return ""
}

func (m *regModel) call(op regOp) string {
	recv := op.Recv.value()
	typ := typeOfModel(recv)
	args := make([]V, len(op.Args))
	for i, a := range op.Args {
		args[i] = a.value()
	}
	// the call expression, receiver/arguments as literals or variables
	data := map[string]any{}
	var call string
	if op.ViaVar {
		data["r"] = expectedGo(recv)
		names := make([]string, len(args))
		for i, a := range args {
			names[i] = fmt.Sprintf("a%d", i)
			data[names[i]] = expectedGo(a)
		}
		call = "r." + op.Name + "(" + strings.Join(names, ", ") + ")"
	} else {
		ae := make([]*tw.Expr, len(args))
		for i, a := range args {
			ae[i] = litFromModel(a)
		}
		call = tw.ExprString(tw.Call(litFromModel(recv), op.Name, ae...), nil)
	}
	render := func(src string, d map[string]any) (string, string) {
		out, err := textwire.EvaluateString(src, d)
		if err != nil {
			return out, err.Error()
		}
		return out, ""
	}
	m.last = nil
	if op.FailArg >= 1 && op.FailArg <= len(args) {
		// the same call with the k-th argument replaced by a failing expression
		var parts []string
		for i, a := range args {
			switch {
			case i == op.FailArg-1:
				parts = append(parts, op.FailExpr)
			case op.ViaVar:
				parts = append(parts, fmt.Sprintf("a%d", i))
			default:
				parts = append(parts, tw.ExprString(litFromModel(a), nil))
			}
		}
		recvText := "r"
		if !op.ViaVar {
			recvText = tw.ExprString(tw.Call(litFromModel(recv), "zzPlaceholder"), nil)
			recvText = strings.TrimSuffix(recvText, ".zzPlaceholder()")
		}
		src := "[{{ " + recvText + "." + op.Name + "(" + strings.Join(parts, ", ") + ") }}]"
		out, errText := render(src, data)
		if errText == "" {
			return fmt.Sprintf("argument %d of %s fails (%s) but the render succeeded with %q", op.FailArg, src, op.FailExpr, out)
		}
		if m.last != nil {
			return fmt.Sprintf("argument %d of %s fails (%s) but the custom function %d was invoked", op.FailArg, src, op.FailExpr, m.last.id)
		}
		return ""
	}
	id, registered := m.reg[typ][op.Name]
	isBuiltin := builtinsOf[typ][op.Name]
	// observation template: structure of the result
	switch {
	case isBuiltin:
		out, _ := render("[{{ "+call+" }}]", data)
		if m.last != nil {
			return fmt.Sprintf("the custom function %d was invoked although %s is a built-in for %s", m.last.id, op.Name, typ)
		}
		if strings.Contains(out, fmt.Sprintf("F%d(", id)) && registered {
			return "the custom function's result shows although a built-in of that name exists"
		}
		return ""
	case !registered:
		out, errText := render("[{{ "+call+" }}]", data)
		if errText == "" {
			return fmt.Sprintf("calling the unregistered %s on %s rendered %q", op.Name, typ, out)
		}
		low := strings.ToLower(errText)
		if !strings.Contains(errText, op.Name) {
			return "the error does not name the function: " + errText
		}
		for _, w := range typeWords[typ] {
			if strings.Contains(low, w) {
				return ""
			}
		}
		return "the error does not name the receiver type: " + errText
	}
	// registered custom function: expected result as a Go value
	wantRecv := expectedGo(recv)
	if typ == "int" {
		wantRecv = int(recv.I)
	}
	wantArgs := make([]any, len(args))
	for i, a := range args {
		wantArgs[i] = expectedGo(a)
	}
	var result any
	bad := false
	switch typ {
	case "str":
		result = strResult(id, recv.S, wantArgs)
	case "arr":
		bad = strings.HasPrefix(op.Name, "bad")
		result = arrResult(id, wantRecv.([]any), wantArgs, bad)
	case "int":
		result = int(recv.I)*100 + id
	case "float":
		result = recv.F + float64(id) + 0.5
	case "bool":
		result = !recv.B
	}
	// paths into the result, rendered once through the call and once through data
	paths := []string{"x"}
	if typ == "arr" && !bad {
		paths = []string{"x.len()", "x[0]", "x[1]", "x[2]", "x[3].k[0]", "x[3].k[1]", "x[3].k.len()", "x[3].n", "x[4]", "x[5]", "x[6]", "x[7].len()"}
		for i := range args {
			if args[i].K != refint.KArr && args[i].K != refint.KObj {
				paths = append(paths, fmt.Sprintf("x[7][%d]", i))
			}
		}
	}
	var viaCall, viaData strings.Builder
	viaCall.WriteString("{{ x = " + call + " }}")
	for _, p := range paths {
		viaCall.WriteString("[{{ " + p + " }}]")
		viaData.WriteString("[{{ " + p + " }}]")
	}
	var gotOut, gotErr string
	if op.ViaTpl && m.loaded {
		// through the loaded template: the page prints {{ expr }}; paths are not
		// available there, so only scalar results go this way
		if typ == "arr" {
			gotOut, gotErr = render(viaCall.String(), data)
		} else {
			body := "{{ x = " + call + " }}[{{ x }}]"
			tr := tree.Tree{"t/page.tw": {Content: body}}
			switch op.Place {
			case "component":
				tr = tree.Tree{"t/page.tw": {Content: "@component(\"comp\");"}, "t/comp.tw": {Content: body}}
			case "slot":
				tr = tree.Tree{"t/page.tw": {Content: "@component(\"comp\")\n@slot" + " " + body + "@end\n@end;"}, "t/comp.tw": {Content: "@slot"}}
			case "insert":
				tr = tree.Tree{"t/page.tw": {Content: "@use(\"~l\")@insert(\"r\")" + body + "@end"}, "t/layouts/l.tw": {Content: "@reserve(\"r\")"}}
			}
			tree.Materialise(tr)
			tpl, err := textwire.NewTemplate(&config.Config{TemplateDir: "t", TemplateExt: ".tw"})
			if err != nil {
				return "loading templates failed: " + err.Error()
			}
			out, ferr := tpl.String("page", data)
			gotOut = strings.TrimSuffix(strings.TrimPrefix(out, " "), ";")
			if ferr != nil {
				gotErr = ferr.String()
			}
		}
	} else {
		gotOut, gotErr = render(viaCall.String(), data)
	}
	if m.last == nil {
		if gotErr != "" {
			return "the registered function was not called: " + gotErr
		}
		return "the registered function was not called"
	}
	if m.last.id != id {
		return fmt.Sprintf("function %d was called, the first registration for (%s, %s) is %d", m.last.id, typ, op.Name, id)
	}
	if !sameGo(m.last.recv, wantRecv) {
		return fmt.Sprintf("receiver arrived as %#v, expected %#v", m.last.recv, wantRecv)
	}
	if !sameGo(any(m.last.args), any(wantArgs)) && !(len(m.last.args) == 0 && len(wantArgs) == 0) {
		return fmt.Sprintf("arguments arrived as %#v, expected %#v", m.last.args, wantArgs)
	}
	wantOut, wantErr := render(viaData.String(), map[string]any{"x": result})
	if bad {
		if gotErr == "" {
			return fmt.Sprintf("a result of an unsupported kind rendered %q; passed as data it is an error (%s)", gotOut, wantErr)
		}
		return ""
	}
	if gotErr != "" || wantErr != "" {
		if (gotErr == "") != (wantErr == "") {
			return fmt.Sprintf("result via call: %q / %s; same Go value as data: %q / %s", gotOut, gotErr, wantOut, wantErr)
		}
		return ""
	}
	if gotOut != wantOut {
		return fmt.Sprintf("result renders %q, the same Go value passed as data renders %q", gotOut, wantOut)
	}
	return ""
}

// ---------------------------------------------------------------- generators

func c20Names(typ string) []string {
	other := map[string]string{"str": "join", "arr": "upper", "int": "round", "float": "decimal", "bool": "len"}[typ]
	own := map[string]string{"str": "upper", "arr": "join", "int": "abs", "float": "round", "bool": "binary"}[typ]
	// names are exact: "F" is not "f", "Upper" is not the built-in "upper"; digits and underscores are letters of a name
	// (long names that share their first forty letters: an error names the function that was called, whole)
	long := "computeTheTotalPriceOfTheWholeBasketWith"
	n := []string{"f", "g", own, other, "F", "Shout", strings.ToUpper(own[:1]) + own[1:], "x_1", long, long + "Taxes", long + "TaxesAndShipping"}
	if typ == "arr" {
		n = append(n, "badret")
	}
	return n
}

var c20Types = []string{"str", "arr", "int", "float", "bool"}

func c20Recv(rt *rapid.T, typ string) V {
	switch typ {
	case "str":
		// (strings holding markup or entity text are passed as variables only: a literal would be escaped first; quotes stay as written, so strings with quotes are also written as literals - with a backslash where the quote is the delimiter)
		return refint.StrV(rapid.SampledFrom([]string{"", "abc", "héllo", "x y", "a &lt; b", "Tom &amp; Jerry", "&copy; &#65;&#x42; &amp", "<b>&</b>", "q\"uo'te", "it's", "say \"hi\"", "'", "l'été"}).Draw(rt, "srecv"))
	case "arr":
		return rapid.SampledFrom([]V{refint.ArrV(nil), refint.ArrV([]V{refint.IntV(1), refint.StrV("a")}), refint.ArrV([]V{refint.ArrV([]V{refint.IntV(2)}), refint.ObjV(map[string]V{"k": refint.NilV()})})}).Draw(rt, "arecv")
	case "int":
		return refint.IntV(rapid.SampledFrom([]int64{0, 7, -3, 1 << 40}).Draw(rt, "irecv"))
	case "float":
		return refint.FloatV(rapid.SampledFrom([]float64{0.5, 2.25, -1.5}).Draw(rt, "frecv"))
	}
	return refint.BoolV(rapid.Bool().Draw(rt, "brecv"))
}

// c20BigArgs: an array of 100 integers, an object of 100 keys, an array nested 70 levels deep.
var c20BigArgs = func() []V {
	ints := make([]V, 100)
	obj := map[string]V{}
	for i := range ints {
		ints[i] = refint.IntV(int64(i + 1))
		obj[fmt.Sprintf("k%03d", i)] = refint.IntV(int64(i))
	}
	deep := refint.StrV("leaf")
	for i := 0; i < 70; i++ {
		deep = refint.ArrV([]V{deep})
	}
	return []V{refint.ArrV(ints), refint.ObjV(obj), deep}
}()

func c20Arg(rt *rapid.T) V {
	if rapid.IntRange(0, 11).Draw(rt, "bigArg") == 0 {
		return rapid.SampledFrom(c20BigArgs).Draw(rt, "big")
	}
	return rapid.SampledFrom([]V{
		refint.IntV(5), refint.IntV(-1), refint.FloatV(1.5), refint.StrV("arg"), refint.StrV(""), refint.BoolV(true), refint.NilV(), refint.StrV("x &amp; &lt;y&gt;"), refint.StrV("it's"), refint.StrV("a \"b\""), refint.StrV("'q\"é"),
		refint.ArrV(nil), refint.ArrV([]V{refint.IntV(1), refint.ArrV([]V{refint.StrV("in")})}),
		refint.ObjV(map[string]V{"a": refint.IntV(1), "b": refint.ArrV([]V{refint.NilV(), refint.ObjV(map[string]V{"c": refint.FloatV(0.5)})})}), refint.ObjV(nil),
	}).Draw(rt, "arg")
}

func genRegOp(rt *rapid.T) regOp {
	typ := rapid.SampledFrom(c20Types).Draw(rt, "type")
	name := rapid.SampledFrom(c20Names(typ)).Draw(rt, "name")
	switch rapid.IntRange(0, 9).Draw(rt, "opKind") {
	case 0, 1, 2:
		return regOp{Kind: "register", Type: typ, Name: name}
	case 3:
		return regOp{Kind: "load"}
	}
	recvV := c20Recv(rt, typ)
	markup := recvV.K == refint.KStr && strings.ContainsAny(recvV.S, "&<>\\")
	recv := toModelJSON(recvV)
	n := rapid.IntRange(0, 3).Draw(rt, "nArgs")
	args := make([]modelJSON, n)
	for i := range args {
		av := c20Arg(rt)
		markup = markup || av.K == refint.KStr && strings.ContainsAny(av.S, "&<>\\")
		args[i] = toModelJSON(av)
	}
	op := regOp{Kind: "call", Name: name, Recv: &recv, Args: args, ViaVar: rapid.Bool().Draw(rt, "viaVar"), ViaTpl: rapid.IntRange(0, 2).Draw(rt, "viaTpl") == 0,
		Place: rapid.SampledFrom([]string{"page", "component", "slot", "insert"}).Draw(rt, "place")}
	if markup {
		op.ViaVar = true
	}
	if n > 0 && rapid.IntRange(0, 7).Draw(rt, "failingArg") == 0 {
		op.FailArg = rapid.IntRange(1, n).Draw(rt, "failArgAt")
		op.FailExpr = rapid.SampledFrom([]string{"zzUndefinedName", "1.zzNope()", "[1][5].x", "1 / 0", "\"s\".zzNope(2)"}).Draw(rt, "failExpr")
	}
	return op
}

func c20NonTrivial(ops []regOp) bool {
	types := map[string]map[string]bool{}
	dup, callBefore, callAfter, loaded := false, false, false, false
	seen := map[string]bool{}
	for _, o := range ops {
		switch o.Kind {
		case "register":
			k := o.Type + "/" + o.Name
			if seen[k] {
				dup = true
			}
			seen[k] = true
			if types[o.Name] == nil {
				types[o.Name] = map[string]bool{}
			}
			types[o.Name][o.Type] = true
		case "load":
			loaded = true
		case "call":
			if loaded {
				callAfter = true
			} else {
				callBefore = true
			}
		}
	}
	multi := false
	for _, t := range types {
		if len(t) >= 2 {
			multi = true
		}
	}
	return multi && dup && callBefore && callAfter
}

func TestC20_StateMachine(t *testing.T) {
	c := harness.New(t, "C20", "state-machine",
		"random histories (rapid state machine, length up to ~40) after a registry reset: Register{Str,Arr,Int,Float,Bool}(name) with name in {f, g, a built-in name of that type, a built-in name of another type, (arrays) a function returning an unsupported kind}; calls on receivers of the five types as literals or variables with 0..3 arguments of any kind incl. nested arrays/objects, nil, an array of 100 elements, an object of 100 keys and an array nested 70 deep (one call in eight with an argument, at any position, whose evaluation fails: the render must fail without any function being invoked), directly and through a loaded template; LoadTemplates at any point. Model: registry type -> name -> id of the first registration; Register errors iff the pair is present and never replaces; a call yields the built-in (custom closure not invoked) if one exists, else the registered closure must have received the receiver and arguments as the plain Go values (int, int64, float64, string, bool, nil, []any, map[string]any recursively; empty array = length 0) and its result must render like the same Go value passed as data (also by index/member access into returned []any with nested maps), else an error naming the function and the receiver type. Non-trivial: one name registered on >= 2 types, a rejected duplicate, calls before and after LoadTemplates. Distinct by hash of the history.")
	defer c.Finish()
	runRapid(t, c, 1500, 24000, func(rt *rapid.T) {
		m := newRegModel()
		var hist []regOp
		step := func(op regOp) {
			hist = append(hist, op)
			var f string
			pi := c.Guard("json", mustJSON(hist), func() { f = m.apply(op) })
			if pi != nil {
				f = "panic: " + pi.Value
			}
			if f != "" {
				c.Fail(rt, kindOf(f), hist, "registry model", f, fmt.Sprintf("step %d %s: %s", len(hist), op, f))
			}
		}
		rt.Repeat(map[string]func(*rapid.T){
			"op": func(rt *rapid.T) { step(genRegOp(rt)) },
		})
		nt := c20NonTrivial(hist)
		c.Case(nt, mustJSON(hist), fmt.Sprintf("len:%d", len(hist)/10*10))
		if nt {
			var s []string
			for _, o := range hist {
				s = append(s, o.String())
			}
			c.Sample(s)
		}
	})
	textwire.VerifReset()
}

func TestC20_HistoriesEnum(t *testing.T) {
	c := harness.New(t, "C20", "histories-enum",
		"every history of length <= 3 over a reduced alphabet: Register(str, f), Register(int, f), Register(str, upper), Register(arr, f), LoadTemplates, and calls 'abc'.f(), 7.f(1, 'a'), [1].f([2], {k: nil}), 'abc'.upper(), 2.5.f() (literal and variable form): exhaustive; same model. Non-trivial: contains a registration and a call. Distinct by construction.")
	defer c.Finish()
	s, i, a, f := toModelJSON(refint.StrV("abc")), toModelJSON(refint.IntV(7)), toModelJSON(refint.ArrV([]V{refint.IntV(1)})), toModelJSON(refint.FloatV(2.5))
	alphabet := []regOp{
		{Kind: "register", Type: "str", Name: "f"}, {Kind: "register", Type: "int", Name: "f"}, {Kind: "register", Type: "str", Name: "upper"}, {Kind: "register", Type: "arr", Name: "f"}, {Kind: "load"},
		{Kind: "call", Name: "f", Recv: &s}, {Kind: "call", Name: "f", Recv: &i, Args: mj(refint.IntV(1), refint.StrV("a"))},
		{Kind: "call", Name: "f", Recv: &a, Args: mj(refint.ArrV([]V{refint.IntV(2)}), refint.ObjV(map[string]V{"k": refint.NilV()})), ViaVar: true},
		{Kind: "call", Name: "upper", Recv: &s}, {Kind: "call", Name: "f", Recv: &f}, {Kind: "call", Name: "f", Recv: &s, ViaVar: true, ViaTpl: true},
		{Kind: "call", Name: "f", Recv: &i, ViaTpl: true, Place: "component"}, {Kind: "call", Name: "f", Recv: &s, ViaTpl: true, Place: "slot"},
	}
	maxLen := 3
	idx := 0
	var rec func(hist []regOp)
	rec = func(hist []regOp) {
		if len(hist) > 0 {
			idx++
			if harness.Mine(idx) {
				hasReg, hasCall := false, false
				for _, o := range hist {
					hasReg = hasReg || o.Kind == "register"
					hasCall = hasCall || o.Kind == "call"
				}
				c.CaseEnum(hasReg && hasCall, fmt.Sprintf("len:%d", len(hist)))
				var failure string
				pi := c.Guard("json", mustJSON(hist), func() {
					m := newRegModel()
					for k, op := range hist {
						if f := m.apply(op); f != "" {
							failure = fmt.Sprintf("step %d %s: %s", k+1, op, f)
							return
						}
					}
				})
				if pi != nil {
					failure = "panic: " + pi.Value
				}
				if failure != "" {
					c.Fail(t, kindOf(failure), hist, "registry model", failure, failure)
				}
				if idx%151 == 0 {
					var ss []string
					for _, o := range hist {
						ss = append(ss, o.String())
					}
					c.Sample(ss)
				}
			}
		}
		if len(hist) == maxLen {
			return
		}
		for _, op := range alphabet {
			rec(append(append([]regOp{}, hist...), op))
		}
	}
	rec(nil)
	textwire.VerifReset()
	c.ExhaustivePart(fmt.Sprintf("all histories of length <= %d over %d operations", maxLen, len(alphabet)))
}
