package checks

import (
	"encoding/json"
	"fmt"
	"runtime"
	"strings"
	"sync"
	"sync/atomic"
	"testing"

	textwire "github.com/textwire/textwire/v2"
	"pgregory.net/rapid"
	"verif/lib/harness"
	"verif/lib/spec"
)

// C15 — one loaded Template and the string API are safe for concurrent use.
//
// The check is built with -race and run with GORACE=halt_on_error=1: a data
// race kills the process, the driver finds the plan in the heartbeat, confirms
// it by replaying and reports it. Result mismatches are reported in-process.

type concPlan struct {
	Config     int     `json:"config"` // index into c16Trees()
	Procs      int     `json:"procs"`
	Goroutines [][]int `json:"goroutines"` // operation indexes per goroutine
	Yield      []int   `json:"yield"`      // Gosched before operation k when k%len matches
	Repeat     int     `json:"repeat"`
}

func init() {
	harness.RegisterReplayer("C15/plans", func(raw json.RawMessage) string {
		p, err := unJSON[concPlan](raw)
		if err != nil {
			return "bad case: " + err.Error()
		}
		p.Repeat = 50
		return c15Run(p)
	})
}

func c15Setup(cs histCase) (*histEnv, string) {
	h, herr := c16Load(cs)
	if herr != "" {
		return nil, herr
	}
	textwire.RegisterStrFunc("shout", func(s string, a ...any) string { return strings.ToUpper(s) + "!" })
	textwire.RegisterIntFunc("double", func(i int, a ...any) int { return i * 2 })
	return h, ""
}

func c15Ops(base []histOp) []histOp {
	d := specData(map[string]any{"name": "Zed", "items": []int{3, 4, 5}, "flag": false})
	// data with pointers at several depths (each call builds its own values)
	user := spec.Ptr(spec.Struct([]string{"Name", "Tags", "Boss"}, []*spec.Value{spec.String("Ann"), spec.Slice(spec.PtrTo(spec.T(spec.TString)), spec.Ptr(spec.String("a")), spec.Ptr(spec.String("b"))),
		spec.Ptr(spec.Struct([]string{"Name"}, []*spec.Value{spec.String("Boss")}))}))
	dp := (&spec.Data{}).Add("user", user).Add("n", spec.Ptr(spec.Ptr(spec.IntOf(spec.TInt, 5)))).Add("m", spec.Map(spec.T(spec.TAny), []string{"p"}, []*spec.Value{spec.Any(spec.Ptr(spec.Float64(1.5)))}))
	// outputs of tens of kilobytes (a loop over 600 long strings, through the layout, the component and
	// the plain page), with data of their own: whatever a render keeps for big outputs is not shared
	long := func(tag string, n int) *spec.Data {
		items := make([]*spec.Value, n)
		for i := range items {
			items[i] = spec.String(fmt.Sprintf("%s-item-%04d-abcdefghijklmnopqrstuvwxyz", tag, i))
		}
		return (&spec.Data{}).Add("name", spec.String(tag+" "+strings.Repeat("n", 40))).Add("items", spec.Slice(spec.T(spec.TString), items...)).Add("flag", spec.Bool(true))
	}
	big1, big2 := long("first", 600), long("second", 450)
	base = append(append([]histOp{}, base...),
		histOp{Kind: "string", Name: "home", Data: big1}, histOp{Kind: "string", Name: "home", Data: big2}, histOp{Kind: "string", Name: "greet", Data: big1},
		histOp{Kind: "response", Name: "greet", Data: big2}, histOp{Kind: "string", Name: "dumps", Data: big2}, histOp{Kind: "response", Name: "home", Data: big1})
	return append(append([]histOp{}, base...),
		histOp{Kind: "evalstring", Src: "{{ name.shout() }} {{ 21.double() }} @each(i in items){{ i }}@end", Data: d},
		histOp{Kind: "string", Name: "plain", Data: d},
		histOp{Kind: "response", Name: "failing2", Data: d},
		histOp{Kind: "evalstring", Src: "{{ {z: 1, a: [1, 2].reverse()} }}@dump(items)", Data: d},
		// built-ins whose implementation could share state between calls (random source, buffers); results made order-independent
		histOp{Kind: "evalstring", Src: "{{ items.shuffle().len() }} {{ [1, 2, 3, 4, 5].shuffle().contains(3) }} {{ items.contains(items.rand()) }} {{ [7, 8, 9].shuffle().shuffle().len() }}", Data: d},
		histOp{Kind: "evalstring", Src: "{{ name.upper().lower().capitalize().reverse().repeat(3).truncate(5, '..') }} {{ 'a,b,c'.split(',').reverse().append('d').prepend('z').slice(1, 4) }} {{ 3.5.ceil() + 2.2.floor() + 7.abs() }} {{ 12.decimal() }} {{ '  x '.trim().len() }} {{ items.len() + name.first().len() }} {{ true.then('y', 'n') }}", Data: d},
		histOp{Kind: "evalstring", Src: "{{ user.name }} {{ user.boss.name }} @each(t in user.tags){{ t }}@end {{ n + 1 }} {{ m.p }}", Data: dp},
		histOp{Kind: "string", Name: "plain", Data: dp}, histOp{Kind: "response", Name: "failing", Data: dp},
		// renders that fail half-way through a construct that has set something up - when the variable of a loop is bound
		// (elements of two kinds, a name that is visible with another kind, the reserved name), in a later pass, in a
		// component argument, in a slot body - next to loops that succeed: a failing call returns what it returns alone
		// and leaves nothing behind for the calls that overlap or follow it
		histOp{Kind: "evalstring", Src: "@each(it in mixed)<{{ it }}>@end", Data: (&spec.Data{}).Add("mixed", spec.Slice(spec.T(spec.TAny), spec.Any(spec.String("one")), spec.Any(spec.IntOf(spec.TInt, 2)), spec.Any(spec.String("three"))))},
		histOp{Kind: "evalstring", Src: "@each(name in items)<{{ name }}>@end", Data: d}, histOp{Kind: "evalstring", Src: "@each(loop in items)<{{ loop }}>@end", Data: d},
		histOp{Kind: "string", Name: "home", Data: specData(map[string]any{"name": "Mix", "flag": true}).Add("items", spec.Slice(spec.T(spec.TAny), spec.Any(spec.IntOf(spec.TInt, 1)), spec.Any(spec.String("x"))))},
		histOp{Kind: "evalstring", Src: "@each(a in items)@each(b in [1, 'x'])[{{ a }}{{ b }}]@end@end", Data: d}, histOp{Kind: "evalstring", Src: "@for(i = 0; i < 3; i = 'x')<{{ i }}>@end", Data: d},
		histOp{Kind: "evalstring", Src: "@each(i in items)<{{ i }}>@end|@each(i in items)[{{ i * 2 }}]@end|@each(a in items)@each(b in items){{ a * b }},@end@end", Data: d},
		histOp{Kind: "string", Name: "inloop", Data: d}, histOp{Kind: "string", Name: "greet", Data: d},
		// @dump of a value nested deeper than anything dumped in this process before (see c15Run)
		histOp{Kind: "deep-dump"}, histOp{Kind: "deep-dump"},
		histOp{Kind: "string", Name: "missing/one", Data: d}, histOp{Kind: "response", Name: "missing/two", Data: d}, histOp{Kind: "string", Name: "missing/three", Data: nil},
		histOp{Kind: "response", Name: "missing/four", Data: nil}, histOp{Kind: "string", Name: "layouts/main", Data: d},
	)
}

var c15DeepDumps int64

type deepDump struct {
	depth int
	got   string
	g, k  int
}

// c15DeepDump dumps a map nested depth levels deep through the string API.
func c15DeepDump(depth int) string {
	var v any = "leaf"
	for i := 0; i < depth; i++ {
		if i%2 == 0 {
			v = map[string]any{"k": v}
		} else {
			v = []any{v}
		}
	}
	out, err := textwire.EvaluateString("<h1>{{ title }}</h1>@dump(x)", map[string]any{"title": depth, "x": v})
	if err != nil {
		return "error: " + err.Error()
	}
	return out
}

func c15Run(p concPlan) string {
	trees := c16Trees()
	cs := trees[p.Config%len(trees)]
	cs.Ops = c15Ops(cs.Ops)
	old := runtime.GOMAXPROCS(p.Procs)
	defer runtime.GOMAXPROCS(old)
	// sequential baseline on a load of its own, so that the concurrent phase
	// starts from a freshly loaded Template (nothing warmed up by the baseline)
	h0, herr := c15Setup(cs)
	if herr != "" {
		return herr
	}
	base := make([]string, len(cs.Ops))
	for i, op := range cs.Ops {
		base[i] = h0.exec(op)
	}
	h, herr := c15Setup(cs)
	if herr != "" {
		return herr
	}
	reps := p.Repeat
	if reps < 1 {
		reps = 1
	}
	for rep := 0; rep < reps; rep++ {
		var wg sync.WaitGroup
		var mu sync.Mutex
		var deep []deepDump
		failure := ""
		start := make(chan struct{})
		for g, ops := range p.Goroutines {
			wg.Add(1)
			go func(g int, ops []int) {
				defer wg.Done()
				<-start
				for k, oi := range ops {
					if len(p.Yield) > 0 && p.Yield[(g+k)%len(p.Yield)]%3 == 0 {
						runtime.Gosched()
					}
					oi %= len(cs.Ops)
					op := cs.Ops[oi]
					if op.Kind == "deep-dump" {
						// the first calls of a process to dump a value of this depth happen here, several at
						// once; what each must give is computed after the goroutines are done
						depth := 20
						if n := atomic.AddInt64(&c15DeepDumps, 1); n <= 150 {
							depth = 16 + int(n)
						}
						var got string
						if pi := harness.Safe(func() { got = c15DeepDump(depth) }); pi != nil {
							got = "panic: " + pi.Value
						}
						mu.Lock()
						deep = append(deep, deepDump{depth, got, g, k})
						mu.Unlock()
						continue
					}
					if op.Kind == "evalstring" && (g+k+rep)%2 == 0 {
						// a source text no call has evaluated before (the comment renders to nothing)
						op.Src = fmt.Sprintf("{{-- %d.%d.%d --}}", rep, g, k) + op.Src
					}
					var got string
					if pi := harness.Safe(func() { got = h.exec(op) }); pi != nil {
						got = "panic: " + pi.Value
					}
					if got != base[oi] {
						mu.Lock()
						if failure == "" {
							failure = fmt.Sprintf("goroutine %d, call %d %s: result differs from the same call run alone: %s", g, k, cs.Ops[oi], diffAt(base[oi], got))
						}
						mu.Unlock()
						return
					}
				}
			}(g, ops)
		}
		close(start)
		wg.Wait()
		if failure != "" {
			return failure
		}
		for _, dd := range deep {
			if alone := c15DeepDump(dd.depth); alone != dd.got {
				return fmt.Sprintf("goroutine %d, call %d @dump of a value nested %d deep: result differs from the same call run alone: %s", dd.g, dd.k, dd.depth, diffAt(alone, dd.got))
			}
		}
		deep = nil
	}
	return ""
}

func c15NonTrivial(p concPlan, nOps int) bool {
	if len(p.Goroutines) < 2 {
		return false
	}
	trees := c16Trees()
	ops := c15Ops(trees[0].Ops)
	failing, eval := -1, -1
	for g, list := range p.Goroutines {
		for _, oi := range list {
			op := ops[oi%len(ops)]
			f := strings.Contains(op.Name, "failing") || op.Name == "inloop" || op.Name == "nosuch" || strings.HasPrefix(op.Name, "missing/")
			if f && (op.Kind == "response" || op.Kind == "string") && failing < 0 {
				failing = g
			}
			if (op.Kind == "evalstring" || op.Kind == "evalfile") && eval < 0 && g != failing {
				eval = g
			}
		}
	}
	return failing >= 0 && eval >= 0
}

func TestC15_Plans(t *testing.T) {
	c := harness.New(t, "C15", "plans",
		"concurrency plans: G in 2..16 goroutines, each a list of 5..40 operations from {String ok / failing / not found, Response ok / failing (built-in and custom error page, debug on/off), EvaluateString ok / failing (with registered custom functions), EvaluateFile} over a loaded directory with layout, component, loops and objects, each with its own data map (small, with pointers, and two with 600 / 450 long strings whose pages render to tens of kilobytes); every other EvaluateString call evaluates a source text no call has seen before (a unique leading comment); @dump of values nested deeper (17..166 levels) than anything the process has dumped before, compared afterwards with the same call alone; GOMAXPROCS in {2, 4, 16}; runtime.Gosched() noise at generated points; each plan repeated. Built with the race detector (GORACE=halt_on_error=1): any reported race ends the run and is reported with the plan; every call's result must equal the result of the same call run alone beforehand. Plans are drawn deterministically from the seed (rapid generators, Example-style) because a schedule-dependent failure cannot be shrunk. Non-trivial: >= 2 goroutines of which one performs a failing Response/String and another an EvaluateString/EvaluateFile. Distinct by hash of the plan.")
	defer c.Finish()
	nOps := len(c15Ops(c16Trees()[0].Ops))
	gen := rapid.Custom(func(rt *rapid.T) concPlan {
		p := concPlan{Config: rapid.IntRange(0, 5).Draw(rt, "config"), Procs: rapid.SampledFrom([]int{2, 4, 16}).Draw(rt, "procs"), Repeat: rapid.IntRange(2, 5).Draw(rt, "repeat")}
		g := rapid.IntRange(2, 16).Draw(rt, "goroutines")
		for i := 0; i < g; i++ {
			p.Goroutines = append(p.Goroutines, rapid.SliceOfN(rapid.IntRange(0, nOps-1), 5, 40).Draw(rt, "ops"))
		}
		p.Yield = rapid.SliceOfN(rapid.IntRange(0, 5), 1, 8).Draw(rt, "yield")
		return p
	})
	n := harness.Pick(60, 400)
	seed := int(harness.Cfg().Seed % 1000003)
	for i := 0; i < n; i++ {
		p := gen.Example(seed*1000 + i)
		payload := mustJSON(p)
		nt := c15NonTrivial(p, nOps)
		c.Case(nt, payload, fmt.Sprintf("procs:%d", p.Procs), fmt.Sprintf("goroutines:%d", len(p.Goroutines)/4*4))
		if nt && i%10 == 0 {
			c.Sample(p)
		}
		var f string
		if pi := c.Guard("json", payload, func() { f = c15Run(p) }); pi != nil {
			f = "panic: " + pi.Value
		}
		if strings.HasPrefix(f, "harness:") {
			c.Class(firstWords(f, 5))
			continue
		}
		if f != "" {
			c.Fail(t, kindOf(f), p, "results equal to the sequential baseline, no data race", f, f)
		}
	}
	textwire.VerifReset()
}
