package checks

import (
	"encoding/json"
	"fmt"
	"net/http/httptest"
	"os"
	"os/exec"
	"path/filepath"
	"reflect"
	"strings"
	"sync"
	"testing"

	textwire "github.com/textwire/textwire/v2"
	"github.com/textwire/textwire/v2/config"
	"pgregory.net/rapid"
	"verif/lib/harness"
	"verif/lib/spec"
	"verif/lib/tree"
)

// C16 — a render depends only on its arguments, not on earlier calls.

// histOp is one operation of a history.
type histOp struct {
	Kind string     `json:"kind"` // string | response | evalstring | evalfile
	Name string     `json:"name,omitempty"`
	Src  string     `json:"src,omitempty"`
	Data *spec.Data `json:"data,omitempty"`
}

func (o histOp) String() string {
	switch o.Kind {
	case "evalstring":
		return fmt.Sprintf("EvaluateString(%q)", o.Src)
	case "evalfile":
		return fmt.Sprintf("EvaluateFile(%q)", o.Name)
	}
	return fmt.Sprintf("%s(%q)", o.Kind, o.Name)
}

type histCase struct {
	Files     map[string]string `json:"files"`
	ErrorPage string            `json:"error_page,omitempty"`
	Debug     bool              `json:"debug,omitempty"`
	Ops       []histOp          `json:"ops"` // the alphabet of operation instances
	History   []int             `json:"history"`
}

func init() {
	for _, n := range []string{"histories-enum", "histories-random"} {
		harness.RegisterReplayer("C16/"+n, func(raw json.RawMessage) string {
			cs, err := unJSON[histCase](raw)
			if err != nil {
				return "bad case: " + err.Error()
			}
			c := harness.New(nopTB{}, "C16", "replay", "")
			if f := c16Run(c, cs); !strings.HasPrefix(f, "harness:") {
				return f
			}
			return ""
		})
	}
}

// histEnv is a loaded tree.
type histEnv struct {
	root string
	tpl  *textwire.Template
	cs   histCase
}

func c16Load(cs histCase) (*histEnv, string) {
	tr := tree.Tree{}
	for n, src := range cs.Files {
		tr["t/"+n+".tw"] = tree.Entry{Content: src}
	}
	root, err := tree.Materialise(tr)
	if err != nil {
		return nil, "harness: " + err.Error()
	}
	textwire.VerifReset()
	tpl, lerr := textwire.NewTemplate(&config.Config{TemplateDir: "t", TemplateExt: ".tw", ErrorPagePath: cs.ErrorPage, DebugMode: cs.Debug})
	if lerr != nil {
		return nil, "harness: tree does not load: " + lerr.Error()
	}
	return &histEnv{root: root, tpl: tpl, cs: cs}, ""
}

// exec runs one operation and returns everything observable as a string.
// execWith issues the operation with the given Go data (the caller's own objects).
func (h *histEnv) execWith(op histOp, data map[string]any) string {
	var res string
	switch op.Kind {
	case "string":
		out, ferr := h.tpl.String(op.Name, data)
		res = "out=" + out
		if ferr != nil {
			res += fmt.Sprintf("\nerr=%s line=%d path=%s", ferr.Message(), ferr.Line(), ferr.Filepath())
		}
	case "response":
		w := httptest.NewRecorder()
		err := h.tpl.Response(w, op.Name, data)
		res = "body=" + w.Body.String()
		if err != nil {
			res += "\nerr=" + err.Error()
		}
	case "evalstring":
		out, err := textwire.EvaluateString(op.Src, data)
		res = "out=" + out
		if err != nil {
			res += "\nerr=" + err.Error()
		}
	case "evalfile":
		out, err := textwire.EvaluateFile(filepath.Join(h.root, "t", op.Name+".tw"), data)
		res = "out=" + out
		if err != nil {
			res += "\nerr=" + err.Error()
		}
	}
	return strings.ReplaceAll(res, h.root, "<root>")
}

func (h *histEnv) exec(op histOp) string {
	data := op.Data.GoMap()
	before := op.Data.GoMap()
	var res string
	switch op.Kind {
	case "string":
		out, ferr := h.tpl.String(op.Name, data)
		res = "out=" + out
		if ferr != nil {
			res += fmt.Sprintf("\nerr=%s line=%d path=%s", ferr.Message(), ferr.Line(), ferr.Filepath())
		}
	case "response":
		w := httptest.NewRecorder()
		err := h.tpl.Response(w, op.Name, data)
		res = "body=" + w.Body.String()
		if err != nil {
			res += "\nerr=" + err.Error()
		}
	case "evalstring":
		out, err := textwire.EvaluateString(op.Src, data)
		res = "out=" + out
		if err != nil {
			res += "\nerr=" + err.Error()
		}
	case "evalfile":
		out, err := textwire.EvaluateFile(filepath.Join(h.root, "t", op.Name+".tw"), data)
		res = "out=" + out
		if err != nil {
			res += "\nerr=" + err.Error()
		}
	}
	// (channels and functions in the data of the unsupported-kind operations are not comparable)
	if _, comparable := op.Data.Model(); comparable && !reflect.DeepEqual(data, before) {
		res += "\nDATA-MODIFIED"
	}
	return strings.ReplaceAll(res, h.root, "<root>")
}

// baselines are cached per (tree, configuration, operations).
var c16BaseCache = map[uint64][]string{}

// c16FreshBaselines issues every operation first in a process of its own (the
// test binary re-executes itself): nothing an earlier call may have left behind
// anywhere in the process can be in the baseline. ok is false when the probe
// processes cannot be run.
func c16FreshBaselines(cs histCase) ([]string, bool) {
	exe, err := os.Executable()
	if err != nil || os.Getenv("VERIF_PROBE_CASE") != "" {
		return nil, false
	}
	dir, err := os.MkdirTemp("", "verif-c16-")
	if err != nil {
		return nil, false
	}
	defer os.RemoveAll(dir)
	file := filepath.Join(dir, "case.json")
	cs.History = nil
	if os.WriteFile(file, []byte(mustJSON(cs)), 0o644) != nil {
		return nil, false
	}
	base := make([]string, len(cs.Ops))
	okAll := true
	var wg sync.WaitGroup
	var mu sync.Mutex
	sem := make(chan struct{}, 8)
	for i := range cs.Ops {
		wg.Add(1)
		go func(i int) {
			defer wg.Done()
			sem <- struct{}{}
			defer func() { <-sem }()
			cmd := exec.Command(exe, "-test.run", "^TestC16_Probe$", "-test.v")
			cmd.Env = append(os.Environ(), "VERIF_PROBE_CASE="+file, fmt.Sprintf("VERIF_PROBE_OP=%d", i), "VERIF_OUT=", "VERIF_CORPUS=", "VERIF_NO_WATCHDOG=1")
			out, err := cmd.CombinedOutput()
			s := string(out)
			a, b := strings.Index(s, "PROBE-OUTCOME-BEGIN\n"), strings.Index(s, "\nPROBE-OUTCOME-END")
			mu.Lock()
			defer mu.Unlock()
			if err != nil || a < 0 || b < 0 {
				okAll = false
				return
			}
			base[i] = s[a+len("PROBE-OUTCOME-BEGIN\n") : b]
		}(i)
	}
	wg.Wait()
	return base, okAll
}

// TestC16_Probe is the child-process side of c16FreshBaselines.
func TestC16_Probe(t *testing.T) {
	path := os.Getenv("VERIF_PROBE_CASE")
	if path == "" || os.Getenv("VERIF_PROBE_OP") == "" {
		t.Skip("not a probe process")
	}
	b, err := os.ReadFile(path)
	if err != nil {
		t.Fatal(err)
	}
	cs, err := unJSON[histCase](b)
	if err != nil {
		t.Fatal(err)
	}
	var i int
	fmt.Sscan(os.Getenv("VERIF_PROBE_OP"), &i)
	h, herr := c16Load(cs)
	if herr != "" {
		t.Fatal(herr)
	}
	fmt.Printf("PROBE-OUTCOME-BEGIN\n%s\nPROBE-OUTCOME-END\n", h.exec(cs.Ops[i]))
}

func c16Run(c *harness.Check, cs histCase) string {
	var failure string
	// baselines: each operation issued first in a fresh state (a fresh process; a
	// fresh load in this process only when probe processes cannot be started)
	keyCase := cs
	keyCase.History = nil
	key := harness.Hash(mustJSON(keyCase))
	base, cached := c16BaseCache[key]
	if !cached {
		var ok bool
		if base, ok = c16FreshBaselines(cs); !ok {
			c.Note("probe processes unavailable: baselines taken after a fresh load in this process")
			base = nil
		}
	}
	pi := c.Guard("json", mustJSON(cs), func() {
		if base == nil {
			base = make([]string, len(cs.Ops))
			for i, op := range cs.Ops {
				h, herr := c16Load(cs)
				if herr != "" {
					failure = herr
					return
				}
				base[i] = h.exec(op)
			}
		}
		c16BaseCache[key] = base
		h, herr := c16Load(cs)
		if herr != "" {
			failure = herr
			return
		}
		state0 := textwire.VerifState()
		for step, oi := range cs.History {
			got := h.exec(cs.Ops[oi])
			if got != base[oi] {
				failure = fmt.Sprintf("step %d %s: result differs from the same call issued first in a fresh state (a) after history %v (b): %s", step+1, cs.Ops[oi], cs.History[:step], diffAt(base[oi], got))
				return
			}
			if strings.Contains(got, "DATA-MODIFIED") {
				failure = fmt.Sprintf("step %d %s modified the caller's data", step+1, cs.Ops[oi])
				return
			}
		}
		// afterwards: every operation still gives its baseline, configuration unchanged
		for i, op := range cs.Ops {
			if got := h.exec(op); got != base[i] {
				failure = fmt.Sprintf("after history %v, %s differs from its fresh-state result (a = fresh, b = now): %s", cs.History, op, diffAt(base[i], got))
				return
			}
		}
		if st := textwire.VerifState(); !reflect.DeepEqual(st, state0) {
			failure = fmt.Sprintf("configuration changed by rendering: %+v -> %+v", state0, st)
		}
	})
	if pi != nil {
		return "panic: " + pi.Value
	}
	return failure
}

// c16Trees: the fixed template directories the histories run on.
func c16Trees() []histCase {
	d := specData(map[string]any{"name": "N", "items": []int{1, 2}, "flag": true})
	files := map[string]string{
		"layouts/main": "<html>@reserve(\"title\")|@reserve(\"body\")</html>",
		"comp":         "<c>{{ label }}@slot</c>",
		"home":         "@use(\"~main\")@insert(\"title\", name)@insert(\"body\")@each(i in items)[{{ i }}]@end@component(\"comp\", {label: name})\n@slot s@end\n@end;@end",
		"plain":        "plain {{ name }} {{ {b: 2, a: 1} }} {{ \"Tom & <Jerry> &amp; 'co'\" }}@each(i in items)[{{ \"<i>\" }}]@end{{ \"a&b\".raw() }}",
		"failing":      "before\n\n{{ name + 1 }}",
		"failing2":     "line1\n@if(flag)\n{{ missing.prop }}\n@end",
		"inloop":       "@each(i in items)<{{ i }}>@if(i == 2){{ 1 / 0 }}@end@end",
		"errpage":      "<h1>custom error page</h1>",
		// pages that bind names at template level, and pages that would see them if a
		// render left anything behind (the second fails alone, the third binds another type)
		"setsT":    "{{ t0 = \"Home\" }}<h1>{{ t0 }}</h1>{{ cnt = 1 }}{{ cnt }}",
		"readsT":   "<h1>{{ t0 }}</h1>",
		"retypesT": "{{ t0 = 3 }}<b>{{ t0 + 1 }}</b>{{ cnt = \"one\" }}",
	}
	empty := &spec.Data{}
	// two different struct types with the same printed name: what a render makes of one
	// must not depend on the other having been rendered before
	pa := (&spec.Data{}).Add("p", &spec.Value{T: spec.FixedType("PersonA"), Items: []*spec.Value{spec.String("Ann"), spec.IntOf(spec.TInt, 31)}})
	pb := (&spec.Data{}).Add("p", &spec.Value{T: spec.FixedType("PersonB"), Items: []*spec.Value{spec.IntOf(spec.TInt, 44), spec.String("Bob"), spec.String("bob@x")}})
	files["person"] = "<p>{{ p.name }} {{ p.age }} {{ p }}</p>"
	// a component that takes nothing still shows the data of the render that uses it
	files["dumps"] = "<d>@dump(items)</d>@dump(name, flag)"
	// chains of every length 0..9 (what a render does with a parsed chain must not depend on its length)
	chain := ""
	for n := 0; n <= 9; n++ {
		chain += "@if(false)never"
		for k := 0; k < n; k++ {
			chain += fmt.Sprintf("@elseif(name == \"no%d\")no", k)
		}
		chain += fmt.Sprintf("@else[e%d:{{ name }}]@end", n)
	}
	files["chains"] = chain + "@each(i in items)@if(i == 99)x@elseif(i == 98)y@elseif(i == 97)z@elseif(i == 96)w@else({{ i }})@end@end"
	files["hello"] = "Hello, {{ name }}!"
	files["greet"] = "<h1>@component(\"hello\");</h1>@each(i in items)@component(\"hello\");@end"
	// literals whose entries are written in their short forms - {name} for {name: name}, a trailing comma, quoted keys,
	// one-element arrays of a variable: what they hold is the data of the render at hand
	files["shorthand"] = "{{ o = {name, flag, n: 3}; o.name }}|{{ {name}.name }}|{{ {items}.items.len() }}|@each(i in items){{ {i}.i }},@end|{{ [name] }}|{{ {a: {name}}.a.name }}|{{ {\"name\": name, }.name }}|{{ {flag,}.flag ? 'y' : 'n' }}"
	d2 := specData(map[string]any{"name": "Other", "items": []int{7}, "flag": false})
	ops := []histOp{
		// a built-in called with and without its optional argument, and names spelled with slashes around them (not the registered
		// names: not found, whatever was rendered before)
		{Kind: "evalstring", Src: "{{ '/a/b/'.trim('/') }}|{{ '--x'.trimLeft('-') }}|{{ 'y..'.trimRight('.') }}|{{ 'abcdef'.truncate(2, '~') }}|{{ [1, 2].join('+') }}|{{ 5.decimal(',', 1) }}", Data: nil},
		{Kind: "evalstring", Src: "{{ '  p  '.trim() }}|{{ ' \t q'.trimLeft() }}|{{ 'r \n'.trimRight() }}|{{ 'abcdef'.truncate(2) }}|{{ [1, 2].join() }}|{{ 5.decimal() }}", Data: nil},
		{Kind: "string", Name: "/home", Data: d}, {Kind: "string", Name: "home/", Data: d}, {Kind: "response", Name: "/plain", Data: d}, {Kind: "string", Name: "plain/", Data: d2},
		{Kind: "string", Name: "shorthand", Data: d}, {Kind: "string", Name: "shorthand", Data: d2}, {Kind: "response", Name: "shorthand", Data: d}, {Kind: "evalfile", Name: "shorthand", Data: d2},
		{Kind: "string", Name: "home", Data: d}, {Kind: "string", Name: "plain", Data: d}, {Kind: "string", Name: "failing", Data: d},
		{Kind: "string", Name: "failing2", Data: d}, {Kind: "string", Name: "nosuch", Data: d}, {Kind: "response", Name: "home", Data: d},
		{Kind: "response", Name: "failing", Data: d}, {Kind: "response", Name: "inloop", Data: d}, {Kind: "response", Name: "nosuch", Data: nil},
		{Kind: "evalstring", Src: "{{ 1 + 2 }} {{ name }}", Data: d}, {Kind: "evalstring", Src: "{{ nope }}", Data: nil},
		{Kind: "evalfile", Name: "plain", Data: d}, {Kind: "evalfile", Name: "failing", Data: d}, {Kind: "string", Name: "home", Data: nil},
		{Kind: "string", Name: "setsT", Data: nil}, {Kind: "string", Name: "readsT", Data: nil}, {Kind: "string", Name: "retypesT", Data: nil},
		{Kind: "response", Name: "setsT", Data: empty}, {Kind: "response", Name: "readsT", Data: empty}, {Kind: "string", Name: "setsT", Data: d},
		{Kind: "evalfile", Name: "setsT", Data: nil}, {Kind: "evalstring", Src: "{{ t0 }}", Data: nil},
		{Kind: "string", Name: "chains", Data: d}, {Kind: "response", Name: "chains", Data: d2},
		{Kind: "string", Name: "dumps", Data: d}, {Kind: "evalstring", Src: "@dump(items)@dump({a: 1})", Data: d}, {Kind: "response", Name: "dumps", Data: d2},
		{Kind: "string", Name: "greet", Data: d}, {Kind: "string", Name: "greet", Data: d2}, {Kind: "response", Name: "greet", Data: nil},
		{Kind: "string", Name: "person", Data: pa}, {Kind: "string", Name: "person", Data: pb}, {Kind: "evalstring", Src: "{{ p.email }}/{{ p.Age }}", Data: pb},
	}
	// data the library cannot take, of several kinds (the call fails; what the message names is that call's own value)
	withBad := func(v *spec.Value) *spec.Data {
		return specData(map[string]any{"name": "N", "items": []int{1, 2}, "flag": true}).Add("zbad", v)
	}
	ops = append(ops,
		histOp{Kind: "string", Name: "plain", Data: withBad(spec.Unsupported(spec.TChan))},
		histOp{Kind: "evalstring", Src: "{{ 1 }}", Data: withBad(spec.Unsupported(spec.TFunc))},
		histOp{Kind: "string", Name: "plain", Data: withBad(spec.Unsupported(spec.TIntMap))},
		histOp{Kind: "response", Name: "plain", Data: withBad(spec.Slice(spec.T(spec.TAny), spec.Any(spec.Unsupported(spec.TBoolMap))))},
		histOp{Kind: "evalfile", Name: "plain", Data: withBad(spec.Struct([]string{"Inner"}, []*spec.Value{spec.Unsupported(spec.TComplex)}))},
		histOp{Kind: "evalstring", Src: "{{ name }}", Data: withBad(spec.Map(spec.T(spec.TAny), []string{"k"}, []*spec.Value{spec.Any(spec.Unsupported(spec.TIntMap))}))},
	)
	// the same page given a struct, then maps whose keys are spelled like the template says, like the
	// struct's field, or both ways: every call looks the name up in its own data
	pm := (&spec.Data{}).Add("p", spec.Map(spec.T(spec.TAny), []string{"name", "age"}, []*spec.Value{spec.Any(spec.String("Mia")), spec.Any(spec.IntOf(spec.TInt, 7))}))
	pn := (&spec.Data{}).Add("p", spec.Map(spec.T(spec.TAny), []string{"name", "Name", "age", "Age"}, []*spec.Value{spec.Any(spec.String("lower")), spec.Any(spec.String("UPPER")), spec.Any(spec.IntOf(spec.TInt, 1)), spec.Any(spec.IntOf(spec.TInt, 2))}))
	ops = append(ops, histOp{Kind: "string", Name: "person", Data: pm}, histOp{Kind: "string", Name: "person", Data: pn})
	// numbers that are equal but not the same (zero and negative zero, as float64 and float32): each prints as itself
	zsrc := "{{ z }}|{{ z * 1.0 }}|{{ [z] }}|@dump(z)"
	ops = append(ops, histOp{Kind: "evalstring", Src: zsrc, Data: (&spec.Data{}).Add("z", spec.Float64(0))},
		histOp{Kind: "evalstring", Src: zsrc, Data: (&spec.Data{}).Add("z", spec.Float64(negZero()))},
		histOp{Kind: "evalstring", Src: zsrc, Data: (&spec.Data{}).Add("z", spec.Float32(float32(negZero())))})
	return []histCase{
		{Files: files, Ops: ops},
		{Files: files, Ops: ops, Debug: true},
		{Files: files, Ops: ops, ErrorPage: "errpage"},
		{Files: files, Ops: ops, ErrorPage: "errpage", Debug: true},
		{Files: files, Ops: ops, ErrorPage: "nosucherrpage"},
		{Files: files, Ops: ops, ErrorPage: "failing"},
	}
}

func c16NonTrivial(cs histCase) bool {
	// a failing render or failing Response after a string/file evaluation or an error page
	seenEval := false
	for _, oi := range cs.History {
		op := cs.Ops[oi]
		failing := strings.Contains(op.Name, "failing") || op.Name == "inloop" || op.Name == "nosuch" || op.Name == "readsT"
		if seenEval && failing && (op.Kind == "string" || op.Kind == "response") {
			return true
		}
		if op.Kind == "evalstring" || op.Kind == "evalfile" || (op.Kind == "response" && failing) {
			seenEval = true
		}
	}
	return false
}

func TestC16_HistoriesEnum(t *testing.T) {
	maxLen := harness.Pick(2, 3)
	c := harness.New(t, "C16", "histories-enum",
		fmt.Sprintf("every history of length <= %d (2 quick, 3 thorough) over 44 operation instances {String, Response, EvaluateString, EvaluateFile} x {succeeding, failing at run time, not found, given data of an unsupported kind (channel, function, complex number, maps with integer / boolean keys; top level and nested)} on a template directory with layout, component, loops and objects, under up to 6 configurations (debug on/off x no / working / missing / failing custom error page). Each operation's result (output, or error message + line + path, Response body + returned error) must equal the result of the same operation issued first after a fresh load; afterwards all operations still give their baselines, the configuration is unchanged and the caller's data is deep-equal to a copy. Non-trivial: a failing render or failing Response after a string/file evaluation or an error page. Distinct by construction.", maxLen))
	defer c.Finish()
	trees := c16Trees()
	ntrees := len(trees)
	idx := 0
	for ti, base := range trees[:ntrees] {
		n := len(base.Ops)
		var rec func(hist []int)
		rec = func(hist []int) {
			if len(hist) > 0 {
				idx++
				if harness.Mine(idx) {
					cs := base
					cs.History = append([]int{}, hist...)
					nt := c16NonTrivial(cs)
					c.CaseEnum(nt, fmt.Sprintf("config:%d", ti), fmt.Sprintf("len:%d", len(hist)))
					if nt && idx%211 == 0 {
						var names []string
						for _, oi := range hist {
							names = append(names, cs.Ops[oi].String())
						}
						c.Sample(map[string]any{"config": ti, "history": names})
					}
					if f := c16Run(c, cs); strings.HasPrefix(f, "harness:") {
						c.Class(firstWords(f, 5))
					} else if f != "" {
						c.Fail(t, kindOf(f), cs, "results equal to fresh-state baselines", f, f)
					}
				}
			}
			if len(hist) == maxLen {
				return
			}
			for i := 0; i < n; i++ {
				rec(append(hist, i))
			}
		}
		rec(nil)
	}
	c.ExhaustivePart(fmt.Sprintf("all histories of length <= %d over 44 operations x %d configurations", maxLen, ntrees))
}

func TestC16_HistoriesRandom(t *testing.T) {
	c := harness.New(t, "C16", "histories-random",
		"random histories of length 4..40 over the same operation instances and configurations; same oracle. Non-trivial: as above. Distinct by hash.")
	defer c.Finish()
	trees := c16Trees()
	runRapid(t, c, 150, 2400, func(rt *rapid.T) {
		cs := trees[rapid.IntRange(0, len(trees)-1).Draw(rt, "config")]
		cs.History = rapid.SliceOfN(rapid.IntRange(0, len(cs.Ops)-1), 4, 40).Draw(rt, "history")
		nt := c16NonTrivial(cs)
		c.Case(nt, mustJSON(cs.History)+cs.ErrorPage+fmt.Sprint(cs.Debug), fmt.Sprintf("len:%d", len(cs.History)/10*10))
		if nt {
			var names []string
			for _, oi := range cs.History {
				names = append(names, cs.Ops[oi].String())
			}
			c.Sample(map[string]any{"error_page": cs.ErrorPage, "debug": cs.Debug, "history": names})
		}
		if f := c16Run(c, cs); strings.HasPrefix(f, "harness:") {
			c.Class(firstWords(f, 5))
		} else if f != "" {
			c.Fail(rt, kindOf(f), cs, "results equal to fresh-state baselines", f, f)
		}
	})
}
