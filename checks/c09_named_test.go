package checks

import (
	"encoding/json"
	"fmt"
	"io/fs"
	"reflect"
	"testing"
	"time"

	"verif/lib/harness"
)

// C09/named-types: Go values whose types are defined types (type Port uint16,
// time.Duration, fs.FileMode, type Name string ...) at any place of the data.
// Whether such a value is taken by its underlying kind or refused is not
// settled by any statement; that the call returns - output or an error, never a
// panic - is.

type namedCase struct {
	Value int    `json:"value"`
	Place string `json:"place"`
	Tmpl  string `json:"tmpl"`
}

type (
	c09Port    uint16
	c09Count   uint
	c09Huge     uint64
	c09Tiny    uint8
	c09Celsius float64
	c09Ratio   float32
	c09Name    string
	c09Flag    bool
	c09Level   int8
	c09ID      int64
	c09Ints    []int
	c09Dict    map[string]int
	c09Fn      func()
	c09Ptr     *int
	c09Any     interface{}
	c09Pair    [2]int
	c09Handle  uintptr
)

func c09NamedValues() []any {
	one := 1
	return []any{c09Port(8080), c09Count(3), c09Huge(1 << 63), c09Tiny(255), c09Celsius(36.6), c09Ratio(0.5), c09Name("n"), c09Flag(true), c09Level(-3), c09ID(1 << 40),
		c09Ints{1, 2}, c09Dict{"a": 1}, c09Fn(nil), c09Ptr(&one), c09Ptr(nil), c09Any(5), c09Pair{1, 2}, c09Handle(7), time.Duration(1500), time.Month(3), time.Saturday, fs.FileMode(0o644), reflect.Uint8,
		struct{ P c09Port }{80}, struct{ M fs.FileMode }{0o755}, []c09Port{1, 2}, map[string]c09Count{"k": 2}, []time.Duration{1, 2}, &struct{ D time.Duration }{5}}
}

func c09Named(c *harness.Check, cs namedCase) string {
	vals := c09NamedValues()
	if cs.Value < 0 || cs.Value >= len(vals) {
		return "bad case"
	}
	v := vals[cs.Value]
	var data map[string]any
	switch cs.Place {
	case "top":
		data = map[string]any{"x": v}
	case "in-slice":
		data = map[string]any{"x": []any{1, v}}
	case "in-map":
		data = map[string]any{"x": map[string]any{"k": v, "j": 1}}
	case "in-struct":
		data = map[string]any{"x": struct{ F any }{v}}
	default:
		data = map[string]any{"x": &v}
	}
	r := evalString(c, "json", mustJSON(cs), cs.Tmpl, data)
	if r.Panic != nil {
		return fmt.Sprintf("panic with data of type %T (%s): %s", v, cs.Place, r.Panic.Value)
	}
	if r.IsErr() && r.Out != "" {
		return "error together with output"
	}
	return ""
}

func init() {
	harness.RegisterReplayer("C09/named-types", func(raw json.RawMessage) string {
		cs, err := unJSON[namedCase](raw)
		if err != nil {
			return "bad case: " + err.Error()
		}
		return c09Named(harness.New(nopTB{}, "C09", "replay", ""), cs)
	})
}

func TestC09_NamedTypes(t *testing.T) {
	n := len(c09NamedValues())
	tmpls := []string{"hello", "[{{ x }}]", "@dump(x)", "{{ x ? 1 : 2 }}", "{{ x + x }}", "{{ x.len() }}", "@each(v in x){{ v }}@end", "{{ x.k }}{{ x[1] }}{{ x.f }}"}
	c := harness.New(t, "C09", "named-types",
		fmt.Sprintf("%d Go values of defined types - unsigned, signed, float, string and bool types of the program's own, slices / maps / funcs / pointers / interfaces / arrays under a defined name, time.Duration, time.Month, time.Weekday, fs.FileMode, reflect.Kind, structs / slices / maps holding them - at the top of the data, in a []any, in a map, in a struct field, behind a pointer, with %d templates that do and do not touch the value. Oracle: the call returns output or an error, never panics. Exhaustive. Non-trivial: all. Distinct by construction.", n, len(tmpls)))
	defer c.Finish()
	idx := 0
	for v := 0; v < n; v++ {
		for _, place := range []string{"top", "in-slice", "in-map", "in-struct", "behind-pointer"} {
			for _, tm := range tmpls {
				idx++
				if !harness.Mine(idx) {
					continue
				}
				cs := namedCase{Value: v, Place: place, Tmpl: tm}
				c.CaseEnum(true, "place:"+place)
				if idx%97 == 0 {
					c.Sample(cs)
				}
				if f := c09Named(c, cs); f != "" {
					c.Fail(t, kindOf(f), cs, "output or error", f, f)
				}
			}
		}
	}
	c.ExhaustivePart(fmt.Sprintf("%d values x 5 places x %d templates", n, len(tmpls)))
}
