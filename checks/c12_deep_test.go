package checks

import (
	"fmt"
	"strings"
	"testing"

	"verif/lib/harness"
	"verif/lib/spec"
)

// C12/deep-data: values made of the supported kinds are visible with the same
// structure however deeply they are nested. A leaf string sits under d levels of
// slices, maps, pointers to structs or all of them in turn; the template walks
// down to it, measures the containers on the way and prints the leaf.

func TestC12_DeepData(t *testing.T) {
	c := harness.New(t, "C12", "deep-data",
		"a leaf string under d levels of containers, d in 1..40, 63..66, 100, 127..130: []any only, map[string]any only, both in turn, and maps / pointers to structs in turn (field K reached as .k); the template walks the whole path ([0] and .k steps) and prints the leaf, and for d >= 2 also the length of the container half-way down; typed chains (a linked list of d struct nodes through a Next pointer, walked with .next d-1 times) likewise. Expected: the leaf. Exhaustive over depth x shape. Non-trivial: d >= 3. Distinct by construction.")
	defer c.Finish()
	var depths []int
	for d := 1; d <= 40; d++ {
		depths = append(depths, d)
	}
	depths = append(depths, 63, 64, 65, 66, 100, 127, 128, 129, 130)
	idx := 0
	for _, d := range depths {
		for _, shape := range []string{"arrays", "objects", "alternating", "pointers", "linked-list"} {
			idx++
			if !harness.Mine(idx) {
				continue
			}
			var data *spec.Data
			var path strings.Builder
			path.WriteString("deep")
			if shape == "linked-list" {
				// type node struct { Val string; Next *node }: here as nested anonymous structs with a pointer field
				v := spec.Struct([]string{"Val", "Next"}, []*spec.Value{spec.String("leaf"), spec.NilAny()})
				for i := d - 1; i >= 1; i-- {
					v = spec.Struct([]string{"Val", "Next"}, []*spec.Value{spec.String(fmt.Sprintf("n%d", i)), spec.Any(spec.Ptr(v))})
				}
				data = (&spec.Data{}).Add("deep", spec.Ptr(v))
				for i := 1; i < d; i++ {
					path.WriteString(".next")
				}
				path.WriteString(".val")
			} else {
				data = (&spec.Data{}).Add("deep", deepData(shape, d))
				for i := 0; i < d; i++ {
					if shape == "arrays" || shape == "alternating" && i%2 == 0 {
						path.WriteString("[0]")
					} else {
						path.WriteString(".k")
					}
				}
			}
			src := "[{{ " + path.String() + " }}]"
			cs := dataCase{Data: data, Src: src, Expect: "str", S: []byte("leaf"), Note: fmt.Sprintf("%s, depth %d", shape, d)}
			c.CaseEnum(d >= 3, "shape:"+shape)
			if idx%23 == 0 {
				c.Sample(map[string]any{"shape": shape, "depth": d, "src": clip(src, 120)})
			}
			if f := c12Run(c, cs); f != "" {
				c.Fail(t, kindOf(f), cs, "leaf", f, f)
			}
		}
	}
	c.ExhaustivePart(fmt.Sprintf("%d depths x 5 shapes", len(depths)))
}
