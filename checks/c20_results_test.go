package checks

import (
	"encoding/json"
	"fmt"
	"sort"
	"strings"
	"testing"

	textwire "github.com/textwire/textwire/v2"
	"github.com/textwire/textwire/v2/config"
	"verif/lib/harness"
	"verif/lib/tree"
)

// C20/array-results: whatever way an array function builds its result - in
// place, by appending, by reslicing, untouched - the template shows the value it
// returned, like the same Go value passed as data.

type arrFnCase struct {
	Fn   string `json:"fn"`
	Recv []any  `json:"recv"`
	Var  bool   `json:"var"`
}

var c20ArrFns = map[string]func(x []any, a ...any) []any{
	"zzInPlaceRev": func(x []any, a ...any) []any {
		for i, j := 0, len(x)-1; i < j; i, j = i+1, j-1 {
			x[i], x[j] = x[j], x[i]
		}
		return x
	},
	"zzInPlaceMark": func(x []any, a ...any) []any {
		for i := range x {
			x[i] = fmt.Sprint(x[i]) + "!"
		}
		return x
	},
	"zzInPlaceFirst": func(x []any, a ...any) []any {
		if len(x) > 0 {
			x[0] = "first"
		}
		return x
	},
	"zzSame": func(x []any, a ...any) []any { return x },
	"zzTail": func(x []any, a ...any) []any {
		if len(x) == 0 {
			return x
		}
		return x[1:]
	},
	"zzHead": func(x []any, a ...any) []any {
		if len(x) == 0 {
			return x
		}
		return x[:len(x)-1]
	},
	"zzGrow":  func(x []any, a ...any) []any { return append(x, "end") },
	"zzFresh": func(x []any, a ...any) []any { return []any{len(x), "fresh"} },
	"zzEmpty": func(x []any, a ...any) []any { return []any{} },
}

func c20ArrRun(c *harness.Check, cs arrFnCase) string {
	fn := c20ArrFns[cs.Fn]
	if fn == nil {
		return "bad case"
	}
	clone := func() []any { return append([]any{}, cs.Recv...) }
	wantVal := fn(clone())
	var failure string
	pi := c.Guard("json", mustJSON(cs), func() {
		textwire.VerifReset()
		for name, f := range c20ArrFns {
			if err := textwire.RegisterArrFunc(name, f); err != nil {
				failure = "registration failed: " + err.Error()
				return
			}
		}
		wantOut, err := textwire.EvaluateString("[{{ v }}|{{ v.len() }}]", map[string]any{"v": wantVal})
		if err != nil {
			failure = "harness: the expected value does not render: " + err.Error()
			return
		}
		var out string
		if cs.Var {
			out, err = textwire.EvaluateString("[{{ r."+cs.Fn+"() }}|{{ r."+cs.Fn+"().len() }}]", map[string]any{"r": clone()})
		} else {
			lit, _ := json.Marshal(cs.Recv)
			out, err = textwire.EvaluateString("[{{ "+string(lit)+"."+cs.Fn+"() }}|{{ "+string(lit)+"."+cs.Fn+"().len() }}]", nil)
		}
		if err != nil {
			failure = "unexpected error: " + err.Error()
			return
		}
		if out != wantOut {
			failure = fmt.Sprintf("the call renders %q, the value the function returns renders %q when passed as data", out, wantOut)
		}
	})
	if pi != nil {
		return "panic: " + pi.Value
	}
	if len(failure) > 8 && failure[:8] == "harness:" {
		return ""
	}
	return failure
}

func init() {
	harness.RegisterReplayer("C20/array-results", func(raw json.RawMessage) string {
		cs, err := unJSON[arrFnCase](raw)
		if err != nil {
			return "bad case: " + err.Error()
		}
		// JSON numbers come back as float64: the receivers of this check are ints and strings
		for i, v := range cs.Recv {
			if f, ok := v.(float64); ok {
				cs.Recv[i] = int(f)
			}
		}
		return c20ArrRun(harness.New(nopTB{}, "C20", "replay", ""), cs)
	})
}

func TestC20_ArrayResults(t *testing.T) {
	c := harness.New(t, "C20", "array-results",
		"nine registered array functions that build their result in different ways (reverse in place and return the receiver, overwrite elements in place, return the receiver untouched, reslice from the front / the back, append, a fresh slice, an empty slice) x receivers of length 0..4 of integers and strings x receiver as literal and as variable: the call must render like the Go value the function returned, passed as data (text and length). Exhaustive. Non-trivial: the function returns the slice it was given. Distinct by construction.")
	defer c.Finish()
	recvs := [][]any{{}, {1}, {3, 1, 2}, {"b", "a"}, {1, "x", 2, "y"}, {9, 7, 8}}
	idx := 0
	for name := range c20ArrFns {
		_ = name
	}
	names := []string{"zzInPlaceRev", "zzInPlaceMark", "zzInPlaceFirst", "zzSame", "zzTail", "zzHead", "zzGrow", "zzFresh", "zzEmpty"}
	for _, fn := range names {
		for _, r := range recvs {
			for _, asVar := range []bool{false, true} {
				idx++
				if !harness.Mine(idx) {
					continue
				}
				cs := arrFnCase{Fn: fn, Recv: r, Var: asVar}
				c.CaseEnum(fn[:4] == "zzIn" || fn == "zzSame", "fn:"+fn)
				if idx%11 == 0 {
					c.Sample(cs)
				}
				if f := c20ArrRun(c, cs); f != "" {
					c.Fail(t, kindOf(f), cs, "the returned value", f, f)
				}
			}
		}
	}
	textwire.VerifReset()
	c.ExhaustivePart("9 functions x 6 receivers x literal/variable")
}

// C20/reentrant: a registered function stays callable while another custom
// function is running - a helper that renders a partial, or registers a
// function lazily, from inside its body.

type reentCase struct {
	Scenario string `json:"scenario"`
}

func c20Reentrant(c *harness.Check, cs reentCase) string {
	var failure string
	pi := c.Guard("json", mustJSON(cs), func() {
		textwire.VerifReset()
		must := func(err error) {
			if err != nil && failure == "" {
				failure = "registration failed: " + err.Error()
			}
		}
		must(textwire.RegisterStrFunc("zzUp", func(s string, a ...any) string { return "<" + s + ">" }))
		must(textwire.RegisterIntFunc("zzTwice", func(i int, a ...any) int { return 2 * i }))
		must(textwire.RegisterStrFunc("zzInclude", func(s string, a ...any) string {
			out, err := textwire.EvaluateString(s, map[string]any{"v": "in"})
			if err != nil {
				return "ERR:" + err.Error()
			}
			return out
		}))
		must(textwire.RegisterStrFunc("zzLazy", func(s string, a ...any) string {
			if err := textwire.RegisterStrFunc("zzLate"+s, func(t string, b ...any) string { return "late:" + t }); err != nil {
				return "ERR:" + err.Error()
			}
			return "registered"
		}))
		if failure != "" {
			return
		}
		var src, wantOut string
		switch cs.Scenario {
		case "custom-inside":
			src, wantOut = `[{{ "{{ v.zzUp() }}".zzInclude().raw() }}]`, "[<in>]"
		case "two-levels":
			src, wantOut = `[{{ "{{ '{{ 21.zzTwice() }}'.zzInclude() }}".zzInclude().raw() }}]`, "[42]"
		case "unregistered-inside":
			src, wantOut = `[{{ "{{ v.zzNoSuch() }}".zzInclude().contains("ERR:") }}]`, "["+getCalib().True+"]"
		case "builtin-inside":
			src, wantOut = `[{{ "{{ v.upper() }}".zzInclude() }}]`, "[IN]"
		case "lazy-registration":
			src, wantOut = `[{{ "x".zzLazy() }}|{{ "t".zzLatex() }}]`, "[registered|late:t]"
		default:
			failure = "bad case"
			return
		}
		out, err := textwire.EvaluateString(src, nil)
		if err != nil {
			failure = "unexpected error: " + err.Error()
			return
		}
		if out != wantOut {
			failure = fmt.Sprintf("rendered %q, expected %q", out, wantOut)
		}
	})
	if pi != nil {
		return "panic: " + pi.Value
	}
	return failure
}

func init() {
	harness.RegisterReplayer("C20/reentrant", func(raw json.RawMessage) string {
		cs, err := unJSON[reentCase](raw)
		if err != nil {
			return "bad case: " + err.Error()
		}
		return c20Reentrant(harness.New(nopTB{}, "C20", "replay", ""), cs)
	})
}

func TestC20_Reentrant(t *testing.T) {
	c := harness.New(t, "C20", "reentrant",
		"custom functions whose body itself uses the library: a helper that renders a template string which calls another custom function (one and two levels deep), a built-in, or an unregistered name (the error must come back, not a deadlock), and a function that registers another function when first called. The render must return (a hang is a violation, detected by the watchdog) with the expected text. Exhaustive over five scenarios. Non-trivial: all. Distinct by construction.")
	defer c.Finish()
	for _, sc := range []string{"custom-inside", "two-levels", "unregistered-inside", "builtin-inside", "lazy-registration"} {
		cs := reentCase{Scenario: sc}
		c.CaseEnum(true, "scenario:"+sc)
		c.Sample(cs)
		if f := c20Reentrant(c, cs); f != "" {
			c.Fail(t, kindOf(f), cs, "the render returns the expected text", f, f)
		}
	}
	textwire.VerifReset()
	c.ExhaustivePart("5 scenarios")
}

// C20/repeated-calls: every call written in a template is a call of the
// registered function, with that call's own arguments - also when several calls
// in one render look alike.

type repCase struct {
	Scenario string `json:"scenario"`
}

func c20Repeated(c *harness.Check, cs repCase) string {
	var failure string
	pi := c.Guard("json", mustJSON(cs), func() {
		textwire.VerifReset()
		calls := 0
		kind := func(v any) string {
			switch x := v.(type) {
			case int, int64:
				return "int"
			case float64:
				return "float"
			case string:
				return "str"
			case bool:
				return "bool"
			case nil:
				return "nil"
			case []any:
				return fmt.Sprintf("arr%d", len(x))
			case map[string]any:
				return "obj"
			}
			return fmt.Sprintf("%T", v)
		}
		kinds := func(a []any) string {
			out := ""
			for _, v := range a {
				out += kind(v) + ","
			}
			return out
		}
		errs := []error{
			textwire.RegisterIntFunc("zzKind", func(i int, a ...any) int { calls++; return len(kinds(a))*1000 + calls }),
			textwire.RegisterStrFunc("zzArgs", func(s string, a ...any) string { calls++; return s + ":" + kinds(a) }),
			textwire.RegisterStrFunc("zzCount", func(s string, a ...any) string { calls++; return fmt.Sprintf("%s#%d", s, calls) }),
			textwire.RegisterArrFunc("zzTag", func(x []any, a ...any) []any { calls++; return append(append([]any{}, x...), calls) }),
			// functions that scribble over what they are given: the Go values belong to the call
			textwire.RegisterStrFunc("zzSortArg", func(s string, a ...any) string {
				calls++
				if len(a) == 1 {
					if xs, ok := a[0].([]any); ok {
						sort.Slice(xs, func(i, j int) bool { return fmt.Sprint(xs[i]) < fmt.Sprint(xs[j]) })
						out := fmt.Sprint(xs...)
						for i := range xs {
							xs[i] = "gone"
						}
						return s + ":" + out
					}
					if m, ok := a[0].(map[string]any); ok {
						out := fmt.Sprint(len(m))
						for k := range m {
							delete(m, k)
						}
						m["added"] = true
						return s + ":" + out
					}
				}
				return s + ":?"
			}),
			textwire.RegisterArrFunc("zzWipe", func(x []any, a ...any) []any {
				calls++
				for i := range x {
					if inner, ok := x[i].([]any); ok {
						for j := range inner {
							inner[j] = 0
						}
					}
					if inner, ok := x[i].(map[string]any); ok {
						inner["k"] = "wiped"
					}
				}
				return []any{len(x)}
			}),
		}
		for _, e := range errs {
			if e != nil {
				failure = "registration failed: " + e.Error()
				return
			}
		}
		var src, wantOut string
		var data map[string]any
		wantCalls := 0
		switch cs.Scenario {
		case "look-alike-arguments":
			src = `{{ "k".zzArgs(1) }} {{ "k".zzArgs("1") }} {{ "k".zzArgs(1.0) }} {{ "k".zzArgs(true) }} {{ "k".zzArgs("true") }} {{ "k".zzArgs(nil) }} {{ "k".zzArgs("<nil>") }}`
			wantOut, wantCalls = "k:int, k:str, k:float, k:bool, k:str, k:nil, k:str,", 7
		case "nesting-that-prints-alike":
			src = `{{ "n".zzArgs(["a b"]) }} {{ "n".zzArgs(["a", "b"]) }} {{ "n".zzArgs([["a"]]) }} {{ "n".zzArgs("a", "b") }} {{ "n".zzArgs("a b") }}`
			wantOut, wantCalls = "n:arr1, n:arr2, n:arr1, n:str,str, n:str,", 5
		case "same-call-in-a-loop":
			src = `@each(i in [1, 2, 3]){{ "id".zzCount() }} @end`
			wantOut, wantCalls = "id#1 id#2 id#3 ", 3
		case "same-call-side-by-side":
			src = `{{ "x".zzCount(1) }}|{{ "x".zzCount(1) }}|{{ [0].zzTag() }}|{{ [0].zzTag() }}`
			wantOut, wantCalls = "x#1|x#2|0, 3|0, 4", 4
		case "functions-that-change-their-arguments":
			// the same variables are passed again (and printed) after a function has changed the Go
			// values it received: the template's values are what they were
			data = map[string]any{"names": []string{"c", "a", "b"}, "cfg": map[string]any{"x": 1, "y": 2}, "nested": []any{[]any{1, 2}, map[string]any{"k": "v"}}}
			src = `{{ "1".zzSortArg(names) }}|{{ "2".zzSortArg(names) }}|{{ names.join(",") }}|{{ "3".zzSortArg(cfg) }}|{{ "4".zzSortArg(cfg) }}|{{ cfg.x }}|` +
				`{{ loc = ["z", "y"]; "5".zzSortArg(loc) }}|{{ "6".zzSortArg(loc) }}|{{ loc.join(",") }}|{{ nested.zzWipe() }}|{{ nested.zzWipe() }}|{{ nested[0].join("+") }}{{ nested[1].k }}`
			wantOut, wantCalls = "1:abc|2:abc|c,a,b|3:2|4:2|1|5:yz|6:yz|z,y|2|2|1+2v", 8
		case "same-call-in-for":
			src = `@for(i = 0; i < 3; i++){{ 7.zzKind() }},@end`
			wantOut, wantCalls = "1,2,3,", 3
		default:
			failure = "bad case"
			return
		}
		out, err := textwire.EvaluateString(src, data)
		if err != nil {
			failure = "unexpected error: " + err.Error()
			return
		}
		if out != wantOut || calls != wantCalls {
			failure = fmt.Sprintf("rendered %q after %d calls of the registered functions, expected %q after %d calls", out, calls, wantOut, wantCalls)
		}
	})
	if pi != nil {
		return "panic: " + pi.Value
	}
	return failure
}

func init() {
	harness.RegisterReplayer("C20/repeated-calls", func(raw json.RawMessage) string {
		cs, err := unJSON[repCase](raw)
		if err != nil {
			return "bad case: " + err.Error()
		}
		return c20Repeated(harness.New(nopTB{}, "C20", "replay", ""), cs)
	})
}

func TestC20_RepeatedCalls(t *testing.T) {
	c := harness.New(t, "C20", "repeated-calls",
		"several calls of one registered function in one render: with arguments of different types or nesting that print alike (1, \"1\", 1.0; [\"a b\"], [\"a\", \"b\"]), the same call in every pass of @each and @for, and side by side; the functions count their invocations; functions that sort, overwrite or delete from the arrays and objects they are given (as argument, or nested in an array receiver), called again with the same variables. Every call must reach the function with its own arguments (the kinds received are shown) and show its own result. Exhaustive over six scenarios. Non-trivial: all. Distinct by construction.")
	defer c.Finish()
	for _, sc := range []string{"look-alike-arguments", "nesting-that-prints-alike", "same-call-in-a-loop", "same-call-side-by-side", "same-call-in-for", "functions-that-change-their-arguments"} {
		cs := repCase{Scenario: sc}
		c.CaseEnum(true, "scenario:"+sc)
		c.Sample(cs)
		if f := c20Repeated(c, cs); f != "" {
			c.Fail(t, kindOf(f), cs, "every call reaches the function", f, f)
		}
	}
	textwire.VerifReset()
	c.ExhaustivePart("5 scenarios")
}

// ---------------------------------------------------------------- results of unsupported kinds

type badResultCase struct {
	Shape string `json:"shape"`
	Tmpl  string `json:"tmpl"`
}

// c20BadResults: values an array function may return that hold, somewhere, a value of a kind the library does not take.
var c20BadResults = map[string]func() []any{
	"direct-chan":           func() []any { return []any{1, make(chan int)} },
	"direct-func":           func() []any { return []any{func() {}, 2} },
	"direct-complex":        func() []any { return []any{complex(1, 2)} },
	"direct-array":          func() []any { return []any{[2]int{1, 2}} },
	"direct-int-keyed-map":  func() []any { return []any{map[int]string{1: "a"}} },
	"in-any-slice":          func() []any { return []any{[]any{1, make(chan int)}} },
	"in-any-map":            func() []any { return []any{map[string]any{"ok": 1, "bad": make(chan int)}} },
	"in-any-map-only-entry": func() []any { return []any{map[string]any{"bad": func() {}}} },
	"in-any-map-in-any-map": func() []any { return []any{map[string]any{"m": map[string]any{"bad": complex(0, 1)}}} },
	"in-any-map-in-slice":   func() []any { return []any{1, []any{map[string]any{"a": 1, "z": make(chan string)}}} },
	"in-slice-in-any-map":   func() []any { return []any{map[string]any{"l": []any{1, func() {}}}} },
	"in-typed-map":          func() []any { return []any{map[string]chan int{"c": make(chan int)}} },
	"in-typed-slice":        func() []any { return []any{[]chan int{make(chan int)}} },
	"in-struct-field":       func() []any { return []any{struct{ C chan int }{make(chan int)}} },
	"in-struct-in-any-map":  func() []any { return []any{map[string]any{"s": struct{ F func() }{func() {}}}} },
	"behind-pointer":        func() []any { c := make(chan int); return []any{&c} },
	"behind-pointer-in-map": func() []any { c := complex(1, 1); return []any{map[string]any{"p": &c}} },
	"last-of-many":          func() []any { return []any{1, "a", 2.5, true, nil, []any{}, map[string]any{}, make(chan int)} },
	"in-any-map-among-many": func() []any {
		return []any{map[string]any{"a": 1, "b": "x", "c": []any{1}, "d": map[string]any{}, "e": nil, "f": make(chan int), "g": 2}}
	},
	"int-keyed-map-in-any-map": func() []any { return []any{map[string]any{"m": map[int]int{1: 1}}} },
}

func c20BadResult(c *harness.Check, cs badResultCase) string {
	mk := c20BadResults[cs.Shape]
	if mk == nil {
		return "bad case"
	}
	failure := ""
	pi := c.Guard("json", mustJSON(cs), func() {
		textwire.VerifReset()
		if err := textwire.RegisterArrFunc("zzBad", func(x []any, a ...any) []any { return mk() }); err != nil {
			failure = "harness: " + err.Error()
			return
		}
		// the same Go value passed as data is refused
		if _, err := textwire.EvaluateString(strings.ReplaceAll(cs.Tmpl, "xs.zzBad()", "v"), map[string]any{"v": mk(), "xs": []int{1}}); err == nil {
			failure = "harness: the value is accepted as data"
			return
		}
		out, err := textwire.EvaluateString(cs.Tmpl, map[string]any{"xs": []int{1}})
		if err == nil {
			failure = fmt.Sprintf("the function's result holds a value of an unsupported kind; as data it is refused, as a result it rendered %q", out)
		} else if out != "" {
			failure = fmt.Sprintf("error together with output %q", out)
		}
	})
	textwire.VerifReset()
	if pi != nil {
		return "panic: " + pi.Value
	}
	if strings.HasPrefix(failure, "harness:") {
		c.Class(failure)
		return ""
	}
	return failure
}

func init() {
	harness.RegisterReplayer("C20/unsupported-results", func(raw json.RawMessage) string {
		cs, err := unJSON[badResultCase](raw)
		if err != nil {
			return "bad case: " + err.Error()
		}
		return c20BadResult(harness.New(nopTB{}, "C20", "replay", ""), cs)
	})
}

func TestC20_UnsupportedResults(t *testing.T) {
	tmpls := []string{"[{{ xs.zzBad().len() }}]", "[{{ xs.zzBad() }}]", "[{{ y = xs.zzBad(); 1 }}]", "@each(v in xs.zzBad())a@end", "[{{ xs.zzBad()[0] }}]", "@if(xs.zzBad())a@end", "[{{ [xs.zzBad()].len() }}]", "[{{ xs.zzBad().reverse().len() }}]"}
	c := harness.New(t, "C20", "unsupported-results",
		fmt.Sprintf("a registered array function whose result holds a value of a kind the library does not take (chan, func, complex, fixed-size array, a map with integer keys) at %d places - directly, in a nested []any, in a map[string]any (only entry, among many, two deep, inside a slice, holding a slice, holding a struct), in typed maps and slices, in a struct field, behind a pointer, last of many - called in %d ways (length, print, assignment, @each, index, condition, array element, chained built-in): the same Go value passed as data is refused, so the call must fail with an error and without output, and never panic. Exhaustive. Non-trivial: all. Distinct by construction.", len(c20BadResults), len(tmpls)))
	defer c.Finish()
	shapes := make([]string, 0, len(c20BadResults))
	for s := range c20BadResults {
		shapes = append(shapes, s)
	}
	sortStrings(shapes)
	idx := 0
	for _, sh := range shapes {
		for _, tm := range tmpls {
			idx++
			if !harness.Mine(idx) {
				continue
			}
			cs := badResultCase{Shape: sh, Tmpl: tm}
			c.CaseEnum(true, "shape:"+sh)
			if idx%17 == 0 {
				c.Sample(cs)
			}
			if f := c20BadResult(c, cs); f != "" {
				c.Fail(t, kindOf(f), cs, "an error, no output", f, f)
			}
		}
	}
	c.ExhaustivePart(fmt.Sprintf("%d result shapes x %d call forms", len(shapes), len(tmpls)))
}

// ---------------------------------------------------------------- one call site, receivers of several types

type fnSiteCase struct {
	Kinds []string `json:"kinds"` // receiver kinds met by the one call site, in order
	Via   string   `json:"via"`   // loop | renders
}

var c20SiteValues = map[string]any{"str": "a", "int": 1, "float": 2.5, "bool": true, "arr": []any{1, 2}, "nil": nil, "obj": map[string]any{"k": 1}}

// c20SiteWant: what zzTag gives for a value of the kind ("" and false: an error - the name is not registered for that type).
func c20SiteWant(kind string) (string, bool) {
	switch kind {
	case "str":
		return "S(a)", true
	case "int":
		return "101", true
	case "bool":
		return "B(true)", true // rendered through the data path below
	}
	return "", false
}

func c20Site(c *harness.Check, cs fnSiteCase) string {
	failure := ""
	pi := c.Guard("json", mustJSON(cs), func() {
		textwire.VerifReset()
		regs := []error{
			textwire.RegisterStrFunc("zzTag", func(s string, a ...any) string { return "S(" + s + ")" }),
			textwire.RegisterIntFunc("zzTag", func(i int, a ...any) int { return i + 100 }),
			textwire.RegisterBoolFunc("zzTag", func(b bool, a ...any) bool { return !b }),
		}
		for _, err := range regs {
			if err != nil {
				failure = "harness: " + err.Error()
				return
			}
		}
		wantOf := func(kind string) (string, bool) {
			w, ok := c20SiteWant(kind)
			if kind == "bool" {
				// as the same Go value passed as data renders
				w, _ = textwire.EvaluateString("{{ v }}", map[string]any{"v": false})
			}
			return w, ok
		}
		if cs.Via == "loop" {
			items := make([]any, len(cs.Kinds))
			want, fails := "", false
			for i, k := range cs.Kinds {
				items[i] = map[string]any{"v": c20SiteValues[k]}
				if w, ok := wantOf(k); ok && !fails {
					want += w + ";"
				} else {
					fails = true
				}
			}
			out, err := textwire.EvaluateString("@each(o in items){{ o.v.zzTag() }};@end", map[string]any{"items": items})
			switch {
			case fails && err == nil:
				failure = fmt.Sprintf("a receiver whose type has no zzTag: expected an error, got %q", out)
			case !fails && (err != nil || out != want):
				failure = fmt.Sprintf("rendered %q / %v, each pass calls the function registered for its receiver's type: %q", out, err, want)
			}
			return
		}
		// one loaded template rendered once per kind
		if _, err := tree.Materialise(tree.Tree{"t/page.tw": {Content: "[{{ v.zzTag() }}]"}}); err != nil {
			return
		}
		tpl, lerr := textwire.NewTemplate(&config.Config{TemplateDir: "t", TemplateExt: ".tw"})
		if lerr != nil {
			failure = "harness: " + lerr.Error()
			return
		}
		for i, k := range cs.Kinds {
			out, ferr := tpl.String("page", map[string]any{"v": c20SiteValues[k]})
			w, ok := wantOf(k)
			switch {
			case !ok && ferr == nil:
				failure = fmt.Sprintf("render %d (%s receiver, no zzTag for that type): expected an error, got %q", i+1, k, out)
			case ok && (ferr != nil || out != "["+w+"]"):
				failure = fmt.Sprintf("render %d (%s receiver): got %q / %v, the function registered for that type gives %q", i+1, k, out, ferr, "["+w+"]")
			}
			if failure != "" {
				return
			}
		}
	})
	textwire.VerifReset()
	if pi != nil {
		return "panic: " + pi.Value
	}
	if strings.HasPrefix(failure, "harness:") {
		c.Class(failure)
		return ""
	}
	return failure
}

func init() {
	harness.RegisterReplayer("C20/one-call-site", func(raw json.RawMessage) string {
		cs, err := unJSON[fnSiteCase](raw)
		if err != nil {
			return "bad case: " + err.Error()
		}
		return c20Site(harness.New(nopTB{}, "C20", "replay", ""), cs)
	})
}

func TestC20_OneCallSite(t *testing.T) {
	kinds := []string{"str", "int", "bool", "float", "arr", "nil", "obj"}
	c := harness.New(t, "C20", "one-call-site",
		"a name registered for strings, integers and booleans, called at one place whose receiver is of another type each time - in the passes of one loop ('@each(o in items){{ o.v.zzTag() }}') and in consecutive renders of one loaded template - for every ordered pair and triple of seven receiver kinds (string, integer, boolean, float, array, nil, object): each evaluation calls the function registered for the type of its own receiver, and a receiver whose type has none is an error naming no other type's function. Exhaustive. Non-trivial: >= 2 different kinds. Distinct by construction.")
	defer c.Finish()
	idx := 0
	run := func(ks ...string) {
		for _, via := range []string{"loop", "renders"} {
			idx++
			if !harness.Mine(idx) {
				continue
			}
			cs := fnSiteCase{Kinds: ks, Via: via}
			distinct := map[string]bool{}
			for _, k := range ks {
				distinct[k] = true
			}
			c.CaseEnum(len(distinct) >= 2, "via:"+via)
			if idx%23 == 0 {
				c.Sample(cs)
			}
			if f := c20Site(c, cs); f != "" {
				c.Fail(t, kindOf(f), cs, "the function of the receiver's own type", f, f)
			}
		}
	}
	for _, a := range kinds {
		for _, b := range kinds {
			run(a, b)
			for _, d := range kinds[:4] {
				run(a, b, d)
			}
		}
	}
	c.ExhaustivePart("7 x 7 pairs + 7 x 7 x 4 triples of receiver kinds x {one loop, consecutive renders}")
}
