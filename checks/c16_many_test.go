package checks

import (
	"encoding/json"
	"fmt"
	"net/http/httptest"
	"path/filepath"
	"strings"
	"testing"

	textwire "github.com/textwire/textwire/v2"
	"github.com/textwire/textwire/v2/config"
	"verif/lib/harness"
	"verif/lib/tree"
)

// C16/many-sources: a call's result does not depend on how many other
// templates the process has evaluated before. N distinct sources (N around
// every power of two up to 1024) are evaluated one after the other through one
// entry point, then all of them again in the same and in reverse order, with
// failing Responses (the built-in error page is a template too) in between;
// every call must give its own source's result.

type manyCase struct {
	N   int    `json:"n"`
	Via string `json:"via"` // evalstring | evalfile | pages | mixed
	// Failing: N calls that fail before evaluation come first (and one between any two calls of the passes)
	Failing bool `json:"failing,omitempty"`
}

func init() {
	harness.RegisterReplayer("C16/many-sources", func(raw json.RawMessage) string {
		cs, err := unJSON[manyCase](raw)
		if err != nil {
			return "bad case: " + err.Error()
		}
		return c16Many(harness.New(nopTB{}, "C16", "replay", ""), cs)
	})
}

func c16Many(c *harness.Check, cs manyCase) string {
	// sources of a few dozen bytes up to several KiB (padding: plain text of k%6 * 700 bytes)
	pad := func(k int) string { return strings.Repeat(fmt.Sprintf("<!-- %04d -->", k), (k%6)*70) }
	src := func(k int) string { return fmt.Sprintf("<i id=%d>{{ %d * 2 }}|{{ name }}</i>", k, k) + pad(k) }
	want := func(k int) string { return fmt.Sprintf("<i id=%d>%d|N</i>", k, k*2) + pad(k) }
	tr := tree.Tree{"t/failing.tw": {Content: "x\n{{ nosuchname }}"}}
	for k := 0; k < cs.N; k++ {
		tr[fmt.Sprintf("t/p%d.tw", k)] = tree.Entry{Content: src(k)}
	}
	root, err := tree.Materialise(tr)
	if err != nil {
		return ""
	}
	failure := ""
	pi := c.Guard("json", mustJSON(cs), func() {
		textwire.VerifReset()
		tpl, lerr := textwire.NewTemplate(&config.Config{TemplateDir: "t", TemplateExt: ".tw", DebugMode: true})
		if lerr != nil {
			failure = "unexpected load error: " + lerr.Error()
			return
		}
		data := map[string]any{"name": "N"}
		errorPage := func() string {
			w := httptest.NewRecorder()
			tpl.Response(w, "failing", data)
			return w.Body.String()
		}
		firstErrorPage := errorPage()
		// calls that fail before anything is evaluated (unknown name, data of an unsupported kind, the
		// reserved key) are no input of later calls either, however many there are
		failing := func(i int) {
			switch i % 4 {
			case 0:
				tpl.String(fmt.Sprintf("nosuch%d", i), data)
			case 1:
				tpl.String("p0", map[string]any{"name": "N", "bad": make(chan int)})
			case 2:
				tpl.Response(httptest.NewRecorder(), "nosuch", nil)
			default:
				tpl.Response(httptest.NewRecorder(), "p0", map[string]any{"loop": 1})
			}
		}
		if cs.Failing {
			for i := 0; i < cs.N; i++ {
				failing(i)
			}
		}
		call := func(k, pass int) string {
			via := cs.Via
			if via == "mixed" {
				via = []string{"evalstring", "evalfile", "pages"}[(k+pass)%3]
			}
			var out string
			var err error
			switch via {
			case "evalstring":
				out, err = textwire.EvaluateString(src(k), data)
			case "evalfile":
				out, err = textwire.EvaluateFile(filepath.Join(root, "t", fmt.Sprintf("p%d.tw", k)), data)
			default:
				var ferr interface{ Error() error }
				o, fe := tpl.String(fmt.Sprintf("p%d", k), data)
				out = o
				if fe != nil {
					ferr = fe
					err = ferr.Error()
				}
			}
			if err != nil {
				return "error: " + err.Error()
			}
			return out
		}
		order := func(pass int) []int {
			ks := make([]int, cs.N)
			for i := range ks {
				ks[i] = i
				if pass == 2 {
					ks[i] = cs.N - 1 - i
				}
			}
			return ks
		}
		for pass := 0; pass < 3; pass++ {
			for i, k := range order(pass) {
				if cs.Failing {
					failing(i + pass)
				}
				if got := call(k, pass); got != want(k) {
					failure = fmt.Sprintf("pass %d, call %d (source %d of %d, %s): got %q, its own result is %q", pass+1, i+1, k, cs.N, cs.Via, clip(got, 200), want(k))
					return
				}
				if i%97 == 50 {
					if ep := errorPage(); ep != firstErrorPage {
						failure = fmt.Sprintf("pass %d after %d calls: the error page of the same failing render changed: %s", pass+1, i+1, diffAt(firstErrorPage, ep))
						return
					}
				}
			}
		}
		if ep := errorPage(); ep != firstErrorPage {
			failure = "at the end: the error page of the same failing render changed: " + diffAt(firstErrorPage, ep)
		}
	})
	if pi != nil {
		return "panic: " + pi.Value
	}
	return failure
}

func TestC16_ManySources(t *testing.T) {
	c := harness.New(t, "C16", "many-sources",
		"N distinct sources (of a few dozen bytes up to 3.5 KiB) for N in {1, 2, 3, 7..9, 15..17, 31..33, 63..65, 100, 127..129, 255..257} (quick) plus {511..513, 1000, 1023..1025} (thorough), evaluated one after the other through EvaluateString, EvaluateFile, as pages of one loaded directory, or all three in turn; then all again in the same order and in reverse order; a failing Response (built-in error page, debug on) before, every 97 calls and after; in every other case N calls that fail before anything is evaluated (unknown names, data of an unsupported kind, the reserved key loop; String and Response) come first, and one more between any two calls. Every call must give the result of its own source (known in closed form) and the error page must stay the same. Exhaustive over N x entry point. Non-trivial: N >= 2. Distinct by construction.")
	defer c.Finish()
	var ns []int
	ns = append(ns, 1, 2, 3, 100)
	for _, b := range []int{8, 16, 32, 64, 128, 256} {
		ns = append(ns, b-1, b, b+1)
	}
	if harness.Pick(0, 1) == 1 {
		ns = append(ns, 511, 512, 513, 1000, 1023, 1024, 1025)
	}
	idx := 0
	for _, n := range ns {
		for _, via := range []string{"evalstring", "evalfile", "pages", "mixed"} {
			idx++
			if !harness.Mine(idx) {
				continue
			}
			cs := manyCase{N: n, Via: via, Failing: idx%2 == 0}
			c.CaseEnum(n >= 2, "via:"+via, fmt.Sprintf("failing-calls-first:%v", cs.Failing))
			if idx%7 == 0 {
				c.Sample(cs)
			}
			if f := c16Many(c, cs); f != "" {
				c.Fail(t, kindOf(f), cs, "every call gives its own source's result", f, f)
			}
		}
	}
	textwire.VerifReset()
	c.ExhaustivePart(fmt.Sprintf("%d sizes x 4 entry points", len(ns)))
}

var _ = json.Marshal
