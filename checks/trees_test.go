package checks

import (
	"encoding/json"
	"fmt"
	"net/http/httptest"
	"sort"
	"strings"

	textwire "github.com/textwire/textwire/v2"
	"github.com/textwire/textwire/v2/config"
	"verif/lib/harness"
	"verif/lib/refint"
	"verif/lib/spec"
	"verif/lib/tree"
	"verif/lib/tw"
)

// treeCase is the replayable case of the composition checks (C06, C07, C10):
// a template directory (already printed to source), configuration, the page to
// render, data and the expectation.
type treeCase struct {
	Files map[string]string `json:"files"` // template name -> source
	Dir   string            `json:"dir"`
	Ext   string            `json:"ext"`
	Page  string            `json:"page"`
	Data  *spec.Data        `json:"data,omitempty"`
	// expectation
	LoadErr  bool   `json:"load_err,omitempty"` // NewTemplate must fail
	Mentions string `json:"mentions,omitempty"` // ... with a message containing this
	Want     want   `json:"want"`
	// NotContains: the output (if any) must not contain this text
	NotContains string `json:"not_contains,omitempty"`
	MustContain string `json:"must_contain,omitempty"`
	Note        string `json:"note,omitempty"`
	// Linked: names whose file in the template directory is a symbolic link to a regular file kept elsewhere
	Linked []string `json:"linked,omitempty"`
}

func (cs treeCase) tree() tree.Tree {
	t := tree.Tree{}
	linked := map[string]bool{}
	for _, n := range cs.Linked {
		linked[n] = true
	}
	for name, src := range cs.Files {
		if linked[name] {
			// a symbolic link to a regular file is a template file like any other
			flat := "shared/" + strings.ReplaceAll(name, "/", "_") + ".src"
			t[flat] = tree.Entry{Content: src}
			t[cs.Dir+"/"+name+cs.Ext] = tree.Entry{Kind: tree.Symlink, Content: strings.Repeat("../", strings.Count(cs.Dir+"/"+name, "/")) + flat}
			continue
		}
		t[cs.Dir+"/"+name+cs.Ext] = tree.Entry{Content: src}
	}
	return t
}

func (cs treeCase) sample() map[string]any {
	m := map[string]any{"files": cs.Files, "page": cs.Page, "want": cs.Want}
	if cs.LoadErr {
		m["load_err"] = true
	}
	if cs.Data != nil {
		d := map[string]string{}
		for i, k := range cs.Data.Keys {
			d[k] = spec.Describe(cs.Data.Vals[i])
		}
		m["data"] = d
	}
	return m
}

type treeResult struct {
	LoadErr string `json:"load_err,omitempty"`
	Root    string `json:"-"` // scratch root the tree was written under
	Result
	// Again: the same page rendered once more on the same loaded templates
	Again *Result `json:"again,omitempty"`
	// Body: what Response writes for the same page and data (only kept when it differs from Out)
	Body    *string `json:"response_body,omitempty"`
	BodyErr string  `json:"response_err,omitempty"`
}

// normalised returns s with the scratch root replaced (each materialisation
// uses another directory).
func (tr treeResult) normalised(s string) string {
	if tr.Root == "" {
		return s
	}
	return strings.ReplaceAll(s, tr.Root, "<root>")
}

var loadsSoFar int

// loadAndRender materialises the tree, loads it and renders the page.
func loadAndRender(c *harness.Check, cs treeCase) treeResult {
	var tr treeResult
	root, err := tree.Materialise(cs.tree())
	if err != nil {
		tr.Err = "harness: " + err.Error()
		return tr
	}
	tr.Root = root
	tr.Panic = c.Guard("json", mustJSON(cs), func() {
		// three loads in four start from the package's initial state; the fourth follows the
		// previous case's load directly, as a second NewTemplate of a process does (another
		// working directory, often the same relative directory name): a load is decided by
		// its own configuration and the files it finds now
		if loadsSoFar++; loadsSoFar%4 != 0 {
			textwire.VerifReset()
		}
		conf := &config.Config{TemplateDir: cs.Dir, TemplateExt: cs.Ext}
		tpl, err := textwire.NewTemplate(conf)
		// the configuration is what was passed to the call: what the caller does with its
		// own Config value afterwards is no input of later renders
		conf.TemplateDir, conf.TemplateExt, conf.ErrorPagePath, conf.DebugMode = "zz/elsewhere", ".zz", "zz/error", true
		if err != nil {
			tr.LoadErr = err.Error()
			if tpl != nil {
				tr.LoadErr += " (and a non-nil template)"
			}
			return
		}
		out, ferr := tpl.String(cs.Page, cs.Data.GoMap())
		tr.Out = out
		if ferr != nil {
			tr.Err = ferr.String()
			if tr.Err == "" {
				tr.Err = "(empty error)"
			}
		}
		// every property about what a page renders to holds for each render of
		// the loaded templates, not only the first
		out2, ferr2 := tpl.String(cs.Page, cs.Data.GoMap())
		tr.Again = &Result{Out: out2}
		if ferr2 != nil {
			tr.Again.Err = ferr2.String()
			if tr.Again.Err == "" {
				tr.Again.Err = "(empty error)"
			}
		}
		// a page that renders is delivered by Response as it is
		if ferr == nil {
			w := httptest.NewRecorder()
			rerr := tpl.Response(w, cs.Page, cs.Data.GoMap())
			if body := w.Body.String(); body != out || rerr != nil {
				tr.Body = &body
				if rerr != nil {
					tr.BodyErr = rerr.Error()
				}
			}
		}
	})
	return tr
}

func runTreeCase(c *harness.Check, cs treeCase) (treeResult, string) {
	tr := loadAndRender(c, cs)
	if strings.HasPrefix(tr.Err, "harness:") {
		return tr, ""
	}
	if tr.Panic != nil {
		return tr, "panic: " + tr.Panic.Value
	}
	if cs.LoadErr {
		if tr.LoadErr == "" {
			return tr, "templates loaded although loading must fail: " + cs.Note
		}
		if cs.Mentions != "" && !strings.Contains(tr.LoadErr, cs.Mentions) {
			return tr, fmt.Sprintf("load error does not name %q: %s", cs.Mentions, tr.LoadErr)
		}
		return tr, ""
	}
	if tr.LoadErr != "" {
		return tr, "unexpected load error: " + tr.LoadErr
	}
	if f := cs.Want.matches(tr.Result); f != "" {
		return tr, f
	}
	if cs.NotContains != "" && strings.Contains(tr.Out, cs.NotContains) {
		return tr, fmt.Sprintf("output contains %q", cs.NotContains)
	}
	if cs.MustContain != "" && !tr.IsErr() && !strings.Contains(tr.Out, cs.MustContain) {
		return tr, fmt.Sprintf("output lacks %q", cs.MustContain)
	}
	if tr.Body != nil {
		return tr, fmt.Sprintf("the page renders (String: %q) but Response wrote %q and returned %q", clip(tr.Out, 300), clip(*tr.Body, 300), tr.BodyErr)
	}
	if tr.Again != nil {
		if f := cs.Want.matches(*tr.Again); f != "" {
			return tr, "second render of the same loaded templates: " + f
		}
		if cs.NotContains != "" && strings.Contains(tr.Again.Out, cs.NotContains) {
			return tr, fmt.Sprintf("second render: output contains %q", cs.NotContains)
		}
		if cs.MustContain != "" && !tr.Again.IsErr() && !strings.Contains(tr.Again.Out, cs.MustContain) {
			return tr, fmt.Sprintf("second render: output lacks %q", cs.MustContain)
		}
	}
	return tr, ""
}

func registerTreeReplayer(names ...string) {
	for _, n := range names {
		harness.RegisterReplayer(n, func(raw json.RawMessage) string {
			cs, err := unJSON[treeCase](raw)
			if err != nil {
				return "bad case: " + err.Error()
			}
			c := harness.New(nopTB{}, "replay", "replay", "")
			_, f := runTreeCase(c, cs)
			return f
		})
	}
}

// printFiles turns AST files into sources.
func printFiles(files refint.Files, l *tw.Layout) map[string]string {
	out := map[string]string{}
	names := make([]string, 0, len(files))
	for n := range files {
		names = append(names, n)
	}
	sort.Strings(names)
	for _, n := range names {
		out[n] = tw.PrintStmts(files[n], l).Src
	}
	return out
}

// seqCase is one loaded template directory rendered several times in a row
// (pages and data vary per step); every render is held to its own expectation.
// What a page renders to is a function of the files and of the data of that
// call, whatever was rendered on the same *Template before.
type seqStep struct {
	Page string     `json:"page"`
	Data *spec.Data `json:"data,omitempty"`
	Want want       `json:"want"`
}

type seqCase struct {
	Files map[string]string `json:"files"`
	Dir   string            `json:"dir"`
	Ext   string            `json:"ext"`
	Steps []seqStep         `json:"steps"`
}

func (cs seqCase) sample() map[string]any {
	steps := []map[string]any{}
	for _, s := range cs.Steps {
		d := map[string]string{}
		if s.Data != nil {
			for i, k := range s.Data.Keys {
				d[k] = spec.Describe(s.Data.Vals[i])
			}
		}
		steps = append(steps, map[string]any{"page": s.Page, "data": d, "want": s.Want})
	}
	return map[string]any{"files": cs.Files, "steps": steps}
}

// runSeqCase returns the results of the steps and the first failure.
func runSeqCase(c *harness.Check, cs seqCase) ([]Result, string) {
	tc := treeCase{Files: cs.Files, Dir: cs.Dir, Ext: cs.Ext}
	root, err := tree.Materialise(tc.tree())
	if err != nil {
		return nil, ""
	}
	_ = root
	var results []Result
	failure := ""
	pi := c.Guard("json", mustJSON(cs), func() {
		textwire.VerifReset()
		tpl, err := textwire.NewTemplate(&config.Config{TemplateDir: cs.Dir, TemplateExt: cs.Ext})
		if err != nil {
			failure = "unexpected load error: " + err.Error()
			return
		}
		for i, st := range cs.Steps {
			var r Result
			out, ferr := tpl.String(st.Page, st.Data.GoMap())
			r.Out = out
			if ferr != nil {
				r.Err = ferr.String()
				if r.Err == "" {
					r.Err = "(empty error)"
				}
			}
			results = append(results, r)
			if f := st.Want.matches(r); f != "" && failure == "" {
				failure = fmt.Sprintf("render %d of %d on one loaded *Template (page %q): %s", i+1, len(cs.Steps), st.Page, f)
			}
		}
	})
	if pi != nil {
		return results, "panic: " + pi.Value
	}
	return results, failure
}

func registerSeqReplayer(names ...string) {
	for _, n := range names {
		harness.RegisterReplayer(n, func(raw json.RawMessage) string {
			cs, err := unJSON[seqCase](raw)
			if err != nil {
				return "bad case: " + err.Error()
			}
			c := harness.New(nopTB{}, "replay", "replay", "")
			_, f := runSeqCase(c, cs)
			return f
		})
	}
}
