package checks

import (
	"encoding/json"
	"fmt"
	"path"
	"path/filepath"
	"reflect"
	"sort"
	"strings"
	"testing"

	textwire "github.com/textwire/textwire/v2"
	"github.com/textwire/textwire/v2/config"
	"github.com/textwire/textwire/v2/lexer"
	"github.com/textwire/textwire/v2/parser"
	"pgregory.net/rapid"
	"verif/lib/harness"
	"verif/lib/spec"
	"verif/lib/tree"
	"verif/lib/tw"
)

// C18 — templates are addressable by relative name; a bad file fails loading cleanly.

type addrCase struct {
	Tree    tree.Tree `json:"tree"`     // paths relative to the scratch root
	Dir     string    `json:"dir"`      // TemplateDir as spelled in the configuration
	RealDir string    `json:"real_dir"` // the directory it denotes (clean, relative)
	Ext     string    `json:"ext"`
	// the documented defaults ("templates", ".tw.html") apply to what the configuration leaves out
	OmitDir   bool `json:"omit_dir,omitempty"`
	OmitExt   bool `json:"omit_ext,omitempty"`
	NilConfig bool `json:"nil_config,omitempty"`
}

type faultCase struct {
	Tree   tree.Tree `json:"tree"`
	Faulty string    `json:"faulty"` // path of the damaged file
	Op     string    `json:"op"`
	// expectation
	MustFail bool     `json:"must_fail"`
	Mention  []string `json:"mention,omitempty"` // the error must contain one of these
	// Dir: the configured template directory when it is not "t" (a directory that does not exist, or is no directory)
	Dir string `json:"dir,omitempty"`
}

func init() {
	harness.RegisterReplayer("C18/addressing", func(raw json.RawMessage) string {
		cs, err := unJSON[addrCase](raw)
		if err != nil {
			return "bad case: " + err.Error()
		}
		return c18Addr(harness.New(nopTB{}, "C18", "replay", ""), cs)
	})
	harness.RegisterReplayer("C18/fault-enumeration", func(raw json.RawMessage) string {
		cs, err := unJSON[faultCase](raw)
		if err != nil {
			return "bad case: " + err.Error()
		}
		return c18Fault(harness.New(nopTB{}, "C18", "replay", ""), cs)
	})
}

// ---------------------------------------------------------------- part A: addressing

// c18Prev: the Template of the previous addressing case, what it had registered and how one of its names rendered.
var c18Prev struct {
	tpl   *textwire.Template
	names []string
	name  string
	out   string
}

func c18Addr(c *harness.Check, cs addrCase) string {
	root, err := tree.Materialise(cs.Tree)
	if err != nil {
		return ""
	}
	var failure string
	pi := c.Guard("json", mustJSON(cs), func() {
		textwire.VerifReset()
		conf := &config.Config{TemplateDir: cs.Dir, TemplateExt: cs.Ext}
		if cs.OmitDir {
			conf.TemplateDir = ""
		}
		if cs.OmitExt {
			conf.TemplateExt = ""
		}
		if cs.NilConfig {
			conf = nil
		}
		tpl, lerr := textwire.NewTemplate(conf)
		if lerr != nil {
			failure = "unexpected load error: " + lerr.Error()
			return
		}
		// a Template keeps what it registered: the load of another directory (this one) does not
		// change the Template the previous case loaded
		if c18Prev.tpl != nil {
			if got := textwire.VerifNames(c18Prev.tpl); !reflect.DeepEqual(append([]string{}, got...), append([]string{}, c18Prev.names...)) {
				failure = fmt.Sprintf("after this load the Template loaded before it registers %q, it had registered %q", got, c18Prev.names)
				return
			}
			if c18Prev.name != "" {
				if out, ferr := c18Prev.tpl.String(c18Prev.name, nil); ferr != nil || out != c18Prev.out {
					failure = fmt.Sprintf("after this load the Template loaded before it renders %q as %q / %v, it had rendered %q", c18Prev.name, out, ferr, c18Prev.out)
					return
				}
			}
		}
		c18Prev.tpl, c18Prev.names, c18Prev.name, c18Prev.out = tpl, append([]string{}, textwire.VerifNames(tpl)...), "", ""
		for _, n := range c18Prev.names {
			if out, ferr := tpl.String(n, nil); ferr == nil {
				c18Prev.name, c18Prev.out = n, out
				break
			}
		}
		// expected registry: every regular file under RealDir whose name ends in Ext
		expected := map[string]string{} // name -> content
		layouts := map[string]bool{}
		prefix := cs.RealDir + "/"
		if cs.RealDir == "." {
			prefix = ""
		}
		for p, e := range cs.Tree {
			if e.Kind == tree.Symlink {
				// resolve a link to a regular file of the tree
				target := path.Join(path.Dir(p), e.Content)
				te, ok := cs.Tree[target]
				if !ok || (te.Kind != "" && te.Kind != tree.File) {
					continue
				}
				e = te
			} else if e.Kind != "" && e.Kind != tree.File {
				continue
			}
			if !strings.HasPrefix(p, prefix) || !strings.HasSuffix(p, cs.Ext) {
				continue
			}
			name := strings.TrimSuffix(strings.TrimPrefix(p, prefix), cs.Ext)
			if strings.Contains(e.Content, "@reserve") {
				layouts[name] = true
				continue
			}
			expected[name] = e.Content
		}
		var want []string
		for n := range expected {
			want = append(want, n)
		}
		sort.Strings(want)
		got := textwire.VerifNames(tpl)
		if !reflect.DeepEqual(append([]string{}, got...), append([]string{}, want...)) && !(len(got) == 0 && len(want) == 0) {
			failure = fmt.Sprintf("registered names %q, expected exactly %q", got, want)
			return
		}
		for n, content := range expected {
			out, ferr := tpl.String(n, nil)
			if strings.HasPrefix(content, "<nest>") {
				// component files that use component files (chains, cycles, themselves): loaded and
				// registered like any file; what rendering them gives is not this property's matter
				continue
			}
			if strings.HasPrefix(content, "@use(\"zbase\")") {
				content = "<html>home</html>" // the one page of these trees that uses a layout
			}
			if strings.HasPrefix(content, "@use(\"zshell\")") {
				content = "<shell>static</shell>"
			}
			if strings.HasPrefix(content, "@use(\"sub/abase\")") {
				content = "<base>static</base>"
			}
			if strings.HasPrefix(content, "@component(\"sub/zcomp\")") {
				content = "<zc>;<zc>;<zc>;<zc>;<zc>;" // ... and the one that uses a component
			}
			if strings.HasPrefix(content, "@component(\"zparts/\")") {
				content = "<zp>;<zp>;" // ... and a component whose file name is the extension alone
			}
			content = strings.ReplaceAll(content, "{{ 1 + 1 }}END", "2END") // (the tail of the big files)
			if ferr != nil || out != content {
				failure = fmt.Sprintf("template %q renders %q / %v, its file holds %q", n, clip(out, 300), ferr, clip(content, 300))
				if len(out) != len(content) {
					failure += fmt.Sprintf(" (%d bytes rendered, %d expected)", len(out), len(content))
				}
				return
			}
		}
		// unknown names, decoys and layouts are not found
		probe := []string{"nosuch", "", "a.tw", "a" + cs.Ext}
		for n := range layouts {
			probe = append(probe, n)
		}
		for p := range cs.Tree {
			if !strings.HasPrefix(p, prefix) {
				continue
			}
			rel := strings.TrimPrefix(p, prefix)
			probe = append(probe, rel, strings.Replace(rel, cs.Ext, "", 1), strings.TrimSuffix(rel, path.Ext(rel)), cs.RealDir+"/"+strings.TrimSuffix(rel, cs.Ext))
		}
		for _, n := range probe {
			if _, isReal := expected[n]; isReal {
				continue
			}
			out, ferr := tpl.String(n, nil)
			if ferr == nil {
				failure = fmt.Sprintf("name %q is not a template of the directory but renders %q", n, out)
				return
			}
			if !strings.Contains(ferr.Message(), "not found") {
				failure = fmt.Sprintf("name %q: expected 'not found', got %q", n, ferr.Message())
				return
			}
		}
		// evaluating a file by path equals evaluating its content as a string
		for n, content := range expected {
			if strings.Contains(content, "@use(") || strings.Contains(content, "@component(") {
				continue // layouts and components belong to the template API
			}
			abs := filepath.Join(root, filepath.FromSlash(prefix+n+cs.Ext))
			fo, ferr := textwire.EvaluateFile(abs, nil)
			so, serr := textwire.EvaluateString(content, nil)
			if fo != so || (ferr == nil) != (serr == nil) {
				failure = fmt.Sprintf("EvaluateFile(%q) = %q / %v, EvaluateString(content) = %q / %v", n, fo, ferr, so, serr)
				return
			}
		}
	})
	if pi != nil {
		return "panic: " + pi.Value
	}
	return failure
}

func TestC18_Addressing(t *testing.T) {
	c := harness.New(t, "C18", "addressing",
		"directory trees over names {a, b, idx, a.b, tw, names with a backslash, a blank or a percent sign} at depths {., sub, sub/deep, d<ext>/} with decoys whose names merely contain the extension (a<ext>.bak, a<ext>ig, n.txt inside a directory named x<ext>, a<ext><ext>, the bare extension) and garbage in decoys, one file in ten of 4 KiB to 128 KiB with a {{ }} block at its very end; template directory nested one or two levels and spelled t, t/, ./t, x/../t, t//, /t, t/sub/.., t/sub/../, t/., x/./../t (directory names may begin or end with a dot); extensions .tw, .tw.html, .html, .TW, .Tpl, .Tw.Html (letter case is part of an extension); one case in six leaves the directory, the extension, both or the whole configuration out (the documented defaults \"templates\" and \".tw.html\" apply). Oracle: the registered names (hook VerifNames) are exactly {relative path minus extension of every file whose name ends in the extension}; each renders its own content (files that use each other as components - chains, cycles, themselves - only have to load and be registered); decoys, unknown names and layouts (files with reserves) are reported as not found; EvaluateFile(path) == EvaluateString(content); and the Template loaded by the previous case still registers and renders what it did. Non-trivial: a nested directory, a decoy and a non-canonical spelling or a defaulted configuration. Distinct by hash.")
	defer c.Finish()
	runRapid(t, c, 2000, 24000, func(rt *rapid.T) {
		ext := rapid.SampledFrom([]string{".tw", ".tw.html", ".html", ".tw", ".TW", ".Tpl", ".Tw.Html"}).Draw(rt, "ext")
		realDir := rapid.SampledFrom([]string{"t", "x/t", "tpl/views", ".hidden/t", "t.d", "x/.t", "tpl./v."}).Draw(rt, "realDir")
		spell := rapid.SampledFrom([]string{"plain", "trailing", "dot", "parent", "double", "leading", "parent-at-end", "parent-at-end-slash", "dot-at-end", "dot-middle"}).Draw(rt, "spelling")
		dir := realDir
		switch spell {
		case "trailing":
			dir = realDir + "/"
		case "dot":
			dir = "./" + realDir
		case "parent":
			dir = "x/../" + realDir
		case "double":
			dir = realDir + "//"
		case "leading":
			dir = "/" + realDir
		case "parent-at-end":
			dir = realDir + "/sub/.."
		case "parent-at-end-slash":
			dir = realDir + "/sub/../"
		case "dot-at-end":
			dir = realDir + "/."
		case "dot-middle":
			dir = "x/./../" + realDir
		}
		cfgForm := "explicit"
		if rapid.IntRange(0, 5).Draw(rt, "defaults") == 0 {
			// what the configuration leaves out falls back to "templates" / ".tw.html"
			cfgForm = rapid.SampledFrom([]string{"nil", "empty", "dir-only", "ext-only"}).Draw(rt, "cfgForm")
			if cfgForm != "dir-only" {
				realDir, dir, spell = "templates", "templates", "plain"
			}
			if cfgForm != "ext-only" {
				ext = ".tw.html"
			}
		}
		tr := tree.Tree{"x/keep.txt": {Content: "not a template"}, realDir + "/sub/keep.txt": {Content: "not a template either"}}
		nFiles := rapid.IntRange(1, 6).Draw(rt, "nFiles")
		nested, decoy := false, false
		for i := 0; i < nFiles; i++ {
			sub := rapid.SampledFrom([]string{"", "sub/", "sub/deep/", "d" + ext + "/"}).Draw(rt, "sub")
			// (a backslash is an ordinary character of a file name here, not a separator: "sub\\b" in the
			// directory itself is another file than "b" in the directory sub)
			base := rapid.SampledFrom([]string{"a", "b", "idx", "a.b", "tw", "sub\\b", "x\\y", "q r", "50%"}).Draw(rt, "base")
			p := realDir + "/" + sub + base + ext
			content := "FILE:" + sub + base
			// a file is its bytes: a byte order mark, a carriage return, a final line break are text like any other
			content = rapid.SampledFrom([]string{"", "", "\xef\xbb\xbf", "\r\n", "\n", " "}).Draw(rt, "leadingBytes") + content + rapid.SampledFrom([]string{"", "", "\r\n", "\n", "\xef\xbb\xbf"}).Draw(rt, "trailingBytes")
			if rapid.IntRange(0, 9).Draw(rt, "bigFile") == 0 {
				// a file is its bytes, however many: 4 KiB, 64 KiB (to the byte) and more
				content += strings.Repeat("0123456789abcde\n", rapid.SampledFrom([]int{255, 256, 4095, 4096, 4097, 8192}).Draw(rt, "bigFileLines")) + "{{ 1 + 1 }}END"
			}
			if rapid.IntRange(0, 6).Draw(rt, "asLayout") == 0 {
				content += " @reserve(\"r\")"
			}
			tr[p] = tree.Entry{Content: content}
			if sub != "" {
				nested = true
			}
		}
		for i := rapid.IntRange(0, 4).Draw(rt, "nDecoys"); i > 0; i-- {
			sub := rapid.SampledFrom([]string{"", "sub/", "x" + ext + "/"}).Draw(rt, "dsub")
			name := rapid.SampledFrom([]string{"a" + ext + ".bak", "a" + ext + "ig", "n.txt", "a" + ext + "~", strings.TrimPrefix(ext, "."), "readme.md", "b" + ext + ".orig", "c" + otherCase(ext)}).Draw(rt, "decoy")
			if name == "n.txt" && sub == "" {
				sub = "x" + ext + "/"
			}
			tr[realDir+"/"+sub+name] = tree.Entry{Content: rapid.SampledFrom([]string{"{{ garbage", "@if(", "decoy", "{{ 1 + }}", "\x00\xff"}).Draw(rt, "garbage")}
			decoy = true
		}
		if rapid.IntRange(0, 3).Draw(rt, "symlink") == 0 {
			// a symbolic link to a regular file is a file of the directory like any other
			tr[realDir+"/target"+ext] = tree.Entry{Content: "FILE:target"}
			tr[realDir+"/sub/alias"+ext] = tree.Entry{Kind: tree.Symlink, Content: "../target" + ext}
		}
		if rapid.IntRange(0, 2).Draw(rt, "sectionLayout") == 0 {
			// a file that declares a reserve is a layout, also when it uses a layout itself
			tr[realDir+"/zbase"+ext] = tree.Entry{Content: "<html>@reserve(\"body\")</html>"}
			tr[realDir+"/zsection"+ext] = tree.Entry{Content: "@use(\"zbase\")@insert(\"body\")<main>@reserve(\"inner\")</main>@end"}
			tr[realDir+"/sub/zhome"+ext] = tree.Entry{Content: "@use(\"zbase\")@insert(\"body\")home@end"}
		}
		if rapid.IntRange(0, 2).Draw(rt, "componentRefs") == 0 {
			// a valid tree loads whatever the spelling of the relative paths inside it
			tr[realDir+"/sub/zcomp"+ext] = tree.Entry{Content: "<zc>"}
			tr[realDir+"/zuser"+ext] = tree.Entry{Content: "@component(\"sub/zcomp\");@component(\"/sub/zcomp\");@component(\"./sub/zcomp\");@component(\"sub//zcomp\");@component(\"sub/../sub/zcomp\");"}
		}
		if rapid.IntRange(0, 3).Draw(rt, "emptyStem") == 0 {
			// a file named by the extension alone is registered under its directory's name plus a slash, and a reference spelled
			// that way names it (not a file next to the directory)
			tr[realDir+"/zparts/"+ext] = tree.Entry{Content: "<zp>"}
			tr[realDir+"/zpartsuser"+ext] = tree.Entry{Content: "@component(\"zparts/\");@component(\"./zparts/\");"}
			if rapid.Bool().Draw(rt, "emptyStemSibling") {
				tr[realDir+"/zparts"+ext] = tree.Entry{Content: "FILE:zparts"}
			}
		}
		if rapid.IntRange(0, 2).Draw(rt, "nestedComponents") == 0 {
			// files that use each other as components - in a chain, in a cycle of two or three, or
			// themselves - are files of the directory like any other: the directory loads and registers them
			switch rapid.SampledFrom([]string{"chain", "cycle2", "cycle3", "self", "cycle-and-page"}).Draw(rt, "nestShape") {
			case "chain":
				tr[realDir+"/zn1"+ext] = tree.Entry{Content: "<nest>1@component(\"zn2\");"}
				tr[realDir+"/zn2"+ext] = tree.Entry{Content: "<nest>2@component(\"sub/zn3\");"}
				tr[realDir+"/sub/zn3"+ext] = tree.Entry{Content: "<nest>3"}
			case "cycle2":
				tr[realDir+"/zn1"+ext] = tree.Entry{Content: "<nest>1@component(\"zn2\");"}
				tr[realDir+"/zn2"+ext] = tree.Entry{Content: "<nest>2@component(\"zn1\");"}
			case "cycle3":
				tr[realDir+"/zn1"+ext] = tree.Entry{Content: "<nest>1@component(\"sub/zn2\");"}
				tr[realDir+"/sub/zn2"+ext] = tree.Entry{Content: "<nest>2@component(\"zn3\");"}
				tr[realDir+"/zn3"+ext] = tree.Entry{Content: "<nest>3@component(\"zn1\");"}
			case "self":
				tr[realDir+"/zn1"+ext] = tree.Entry{Content: "<nest>1@component(\"zn1\");"}
			default:
				tr[realDir+"/an0"+ext] = tree.Entry{Content: "<nest>0@component(\"components/zleft\");"}
				tr[realDir+"/components/zleft"+ext] = tree.Entry{Content: "<nest>L@component(\"~zright\");"}
				tr[realDir+"/components/zright"+ext] = tree.Entry{Content: "<nest>R@component(\"~zleft\");"}
			}
		}
		if rapid.IntRange(0, 2).Draw(rt, "plainFileAsLayout") == 0 {
			// a file without reserves stays a page of its own, also when another page names it in @use
			// (whichever of the two sorts first)
			tr[realDir+"/ahome"+ext] = tree.Entry{Content: "@use(\"zshell\")ignored"}
			tr[realDir+"/zshell"+ext] = tree.Entry{Content: "<shell>static</shell>"}
			tr[realDir+"/sub/zpage"+ext] = tree.Entry{Content: "@use(\"sub/abase\")ignored"}
			tr[realDir+"/sub/abase"+ext] = tree.Entry{Content: "<base>static</base>"}
		}
		if rapid.Bool().Draw(rt, "doubleExt") {
			tr[realDir+"/dbl"+ext+ext] = tree.Entry{Content: "FILE:dbl" + ext}
		}
		cs := addrCase{Tree: tr, Dir: dir, RealDir: realDir, Ext: ext, NilConfig: cfgForm == "nil",
			OmitDir: cfgForm == "empty" || cfgForm == "ext-only", OmitExt: cfgForm == "empty" || cfgForm == "dir-only"}
		nt := nested && decoy && (spell != "plain" || cfgForm != "explicit")
		c.Case(nt, mustJSON(cs), "spelling:"+spell, "ext:"+ext, "config:"+cfgForm)
		if nt {
			c.Sample(map[string]any{"dir": dir, "ext": ext, "paths": tr.Paths()})
		}
		if f := c18Addr(c, cs); f != "" {
			c.Fail(rt, kindOf(f), cs, "exactly the files ending in the extension", f, f)
		}
	})
}

// ---------------------------------------------------------------- part B: fault enumeration

func parsesAlone(src string) bool {
	ok := false
	harness.Safe(func() {
		p := parser.New(lexer.New(src), "")
		p.ParseProgram()
		ok = len(p.Errors()) == 0
	})
	return ok
}

func c18Fault(c *harness.Check, cs faultCase) string {
	root, err := tree.Materialise(cs.Tree)
	if err != nil {
		return ""
	}
	var failure string
	pi := c.Guard("json", mustJSON(cs), func() {
		textwire.VerifReset()
		dir := "t"
		if cs.Dir != "" {
			dir = cs.Dir
		}
		tpl, lerr := textwire.NewTemplate(&config.Config{TemplateDir: dir, TemplateExt: ".tw"})
		if (tpl == nil) == (lerr == nil) {
			failure = fmt.Sprintf("NewTemplate returned (%v, %v): neither a template nor an error alone", tpl, lerr)
			return
		}
		if !cs.MustFail {
			return
		}
		if lerr == nil {
			failure = fmt.Sprintf("templates loaded although %s was %s", cs.Faulty, cs.Op)
			return
		}
		msg := strings.ReplaceAll(lerr.Error(), root, "<root>")
		for _, m := range cs.Mention {
			if strings.Contains(msg, m) {
				return
			}
		}
		failure = fmt.Sprintf("load error does not identify the faulty file (any of %q): %s", cs.Mention, msg)
	})
	if pi != nil {
		return "panic: " + pi.Value
	}
	return failure
}

// c18ValidTree: a page with a layout and a component (plus an independent page).
func c18ValidTree(rt *rapid.T) (tree.Tree, map[string]string) {
	fill := func() string {
		return strings.Join(rapid.SliceOfN(rapid.SampledFrom([]string{"text ", "{{ 1 + 2 }}", "\n", "@if(true)y@end", "{{ \"s\" }}", "<p>é</p>", "{{-- c --}}", "@each(i in [1, 2]){{ i }}@end"}), 0, 3).Draw(rt, "fill"), "")
	}
	// names are paths like any other: percent signs (and what looks like a formatting verb) included
	lay, comp, page, other := "main", "comp", "page", "other"
	if rapid.IntRange(0, 2).Draw(rt, "percentNames") == 0 {
		lay, comp, page, other = "main%2", "co%mp", "50%off/page", "other%s%d"
	}
	files := map[string]string{
		"t/layouts/" + lay + ".tw": fill() + "<html>@reserve(\"title\")" + fill() + "@reserve(\"body\")</html>",
		"t/" + comp + ".tw":        fill() + "<c>{{ v }}@slot(\"s\")" + fill() + "</c>",
		"t/" + page + ".tw":        "@use(\"~" + lay + "\")@insert(\"title\", \"T\")@insert(\"body\")" + fill() + "@component(\"" + comp + "\", {v: 1})\n@slot(\"s\")x@end\n@end;" + fill() + "@end",
		"t/" + other + ".tw":       fill() + "other page",
	}
	role := map[string]string{"t/layouts/" + lay + ".tw": "layout", "t/" + comp + ".tw": "component", "t/" + page + ".tw": "page", "t/" + other + ".tw": "page"}
	// further component uses at nesting positions that run: branches of @if, bodies and @else blocks of loops
	positions := []string{"@if(true)%s@end", "@if(false)a@else%s@end", "@each(i in [1])%s@end", "@each(i in [])n@else%s@end", "@for(i = 0; i < 1; i++)%s@end",
		"@for(i = 0; i < 0; i++)n@else%s@end", "@if(false)a@elseif(true)%s@end", "@each(i in [1])@if(i == 1)@each(j in [])n@else%s@end@end@end"}
	uses := ""
	for _, i := range rapid.SliceOfNDistinct(rapid.IntRange(0, len(positions)-1), 3, 3, rapid.ID[int]).Draw(rt, "usePositions") {
		name := fmt.Sprintf("p%d", i)
		uses += fmt.Sprintf(positions[i], "@component(\""+name+"\");")
		files["t/"+name+".tw"] = "<" + name + ">"
		role["t/"+name+".tw"] = "component"
	}
	if rapid.Bool().Draw(rt, "usesInInsert") {
		files["t/"+page+".tw"] = strings.TrimSuffix(files["t/"+page+".tw"], "@end") + uses + "@end"
	} else {
		files["t/"+other+".tw"] += uses
	}
	tr := tree.Tree{}
	for p, s := range files {
		tr[p] = tree.Entry{Content: s}
	}
	return tr, role
}

func TestC18_FaultEnumeration(t *testing.T) {
	c := harness.New(t, "C18", "fault-enumeration",
		"for generated valid directories (names plain or with percent signs; page + layout + component + independent page + three more components used in a branch of an @if / @elseif / @else, in the body or the @else of an @each / @for, or in the @else of a loop nested in a loop pass): every file x {deleted, truncated at every byte prefix, replaced by garbage (lexeme soup), replaced by a component use whose slots are never closed followed by each directive in turn, dangling symbolic link, directory in its place}. a template directory that does not exist, is misspelled or leads through a regular file; NewTemplate must return without panic or hang either (nil, error) or (template, nil). It must fail with an error naming the damaged file's path when that file is syntactically wrong by itself (decided by parsing it alone) or unreadable, and naming the layout/component (by name or path) when such a file is absent. Non-trivial: the fault is in a layout or component. Every (file, operator, prefix) of each generated tree is enumerated.")
	defer c.Finish()
	alpha := c08Alphabet()
	runRapid(t, c, 12, 180, func(rt *rapid.T) {
		base, role := c18ValidTree(rt)
		// the undamaged tree must load
		if f := c18Fault(c, faultCase{Tree: base, Op: "nothing"}); f != "" {
			c.Fail(rt, kindOf(f), faultCase{Tree: base, Op: "nothing"}, "loads", f, f)
		}
		run := func(cs faultCase) {
			r := role[cs.Faulty]
			c.Case(r != "page", mustJSON(cs), "op:"+cs.Op, "role:"+r, fmt.Sprintf("must-fail:%v", cs.MustFail))
			if r != "page" && c.S.Evals%397 == 0 {
				c.Sample(map[string]any{"faulty": cs.Faulty, "op": cs.Op, "must_fail": cs.MustFail, "content": cs.Tree[cs.Faulty].Content})
			}
			if f := c18Fault(c, cs); f != "" {
				c.Fail(rt, kindOf(f), cs, "clean failure naming the file", f, f)
			}
		}
		absent := func(p string) []string {
			switch role[p] {
			case "layout":
				return []string{strings.TrimSuffix(strings.TrimPrefix(p, "t/"), ".tw"), strings.TrimSuffix(path.Base(p), ".tw")}
			case "component":
				return []string{strings.TrimSuffix(path.Base(p), ".tw")}
			}
			return nil
		}
		// the template directory itself is absent, misspelled, or a path through a regular file: loading fails and says which directory
		anyFile := base.Paths()[0]
		for _, d := range []string{"tt", "T", "t/gone", "t2/t", anyFile + "/views"} {
			// (a template directory that is itself a regular file is taken as a one-file tree: no statement speaks about it)
			run(faultCase{Tree: base, Faulty: d, Op: "template-directory-unusable", MustFail: true, Mention: []string{d}, Dir: d})
		}
		for _, p := range base.Paths() {
			content := base[p].Content
			// deleted / directory in its place: the file is absent
			for _, op := range []string{"deleted", "directory"} {
				tr := base.Clone()
				delete(tr, p)
				if op == "directory" {
					tr[p] = tree.Entry{Kind: tree.Dir}
				}
				m := absent(p)
				run(faultCase{Tree: tr, Faulty: p, Op: op, MustFail: m != nil, Mention: m})
			}
			// dangling symbolic link: unreadable
			tr := base.Clone()
			tr[p] = tree.Entry{Kind: tree.Symlink, Content: "nowhere/" + path.Base(p)}
			// (reported as unreadable, or - when a file that uses it is looked at first - as an absent layout / component)
			run(faultCase{Tree: tr, Faulty: p, Op: "dangling-symlink", MustFail: true, Mention: append([]string{p, path.Base(p)}, absent(p)...)})
			// truncated at every byte prefix
			for cut := 0; cut < len(content); cut++ {
				tr := base.Clone()
				tr[p] = tree.Entry{Content: content[:cut]}
				bad := !parsesAlone(content[:cut])
				run(faultCase{Tree: tr, Faulty: p, Op: fmt.Sprintf("truncated@%d", cut), MustFail: bad, Mention: []string{p}})
			}
			// a component use with a slot that is never closed, followed by each directive in turn: whatever token the parser
			// stumbles over, it reports it
			for _, f := range []string{"@dump(1)", "@if(true)y@end", "@each(i in [1])y@end", "@for(i = 0; i < 1; i++)y@end", "{{ 1 }}", "@use(\"~x\")", "@insert(\"a\", 1)", "@reserve(\"r\")", "@break", "@continue",
				"@breakIf(true)", "@continueIf(true)", "@else", "@elseif(true)", "@slot", "@component(\"comp\")", "text", "{{-- c --}}", ""} {
				src := "@component(\"comp\")\n@slot(\"s\")x@end\n" + f + "\n"
				tr := base.Clone()
				tr[p] = tree.Entry{Content: src}
				run(faultCase{Tree: tr, Faulty: p, Op: "unclosed-use-then-directive", MustFail: !parsesAlone(src), Mention: []string{p}})
			}
			// garbage
			for g := 0; g < 6; g++ {
				soup := strings.Join(rapid.SliceOfN(rapid.SampledFrom(alpha), 1, 10).Draw(rt, "soup"), "")
				if strings.IndexByte(soup, 0) >= 0 {
					continue
				}
				tr := base.Clone()
				tr[p] = tree.Entry{Content: soup}
				bad := !parsesAlone(soup)
				run(faultCase{Tree: tr, Faulty: p, Op: "garbage", MustFail: bad, Mention: []string{p}})
			}
		}
	})
}

// ---------------------------------------------------------------- file == string == single-page template

type apiCase struct {
	Src  string     `json:"src"`
	Data *spec.Data `json:"data,omitempty"`
}

func init() {
	harness.RegisterReplayer("C18/file-equals-string", func(raw json.RawMessage) string {
		cs, err := unJSON[apiCase](raw)
		if err != nil {
			return "bad case: " + err.Error()
		}
		return c18APIs(harness.New(nopTB{}, "C18", "replay", ""), cs)
	})
}

// c18APIs renders one source through EvaluateString, EvaluateFile and as the
// only page of a template directory: same output, same error-ness, same message.
func c18APIs(c *harness.Check, cs apiCase) string {
	root, err := tree.Materialise(tree.Tree{"t/sub/page.tw": {Content: cs.Src}})
	if err != nil {
		return ""
	}
	var failure string
	pi := c.Guard("json", mustJSON(cs), func() {
		so, serr := textwire.EvaluateString(cs.Src, cs.Data.GoMap())
		fo, ferr := textwire.EvaluateFile(filepath.Join(root, "t", "sub", "page.tw"), cs.Data.GoMap())
		if so != fo || (serr == nil) != (ferr == nil) || (serr != nil && serr.Error() != ferr.Error()) {
			failure = fmt.Sprintf("EvaluateString: %q / %v; EvaluateFile of the same content: %q / %v", so, serr, fo, ferr)
			return
		}
		textwire.VerifReset()
		tpl, lerr := textwire.NewTemplate(&config.Config{TemplateDir: "t", TemplateExt: ".tw"})
		if lerr != nil {
			// a parse error: the string API must report the same message and line
			if serr == nil || errMessage(serr.Error()) != errMessage(lerr.Error()) {
				failure = fmt.Sprintf("loading fails (%v) but EvaluateString gives %q / %v", lerr, so, serr)
			}
			return
		}
		to, terr := tpl.String("sub/page", cs.Data.GoMap())
		if to != so || (terr == nil) != (serr == nil) {
			failure = fmt.Sprintf("EvaluateString: %q / %v; the same source as a page: %q / %v", so, serr, to, terr)
			return
		}
		if terr != nil {
			sl, _, _ := errLine(serr.Error())
			if terr.Message() != errMessage(serr.Error()) || int(terr.Line()) != sl {
				failure = fmt.Sprintf("error differs between the APIs: string %q line %d, page %q line %d", errMessage(serr.Error()), sl, terr.Message(), terr.Line())
			}
		}
	})
	if pi != nil {
		return "panic: " + pi.Value
	}
	return failure
}

func TestC18_FileEqualsString(t *testing.T) {
	c := harness.New(t, "C18", "file-equals-string",
		"generated programs (branches, loops, assignments, built-in calls, multi-line layouts, deliberate run-time faults) with generated data rendered three ways: EvaluateString(content), EvaluateFile(path of a file with that content) and String() of the only page of a directory holding that file: same output, same error-ness, same message and line. (Sources with layout/component directives are not generated: in a directory they mean something else.) Non-trivial: the program has a construct. Distinct by hash.")
	defer c.Finish()
	runRapid(t, c, 1500, 20000, func(rt *rapid.T) {
		env := genProgEnv().Draw(rt, "data")
		g := newProgGen(rt, env)
		g.wIf, g.wLoop, g.wAssign, g.wCtl = 3, 3, 3, 2
		prog := g.block(3, false)
		src := tw.PrintStmts(prog, genLayout().Draw(rt, "layout")).Src
		cs := apiCase{Src: src, Data: env.D}
		nt := strings.ContainsAny(src, "{@")
		c.Case(nt, src+mustJSON(env.D))
		if nt && c.S.Evals%50 == 0 {
			c.Sample(src)
		}
		if f := c18APIs(c, cs); f != "" {
			c.Fail(rt, kindOf(f), cs, "three APIs agree", f, f)
		}
	})
}

// otherCase returns ext in another letter case (a different extension).
func otherCase(ext string) string {
	if up := strings.ToUpper(ext); up != ext {
		return up
	}
	return strings.ToLower(ext)
}
