package checks

import (
	"encoding/json"
	"fmt"
	"hash/fnv"
	"net/http/httptest"
	"strings"
	"testing"

	textwire "github.com/textwire/textwire/v2"
	"github.com/textwire/textwire/v2/config"
	"pgregory.net/rapid"
	"verif/lib/harness"
	"verif/lib/spec"
	"verif/lib/tree"
	"verif/lib/tw"
)

// C09 — evaluation never panics.

// evalCase: a template and data; the only expectation is "returns output or an
// error, no panic, and an error raised during evaluation carries a line within
// the template".
type evalCase struct {
	Src  string     `json:"src"`
	Data *spec.Data `json:"data,omitempty"`
	Note string     `json:"note,omitempty"`
}

func (cs evalCase) sample() map[string]any {
	m := map[string]any{"src": cs.Src}
	if cs.Data != nil {
		d := map[string]string{}
		for i, k := range cs.Data.Keys {
			d[k] = spec.Describe(cs.Data.Vals[i])
		}
		m["data"] = d
	}
	return m
}

func init() {
	for _, n := range []string{"builtin-table", "random-programs", "operators-table", "for-clauses"} {
		harness.RegisterReplayer("C09/"+n, func(raw json.RawMessage) string {
			cs, err := unJSON[evalCase](raw)
			if err != nil {
				return "bad case: " + err.Error()
			}
			c := harness.New(nopTB{}, "C09", "replay", "")
			_, f := c09Run(c, cs, "json", mustJSON(cs))
			return f
		})
	}
}

// c09Response renders the case as the page of a template directory through
// Response, with a custom error page that itself fails or does not exist
// (debug off): whatever fails, the call returns.
func c09Response(c *harness.Check, cs evalCase, kind, payload string, variant uint32) string {
	if _, err := tree.Materialise(tree.Tree{"t/page.tw": {Content: cs.Src}, "t/oops.tw": {Content: "<h1>{{ message }}</h1>"}, "t/fine.tw": {Content: "<h1>error</h1>"}}); err != nil {
		return ""
	}
	failure := ""
	pi := c.Guard(kind, payload, func() {
		textwire.VerifReset()
		tpl, err := textwire.NewTemplate(&config.Config{TemplateDir: "t", TemplateExt: ".tw", ErrorPagePath: []string{"oops", "nosuch", "fine", ""}[variant%4], DebugMode: variant%8 >= 6})
		if err != nil {
			return // a source that does not parse: nothing to render
		}
		w := httptest.NewRecorder()
		rerr := tpl.Response(w, "page", cs.Data.GoMap())
		_, serr := tpl.String("page", cs.Data.GoMap())
		if (rerr == nil) != (serr == nil) {
			failure = fmt.Sprintf("Response returned %v although String returns %v", rerr, serr)
		}
	})
	if pi != nil {
		return "through Response with a custom error page: panic: " + pi.Value
	}
	return failure
}

func c09Run(c *harness.Check, cs evalCase, kind, payload string) (Result, string) {
	r := evalString(c, kind, payload, cs.Src, cs.Data.GoMap())
	if r.Panic != nil {
		return r, "panic: " + r.Panic.Value
	}
	// one case in 64 (by its content) also goes through Template.Response
	if h := fnv.New32a(); !strings.Contains(cs.Src, "\x00") {
		h.Write([]byte(cs.Src))
		h.Write([]byte(mustJSON(cs.Data)))
		if v := h.Sum32(); v%64 == 0 {
			c.Class("also-through:Response+custom-error-page")
			if f := c09Response(c, cs, kind, payload, v/64); f != "" {
				return r, f
			}
		}
	}
	if r.IsErr() {
		if r.Out != "" {
			return r, "error together with output"
		}
		line, _, ok := errLine(r.Err)
		if !ok {
			return r, "error text without the '[Textwire ERROR:line]' header: " + r.Err
		}
		_, dataOK := cs.Data.Model()
		if cs.Data.Get("loop") != nil {
			dataOK = false
		}
		lines := strings.Count(cs.Src, "\n") + 1
		if dataOK && (line < 1 || line > lines) {
			return r, fmt.Sprintf("error line %d outside the template's lines 1..%d: %s", line, lines, r.Err)
		}
	}
	return r, ""
}

// ---------------------------------------------------------------- built-in table

var allBuiltinNames = []string{
	"len", "split", "raw", "trim", "trimRight", "trimLeft", "upper", "lower", "capitalize", "reverse", "contains", "truncate", "decimal", "at", "first", "last", "repeat",
	"join", "rand", "slice", "shuffle", "append", "prepend",
	"int", "str", "abs", "ceil", "floor", "round", "float", "binary", "then", "nosuchfunc",
}

func c09Receivers() []string {
	return []string{
		`""`, `"a"`, `"héllo"`, `"日本語"`, `"abc def"`, `"  x  "`, `"12"`, `"-5"`, `"<b>&amp;</b>"`, `"a,b,,c"`,
		`[]`, `[1]`, `[1, 2, 3]`, `["a", "b"]`, `[[1], [2]]`, `[{a: 1}]`, `[1, "a", nil]`, `[nil]`,
		`0`, `1`, `(-1)`, `9223372036854775807`, `(-9223372036854775807 - 1)`, `12345`,
		`0.0`, `1.5`, `(-1.5)`, `99999999999999999999.0`, `0.0000001`, `(0.0 / 0.0)`, `(1.0 / 0.0)`,
		`true`, `false`, `nil`, `{a: 1}`, `{}`,
	}
}

var c09ArgValues = []string{
	`-4`, `-1`, `0`, `1`, `2`, `3`, `4`, `(-9223372036854775807 - 1)`, `9223372036854775807`,
	`""`, `"é"`, `", "`, `nil`, `true`, `1.5`, `[]`, `{}`, `[1]`, `{a: 1}`,
}

func TestC09_BuiltinTable(t *testing.T) {
	c := harness.New(t, "C09", "builtin-table",
		"every built-in name (and an unknown name) called on receivers of every type (empty/ASCII/multi-byte strings, empty/nested/mixed arrays, boundary integers incl. MinInt64/MaxInt64, floats incl. NaN/Inf/huge, booleans, nil, objects) with argument tuples of length 0, 1 (all 19 values: negative/zero/boundary counts and indexes, MinInt64, MaxInt64, strings, nil, bool, float, array, object), 2 (all pairs) and 3 (sampled). Oracle: output or error, never a panic; error line within the template. Non-trivial: >= 1 argument or a multi-byte/boundary receiver. Distinct by construction.")
	defer c.Finish()
	recvs := c09Receivers()
	idx := 0
	run := func(recv, fn string, args []string) {
		idx++
		if !harness.Mine(idx) {
			return
		}
		src := "{{ " + recv + "." + fn + "(" + strings.Join(args, ", ") + ") }}"
		cs := evalCase{Src: src}
		c.CaseEnum(len(args) > 0 || strings.ContainsAny(recv, "é日9("), "args:"+fmt.Sprint(len(args)))
		if idx%9973 == 0 {
			c.Sample(src)
		}
		if r, f := c09Run(c, cs, "raw", src); f != "" {
			c.Fail(t, failKind(r), cs, "output or error", r, f)
		}
	}
	for _, recv := range recvs {
		for _, fn := range allBuiltinNames {
			run(recv, fn, nil)
			for _, a := range c09ArgValues {
				run(recv, fn, []string{a})
			}
			for i, a := range c09ArgValues {
				for j, b := range c09ArgValues {
					if !harness.Thorough() && (i*7+j)%3 != 0 {
						continue
					}
					run(recv, fn, []string{a, b})
				}
			}
			for k := 0; k < len(c09ArgValues); k++ {
				run(recv, fn, []string{c09ArgValues[k], c09ArgValues[(k*5+3)%len(c09ArgValues)], c09ArgValues[(k*11+7)%len(c09ArgValues)]})
			}
		}
	}
	c.ExhaustivePart(fmt.Sprintf("%d receivers x %d function names x argument tuples (all of length 0 and 1; pairs: all in thorough, a third in quick; 19 triples)", len(recvs), len(allBuiltinNames)))
}

func TestC09_OperatorsTable(t *testing.T) {
	c := harness.New(t, "C09", "operators-table",
		"every binary operator on every ordered pair of operand kinds (int, boundary ints, float, NaN, string, bool, nil, array, object, data-supplied struct and nil pointer), every unary/postfix operator on every kind, index and property access with every receiver/index kind (incl. empty property name, negative and oversized indexes), @each over every kind, ternary/@if on every kind. Oracle: output or error, never a panic. Non-trivial: operand kinds differ or a boundary value is involved. Distinct by construction.")
	defer c.Finish()
	data := (&spec.Data{}).Add("st", spec.Struct([]string{"A"}, []*spec.Value{spec.IntOf(spec.TInt, 1)})).Add("np", spec.NilPtr(spec.T(spec.TInt))).
		Add("ps", spec.Ptr(spec.Struct([]string{"B"}, []*spec.Value{spec.NilPtr(spec.T(spec.TString))}))).Add("bs", spec.BytesString([]byte{0xff, 'a'})).
		Add("arr", spec.Slice(spec.T(spec.TAny), spec.NilAny(), spec.Any(spec.IntOf(spec.TInt, 1)))).Add("m", spec.Map(spec.T(spec.TAny), []string{"", "k"}, []*spec.Value{spec.NilAny(), spec.Any(spec.IntOf(spec.TInt, 2))}))
	vals := []string{`1`, `0`, `(-1)`, `9223372036854775807`, `(-9223372036854775807 - 1)`, `1.5`, `0.0`, `(0.0 / 0.0)`, `"a"`, `""`, `true`, `false`, `nil`, `[]`, `[1, 2]`, `{}`, `{a: 1}`, `st`, `np`, `ps`, `bs`, `arr`, `m`, `st.a`, `ps.b`, `arr[0]`, `m[""]`}
	idx := 0
	run := func(src string, nt bool) {
		idx++
		if !harness.Mine(idx) {
			return
		}
		cs := evalCase{Src: src, Data: data}
		c.CaseEnum(nt)
		if idx%499 == 0 {
			c.Sample(src)
		}
		if r, f := c09Run(c, cs, "json", mustJSON(cs)); f != "" {
			c.Fail(t, failKind(r), cs, "output or error", r, f)
		}
	}
	for _, a := range vals {
		for _, op := range binOps {
			for _, b := range vals {
				run("{{ "+a+" "+op+" "+b+" }}", a != b)
			}
		}
		for _, u := range []string{"-%s", "!%s", "%s++", "%s--", "%s.x", "%s.len()", "%s[0]", "%s[-1]", "%s[9223372036854775807]", `%s[""]`, `%s["a"]`, "%s[nil]", "%s[1.5]", "%s ? 1 : 2", "%s[[]]", "%s[{}]"} {
			run("{{ "+fmt.Sprintf(u, a)+" }}", true)
		}
		run("@each(x in "+a+"){{ x }}@else e@end", true)
		run("@each(x in [1, 2])@breakIf("+a+")@continueIf("+a+")@end", true)
		run("@if("+a+")a@elseif("+a+")b@end", true)
		run("{{ x = "+a+"; x = "+a+"; x }}", true)
		run("@dump("+a+", "+a+")", true)
		run("@for(i = "+a+"; false; i++)@end", true)
		run("@for(i = 0; i < 2; "+a+")x@break@end", true)
		run("@for(i = 0; "+a+"; i++)@break@end", true)
		run(`@insert("x", `+a+`)@reserve("x")@use("y")@component("c", {a: `+a+`})@slot("s")`, true)
	}
	c.ExhaustivePart(fmt.Sprintf("%d operand spellings: all ordered pairs x 11 binary operators; 16 unary/index/property forms; statement headers", len(vals)))
}

func TestC09_ForClauses(t *testing.T) {
	c := harness.New(t, "C09", "for-clauses",
		"@for with every subset of its three clauses absent (each such loop has an unconditional @break or a false condition so that a result is due), with the break at top level of the body and under @if, with and without @else, and with non-assignment init/post statements. Oracle: output or error, no panic, no hang (watchdog). Non-trivial: at least one clause absent. Distinct by construction.")
	defer c.Finish()
	inits := []string{"", "i = 0", "i", "1"}
	conds := []string{"", "i < 2", "false", "true", "0"}
	posts := []string{"", "i++", "i = i + 1", "1", "i--"}
	bodies := []string{"x@break", "x@if(true)@break@end", "@breakIf(true)x", "x@continueIf(false)@break y"}
	idx := 0
	for _, in := range inits {
		for _, cd := range conds {
			for _, po := range posts {
				for _, b := range bodies {
					for _, els := range []string{"", "@else E"} {
						idx++
						if !harness.Mine(idx) {
							continue
						}
						src := "a@for(" + in + "; " + cd + "; " + po + ")" + b + els + "@end b"
						cs := evalCase{Src: src, Data: (&spec.Data{}).Add("i", spec.IntOf(spec.TInt, 0))}
						if in != "" && in != "i" {
							cs.Data = nil
						}
						c.CaseEnum(in == "" || cd == "" || po == "")
						if idx%41 == 0 {
							c.Sample(src)
						}
						if r, f := c09Run(c, cs, "json", mustJSON(cs)); f != "" {
							c.Fail(t, failKind(r), cs, "output or error", r, f)
						}
					}
				}
			}
		}
	}
	c.ExhaustivePart("4 init x 5 condition x 5 post forms x 4 bodies x else/no else")
}

// ---------------------------------------------------------------- untyped programs

type anyGen struct {
	names []string // data names
	hot   string   // the variable of the enclosing @each: used often in its body, so that one place sees values of several kinds
}

func (g *anyGen) expr(rt *rapid.T, depth int) *tw.Expr {
	if depth <= 0 {
		return g.leaf(rt)
	}
	sub := func() *tw.Expr { return g.expr(rt, depth-1) }
	switch rapid.IntRange(0, 14).Draw(rt, "anyForm") {
	case 0, 1:
		return g.leaf(rt)
	case 2:
		return tw.Un(rapid.SampledFrom([]string{tw.ENeg, tw.ENot, tw.EInc, tw.EDec}).Draw(rt, "un"), sub())
	case 3, 4, 5:
		return tw.Bin(rapid.SampledFrom(binOps).Draw(rt, "op"), sub(), sub())
	case 6:
		return tw.Tern(sub(), sub(), sub())
	case 7, 8:
		return tw.Index(sub(), sub())
	case 9:
		return tw.Dot(sub(), rapid.SampledFrom([]string{"a", "name", "Name", "len", "x", "inner", "k", "_id", "name_", "first__name", "_", "__x", "a_b", "first_name"}).Draw(rt, "prop"))
	case 10, 11:
		n := rapid.IntRange(0, 3).Draw(rt, "nargs")
		args := make([]*tw.Expr, n)
		for i := range args {
			args[i] = sub()
		}
		return tw.Call(sub(), rapid.SampledFrom(allBuiltinNames).Draw(rt, "fn"), args...)
	case 12:
		n := rapid.IntRange(0, 3).Draw(rt, "arrLen")
		el := make([]*tw.Expr, n)
		for i := range el {
			el[i] = sub()
		}
		return tw.Arr(el...)
	default:
		n := rapid.IntRange(0, 3).Draw(rt, "objLen")
		keys := rapid.SliceOfNDistinct(rapid.SampledFrom([]string{"a", "b", "name", "k"}), n, n, rapid.ID[string]).Draw(rt, "objKeys")
		vals := make([]*tw.Expr, n)
		for i := range vals {
			vals[i] = sub()
		}
		return tw.Obj(keys, vals)
	}
}

func (g *anyGen) leaf(rt *rapid.T) *tw.Expr {
	if g.hot != "" && rapid.IntRange(0, 2).Draw(rt, "loopVar") == 0 {
		return tw.Var(g.hot)
	}
	if rapid.IntRange(0, 24).Draw(rt, "rawSpelling") == 0 {
		// spellings the printer never produces: pairs without a value whose key is not a name, repeated and quoted keys,
		// trailing and doubled separators, empty literals, blanks and line breaks at odd places
		return tw.Raw(rapid.SampledFrom([]string{`{"name"}`, `{'a', b}`, `{1}`, `{nil}`, `{true}`, `{name}`, `{name, }`, `{x, name: 1}`, `{"a": 1, }`, `[1, ]`, `[, 1]`, `[1,, 2]`, `{a: 1, a: 2}`, `{1: 2}`,
			`{"a b": 1}`, `{a: }`, `{: 1}`, `{,}`, `{a b}`, `{a: 1 b: 2}`, `{"a" 1}`, `{a.b}`, `{a: {b}}`, `{[1]}`, `{-1}`, `{1.5}`, `{"x".len()}`, `{x: x, x}`, `[ ]`, `{ }`, `( )`, `(1, 2)`, `{a:
1}`, `[1
,
2]`,
			`x . len ( )`, `1 . str()`, `1.str()`, `1..str()`, `"a" "b"`, `'a''b'`, `1 2`, `x y`, `true false`, `nil nil`, `x ?`, `x ? 1`, `x ? 1 :`, `? 1 : 2`, `x[`, `x[]`, `x[1`, `x.`, `.x`, `x..y`, `x.1`, `x."a"`, `x.(a)`,
			`x.len(`, `x.len(,)`, `x.len(1,)`, `x.len)(`, `++`, `x ++ ++`, `++x`, `- -`, `!`, `1 +`, `+ 1`, `* 2`, `1 + * 2`, `1 = 2`, `"a" = 1`, `x = `, `= 1`, `x = y = 1`, `x; `, `; x`, `x;; y`, `x = 1; x`, `;`}).Draw(rt, "raw"))
	}
	switch rapid.IntRange(0, 9).Draw(rt, "leafForm") {
	case 0, 1:
		return intLit(rapid.SampledFrom([]int64{0, 1, -1, 2, 3, 5, 1000, 999999, 1 << 31, 9223372036854775807, -9223372036854775808, -5}).Draw(rt, "int"))
	case 2:
		if rapid.IntRange(0, 11).Draw(rt, "oddNumber") == 0 {
			// number-like lexemes the literal parsers may refuse: refused means a parse
			// error, never a program with a hole in it
			return rapid.SampledFrom([]*tw.Expr{tw.Float(0, "1.2.3"), tw.Float(0, "0.0.0"), tw.Int(0, "99999999999999999999"), tw.Float(0, "999999999999999999999999999999.5"), tw.Int(0, "007"), tw.Float(0, "1.5.")}).Draw(rt, "odd")
		}
		return floatLit(rapid.SampledFrom([]float64{0, 0.5, -1.5, 2.25, 1e10, 123456.789}).Draw(rt, "float"))
	case 3, 4:
		return strLit(rt, rapid.SampledFrom([]string{"", "a", "héllo", "日本", "12", "a b c", "<i>", "x,y", "  pad  ", "_", "a__b", "name_", "_x"}).Draw(rt, "str"))
	case 5:
		return tw.Bool(rapid.Bool().Draw(rt, "bool"))
	case 6:
		return tw.Nil()
	default:
		if len(g.names) > 0 && rapid.IntRange(0, 5).Draw(rt, "unknownName") > 0 {
			return tw.Var(rapid.SampledFrom(g.names).Draw(rt, "name"))
		}
		return tw.Var(rapid.SampledFrom([]string{"zz", "loop", "x", "i"}).Draw(rt, "unk"))
	}
}

func (g *anyGen) stmts(rt *rapid.T, depth int) []*tw.Stmt {
	n := rapid.IntRange(0, 4).Draw(rt, "nstmts")
	var out []*tw.Stmt
	for i := 0; i < n; i++ {
		k := rapid.IntRange(0, 17).Draw(rt, "stmtKind")
		if depth <= 0 && k >= 6 && k <= 9 {
			k = 1
		}
		e := func() *tw.Expr { return g.expr(rt, rapid.IntRange(0, 3).Draw(rt, "edepth")) }
		switch k {
		case 0:
			out = append(out, tw.Text(rapid.SampledFrom(plainTexts).Draw(rt, "text")))
		case 1, 2, 3:
			out = append(out, tw.Print(e()))
		case 4, 5:
			out = append(out, tw.Assign(rapid.SampledFrom([]string{"x", "y", "loop", "i"}).Draw(rt, "an"), e()))
		case 6, 7:
			st := &tw.Stmt{Kind: tw.SIf}
			for b := rapid.IntRange(1, 3).Draw(rt, "nbr"); b > 0; b-- {
				st.Branches = append(st.Branches, tw.Branch{Cond: e(), Body: g.stmts(rt, depth-1)})
			}
			if rapid.Bool().Draw(rt, "else") {
				st.HasElse, st.Else = true, g.stmts(rt, depth-1)
			}
			out = append(out, st)
		case 8:
			st := &tw.Stmt{Kind: tw.SEach, Name: rapid.SampledFrom([]string{"x", "v", "loop"}).Draw(rt, "ev"), E: e()}
			if rapid.IntRange(0, 3).Draw(rt, "mixedArray") == 0 {
				// elements of different kinds: what the body does to the loop variable meets each of them in turn
				n := rapid.IntRange(2, 4).Draw(rt, "nMixed")
				el := make([]*tw.Expr, n)
				for j := range el {
					el[j] = g.expr(rt, rapid.IntRange(0, 1).Draw(rt, "mixedDepth"))
				}
				st.E = tw.Arr(el...)
			}
			hot := g.hot
			g.hot = st.Name
			st.Body = g.stmts(rt, depth-1)
			g.hot = hot
			if rapid.Bool().Draw(rt, "else") {
				st.HasElse, st.Else = true, g.stmts(rt, depth-1)
			}
			out = append(out, st)
		case 9:
			// bounded by construction: the condition compares the loop variable,
			// which the body never assigns, with a small bound
			st := &tw.Stmt{Kind: tw.SFor, Name: "q", Init: intLit(0), Cond: tw.Bin("<", tw.Var("q"), intLit(int64(rapid.IntRange(0, 3).Draw(rt, "bound")))), Post: tw.Un(tw.EInc, tw.Var("q")), Body: g.stmts(rt, depth-1)}
			out = append(out, st)
		case 10:
			out = append(out, rapid.SampledFrom([]*tw.Stmt{{Kind: tw.SBreak}, {Kind: tw.SContinue}}).Draw(rt, "ctl"), tw.Text(" "))
		case 11:
			out = append(out, &tw.Stmt{Kind: rapid.SampledFrom([]string{tw.SBreakIf, tw.SContinueIf}).Draw(rt, "ctlIf"), E: e()})
		case 12:
			out = append(out, &tw.Stmt{Kind: tw.SDump, Args: []*tw.Expr{e(), e()}})
		case 13:
			out = append(out, &tw.Stmt{Kind: tw.SInsert, Name: fmt.Sprintf("n%d%d", depth, i), E: e()}, &tw.Stmt{Kind: tw.SReserve, Name: "n"})
		case 14:
			out = append(out, &tw.Stmt{Kind: tw.SComponent, Name: "comp", Arg: tw.Obj([]string{"a"}, []*tw.Expr{e()})}, tw.Text("."))
		case 15:
			out = append(out, &tw.Stmt{Kind: tw.SUse, Name: "~lay"})
		case 17:
			// one small site - a call, an index, a property, an operator - that meets values of
			// several kinds in the passes of one loop, with little else in the body that could fail first
			n := rapid.IntRange(2, 4).Draw(rt, "nMixed")
			el := make([]*tw.Expr, n)
			for j := range el {
				el[j] = rapid.SampledFrom([]*tw.Expr{tw.Str("ab"), intLit(-7), floatLit(2.5), tw.Bool(true), tw.Arr(intLit(1), intLit(2)), tw.Arr(tw.Str("x")), tw.Obj([]string{"a"}, []*tw.Expr{intLit(1)}), tw.Str(""), intLit(0), tw.Nil(), tw.Arr()}).Draw(rt, "mixedEl")
			}
			// (a loop variable keeps its kind, so the values come wrapped: v[0], v.a, or [..][q] in a @for)
			form := rapid.IntRange(0, 2).Draw(rt, "mixedLoopForm")
			var v *tw.Expr
			var loop *tw.Stmt
			switch form {
			case 0:
				for j := range el {
					el[j] = tw.Arr(el[j])
				}
				v = tw.Index(tw.Var("v"), intLit(0))
				loop = &tw.Stmt{Kind: tw.SEach, Name: "v", E: tw.Arr(el...)}
			case 1:
				for j := range el {
					el[j] = tw.Obj([]string{"a"}, []*tw.Expr{el[j]})
				}
				v = tw.Dot(tw.Var("v"), "a")
				loop = &tw.Stmt{Kind: tw.SEach, Name: "v", E: tw.Arr(el...)}
			default:
				v = tw.Index(tw.Arr(el...), tw.Var("q"))
				loop = &tw.Stmt{Kind: tw.SFor, Name: "q", Init: intLit(0), Cond: tw.Bin("<", tw.Var("q"), intLit(int64(n))), Post: tw.Un(tw.EInc, tw.Var("q"))}
			}
			site := rapid.SampledFrom([]*tw.Expr{
				tw.Call(v, rapid.SampledFrom([]string{"len", "str", "reverse", "first", "last", "abs", "int", "float", "upper", "join", "then", "binary", "decimal", "raw", "trim"}).Draw(rt, "siteFn")),
				tw.Call(v, "contains", intLit(1)), tw.Call(v, "at", intLit(0)), tw.Call(v, "slice", intLit(0)), tw.Call(v, "append", intLit(3)), tw.Call(v, "repeat", intLit(2)),
				tw.Index(v, intLit(0)), tw.Index(v, tw.Str("a")), tw.Dot(v, "a"), tw.Bin("+", v, v), tw.Bin("*", v, v), tw.Bin("<", v, v), tw.Un(tw.ENeg, v), tw.Un(tw.EInc, v), tw.Un(tw.ENot, v),
				tw.Tern(v, intLit(1), intLit(2)), tw.Call(tw.Index(tw.Arr(v), intLit(0)), "len"), tw.Call(tw.Tern(tw.Bool(true), v, intLit(0)), "str"),
			}).Draw(rt, "site")
			loop.Body = []*tw.Stmt{tw.Print(site), tw.Text(",")}
			out = append(out, loop)
		default:
			out = append(out, &tw.Stmt{Kind: tw.SSlot, Name: rapid.SampledFrom([]string{"", "s"}).Draw(rt, "slot")}, tw.Text(" "))
		}
	}
	return out
}

func TestC09_RandomPrograms(t *testing.T) {
	c := harness.New(t, "C09", "random-programs",
		"programs from an untyped generator: any expression kind in any position (operators on any operand types, dot/index/call on any receiver, every built-in name with 0..3 arguments of any kind, array/object literals with failing entries; one leaf in 25 is a spelling no printer produces - pairs without a value whose key is a string, number or keyword, repeated and quoted keys, trailing and doubled separators, juxtaposed operands, operators without operands, unfinished ternaries, indexes and calls), every statement kind in any position (control directives outside loops, @use/@reserve/@insert/@slot/@component in string mode), bounded loops, @each over any value and over literal arrays whose elements are of different kinds with the loop variable used all over the body (one call, index or operator site meeting several kinds in one render); data maps with every kind (boundary integers, empty/non-ASCII/invalid UTF-8 strings, nil pointers at every pointer position, values of unsupported kinds nested at any depth, loop as a key). Oracle: output or error, no panic, error line within the template. Non-trivial: evaluation was reached (parse succeeded) and the program has >= 1 operator/call/index. Distinct by hash of source + data.")
	defer c.Finish()
	runRapid(t, c, 40000, 450000, func(rt *rapid.T) {
		nData := rapid.IntRange(0, 5).Draw(rt, "nData")
		names := rapid.SliceOfNDistinct(rapid.SampledFrom([]string{"a", "b", "name", "items", "user", "x", "n", "loop"}), nData, nData, rapid.ID[string]).Draw(rt, "dataNames")
		var data *spec.Data
		if nData > 0 || rapid.Bool().Draw(rt, "emptyMap") {
			data = &spec.Data{}
			for _, n := range names {
				if n == "loop" && rapid.IntRange(0, 3).Draw(rt, "keepLoop") > 0 {
					continue
				}
				data.Add(n, genSpecValue(3, true).Draw(rt, "dv"))
			}
		}
		g := &anyGen{names: names}
		prog := g.stmts(rt, 2)
		src := tw.PrintStmts(prog, genLayout().Draw(rt, "layout")).Src
		cs := evalCase{Src: src, Data: data}
		r, f := c09Run(c, cs, "json", mustJSON(cs))
		_, dataOK := data.Model()
		parseFail := r.IsErr() && (strings.Contains(r.Err, "expected next token") || strings.Contains(r.Err, "no prefix parse") || strings.Contains(r.Err, "could not parse") || strings.Contains(r.Err, "illegal token"))
		nt := !parseFail && dataOK && strings.ContainsAny(src, "+-*/%.[<>=!?")
		classes := []string{}
		switch {
		case parseFail:
			classes = append(classes, "parse-failure")
		case !dataOK:
			classes = append(classes, "unsupported-data")
		case r.IsErr():
			classes = append(classes, "runtime-error")
		default:
			classes = append(classes, "rendered")
		}
		c.Case(nt, src+"|"+mustJSON(data), classes...)
		if nt {
			c.Sample(cs.sample())
		}
		if f != "" {
			c.Fail(rt, failKind(r), cs, "output or error", r, f)
		}
	})
}
