package checks

import (
	"encoding/json"
	"fmt"
	"net/http/httptest"
	"strings"
	"testing"

	textwire "github.com/textwire/textwire/v2"
	"github.com/textwire/textwire/v2/config"
	"pgregory.net/rapid"

	"verif/lib/harness"
	"verif/lib/tree"
	"verif/lib/tw"
)

// C10/error-pages: the output of a failing page served with debug mode on is
// the built-in error page, which shows the message of the error. Where that
// message quotes a string literal of the template (a property that is not
// found, written as a literal index), the literal's text is in the output as
// everywhere else: escaped.

type errPageCase struct {
	Content string `json:"content"`
	Quote   string `json:"quote"`
	Form    string `json:"form"`
}

var c10ErrForms = map[string]string{
	"missing-property-by-literal-index": "<p>{{ user[LIT] }}</p>",
	"missing-property-of-literal":       "<p>{{ {a: 1}[LIT] }}</p>",
	"literal-index-in-loop":             "@each(u in [user])<p>{{ u[LIT] }}</p>@end",
	"literal-in-failing-concatenation":  "<p>{{ LIT + 1 }}</p>",
	"literal-as-failing-receiver":       "<p>{{ LIT.zzNoSuchFn() }}</p>",
	"literal-argument-of-failing-call":  "<p>{{ 'a'.repeat(LIT) }}</p>",
	"literal-in-insert-of-failing-page": "@use(\"~l\")@insert(\"r\", user[LIT])",
	"literal-as-component-name-part":    "<p>{{ user[LIT] }}</p>@component(\"comp\", {x: LIT});",
}

func c10ErrPage(c *harness.Check, cs errPageCase) string {
	marked := "zq" + cs.Content + "qz"
	lit := tw.QuoteStr(marked, cs.Quote)
	page := strings.ReplaceAll(c10ErrForms[cs.Form], "LIT", lit)
	if _, err := tree.Materialise(tree.Tree{"t/page.tw": {Content: page}, "t/layouts/l.tw": {Content: "<t>@reserve(\"r\")</t>"}, "t/comp.tw": {Content: "<c>{{ x }}</c>"}}); err != nil {
		return ""
	}
	failure := ""
	pi := c.Guard("json", mustJSON(cs), func() {
		textwire.VerifReset()
		tpl, lerr := textwire.NewTemplate(&config.Config{TemplateDir: "t", TemplateExt: ".tw", DebugMode: true})
		if lerr != nil {
			failure = "harness: the directory does not load: " + lerr.Error()
			return
		}
		w := httptest.NewRecorder()
		rerr := tpl.Response(w, "page", map[string]any{"user": map[string]any{"name": "Ann"}})
		if rerr == nil {
			failure = "harness: the page did not fail"
			return
		}
		body := w.Body.String()
		if c10Escape(marked) != marked && strings.Contains(body, marked) {
			failure = fmt.Sprintf("the literal's text %q is in the error page unescaped: %s", marked, clip(body[strings.Index(body, marked)-min(40, strings.Index(body, marked)):], 200))
		}
	})
	textwire.VerifReset()
	if pi != nil {
		return "panic: " + pi.Value
	}
	if strings.HasPrefix(failure, "harness:") {
		c.Class(failure)
		return ""
	}
	return failure
}

func init() {
	harness.RegisterReplayer("C10/error-pages", func(raw json.RawMessage) string {
		cs, err := unJSON[errPageCase](raw)
		if err != nil {
			return "bad case: " + err.Error()
		}
		return c10ErrPage(harness.New(nopTB{}, "C10", "replay", ""), cs)
	})
}

func TestC10_ErrorPages(t *testing.T) {
	c := harness.New(t, "C10", "error-pages",
		fmt.Sprintf("random literal contents of 0..6 pieces (between two marker letters), both quote styles, in %d pages that fail at the literal's place - a property that is not found, named by a literal index (of a data object, of an object literal, in a loop, in a short-form insert), the literal in a failing concatenation, as receiver or argument of a failing call - served through Response with debug mode on: the body (the built-in error page with the error's message) does not contain the literal's text unescaped. Non-trivial: the content has one of < > &. Distinct by hash.", len(c10ErrForms)))
	defer c.Finish()
	forms := make([]string, 0, len(c10ErrForms))
	for f := range c10ErrForms {
		forms = append(forms, f)
	}
	sortStrings(forms)
	runRapid(t, c, 1500, 20000, func(rt *rapid.T) {
		content := strings.Join(rapid.SliceOfN(rapid.SampledFrom(c10Pieces), 0, 6).Draw(rt, "content"), "")
		cs := errPageCase{Content: content, Quote: rapid.SampledFrom([]string{"\"", "'"}).Draw(rt, "quote"), Form: rapid.SampledFrom(forms).Draw(rt, "form")}
		nt := strings.ContainsAny(content, "<>&")
		c.Case(nt, mustJSON(cs), "form:"+cs.Form)
		if nt {
			c.Sample(cs)
		}
		if f := c10ErrPage(c, cs); f != "" {
			c.Fail(rt, kindOf(f), cs, "the literal escaped", f, f)
		}
	})
}
