package checks

import (
	"fmt"
	"strings"
	"testing"

	"pgregory.net/rapid"
	"verif/lib/harness"
	"verif/lib/refint"
	"verif/lib/tw"
)

// C06 — a page using a layout renders the layout with reserves filled by its inserts.

func init() { registerTreeReplayer("C06/layouts", "C06/errors", "C06/subsets-enum") }

var reserveNames = []string{"r0", "r1", "r2", "r3"}

// genLayoutFile generates a layout with k distinct reserves at various nesting
// positions. The layout reads only data names and its own loop variable.
func genLayoutFile(rt *rapid.T, k int) ([]*tw.Stmt, map[string]string) {
	where := map[string]string{}
	var out []*tw.Stmt
	// a counter of the layout that inserts at top-level reserves may step
	out = append(out, tw.Text("<html>\n"), tw.Assign("cnt", intLit(0)))
	for i := 0; i < k; i++ {
		name := reserveNames[i]
		res := &tw.Stmt{Kind: tw.SReserve, Name: name}
		switch rapid.IntRange(0, 7).Draw(rt, "reservePlace") {
		case 6:
			// in the @else of a loop (rendered when the array is empty) or of a @for
			where[name] = "in-loop-else"
			arr := rapid.SampledFrom([]*tw.Expr{tw.Arr(), tw.Var("ea"), tw.Arr(intLit(1))}).Draw(rt, "elseArr")
			out = append(out, &tw.Stmt{Kind: tw.SEach, Name: "le", E: arr, Body: []*tw.Stmt{tw.Text("<el>")}, HasElse: true, Else: []*tw.Stmt{tw.Text("<none>"), res, tw.Text("</none>")}})
		case 7:
			// in an @elseif branch, or in the @else of a @for nested in the @else of that @if (one reserve, one place)
			where[name] = "in-elseif"
			elseifBody, forElse := []*tw.Stmt{tw.Text("<ei>"), res}, []*tw.Stmt{tw.Text("<fe>")}
			if rapid.Bool().Draw(rt, "inForElse") {
				where[name] = "in-for-else"
				elseifBody, forElse = []*tw.Stmt{tw.Text("<ei>")}, []*tw.Stmt{tw.Text("<fe>"), res}
			}
			out = append(out, &tw.Stmt{Kind: tw.SIf, Branches: []tw.Branch{{Cond: tw.Bool(false), Body: []*tw.Stmt{tw.Text("no")}}, {Cond: tw.Var("b1"), Body: elseifBody}}, HasElse: true, Else: []*tw.Stmt{
				{Kind: tw.SFor, Name: "fi", Init: intLit(0), Cond: tw.Bin("<", tw.Var("fi"), intLit(0)), Post: tw.Un(tw.EInc, tw.Var("fi")), Body: []*tw.Stmt{tw.Text("never")}, HasElse: true, Else: forElse}}})
		case 0, 1:
			where[name] = "top"
			out = append(out, tw.Text(fmt.Sprintf("<s%d>", i)), res, tw.Text(fmt.Sprintf("</s%d>\n", i)))
		case 2:
			where[name] = "in-if"
			cond := rapid.SampledFrom([]*tw.Expr{tw.Var("b1"), tw.Bool(true), tw.Bool(false), tw.Bin(">", tw.Var("i1"), intLit(0)), tw.Var("s1")}).Draw(rt, "reserveCond")
			st := &tw.Stmt{Kind: tw.SIf, Branches: []tw.Branch{{Cond: cond, Body: []*tw.Stmt{tw.Text("["), res, tw.Text("]")}}}}
			if rapid.Bool().Draw(rt, "ifElse") {
				st.HasElse, st.Else = true, []*tw.Stmt{tw.Text("(no " + name + ")")}
			}
			out = append(out, st)
		case 3:
			where[name] = "in-each"
			arr := rapid.SampledFrom([]*tw.Expr{tw.Var("ai"), tw.Arr(intLit(1), intLit(2)), tw.Arr(), tw.Var("as"), tw.Arr(intLit(7))}).Draw(rt, "reserveArr")
			out = append(out, &tw.Stmt{Kind: tw.SEach, Name: "li", E: arr, Body: []*tw.Stmt{tw.Text("<li>"), tw.Print(tw.Dot(tw.Var("loop"), "index")), tw.Text(":"), res, tw.Text("</li>")}})
		case 4:
			where[name] = "in-attribute"
			out = append(out, tw.Text("<div class=\""), res, tw.Text("\" id='x'>"), tw.Text("</div>\n"))
		default:
			where[name] = "nested"
			out = append(out, &tw.Stmt{Kind: tw.SIf, Branches: []tw.Branch{{Cond: tw.Bool(true), Body: []*tw.Stmt{
				{Kind: tw.SEach, Name: "li", E: tw.Arr(intLit(1), intLit(2)), Body: []*tw.Stmt{{Kind: tw.SIf, Branches: []tw.Branch{{Cond: tw.Dot(tw.Var("loop"), "first"), Body: []*tw.Stmt{res}}}, HasElse: true, Else: []*tw.Stmt{tw.Text("-")}}}},
			}}}})
		}
		if rapid.Bool().Draw(rt, "layoutPrint") {
			out = append(out, tw.Print(rapid.SampledFrom([]*tw.Expr{tw.Var("s1"), tw.Var("i1"), tw.Bin("+", tw.Var("i1"), intLit(1)), tw.Str("lit")}).Draw(rt, "layoutExpr")))
		}
	}
	out = append(out, tw.Text("#"), tw.Print(tw.Var("cnt")), tw.Text("</html>\n"))
	return out, where
}

// genInsertBody: block content without assignments (what a block-form insert's
// variables would be visible to is not settled by the statement).
func genInsertBody(rt *rapid.T, env *dataEnv) []*tw.Stmt {
	g := newProgGen(rt, env)
	g.wIf, g.wLoop, g.wAssign, g.wCtl = 3, 2, 0, 1
	g.fewFailures = true
	if c06InsertComps != nil {
		// component uses at any nesting position of the insert's body (their files are collected here)
		g.comps, g.wComp = c06InsertComps, 4
	}
	return g.block(2, false)
}

// c06InsertComps, when set, makes insert bodies contain component uses.
var c06InsertComps refint.Files

func genPage(rt *rapid.T, env *dataEnv, layoutRef string, k int, where map[string]string) ([]*tw.Stmt, map[string]string) {
	forms := map[string]string{}
	page := []*tw.Stmt{{Kind: tw.SUse, Name: layoutRef}}
	// (what stands outside the inserts is not rendered, whatever it is: text, comments, blocks, prints, directives)
	junk := []string{"\n", "\n\n", "<p>outside</p>\n", " ", "IGNORED", "{{-- c --}}", "@if(true)<p>OUTSIDE-IF</p>@end", "@each(zz in [1, 2])OUTSIDE-EACH{{ zz }}@end",
		"{{ \"OUTSIDE-PRINT\" }}", "@if(zzUndefinedOutside)x@end\n", "@for(zq = 0; zq < 2; zq++)OUTSIDE-FOR@end", "@dump(1)", "{{ 1 / 0 }}"}
	order := rapid.Permutation([]int{0, 1, 2, 3}[:k]).Draw(rt, "insertOrder")
	for _, i := range order {
		if rapid.IntRange(0, 3).Draw(rt, "omitInsert") == 0 {
			continue
		}
		page = append(page, tw.Text(rapid.SampledFrom(junk).Draw(rt, "junk")))
		ins := &tw.Stmt{Kind: tw.SInsert, Name: reserveNames[i]}
		// the insert takes the reserve's place: where the reserve sits inside a
		// loop of the layout, the insert may use that loop's variable and metadata
		inLoop := where[reserveNames[i]] == "in-each" || where[reserveNames[i]] == "nested"
		usesLoop := inLoop && rapid.IntRange(0, 2).Draw(rt, "usesLayoutLoop") > 0
		if rapid.Bool().Draw(rt, "blockForm") {
			ins.Block = true
			ins.Body = genInsertBody(rt, env)
			if usesLoop {
				ins.Body = append(ins.Body, tw.Text("@"), tw.Print(tw.Var("li")), tw.Text("#"), tw.Print(tw.Dot(tw.Var("loop"), "iter")))
				forms[ins.Name+"/uses-layout-loop"] = "block"
			}
			forms[ins.Name] = "block"
			if w := where[reserveNames[i]]; (w == "top" || w == "in-attribute") && rapid.Bool().Draw(rt, "stepsLayoutCounter") {
				// the body replaces the reserve: it can read and step a variable of the layout
				ins.Body = append(ins.Body, tw.Assign("cnt", tw.Bin("+", tw.Var("cnt"), intLit(1))), tw.Text("@"), tw.Print(tw.Var("cnt")))
				forms[ins.Name+"/assigns-layout-variable"] = "block"
			}
		} else {
			eg := &exprGen{env: env}
			ins.E = eg.gen(rt, rapid.SampledFrom([]refint.Kind{refint.KInt, refint.KStr, refint.KBool}).Draw(rt, "insK"), 2)
			if usesLoop {
				ins.E = rapid.SampledFrom([]*tw.Expr{tw.Var("li"), tw.Bin("*", tw.Dot(tw.Var("loop"), "index"), intLit(10)), tw.Tern(tw.Dot(tw.Var("loop"), "last"), tw.Str("LAST"), tw.Str("more"))}).Draw(rt, "loopExpr")
				forms[ins.Name+"/uses-layout-loop"] = "expr"
			}
			forms[ins.Name] = "expr"
		}
		page = append(page, ins)
	}
	page = append(page, tw.Text(rapid.SampledFrom(junk).Draw(rt, "junkEnd")))
	// @use need not be the first statement of the page
	if at := rapid.IntRange(0, len(page)-1).Draw(rt, "usePosition"); at > 0 && rapid.Bool().Draw(rt, "useNotFirst") {
		use := page[0]
		page = append(append(append([]*tw.Stmt{}, page[1:at+1]...), use), page[at+1:]...)
		forms["use-not-first"] = "yes"
	}
	return page, forms
}

func TestC06_Layouts(t *testing.T) {
	c := harness.New(t, "C06", "layouts",
		"template directories with a layout (1..4 distinct reserves at top level, inside @if(data flag), inside @each(data array) with loop.index, in attribute-like text, nested @if/@each/@if, in the @else of an @each / @for, in an @elseif branch) and a page using it by '~name', 'layouts/name' or another spelling of that path (/layouts/name, ./layouts/name, layouts//name, pages/../layouts/name; names with dots, dashes and digits included), the @use standing before, between or after the inserts, inserting a random subset of the reserves in random order, block form (markers, prints of data, @if/@each bodies, component uses at any nesting position of the body, steps of a counter the layout declares and prints at its end) or expression form, with junk between the inserts (text, comments, blank lines, @if / @each / @for blocks, prints, @dump, expressions that would fail); data maps with every kind; directory 't' or 'x/t', extensions .tw / .tw.html / .html. Expected output: the reference composition model (layout rendered with each reserve replaced by the reference rendering of its insert, page text outside inserts discarded). Non-trivial: >= 2 reserves, one nested in @if/@each, and a proper non-empty subset inserted. Distinct by hash of files + data.")
	defer c.Finish()
	in := interp()
	runRapid(t, c, 4000, 45000, func(rt *rapid.T) {
		env := genProgEnv().Draw(rt, "data")
		k := rapid.IntRange(1, 4).Draw(rt, "nReserves")
		layout, where := genLayoutFile(rt, k)
		alias := rapid.Bool().Draw(rt, "alias")
		// a template name is any relative path: dots, dashes and digits in its last element included
		base := rapid.SampledFrom([]string{"main", "main", "base.v2", "1.page", "a-b_c", "x.min", "site.layout"}).Draw(rt, "layoutName")
		lname, ref := "layouts/"+base, "layouts/"+base
		if alias {
			ref = "~" + base
		} else {
			// other spellings of the same relative path
			ref = rapid.SampledFrom([]string{"layouts/" + base, "layouts/" + base, "/layouts/" + base, "./layouts/" + base, "layouts//" + base, "pages/../layouts/" + base}).Draw(rt, "refSpelling")
		}
		if rapid.Bool().Draw(rt, "componentsInInserts") {
			c06InsertComps = refint.Files{}
		}
		page, forms := genPage(rt, env, ref, k, where)
		files := refint.Files{lname: layout, "pages/home": page}
		compsInInserts := len(c06InsertComps)
		for n, f := range c06InsertComps {
			files[n] = f
		}
		c06InsertComps = nil
		// other pages of the same directory that use the same layout (with no
		// inserts, or with their own) must not see this page's inserts
		others := []string{}
		if rapid.Bool().Draw(rt, "siblingPages") {
			files["pages/ablank"] = []*tw.Stmt{{Kind: tw.SUse, Name: ref}, tw.Text("\nnothing inserted\n")}
			files["pages/zblank"] = []*tw.Stmt{{Kind: tw.SUse, Name: ref}, tw.Text("ignored")}
			files["pages/zother"] = []*tw.Stmt{{Kind: tw.SUse, Name: ref}, {Kind: tw.SInsert, Name: "r0", E: tw.Str("OTHER-PAGE")}}
			others = []string{"pages/ablank", "pages/zblank", "pages/zother"}
		}
		if rapid.Bool().Draw(rt, "secondLayout") {
			files["layouts/other"] = []*tw.Stmt{tw.Text("OTHER"), {Kind: tw.SReserve, Name: "r0"}}
			files["plain"] = []*tw.Stmt{tw.Text("plain page "), tw.Print(tw.Var("i1"))}
		}
		if le := refint.Validate(files); le != nil {
			c.Class("harness:generated-tree-invalid")
			return
		}
		out, facts := in.RenderPage(files, "pages/home", env.Model)
		lay := genLayout().Draw(rt, "layout")
		cs := treeCase{Files: printFiles(files, lay), Dir: rapid.SampledFrom([]string{"t", "x/t", "tpl"}).Draw(rt, "dir"),
			Ext: rapid.SampledFrom([]string{".tw", ".tw.html", ".html"}).Draw(rt, "ext"), Page: "pages/home", Data: env.D, Want: wantFromOut(out)}
		nested := 0
		for _, w := range where {
			if w == "in-if" || w == "in-each" || w == "nested" {
				nested++
			}
		}
		usesLoop := 0
		for f := range forms {
			if strings.HasSuffix(f, "/uses-layout-loop") {
				usesLoop++
				delete(forms, f)
			}
		}
		nt := k >= 2 && nested > 0 && len(forms) > 0 && len(forms) < k
		classes := []string{"outcome:" + out.St.String(), fmt.Sprintf("reserves:%d", k), fmt.Sprintf("inserted:%d", len(forms))}
		for _, w := range where {
			classes = append(classes, "reserve:"+w)
		}
		for _, f := range forms {
			classes = append(classes, "insert:"+f)
		}
		if facts["reserve-filled"] >= 2 {
			classes = append(classes, "filled>=2-times")
		}
		if usesLoop > 0 {
			classes = append(classes, "insert-uses-layout-loop")
		}
		if compsInInserts > 0 {
			classes = append(classes, "insert-with-component-uses")
		}
		if out.St == refint.Unspec {
			classes = append(classes, "unspecified:"+firstWords(out.Why, 4))
		}
		c.Case(nt, mustJSON(cs.Files)+mustJSON(env.D), classes...)
		if nt {
			c.Sample(cs.sample())
		}
		if r, f := runTreeCase(c, cs); f != "" {
			c.Fail(rt, kindOf(f), cs, cs.Want, r, f)
		}
		for _, other := range others {
			oout, _ := in.RenderPage(files, other, env.Model)
			ocs := cs
			ocs.Page, ocs.Want = other, wantFromOut(oout)
			c.Case(true, other+mustJSON(cs.Files)+mustJSON(env.D), "sibling-page")
			if r, f := runTreeCase(c, ocs); f != "" {
				c.Fail(rt, kindOf(f), ocs, ocs.Want, r, f)
			}
		}
	})
}

func TestC06_SubsetsEnum(t *testing.T) {
	c := harness.New(t, "C06", "subsets-enum",
		"one layout with three reserves (top level, inside @if(flag), inside @each(items)) x every subset of the three inserts x every assignment of block/expression form x both flag values x array lengths 0..2 x every insert order: exhaustive. Non-trivial: a proper non-empty subset. Distinct by construction.")
	defer c.Finish()
	in := interp()
	layout := []*tw.Stmt{tw.Text("<h1>"), {Kind: tw.SReserve, Name: "title"}, tw.Text("</h1>"),
		{Kind: tw.SIf, Branches: []tw.Branch{{Cond: tw.Var("flag"), Body: []*tw.Stmt{tw.Text("<aside>"), {Kind: tw.SReserve, Name: "side"}, tw.Text("</aside>")}}}, HasElse: true, Else: []*tw.Stmt{tw.Text("<noaside>")}},
		{Kind: tw.SEach, Name: "it", E: tw.Var("items"), Body: []*tw.Stmt{tw.Text("<li>"), tw.Print(tw.Var("it")), tw.Text("="), {Kind: tw.SReserve, Name: "row"}, tw.Text("</li>")}, HasElse: true, Else: []*tw.Stmt{tw.Text("<none>")}},
		tw.Text("<end>")}
	names := []string{"title", "side", "row"}
	perms := [][]int{{0, 1, 2}, {0, 2, 1}, {1, 0, 2}, {1, 2, 0}, {2, 0, 1}, {2, 1, 0}}
	idx := 0
	for subset := 0; subset < 8; subset++ {
		for formBits := 0; formBits < 8; formBits++ {
			for _, perm := range perms {
				for _, flag := range []bool{false, true} {
					for n := 0; n <= 2; n++ {
						idx++
						if !harness.Mine(idx) {
							continue
						}
						page := []*tw.Stmt{{Kind: tw.SUse, Name: "~base"}, tw.Text("\nignored text\n")}
						for _, i := range perm {
							if subset&(1<<i) == 0 {
								continue
							}
							ins := &tw.Stmt{Kind: tw.SInsert, Name: names[i]}
							if formBits&(1<<i) != 0 {
								ins.Block = true
								ins.Body = []*tw.Stmt{tw.Text("B" + names[i] + "("), tw.Print(tw.Var("who")), tw.Text(")")}
								if names[i] == "row" {
									ins.Body = append(ins.Body, tw.Print(tw.Var("it")), tw.Print(tw.Dot(tw.Var("loop"), "index")))
								}
							} else {
								ins.E = tw.Bin("+", tw.Str("E"+names[i]+":"), tw.Var("who"))
								if names[i] == "row" {
									ins.E = tw.Bin("+", ins.E, tw.Var("it"))
								}
							}
							page = append(page, ins, tw.Text("\n"))
						}
						items := make([]string, n)
						for i := range items {
							items[i] = fmt.Sprintf("i%d", i)
						}
						env := &dataEnv{}
						_ = env
						data := specData(map[string]any{"flag": flag, "who": "W", "items": items})
						model, _ := data.Model()
						files := refint.Files{"layouts/base": layout, "home": page}
						out, _ := in.RenderPage(files, "home", model)
						cs := treeCase{Files: printFiles(files, nil), Dir: "t", Ext: ".tw", Page: "home", Data: data, Want: wantFromOut(out)}
						nt := subset != 0 && subset != 7
						c.CaseEnum(nt, fmt.Sprintf("inserted:%d", strings.Count(fmt.Sprintf("%b", subset), "1")))
						if nt && idx%307 == 0 {
							c.Sample(cs.sample())
						}
						if r, f := runTreeCase(c, cs); f != "" {
							c.Fail(t, kindOf(f), cs, cs.Want, r, f)
						}
					}
				}
			}
		}
	}
	c.ExhaustivePart("8 subsets x 8 form assignments x 6 orders x 2 flags x 3 array lengths")
}

func TestC06_Errors(t *testing.T) {
	c := harness.New(t, "C06", "errors",
		"error classes of the statement, each embedded in an otherwise valid generated tree: an insert naming no reserve of the layout (block and expression form), two inserts with one name, a missing layout file (a name that exists nowhere, or only in another letter case, as a prefix or an extension of the real name), a layout that itself uses a layout (its @use first, last, or inside a branch or loop body, taken or not with the data of the call; naming another layout or itself), an insert into a used file that declares no reserve at all; loading must fail (or, for the recursive layout, loading or rendering). Non-trivial: all. Distinct by hash.")
	defer c.Finish()
	runRapid(t, c, 600, 7500, func(rt *rapid.T) {
		env := genProgEnv().Draw(rt, "data")
		k := rapid.IntRange(1, 3).Draw(rt, "nReserves")
		layout, _ := genLayoutFile(rt, k)
		page, _ := genPage(rt, env, "~main", k, nil)
		files := refint.Files{"layouts/main": layout, "home": page}
		kind := rapid.SampledFrom([]string{"undefined-insert-block", "undefined-insert-expr", "duplicate-insert", "missing-layout", "layout-uses-layout", "insert-into-layout-without-reserves"}).Draw(rt, "errorKind")
		cs := treeCase{Dir: "t", Ext: ".tw", Page: "home", Data: env.D, LoadErr: true, Note: kind}
		switch kind {
		case "undefined-insert-block":
			files["home"] = append(page, &tw.Stmt{Kind: tw.SInsert, Name: "nosuch", Block: true, Body: []*tw.Stmt{tw.Text("x")}})
		case "undefined-insert-expr":
			files["home"] = append(page, &tw.Stmt{Kind: tw.SInsert, Name: "nosuch", E: tw.Str("x")})
		case "duplicate-insert":
			files["home"] = append(page, &tw.Stmt{Kind: tw.SInsert, Name: "r0", E: tw.Str("x")}, tw.Text("\n"), &tw.Stmt{Kind: tw.SInsert, Name: "r0", E: tw.Str("y")})
		case "insert-into-layout-without-reserves":
			// the used file declares no reserve at all: every insert names no reserve of it
			files["layouts/main"] = []*tw.Stmt{tw.Text("<static>"), {Kind: tw.SIf, Branches: []tw.Branch{{Cond: tw.Bool(true), Body: []*tw.Stmt{tw.Text("body")}}}}, tw.Text("</static>")}
			ins := &tw.Stmt{Kind: tw.SInsert, Name: rapid.SampledFrom([]string{"r0", "content", "x"}).Draw(rt, "insName"), E: tw.Str("x")}
			if rapid.Bool().Draw(rt, "blockForm") {
				ins = &tw.Stmt{Kind: tw.SInsert, Name: ins.Name, Block: true, Body: []*tw.Stmt{tw.Text("x")}}
			}
			files["home"] = []*tw.Stmt{{Kind: tw.SUse, Name: "~main"}, tw.Text("\n"), ins}
		case "missing-layout":
			for i, st := range files["home"] {
				if st.Kind == tw.SUse {
					files["home"][i] = &tw.Stmt{Kind: tw.SUse, Name: rapid.SampledFrom([]string{"~nosuch", "layouts/nosuch", "nosuch",
						// names that exist in another spelling only: other letter case, a prefix or an extension of the real name, the bare file name
						"~Main", "~MAIN", "layouts/Main", "Layouts/main", "~mai", "~mainn", "~main.tw", "main", "~layouts/main"}).Draw(rt, "missing")}
				}
			}
		case "layout-uses-layout":
			// the layout's own @use stands first, last, or inside a branch or loop body - also one that
			// does not run with this data: the file uses a layout all the same
			use := &tw.Stmt{Kind: tw.SUse, Name: rapid.SampledFrom([]string{"~outer", "~main", "layouts/outer"}).Draw(rt, "layoutUses")}
			switch pos := rapid.SampledFrom([]string{"first", "last", "if-true", "if-false", "else-of-true", "each-empty", "each", "if-data"}).Draw(rt, "usePosition"); pos {
			case "first":
				files["layouts/main"] = append([]*tw.Stmt{use}, layout...)
			case "last":
				files["layouts/main"] = append(append([]*tw.Stmt{}, layout...), tw.Text("\n"), use)
			default:
				var wrap *tw.Stmt
				switch pos {
				case "if-true":
					wrap = &tw.Stmt{Kind: tw.SIf, Branches: []tw.Branch{{Cond: tw.Bool(true), Body: []*tw.Stmt{use}}}}
				case "if-false":
					wrap = &tw.Stmt{Kind: tw.SIf, Branches: []tw.Branch{{Cond: tw.Bool(false), Body: []*tw.Stmt{use}}}}
				case "if-data":
					wrap = &tw.Stmt{Kind: tw.SIf, Branches: []tw.Branch{{Cond: tw.Var("b1"), Body: []*tw.Stmt{use}}}}
				case "else-of-true":
					wrap = &tw.Stmt{Kind: tw.SIf, Branches: []tw.Branch{{Cond: tw.Bool(true), Body: []*tw.Stmt{tw.Text("t")}}}, HasElse: true, Else: []*tw.Stmt{use}}
				case "each-empty":
					wrap = &tw.Stmt{Kind: tw.SEach, Name: "zz", E: tw.Var("ea"), Body: []*tw.Stmt{use}}
				default:
					wrap = &tw.Stmt{Kind: tw.SEach, Name: "zz", E: tw.Arr(intLit(1)), Body: []*tw.Stmt{use}}
				}
				at := rapid.IntRange(0, len(layout)).Draw(rt, "wrapAt")
				files["layouts/main"] = append(append(append([]*tw.Stmt{}, layout[:at]...), wrap), layout[at:]...)
			}
			kind += ":" + map[bool]string{true: "top-level", false: "nested"}[len(collectUse(files["layouts/main"])) > 0]
			files["layouts/outer"] = []*tw.Stmt{tw.Text("<outer>"), {Kind: tw.SReserve, Name: "r0"}}
			// reported when loading or when rendering: either is an error
			cs.LoadErr = false
			cs.Want = want{St: "error", Why: "layout uses a layout"}
		}
		if refint.Validate(files) == nil {
			c.Class("harness:error-tree-valid")
			return
		}
		cs.Files = printFiles(files, nil)
		c.Case(true, mustJSON(cs.Files), "error:"+kind)
		c.Sample(cs.sample())
		r, f := runTreeCase(c, cs)
		if strings.HasPrefix(kind, "layout-uses-layout") && r.LoadErr != "" {
			f = "" // rejected at load time: fine
		}
		if f != "" {
			c.Fail(rt, kindOf(f), cs, "error", r, f)
		}
	})
}

// collectUse returns the top-level @use statements.
func collectUse(ss []*tw.Stmt) []*tw.Stmt {
	var out []*tw.Stmt
	for _, s := range ss {
		if s.Kind == tw.SUse {
			out = append(out, s)
		}
	}
	return out
}
