package checks

import (
	"encoding/json"
	"fmt"
	"strings"
	"testing"

	textwire "github.com/textwire/textwire/v2"
	"github.com/textwire/textwire/v2/config"

	"verif/lib/harness"
	"verif/lib/tree"
)

// C06/registered-functions: "evaluated with the data of the call" - and with
// everything else a render has: a function registered with Register*Func is
// as callable in a layout's own text and in the inserts placed at its reserves
// as it is in a page without a layout.

type layoutFnCase struct {
	Layout string `json:"layout"`
	Page   string `json:"page"`
	Want   string `json:"want"`
}

func c06LayoutFn(c *harness.Check, cs layoutFnCase) string {
	if _, err := tree.Materialise(tree.Tree{"t/layouts/main.tw": {Content: cs.Layout}, "t/home.tw": {Content: cs.Page}, "t/plain.tw": {Content: "<h1>{{ site.zzShout() }}|{{ n.zzTwice() }}</h1>"}}); err != nil {
		return ""
	}
	failure := ""
	pi := c.Guard("json", mustJSON(cs), func() {
		textwire.VerifReset()
		if err := textwire.RegisterStrFunc("zzShout", func(s string, a ...any) string { return strings.ToUpper(s) + "!" }); err != nil {
			failure = "harness: " + err.Error()
			return
		}
		if err := textwire.RegisterIntFunc("zzTwice", func(i int, a ...any) int { return 2 * i }); err != nil {
			failure = "harness: " + err.Error()
			return
		}
		tpl, lerr := textwire.NewTemplate(&config.Config{TemplateDir: "t", TemplateExt: ".tw"})
		if lerr != nil {
			failure = "unexpected load error: " + lerr.Error()
			return
		}
		data := map[string]any{"site": "acme", "name": "bob", "n": 21, "items": []string{"x", "y"}, "flag": true}
		if out, ferr := tpl.String("plain", data); ferr != nil || out != "<h1>ACME!|42</h1>" {
			failure = fmt.Sprintf("harness: the page without a layout renders %q / %v", out, ferr)
			return
		}
		for i := 0; i < 2; i++ {
			out, ferr := tpl.String("home", data)
			if ferr != nil {
				failure = "unexpected error: " + ferr.String()
				return
			}
			if out != cs.Want {
				failure = fmt.Sprintf("rendered %q, the layout with its reserves filled is %q", out, cs.Want)
				return
			}
		}
	})
	textwire.VerifReset()
	if pi != nil {
		return "panic: " + pi.Value
	}
	if strings.HasPrefix(failure, "harness:") {
		c.Class(failure)
		return ""
	}
	return failure
}

func init() {
	harness.RegisterReplayer("C06/registered-functions", func(raw json.RawMessage) string {
		cs, err := unJSON[layoutFnCase](raw)
		if err != nil {
			return "bad case: " + err.Error()
		}
		return c06LayoutFn(harness.New(nopTB{}, "C06", "replay", ""), cs)
	})
}

func TestC06_RegisteredFunctions(t *testing.T) {
	type part struct{ src, out string }
	// what the layout holds around / at its reserve "r", and what the page inserts there
	layouts := []part{
		{"<t>@reserve(\"r\")</t>", "<t>%s</t>"},
		{"<t>{{ site.zzShout() }}|@reserve(\"r\")</t>", "<t>ACME!|%s</t>"},
		{"<t>@reserve(\"r\")|{{ n.zzTwice() }}</t>", "<t>%s|42</t>"},
		{"<t>@if(flag)@reserve(\"r\")@end</t>", "<t>%s</t>"},
		{"<t>@each(i in items)[@reserve(\"r\")]@end</t>", "<t>[%s][%s]</t>"},
		{"<t>@each(i in items){{ i.zzShout() }}@end@reserve(\"r\")</t>", "<t>X!Y!%s</t>"},
		{"<t>{{ site.upper() }}@reserve(\"r\")</t>", "<t>ACME%s</t>"},
	}
	inserts := []part{
		{"@insert(\"r\", name.zzShout())", "BOB!"}, {"@insert(\"r\")<p>{{ name.zzShout() }}</p>@end", "<p>BOB!</p>"}, {"@insert(\"r\", n.zzTwice() + 1)", "43"},
		{"@insert(\"r\")@if(flag){{ n.zzTwice() }}@end@end", "42"}, {"@insert(\"r\")@each(j in items){{ j.zzShout() }}@end@end", "X!Y!"}, {"@insert(\"r\", name)", "bob"},
		{"@insert(\"r\", 'lit'.zzShout())", "LIT!"}, {"ignored {{ name.zzShout() }} @insert(\"r\", name.upper())", "BOB"}, {"", ""},
	}
	c := harness.New(t, "C06", "registered-functions",
		fmt.Sprintf("with a string and an integer function registered through RegisterStrFunc / RegisterIntFunc: %d layouts (a registered function called in the layout's own text before or after the reserve, in a loop of the layout, the reserve inside @if / @each) x %d pages (the function called in an expression-form insert, in a block-form insert, under @if / @each inside an insert, on a literal, only outside the inserts, not at all; no insert): the page renders the layout with its reserves filled, twice in a row on the loaded templates. Exhaustive. Non-trivial: a registered function is called in the layout or in an insert. Distinct by construction.", len(layouts), len(inserts)))
	defer c.Finish()
	idx := 0
	for _, l := range layouts {
		for _, in := range inserts {
			idx++
			if !harness.Mine(idx) {
				continue
			}
			cs := layoutFnCase{Layout: l.src, Page: "@use(\"~main\")" + in.src, Want: strings.ReplaceAll(l.out, "%s", in.out)}
			c.CaseEnum(strings.Contains(l.src+in.src, "zz"))
			if idx%7 == 0 {
				c.Sample(cs)
			}
			if f := c06LayoutFn(c, cs); f != "" {
				c.Fail(t, kindOf(f), cs, cs.Want, f, f)
			}
		}
	}
	c.ExhaustivePart(fmt.Sprintf("%d layouts x %d pages", len(layouts), len(inserts)))
}
