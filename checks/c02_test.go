package checks

import (
	"fmt"
	"strings"
	"testing"

	"pgregory.net/rapid"
	"verif/lib/harness"
	"verif/lib/refint"
	"verif/lib/spec"
	"verif/lib/tw"
)

// C02 — @if/@elseif/@else renders exactly the first truthy branch.

func init() {
	registerRenderReplayer("C02/chains-enum", "C02/truthiness-table", "C02/random-programs")
}

func TestC02_ChainsEnum(t *testing.T) {
	c := harness.New(t, "C02", "chains-enum",
		"every @if chain shape with 0..3 @elseif, with/without @else, over all truthiness vectors (true / false / failing condition per branch), each body a unique marker, at top level, inside an @each pass and inside another branch, with text before/between/after, and the same chain written as nested ternaries (printed, and as the condition of an @if), and with the conditions bound at template level to values of every type and truthiness; expected: marker of the first truthy branch, @else marker or nothing; a failing condition at or before the chosen branch is an error, behind it it must not surface. Empty bodies are their own shape. Non-trivial: chosen branch index >= 1, or a failing condition behind the chosen branch, or nesting. Distinct by construction.")
	defer c.Finish()
	in := interp()
	idx := 0
	for nElse := 0; nElse <= 3; nElse++ {
		nb := nElse + 1
		total := 1
		for i := 0; i < nb; i++ {
			total *= 3
		}
		for code := 0; code < total; code++ {
			for _, hasElse := range []bool{false, true} {
				for _, ctx := range []string{"top", "each", "branch", "empty-bodies", "ternary", "ternary-in-if", "assigned"} {
					idx++
					if !harness.Mine(idx) {
						continue
					}
					st := &tw.Stmt{Kind: tw.SIf, HasElse: hasElse}
					x := code
					chosen, failBefore, failBehind := -1, false, false
					for b := 0; b < nb; b++ {
						var cond *tw.Expr
						switch x % 3 {
						case 0:
							cond = tw.Bool(false)
						case 1:
							cond = tw.Bool(true)
							if chosen < 0 && !failBefore {
								chosen = b
							}
						default:
							cond = tw.Bin("/", intLit(1), intLit(0))
							if chosen < 0 {
								failBefore = true
							} else {
								failBehind = true
							}
						}
						x /= 3
						body := []*tw.Stmt{tw.Text(fmt.Sprintf("[b%d]", b))}
						if ctx == "empty-bodies" && b%2 == 0 {
							body = nil
						}
						st.Branches = append(st.Branches, tw.Branch{Cond: cond, Body: body})
					}
					if hasElse {
						st.Else = []*tw.Stmt{tw.Text("[else]")}
						if ctx == "empty-bodies" {
							st.Else = nil
						}
					}
					var prog []*tw.Stmt
					// the same chain written as nested ternaries: cond0 ? "[b0]" : (cond1 ? "[b1]" : ... "[else]")
					tern := tw.Str("")
					if hasElse {
						tern = tw.Str("[else]")
					}
					for b := nb - 1; b >= 0; b-- {
						tern = tw.Tern(cloneExpr(st.Branches[b].Cond), tw.Str(fmt.Sprintf("[b%d]", b)), tern)
					}
					if ctx == "assigned" {
						// the conditions are names bound at template level just before the chain (no data at
						// all), to values of every type and truthiness: false / true stand for any of them
						falsy := []*tw.Expr{tw.Bool(false), intLit(0), tw.Str(""), floatLit(0), tw.Nil()}
						truthy := []*tw.Expr{tw.Bool(true), intLit(1), tw.Str("a"), floatLit(2.5), tw.Arr(intLit(0)), tw.Obj(nil, nil)}
						ok := true
						at := &tw.Stmt{Kind: tw.SIf, HasElse: hasElse, Else: st.Else}
						for b, br := range st.Branches {
							name := fmt.Sprintf("c%d", b)
							var v *tw.Expr
							switch {
							case br.Cond.Kind == tw.EBool && br.Cond.Bool:
								v = truthy[(code+b+nb)%len(truthy)]
							case br.Cond.Kind == tw.EBool:
								v = falsy[(code+b+nb)%len(falsy)]
							default:
								ok = false
							}
							if !ok {
								break
							}
							prog = append(prog, tw.Assign(name, v))
							at.Branches = append(at.Branches, tw.Branch{Cond: tw.Var(name), Body: br.Body})
						}
						if !ok {
							continue
						}
						prog = append(append([]*tw.Stmt{tw.Text("pre ")}, prog...), at, tw.Text(" post"))
					}
					switch ctx {
					case "ternary":
						prog = []*tw.Stmt{tw.Text("pre "), tw.Print(tern), tw.Text(" post")}
					case "ternary-in-if":
						// ... and as the condition of an @if (every marker is a truthy string, "" is not)
						prog = []*tw.Stmt{tw.Text("pre "), {Kind: tw.SIf, Branches: []tw.Branch{{Cond: tern, Body: []*tw.Stmt{tw.Text("[some]")}}}, HasElse: true, Else: []*tw.Stmt{tw.Text("[none]")}}, tw.Text(" post")}
					}
					switch ctx {
					case "top", "empty-bodies":
						prog = []*tw.Stmt{tw.Text("pre "), st, tw.Text(" post")}
					case "each":
						prog = []*tw.Stmt{tw.Text("pre "), {Kind: tw.SEach, Name: "v", E: tw.Arr(intLit(1), intLit(2)), Body: []*tw.Stmt{tw.Text("("), st, tw.Text(")")}}, tw.Text(" post")}
					case "branch":
						prog = []*tw.Stmt{tw.Text("pre "), {Kind: tw.SIf, Branches: []tw.Branch{{Cond: tw.Bool(false), Body: []*tw.Stmt{tw.Text("no")}}, {Cond: intLit(3), Body: []*tw.Stmt{tw.Text("{"), st, tw.Text("}")}}}, HasElse: true, Else: []*tw.Stmt{tw.Text("no2")}}, tw.Text(" post")}
					}
					out, _ := in.Render(prog, nil)
					src := tw.PrintStmts(prog, nil).Src
					cs := renderCase{Src: src, Want: wantFromOut(out)}
					nt := chosen >= 1 || failBehind || ctx != "top"
					c.CaseEnum(nt, "ctx:"+ctx, "outcome:"+out.St.String(), fmt.Sprintf("branches:%d", nb))
					if nt && idx%37 == 0 {
						c.Sample(cs.sample())
					}
					if r, f := runRenderCase(c, cs); f != "" {
						c.Fail(t, failKind(r), cs, cs.Want, r, f)
					}
				}
			}
		}
	}
	c.ExhaustivePart("all chain shapes with 0..3 @elseif x {false,true,failing}^branches x else/no else x 7 contexts")
}

func TestC02_TruthinessTable(t *testing.T) {
	c := harness.New(t, "C02", "truthiness-table",
		"the truthiness table (false nil 0 0.0 \"\" falsy; everything else incl. [] and {} truthy) for every value type, written as literal and supplied as data (all integer widths, float32/64, string, bool, nil, nil pointer, empty/non-empty slice and map, struct), probed through @if, @elseif, the ternary, @breakIf and @continueIf. Non-trivial: all (each is a distinct (value, spelling, construct) triple). Distinct by construction.")
	defer c.Finish()
	in := interp()
	type val struct {
		name string
		lit  *tw.Expr
		data *spec.Value
	}
	vals := []val{
		{"false", tw.Bool(false), spec.Bool(false)}, {"true", tw.Bool(true), spec.Bool(true)}, {"nil", tw.Nil(), spec.NilAny()},
		{"0", intLit(0), spec.IntOf(spec.TInt, 0)}, {"1", intLit(1), spec.IntOf(spec.TUint8, 1)}, {"-1", intLit(-1), spec.IntOf(spec.TInt8, -1)},
		{"0.0", floatLit(0), spec.Float64(0)}, {"0.5", floatLit(0.5), spec.Float32(0.5)}, {"empty-string", tw.Str(""), spec.String("")},
		{"string-0", tw.Str("0"), spec.String("0")}, {"string-a", tw.Str("a"), spec.String("a")}, {"string-false", tw.Str("false"), spec.String("false")},
		{"empty-array", tw.Arr(), spec.Slice(spec.T(spec.TInt))}, {"array", tw.Arr(intLit(0)), spec.Slice(spec.T(spec.TInt), spec.IntOf(spec.TInt, 0))},
		{"empty-object", tw.Obj(nil, nil), spec.Map(spec.T(spec.TInt), nil, nil)}, {"object", tw.Obj([]string{"a"}, []*tw.Expr{intLit(0)}), spec.Map(spec.T(spec.TInt), []string{"a"}, []*spec.Value{spec.IntOf(spec.TInt, 0)})},
		{"nil-pointer", nil, spec.NilPtr(spec.T(spec.TInt))}, {"pointer-to-0", nil, spec.Ptr(spec.IntOf(spec.TInt, 0))}, {"pointer-to-true", nil, spec.Ptr(spec.Bool(true))},
		{"struct", nil, spec.Struct([]string{"A"}, []*spec.Value{spec.IntOf(spec.TInt, 0)})}, {"uint64-0", nil, spec.IntOf(spec.TUint64, 0)}, {"int64-min", nil, spec.IntOf(spec.TInt64, -1<<63)},
		{"contains-false", tw.Call(tw.Arr(intLit(1)), "contains", intLit(2)), spec.Bool(false)}, {"contains-true", tw.Call(tw.Str("ab"), "contains", tw.Str("a")), spec.Bool(true)},
		{"then-nil", tw.Call(tw.Bool(false), "then", intLit(1)), spec.NilAny()}, {"len-zero", tw.Call(tw.Str(""), "len"), spec.IntOf(spec.TInt, 0)},
		{"not-true", tw.Un(tw.ENot, tw.Bool(true)), spec.Bool(false)}, {"comparison-false", tw.Bin("<", intLit(2), intLit(1)), spec.Bool(false)},
		{"neg-zero", nil, spec.Float64(negZero())}, {"nil-slice", nil, &spec.Value{T: spec.SliceOf(spec.T(spec.TInt)), Nil: true}}, {"nil-map", nil, &spec.Value{T: spec.MapOf(spec.T(spec.TInt)), Nil: true}},
	}
	probes := []struct {
		name string
		mk   func(c *tw.Expr) []*tw.Stmt
	}{
		{"if", func(c *tw.Expr) []*tw.Stmt {
			return []*tw.Stmt{{Kind: tw.SIf, Branches: []tw.Branch{{Cond: c, Body: []*tw.Stmt{tw.Text("T")}}}, HasElse: true, Else: []*tw.Stmt{tw.Text("F")}}}
		}},
		{"elseif", func(c *tw.Expr) []*tw.Stmt {
			return []*tw.Stmt{{Kind: tw.SIf, Branches: []tw.Branch{{Cond: tw.Bool(false), Body: []*tw.Stmt{tw.Text("X")}}, {Cond: c, Body: []*tw.Stmt{tw.Text("T")}}}, HasElse: true, Else: []*tw.Stmt{tw.Text("F")}}}
		}},
		{"ternary", func(c *tw.Expr) []*tw.Stmt { return []*tw.Stmt{tw.Print(tw.Tern(c, tw.Str("T"), tw.Str("F")))} }},
		{"breakIf", func(c *tw.Expr) []*tw.Stmt {
			return []*tw.Stmt{{Kind: tw.SEach, Name: "v", E: tw.Arr(intLit(1), intLit(2)), Body: []*tw.Stmt{tw.Text("a"), {Kind: tw.SBreakIf, E: c}, tw.Text("b")}}}
		}},
		{"continueIf", func(c *tw.Expr) []*tw.Stmt {
			return []*tw.Stmt{{Kind: tw.SEach, Name: "v", E: tw.Arr(intLit(1), intLit(2)), Body: []*tw.Stmt{tw.Text("a"), {Kind: tw.SContinueIf, E: c}, tw.Text("b")}}}
		}},
		{"for-cond", func(c *tw.Expr) []*tw.Stmt {
			return []*tw.Stmt{{Kind: tw.SFor, Name: "i", Init: intLit(0), Cond: c, Post: tw.Un(tw.EInc, tw.Var("i")), Body: []*tw.Stmt{tw.Text("T"), {Kind: tw.SBreak}}, HasElse: true, Else: []*tw.Stmt{tw.Text("F")}}}
		}},
	}
	idx := 0
	for _, v := range vals {
		for _, p := range probes {
			for _, viaData := range []bool{false, true} {
				idx++
				if !harness.Mine(idx) {
					continue
				}
				var cond *tw.Expr
				var data *spec.Data
				if viaData {
					cond = tw.Var("d")
					data = (&spec.Data{}).Add("d", v.data)
				} else {
					if v.lit == nil {
						continue
					}
					cond = v.lit
				}
				prog := p.mk(cond)
				model, _ := data.Model()
				out, _ := in.Render(prog, model)
				cs := renderCase{Src: tw.PrintStmts(prog, nil).Src, Data: data, Want: wantFromOut(out), Note: v.name + " via " + p.name}
				c.CaseEnum(true, "probe:"+p.name, fmt.Sprintf("data:%v", viaData))
				if idx%13 == 0 {
					c.Sample(cs.sample())
				}
				if r, f := runRenderCase(c, cs); f != "" {
					c.Fail(t, failKind(r), cs, cs.Want, r, f)
				}
			}
		}
	}
	c.ExhaustivePart(fmt.Sprintf("%d values x %d constructs x literal/data", len(vals), len(probes)))
}

func negZero() float64 {
	z := 0.0
	return -z
}

func TestC02_RandomPrograms(t *testing.T) {
	c := harness.New(t, "C02", "random-programs",
		"random programs biased to @if chains (0..3 @elseif, optional @else, nesting to depth 3, inside loops and other branches) whose conditions are literals of every type and truthiness, data-supplied values, expressions, or failing expressions; bodies are unique markers plus nested constructs; expected rendering from the reference interpreter. Non-trivial: an @elseif chain exists and (a branch with index >= 1 or @else was taken, or a failing/non-boolean condition occurs, or an @if sits inside a loop). Distinct by hash of source + data.")
	defer c.Finish()
	in := interp()
	runRapid(t, c, 12000, 120000, func(rt *rapid.T) {
		env := genProgEnv().Draw(rt, "data")
		g := newProgGen(rt, env)
		g.wIf, g.wLoop, g.wAssign, g.wCtl = 7, 2, 1, 1
		prog := g.block(3, false)
		out, facts := in.Render(prog, env.Model)
		lay := genLayout().Draw(rt, "layout")
		src := tw.PrintStmts(prog, lay).Src
		cs := renderCase{Src: src, Data: env.D, Want: wantFromOut(out)}
		nt := g.Feat["if"] > 0 && (facts["if-branch-taken"] >= 1 || facts["if-else-taken"] > 0 || g.Feat["failing-cond"] > 0 || g.Feat["nonbool-cond"] > 0 || g.Feat["if-in-loop"] > 0)
		classes := []string{"outcome:" + out.St.String()}
		for _, f := range []string{"elseif", "failing-cond", "nonbool-cond", "data-cond", "if-in-loop", "empty-body"} {
			if g.Feat[f] > 0 {
				classes = append(classes, "has:"+f)
			}
		}
		if out.St == refint.Unspec {
			classes = append(classes, "unspecified:"+firstWords(out.Why, 4))
		}
		if strings.Contains(src, "\n") {
			classes = append(classes, "layout:newlines")
		}
		c.Case(nt, src+"|"+mustJSON(env.D), classes...)
		if nt {
			c.Sample(cs.sample())
		}
		if r, f := runRenderCase(c, cs); f != "" {
			c.Fail(rt, failKind(r), cs, cs.Want, r, f)
		}
	})
}
