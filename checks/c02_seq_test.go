package checks

import (
	"fmt"
	"strconv"
	"strings"
	"testing"

	"pgregory.net/rapid"
	"verif/lib/harness"
	"verif/lib/refint"
	"verif/lib/spec"
	"verif/lib/tw"
)

// C02/one-template-many-data: the branch that is shown depends on the data of
// that very call. One page (biased to @if chains, ternaries, @breakIf /
// @continueIf over data variables) is loaded once and rendered several times
// with data maps that differ from each other only in the Go type of a value
// while printing alike (0, 0.0, "0", false, "false", nil, "<nil>", [0], ["0"]),
// or in the truthiness of one value, and finally with the first map again.

func init() { registerSeqReplayer("C02/one-template-many-data") }

// lookAlikes returns values that differ from v in type or truthiness but are
// easily confused with it (same printed text, same number).
func lookAlikes(v *spec.Value) []*spec.Value {
	var out []*spec.Value
	if printed := fmt.Sprint(spec.BuildAny(v)); !strings.Contains(printed, "0x") && len(printed) < 60 && v.T.K != spec.TString {
		out = append(out, spec.String(printed))
	}
	switch v.T.K {
	case spec.TInt, spec.TInt8, spec.TInt16, spec.TInt32, spec.TInt64, spec.TUint, spec.TUint8, spec.TUint16, spec.TUint32, spec.TUint64:
		out = append(out, spec.Float64(float64(v.I)), spec.IntOf(v.T.K, 0), spec.IntOf(v.T.K, 1), spec.Bool(v.I != 0))
	case spec.TFloat32, spec.TFloat64:
		f := v.Float()
		if f == float64(int64(f)) && f > -1e15 && f < 1e15 {
			out = append(out, spec.IntOf(spec.TInt, int64(f)))
		}
		out = append(out, spec.Float64(0), spec.Float64(1))
	case spec.TBool:
		out = append(out, spec.Bool(!v.B), spec.IntOf(spec.TInt, map[bool]int64{false: 0, true: 1}[v.B]))
	case spec.TString:
		s := v.Str()
		if i, err := strconv.ParseInt(s, 10, 64); err == nil {
			out = append(out, spec.IntOf(spec.TInt, i))
		}
		switch s {
		case "true", "false":
			out = append(out, spec.Bool(s == "true"))
		case "<nil>":
			out = append(out, spec.NilAny())
		}
		if s == "" {
			out = append(out, spec.String("0"), spec.String(" "))
		} else {
			out = append(out, spec.String(""))
		}
	case spec.TAny:
		if v.Nil {
			out = append(out, spec.String(""), spec.Bool(false), spec.IntOf(spec.TInt, 0))
		}
	case spec.TSlice:
		if !v.Nil && len(v.Items) > 0 {
			out = append(out, spec.Slice(v.T.Elem))
		}
	}
	return out
}

func TestC02_OneTemplateManyData(t *testing.T) {
	c := harness.New(t, "C02", "one-template-many-data",
		"one page biased to @if chains (as C02/random-programs) is loaded once through NewTemplate and rendered 3..6 times on that *Template: with the generated data, with variants in which some values are replaced by look-alikes of another type or truthiness (the value's printed text as a string, the same number as float/int/bool, 0/1, the empty string, nil) and with the first data again; each render is held to the reference interpreter's result for the data of that call. Non-trivial: the page has an @if chain or ternary reading data and at least two steps differ in their expected rendering. Distinct by hash of source + data of all steps.")
	defer c.Finish()
	in := interp()
	runRapid(t, c, 2500, 25000, func(rt *rapid.T) {
		env := genProgEnv().Draw(rt, "data")
		g := newProgGen(rt, env)
		g.wIf, g.wLoop, g.wAssign, g.wCtl = 7, 2, 1, 1
		prog := g.block(3, false)
		// probes that read data variables directly, so that the variants below matter
		probed := map[string]bool{}
		for k := rapid.IntRange(1, 3).Draw(rt, "probes"); k > 0 && len(env.D.Keys) > 0; k-- {
			key := env.D.Keys[rapid.IntRange(0, len(env.D.Keys)-1).Draw(rt, "probe-key")]
			probed[key] = true
			switch rapid.IntRange(0, 2).Draw(rt, "probe-kind") {
			case 0:
				prog = append(prog, &tw.Stmt{Kind: tw.SIf, Branches: []tw.Branch{{Cond: tw.Var(key), Body: []*tw.Stmt{tw.Text("[T:" + key + "]")}}}, HasElse: true, Else: []*tw.Stmt{tw.Text("[F:" + key + "]")}})
			case 1:
				prog = append(prog, &tw.Stmt{Kind: tw.SIf, Branches: []tw.Branch{{Cond: tw.Bool(false), Body: []*tw.Stmt{tw.Text("no")}}, {Cond: tw.Var(key), Body: []*tw.Stmt{tw.Text("[t:" + key + "]")}}}})
			default:
				prog = append(prog, tw.Print(tw.Tern(tw.Var(key), tw.Str("y-"+key), tw.Str("n-"+key))))
			}
		}
		g.Feat["if"]++
		g.Feat["data-cond"]++
		lay := genLayout().Draw(rt, "layout")
		src := tw.PrintStmts(prog, lay).Src
		cs := seqCase{Files: map[string]string{"index": src}, Dir: "templates", Ext: ".tw"}
		first := env.D
		if rapid.Bool().Draw(rt, "no-addresses") {
			// data without non-nil pointers: what it prints to does not hold addresses
			first = &spec.Data{}
			for i, key := range env.D.Keys {
				v := env.D.Vals[i]
				if strings.Contains(fmt.Sprint(spec.BuildAny(v)), "0x") {
					v = spec.Struct([]string{"Num", "Name"}, []*spec.Value{spec.IntOf(spec.TInt16, 3), spec.String("sn")})
				}
				first.Add(key, v)
			}
		}
		datas := []*spec.Data{first}
		n := rapid.IntRange(1, 4).Draw(rt, "variants")
		for k := 0; k < n; k++ {
			base := datas[rapid.IntRange(0, len(datas)-1).Draw(rt, "from")]
			d := &spec.Data{}
			changed := 0
			// in a print-alike variant every replaced value prints like the one it replaces
			printAlike := rapid.Bool().Draw(rt, "print-alike")
			for i, key := range base.Keys {
				v := base.Vals[i]
				alts := lookAlikes(v)
				if printAlike {
					alts = nil
					want := fmt.Sprint(spec.BuildAny(v))
					for _, a := range lookAlikes(v) {
						if fmt.Sprint(spec.BuildAny(a)) == want {
							alts = append(alts, a)
						}
					}
				}
				if len(alts) > 0 && (probed[key] && rapid.IntRange(0, 3).Draw(rt, "swap-probed") != 0 || rapid.IntRange(0, 5).Draw(rt, "swap") == 0) {
					v = alts[rapid.IntRange(0, len(alts)-1).Draw(rt, "alt")]
					changed++
				}
				d.Add(key, v)
			}
			if changed == 0 && len(base.Keys) > 0 {
				i := rapid.IntRange(0, len(base.Keys)-1).Draw(rt, "force")
				if alts := lookAlikes(base.Vals[i]); len(alts) > 0 {
					d.Vals[i] = alts[rapid.IntRange(0, len(alts)-1).Draw(rt, "alt")]
				}
			}
			datas = append(datas, d)
		}
		datas = append(datas, first)
		outs := map[string]bool{}
		unspec := false
		for _, d := range datas {
			model, ok := d.Model()
			if !ok {
				rt.Skip("unsupported value")
			}
			out, _ := in.Render(prog, model)
			if out.St == refint.Unspec {
				unspec = true
			}
			outs[out.St.String()+"|"+out.Text] = true
			cs.Steps = append(cs.Steps, seqStep{Page: "index", Data: d, Want: wantFromOut(out)})
		}
		nt := g.Feat["if"] > 0 && g.Feat["data-cond"] > 0 && len(outs) >= 2
		classes := []string{fmt.Sprintf("steps:%d", len(cs.Steps)), fmt.Sprintf("distinct-expectations:%d", len(outs))}
		if unspec {
			classes = append(classes, "has:unspecified-step")
		}
		c.Case(nt, mustJSON(cs), classes...)
		if nt {
			c.Sample(cs.sample())
		}
		if rs, f := runSeqCase(c, cs); f != "" {
			c.Fail(rt, kindOf(f), cs, cs.Steps, rs, f)
		}
	})
}
