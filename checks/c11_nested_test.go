package checks

import (
	"encoding/json"
	"fmt"
	"strings"
	"testing"

	"pgregory.net/rapid"
	"verif/lib/harness"
	"verif/lib/refint"
	"verif/lib/tw"
)

// C11/nested-calls: a built-in receives exactly the argument list written for
// it, also when arguments are themselves calls with arguments and when the same
// expression is evaluated several times in one render.

type nestNode struct {
	Lit  *modelJSON  `json:"lit,omitempty"`
	Recv *nestNode   `json:"recv,omitempty"`
	Fn   string      `json:"fn,omitempty"`
	Args []*nestNode `json:"args,omitempty"`
}

func (n *nestNode) eval() refint.Res {
	if n.Lit != nil {
		return rOK(n.Lit.value())
	}
	r := n.Recv.eval()
	if r.St != refint.OK {
		return r
	}
	args := make([]V, len(n.Args))
	for i, a := range n.Args {
		ar := a.eval()
		if ar.St != refint.OK {
			return ar
		}
		args[i] = ar.V
	}
	return refBuiltin(r.V, n.Fn, args)
}

func (n *nestNode) expr() *tw.Expr {
	if n.Lit != nil {
		return litFromModel(n.Lit.value())
	}
	args := make([]*tw.Expr, len(n.Args))
	for i, a := range n.Args {
		args[i] = a.expr()
	}
	return tw.Call(n.Recv.expr(), n.Fn, args...)
}

func (n *nestNode) depthWithArgs() int {
	if n.Lit != nil {
		return 0
	}
	d := 0
	for _, a := range n.Args {
		if x := a.depthWithArgs(); x > d {
			d = x
		}
	}
	if r := n.Recv.depthWithArgs(); r > d {
		d = r
	}
	if len(n.Args) > 0 {
		return d + 1
	}
	return d
}

// nestedInArgs: some call has an argument that is itself a call with arguments.
func (n *nestNode) nestedInArgs() bool {
	if n.Lit != nil {
		return false
	}
	for _, a := range n.Args {
		if a.Lit == nil && len(a.Args) > 0 || a.nestedInArgs() {
			return true
		}
	}
	return n.Recv.nestedInArgs()
}

type nestCase struct {
	Root *nestNode `json:"root"`
	Form string    `json:"form"` // how often and where the expression is evaluated
}

func nestLit(v V) *nestNode { m := toModelJSON(v); return &nestNode{Lit: &m} }

type nestGen struct{ rt *rapid.T }

func (g nestGen) str(d int) *nestNode {
	if d <= 0 || d < 3 && rapid.IntRange(0, 3).Draw(g.rt, "sLeaf") == 0 {
		return nestLit(refint.StrV(rapid.SampledFrom([]string{"abc", "hello world", "x", "", "Zed", "a,b"}).Draw(g.rt, "s")))
	}
	switch rapid.SampledFrom([]int{0, 1, 1, 2, 2, 2, 3, 3, 3, 4, 5}).Draw(g.rt, "sForm") {
	case 0:
		return &nestNode{Recv: g.str(d - 1), Fn: "upper"}
	case 1:
		return &nestNode{Recv: g.str(d - 1), Fn: "repeat", Args: []*nestNode{g.num(d - 1)}}
	case 2:
		return &nestNode{Recv: g.str(d - 1), Fn: "truncate", Args: []*nestNode{g.num(d - 1), g.str(d - 1)}}
	case 3:
		return &nestNode{Recv: g.boolean(d - 1), Fn: "then", Args: []*nestNode{g.str(d - 1), g.str(d - 1)}}
	case 4:
		return &nestNode{Recv: g.str(d - 1), Fn: "trim"}
	default:
		return &nestNode{Recv: g.num(d - 1), Fn: "str"}
	}
}

func (g nestGen) num(d int) *nestNode {
	if d <= 0 || d < 3 && rapid.IntRange(0, 2).Draw(g.rt, "nLeaf") == 0 {
		return nestLit(refint.IntV(int64(rapid.IntRange(0, 5).Draw(g.rt, "n"))))
	}
	switch rapid.IntRange(0, 3).Draw(g.rt, "nForm") {
	case 0:
		return &nestNode{Recv: g.str(d - 1), Fn: "len"}
	case 1:
		return &nestNode{Recv: g.arr(d - 1), Fn: "len"}
	case 2:
		return &nestNode{Recv: g.boolean(d - 1), Fn: "then", Args: []*nestNode{g.num(d - 1), g.num(d - 1)}}
	default:
		return &nestNode{Recv: g.num(d - 1), Fn: "abs"}
	}
}

func (g nestGen) boolean(d int) *nestNode {
	if d <= 0 || d < 3 && rapid.IntRange(0, 2).Draw(g.rt, "bLeaf") == 0 {
		return nestLit(refint.BoolV(rapid.Bool().Draw(g.rt, "b")))
	}
	if rapid.Bool().Draw(g.rt, "bForm") {
		return &nestNode{Recv: g.str(d - 1), Fn: "contains", Args: []*nestNode{g.str(d - 1)}}
	}
	return &nestNode{Recv: g.arr(d - 1), Fn: "contains", Args: []*nestNode{g.num(d - 1)}}
}

func (g nestGen) arr(d int) *nestNode {
	base := nestLit(refint.ArrV([]V{refint.IntV(1), refint.IntV(2), refint.IntV(3)}))
	if d <= 0 || rapid.IntRange(0, 1).Draw(g.rt, "aLeaf") == 0 {
		return base
	}
	switch rapid.IntRange(0, 2).Draw(g.rt, "aForm") {
	case 0:
		return &nestNode{Recv: g.arr(d - 1), Fn: "append", Args: []*nestNode{g.num(d - 1), g.num(d - 1)}}
	case 1:
		return &nestNode{Recv: g.arr(d - 1), Fn: "slice", Args: []*nestNode{g.num(d - 1), g.num(d - 1)}}
	default:
		return &nestNode{Recv: g.arr(d - 1), Fn: "prepend", Args: []*nestNode{g.num(d - 1)}}
	}
}

var nestForms = map[string]string{
	"twice":      "[{{ E }}]|[{{ E }}]",
	"thrice":     "[{{ E }}]|[{{ E }}]|[{{ E }}]",
	"each":       "@each(k in [1, 2, 3])[{{ E }}]|@end",
	"for":        "@for(k = 0; k < 2; k++)[{{ E }}]|@end",
	"after-wide": "{{ 'warm'.truncate(2, 'up') }}{{ [0].append(1, 2, 3, 4).len() }}[{{ E }}]|[{{ E }}]",
}

func c11NestRun(c *harness.Check, cs nestCase) string {
	ref := cs.Root.eval()
	if ref.St != refint.OK {
		return ""
	}
	var one string
	cal := getCalib()
	switch ref.V.K {
	case refint.KStr:
		one = ref.V.S
	case refint.KInt:
		one = fmt.Sprint(ref.V.I)
	case refint.KBool:
		one = cal.False
		if ref.V.B {
			one = cal.True
		}
	default:
		return ""
	}
	src := strings.ReplaceAll(nestForms[cs.Form], "E", tw.ExprString(cs.Root.expr(), nil))
	r := evalString(c, "json", mustJSON(cs), src, nil)
	if r.Panic != nil {
		return "panic: " + r.Panic.Value
	}
	if r.IsErr() {
		return "unexpected error: " + r.Err
	}
	n := strings.Count(nestForms[cs.Form], "E")
	switch cs.Form {
	case "each":
		n = 3
	case "for":
		n = 2
	}
	out := r.Out
	if cs.Form == "after-wide" {
		out = strings.TrimPrefix(out, "waup5")
	}
	parts := strings.Split(strings.TrimSuffix(out, "|"), "|")
	if len(parts) != n {
		return fmt.Sprintf("output %q does not consist of %d evaluations", r.Out, n)
	}
	for i, p := range parts {
		if p != "["+one+"]" {
			return fmt.Sprintf("evaluation %d of %d renders %q, the contract gives %q (template %s)", i+1, n, p, "["+one+"]", src)
		}
	}
	return ""
}

func init() {
	harness.RegisterReplayer("C11/nested-calls", func(raw json.RawMessage) string {
		cs, err := unJSON[nestCase](raw)
		if err != nil {
			return "bad case: " + err.Error()
		}
		c := harness.New(nopTB{}, "C11", "replay", "")
		return c11NestRun(c, cs)
	})
}

func TestC11_NestedCalls(t *testing.T) {
	c := harness.New(t, "C11", "nested-calls",
		"call expressions to depth 3 whose receivers and arguments are themselves calls (upper, repeat, truncate, trim, str, len, abs, then, contains, append, prepend, slice over small strings, integers, booleans and arrays), the whole expression evaluated two or three times in one render: side by side, in every pass of an @each and of a @for, and after calls with longer argument lists; each evaluation must render the value the contracts give for the expression as written (the reference evaluates arguments first, then applies the contract). Cases whose reference value is an error or unspecified are skipped. Non-trivial: an argument that is itself a call with arguments. Distinct by hash.")
	defer c.Finish()
	runRapid(t, c, 3000, 40000, func(rt *rapid.T) {
		g := nestGen{rt}
		var root *nestNode
		switch rapid.IntRange(0, 2).Draw(rt, "rootKind") {
		case 0:
			root = g.str(3)
		case 1:
			root = g.num(3)
		default:
			root = g.boolean(3)
		}
		forms := []string{"twice", "thrice", "each", "for", "after-wide"}
		cs := nestCase{Root: root, Form: rapid.SampledFrom(forms).Draw(rt, "form")}
		ref := root.eval()
		nt := root.nestedInArgs()
		c.Case(nt, mustJSON(cs), "outcome:"+ref.St.String(), "form:"+cs.Form, fmt.Sprintf("arg-depth:%d", root.depthWithArgs()))
		if ref.St != refint.OK {
			return
		}
		if nt && c.S.Evals%50 == 0 {
			c.Sample(strings.ReplaceAll(nestForms[cs.Form], "E", tw.ExprString(root.expr(), nil)))
		}
		if f := c11NestRun(c, cs); f != "" {
			c.Fail(rt, kindOf(f), cs, "the value of the expression as written, each time", f, f)
		}
	})
}
