package checks

import (
	"encoding/json"
	"fmt"
	"sort"
	"strings"
	"testing"

	"github.com/textwire/textwire/v2/lexer"
	"github.com/textwire/textwire/v2/token"
	"pgregory.net/rapid"
	"verif/lib/harness"
	"verif/lib/reftext"
	"verif/lib/tw"
)

// C19 — token positions are exact, ordered and tile the source.

func init() {
	for _, n := range []string{"lexeme-sequences", "templates", "soup", "long-lines"} {
		harness.RegisterReplayer("C19/"+n, func(raw json.RawMessage) string {
			var src string
			if err := json.Unmarshal(raw, &src); err != nil {
				return "bad case: " + err.Error()
			}
			c := harness.New(nopTB{}, "C19", "replay", "")
			return c19Check(c, src)
		})
	}
}

type posTok struct {
	tok        token.Token
	start, end int // byte offsets of first and last byte
}

func isSpaceByte(b byte) bool { return b == ' ' || b == '\t' || b == '\n' || b == '\r' }

// gapOK: a gap may hold whitespace and complete comments only.
func gapOK(gap string) bool {
	for len(gap) > 0 {
		if isSpaceByte(gap[0]) {
			gap = gap[1:]
			continue
		}
		if strings.HasPrefix(gap, "{{--") {
			end := strings.Index(gap[2:], "--}}")
			if end < 0 {
				return false
			}
			gap = gap[2+end+4:]
			continue
		}
		return false
	}
	return true
}

func c19Check(c *harness.Check, src string) string {
	var failure string
	pi := c.Guard("raw", src, func() { failure = c19Oracle(src) })
	if pi != nil {
		return "panic: " + pi.Value
	}
	return failure
}

func c19Oracle(src string) string {
	ix := reftext.NewIndex(src)
	l := lexer.New(src)
	var toks []posTok
	for i := 0; i <= len(src)+2; i++ {
		t := l.NextToken()
		p := t.Pos
		s := ix.Offset(int(p.StartLine), int(p.StartCol))
		e := ix.Offset(int(p.EndLine), int(p.EndCol))
		desc := fmt.Sprintf("token %d (type %d, literal %q, pos %d:%d-%d:%d)", i, t.Type, t.Literal, p.StartLine, p.StartCol, p.EndLine, p.EndCol)
		if s < 0 || e < 0 {
			return desc + ": position is not a byte position of the source"
		}
		if t.Type == token.EOF {
			if s != len(src) || e != len(src) {
				return fmt.Sprintf("%s: end-of-input token is not at the position just past the last byte (offset %d)", desc, len(src))
			}
			toks = append(toks, posTok{t, s, e})
			break
		}
		if e < s {
			return desc + ": end before start"
		}
		if e >= len(src) {
			return desc + ": ends beyond the last byte"
		}
		if t.Type == token.ILLEGAL && len(toks) > 0 && toks[len(toks)-1].tok.Type == token.ILLEGAL && toks[len(toks)-1].start == s {
			break // the lexer stays on the illegal character: nothing more to read
		}
		toks = append(toks, posTok{t, s, e})
		// a lexer that steps over the illegal character and goes on is held to the same
		// rules for what follows (the tokens still tile the source)
	}
	if len(toks) == 0 || (toks[len(toks)-1].tok.Type != token.EOF && toks[len(toks)-1].tok.Type != token.ILLEGAL) {
		return "lexer did not reach EOF or ILLEGAL"
	}
	sawIllegal := false
	prevEnd := -1
	prevText := true // mode before the token: text mode at start
	for i, pt := range toks {
		t := pt.tok
		desc := fmt.Sprintf("token %d (type %d, literal %q, bytes %d..%d)", i, t.Type, t.Literal, pt.start, pt.end)
		if pt.start <= prevEnd {
			return desc + ": overlaps or precedes the previous token"
		}
		gap := src[prevEnd+1 : pt.start]
		if sawIllegal && i > 0 && toks[i-1].tok.Type == token.ILLEGAL && !gapOK(gap) {
			return fmt.Sprintf("%s: the lexer went on after the illegal token but the bytes %q between them belong to no token", desc, gap)
		}
		if t.Type == token.ILLEGAL {
			sawIllegal = true
		}
		if !gapOK(gap) {
			return fmt.Sprintf("%s: gap before it holds %q (only whitespace inside code or comments may be skipped)", desc, gap)
		}
		if t.Type == token.EOF {
			break
		}
		text := src[pt.start : pt.end+1]
		switch t.Type {
		case token.ILLEGAL:
			// starts at the offending byte: the illegal character itself, the
			// opening quote of an unterminated string, the "{{" of an unterminated comment
			if t.Literal != "" && t.Literal[0] < 0x80 && !strings.HasPrefix(text, t.Literal) {
				return desc + ": illegal token does not start at the offending byte, source there is " + fmt.Sprintf("%q", text)
			}
		case token.STR:
			if len(text) < 2 || (text[0] != '"' && text[0] != '\'') || text[len(text)-1] != text[0] {
				return desc + ": source range of a string is not quote..quote: " + fmt.Sprintf("%q", text)
			}
			q := text[:1]
			if strings.ReplaceAll(text[1:len(text)-1], "\\"+q, q) != t.Literal {
				return desc + ": string literal does not match its source range " + fmt.Sprintf("%q", text)
			}
		case token.HTML:
			if strings.HasSuffix(text, "\\{") && pt.end+1 < len(src) && src[pt.end+1] == '{' {
				// "\{{{": the escaped "{{" overlaps a real one; what the text
				// token holds is not settled by the statement
				break
			}
			cl, want := reftext.Classify(text)
			if cl != reftext.Plain && cl != reftext.AllEscaped {
				return desc + ": text token covers an unescaped construct: " + fmt.Sprintf("%q", text)
			}
			if want != t.Literal {
				return fmt.Sprintf("%s: text literal is not its source range %q minus escape backslashes", desc, text)
			}
			_ = prevText
		default:
			if text != t.Literal {
				return fmt.Sprintf("%s: source range holds %q", desc, text)
			}
		}
		prevEnd = pt.end
	}
	// cursor containment: every byte position lies in exactly the covering token. For large
	// sources (bytes x tokens beyond four million) the positions checked are those within two bytes
	// of a token's first or last byte and 2000 evenly spaced ones, each against the tokens within
	// three places of its covering token and the first and last token.
	small := len(src)*len(toks) <= 4_000_000
	var offsets []int
	if small {
		for off := 0; off <= len(src); off++ {
			offsets = append(offsets, off)
		}
	} else {
		mark := map[int]bool{}
		add := func(o int) {
			if o >= 0 && o <= len(src) && !mark[o] {
				mark[o] = true
				offsets = append(offsets, o)
			}
		}
		for _, pt := range toks {
			for d := -2; d <= 2; d++ {
				add(pt.start + d)
				add(pt.end + d)
			}
		}
		for k := 0; k <= 2000; k++ {
			add(len(src) / 2000 * k)
		}
		sort.Ints(offsets)
	}
	ci := 0 // index of the first token whose end is >= off (offsets ascend)
	for _, off := range offsets {
		line, col := ix.LineCol(off)
		if off == len(src) && toks[len(toks)-1].tok.Type != token.EOF {
			break
		}
		for ci < len(toks)-1 && toks[ci].tok.Type != token.EOF && toks[ci].end < off {
			ci++
		}
		cover := -1
		if pt := toks[ci]; pt.tok.Type == token.EOF {
			if off == len(src) {
				cover = ci
			}
		} else if off >= pt.start && off <= pt.end {
			cover = ci
		}
		var which []int
		if small {
			for i := range toks {
				which = append(which, i)
			}
		} else {
			which = append(which, 0, len(toks)-1)
			for i := ci - 3; i <= ci+3; i++ {
				if i > 0 && i < len(toks)-1 {
					which = append(which, i)
				}
			}
		}
		for _, i := range which {
			pt := toks[i]
			got := pt.tok.Pos.Contains(uint(line), uint(col))
			if got != (i == cover) {
				// after an ILLEGAL token nothing is claimed about the rest
				if toks[len(toks)-1].tok.Type == token.ILLEGAL && off > toks[len(toks)-1].end {
					continue
				}
				return fmt.Sprintf("cursor %d:%d (byte %d): token %d (%q, %d:%d-%d:%d) Contains=%v, covering token is %d", line, col, off, i, pt.tok.Literal,
					pt.tok.Pos.StartLine, pt.tok.Pos.StartCol, pt.tok.Pos.EndLine, pt.tok.Pos.EndCol, got, cover)
			}
		}
	}
	return ""
}

func c19NonTrivial(s string) bool {
	if strings.Contains(s, "\n") && len(s) > 2 {
		return true
	}
	if strings.Contains(s, "\\") {
		return true
	}
	for i := 0; i < len(s); i++ {
		if s[i] >= 0x80 {
			return true
		}
	}
	return false
}

func c19Alphabet() []string {
	var a []string
	for _, l := range c08Alphabet() {
		a = append(a, l)
	}
	return append(a, "\r\n", "\"a\nb\"", "'q\\'q'", "日本", "\\{{", "\\@if", "{{-- c\nc --}}", "\xef\xbb\xbf", "\f", "\xc2\xa0", "99999999999999999999")
}

func TestC19_LexemeSequences(t *testing.T) {
	alpha := c19Alphabet()
	k := harness.Pick(3, 4)
	c := harness.New(t, "C19", "lexeme-sequences",
		fmt.Sprintf("every sequence of up to k lexemes (k=3 quick, 4 thorough) from the lexeme alphabet of C08 plus CRLF, strings containing newlines and escaped quotes, multi-byte text, escapes and a multi-line comment (%d lexemes), no NUL; oracle against an independent offset<->(line, byte column) index: tokens ordered and disjoint, start/end = first/last byte, source range = the token's own text (quotes for strings, escape backslashes for text), gaps = whitespace or complete comments, EOF just past the last byte, ILLEGAL at the offending byte, and for every byte position exactly the covering token answers Contains. Non-trivial: >= 2 lines, or an escape, or a non-ASCII byte. Distinct by construction.", len(alpha)))
	defer c.Finish()
	n := 0
	var rec func(prefix string, depth int)
	rec = func(prefix string, depth int) {
		nt := c19NonTrivial(prefix)
		c.CaseEnum(nt)
		n++
		if nt && n%40009 == 0 {
			c.Sample(prefix)
		}
		if f := c19Check(c, prefix); f != "" {
			c.Fail(t, kindOf(f), prefix, "exact positions", f, f)
		}
		if depth == k {
			return
		}
		for _, p := range alpha {
			rec(prefix+p, depth+1)
		}
	}
	idx := 0
	for _, p1 := range alpha {
		idx++
		if harness.Mine(idx) {
			c.CaseEnum(c19NonTrivial(p1))
			if f := c19Check(c, p1); f != "" {
				c.Fail(t, kindOf(f), p1, "exact positions", f, f)
			}
		}
		for _, p2 := range alpha {
			idx++
			if harness.Mine(idx) {
				rec(p1+p2, 2)
			}
		}
	}
	c.ExhaustivePart(fmt.Sprintf("all lexeme sequences of length <= %d over %d lexemes", k, len(alpha)))
}

func TestC19_Templates(t *testing.T) {
	c := harness.New(t, "C19", "templates",
		"generated valid templates printed with random whitespace/newlines/CRLF between tokens: multi-line text runs, strings containing newlines and escaped quotes, multi-line comments, {{ }} blocks and directive argument lists spread over lines, escapes, non-ASCII text; plus every prefix of them at a sampled cut (unterminated constructs give ILLEGAL/EOF positions). Same oracle. Non-trivial: as above. Distinct by hash.")
	defer c.Finish()
	runRapid(t, c, 15000, 180000, func(rt *rapid.T) {
		sg := &synGen{g: &exprGen{}}
		stmts := sg.stmts(rt, 2, false)
		// sprinkle position-relevant text
		extra := rapid.SliceOfN(rapid.SampledFrom([]string{"\n", "é\n", "a\r\nb", "\\{{ x }}", "\\@if(y)", "{{-- m\n\n --}}", "日本\n", "\t"}), 0, 3).Draw(rt, "extra")
		for _, e := range extra {
			at := rapid.IntRange(0, len(stmts)).Draw(rt, "extraAt")
			st := tw.Text(e)
			stmts = append(stmts[:at], append([]*tw.Stmt{st}, stmts[at:]...)...)
		}
		src := tw.PrintStmts(stmts, genLayout().Draw(rt, "layout")).Src
		if rapid.IntRange(0, 3).Draw(rt, "cut") == 0 && len(src) > 0 {
			src = src[:rapid.IntRange(0, len(src)-1).Draw(rt, "cutAt")]
		}
		if strings.IndexByte(src, 0) >= 0 {
			return
		}
		nt := c19NonTrivial(src)
		c.Case(nt, src)
		if nt {
			c.Sample(src)
		}
		if f := c19Check(c, src); f != "" {
			c.Fail(rt, kindOf(f), src, "exact positions", f, f)
		}
	})
}

func TestC19_Soup(t *testing.T) {
	c := harness.New(t, "C19", "soup",
		"random soups of 0..30 lexemes (no NUL; the alphabet extended by integers beyond int64, numbers with several dots or leading zeros, 40-digit numbers, 70-letter names, a 300-byte string) with random non-NUL bytes mixed in; same oracle. Distinct by hash.")
	defer c.Finish()
	// (plus lexemes the literal parsers refuse or read specially: integers beyond int64, several dots, leading zeros, long identifiers and numbers)
	alpha := append(c19Alphabet(), "99999999999999999999", "9223372036854775808", "9223372036854775807", "18446744073709551616", "1.2.3", "007", "0.0.0", "1.", ".5", "12345678901234567890.5",
		strings.Repeat("9", 40), strings.Repeat("n", 70), "1e5", "0x1F", "1_000", "'"+strings.Repeat("s", 300)+"'")
	runRapid(t, c, 30000, 360000, func(rt *rapid.T) {
		n := rapid.IntRange(0, 30).Draw(rt, "n")
		var b strings.Builder
		for i := 0; i < n; i++ {
			if rapid.IntRange(0, 15).Draw(rt, "rawByte") == 0 {
				b.WriteByte(byte(rapid.IntRange(1, 255).Draw(rt, "byte")))
			} else {
				b.WriteString(rapid.SampledFrom(alpha).Draw(rt, "lx"))
			}
		}
		src := b.String()
		nt := c19NonTrivial(src)
		c.Case(nt, src)
		if nt {
			c.Sample(src)
		}
		if f := c19Check(c, src); f != "" {
			c.Fail(rt, kindOf(f), src, "exact positions", f, f)
		}
	})
}
