package checks

import (
	"encoding/json"
	"fmt"
	"strings"
	"testing"

	textwire "github.com/textwire/textwire/v2"

	"verif/lib/harness"
	"verif/lib/spec"
)

// C01/faults-anywhere: "mixed operand types, integer division or modulo by
// zero, unknown identifiers and out-of-range integer literals make the render
// fail with an error rather than produce output" - wherever in an expression
// the faulty operand stands, also where a construct only inspects or passes on
// its operand: an argument of a built-in or of a registered Go function, an
// element of an array or object literal, an index, a branch that is taken, the
// right-hand side of an assignment, the second expression of a print.

type faultAtCase struct {
	Src string `json:"src"`
}

func c01RegisterCustom() string {
	textwire.VerifReset()
	for _, err := range []error{
		textwire.RegisterIntFunc("zzTwice", func(i int, a ...any) int { return 2 * i }),
		textwire.RegisterStrFunc("zzShout", func(s string, a ...any) string { return strings.ToUpper(s) }),
		textwire.RegisterArrFunc("zzCount", func(xs []any, a ...any) []any { return []any{len(xs), len(a)} }),
		textwire.RegisterBoolFunc("zzNot", func(b bool, a ...any) bool { return !b }),
		textwire.RegisterFloatFunc("zzHalf", func(f float64, a ...any) float64 { return f / 2 }),
	} {
		if err != nil {
			return err.Error()
		}
	}
	return ""
}

func c01FaultAt(c *harness.Check, cs faultAtCase) string {
	var failure string
	data := (&spec.Data{}).Add("x", spec.IntOf(spec.TInt, 3)).Add("s", spec.String("abc")).Add("xs", spec.Slice(spec.T(spec.TInt), spec.IntOf(spec.TInt, 1), spec.IntOf(spec.TInt, 2))).Add("t", spec.Bool(true))
	pi := c.Guard("json", mustJSON(cs), func() {
		if f := c01RegisterCustom(); f != "" {
			failure = "harness: registering functions failed: " + f
			return
		}
		out, err := textwire.EvaluateString(cs.Src, data.GoMap())
		if err == nil {
			failure = fmt.Sprintf("the render succeeded with output %q although an operand fails", out)
			return
		}
		if out != "" {
			failure = fmt.Sprintf("error together with output %q", out)
		}
	})
	textwire.VerifReset()
	if pi != nil {
		return "panic: " + pi.Value
	}
	return failure
}

func init() {
	harness.RegisterReplayer("C01/faults-anywhere", func(raw json.RawMessage) string {
		cs, err := unJSON[faultAtCase](raw)
		if err != nil {
			return "bad case: " + err.Error()
		}
		return c01FaultAt(harness.New(nopTB{}, "C01", "replay", ""), cs)
	})
}

func TestC01_FaultsAnywhere(t *testing.T) {
	faults := []string{"zzUnknown", "1 / 0", "x % 0", "1 + 'a'", "'a' * 2", "1.5 + 1", "x < 'a'", "99999999999999999999", "-zzUnknown", "(1 / (x - 3))", "zzUnknown.len()", "s.nosuchfn()", "{a: 1}.zz", "true + 1", "nil + 1"}
	places := []string{
		// arguments of built-ins that place, select or ignore them
		"s.contains(%s)", "xs.append(%s)", "xs.append(1, %s)", "xs.prepend(%s).len()", "t.then(1, %s)", "t.then(%s, 1)", "false.then(1, %s)", "false.then(%s)", "t.then(1, 2, %s)", "s.repeat(%s)", "xs.slice(0, %s)", "xs.contains(%s)",
		"s.truncate(2, %s)", "xs.join(%s)", "x.decimal('.', %s)", "s.len(%s)", "x.abs(%s)", "s.upper(%s)",
		// arguments of registered Go functions, in every position
		"x.zzTwice(%s)", "x.zzTwice(1, %s)", "s.zzShout(%s)", "s.zzShout('a', 2, %s)", "xs.zzCount(%s)", "xs.zzCount([1], %s)", "t.zzNot(%s)", "2.5.zzHalf(%s)", "1 + x.zzTwice(%s) * 2", "x.zzTwice(x.zzTwice(%s))",
		// receivers
		"(%s).zzTwice()", "(%s).len()", "(%s).zzShout(1)",
		// elements of literals, indexes, branches that are taken, parts of a print or an assignment
		"[%s]", "[1, %s]", "[1, 2, %s].len()", "[[1], [%s]]", "{a: %s}", "{a: 1, b: %s}", "{a: {b: %s}}.a", "[1, 2][%s]", "{a: 1}[%s]", "xs[%s]", "[%s][0]", "[1, %s][0]", "{a: 1, b: %s}.a",
		"t ? %s : 1", "false ? 1 : %s", "(%s) ? 1 : 2", "t ? (t ? %s : 1) : 2", "[1, %s] ? 1 : 2", "t.then(1, %s) ? 1 : 2", "!(%s)", "-(%s)", "(%s) == (%s)", "1; %s", "%s; 1", "y = %s", "y = %s; 1", "y = [1, %s]; y.len()", "y = x.zzTwice(%s); y",
		"xs.len() + (%s)", "s + (%s)", "(%s) + s",
	}
	stmts := []string{"@if(%s)a@end", "@if(false)a@elseif(%s)b@end", "@if([1, %s])a@else b@end", "@each(v in [1, %s])a@end", "@each(v in xs)@breakIf([0, %s])a@end", "@each(v in xs)@continueIf(t.then(false, %s))a@end",
		"@for(i = 0; i < 2; i = %s)a@end", "@for(i = %s; i < 2; i++)a@end", "@for(i = 0; [i, %s]; i++)@break@end"}
	// (@dump is not among them: it shows the error of an argument as a value, a debugging aid no property speaks about)
	c := harness.New(t, "C01", "faults-anywhere",
		fmt.Sprintf("%d failing operands (unknown identifier, division and modulo by zero - also one that only fails at run time -, mixed operand types, an out-of-range literal, unknown function / property) x %d places in an expression where a construct inspects, selects, ignores or passes on its operand - every argument position of built-ins (contains, append, prepend, then with the argument it does not return, repeat, slice, truncate, join, decimal, superfluous arguments) and of registered Go functions of all five receiver types, receivers, elements of array and object literals, indexes, taken ternary branches, conditions, both sides of ';', right-hand sides of assignments - and %d statement headers: the render must fail with an error and without output. Exhaustive. Non-trivial: all. Distinct by construction.", len(faults), len(places), len(stmts)))
	defer c.Finish()
	idx := 0
	run := func(src string) {
		idx++
		if !harness.Mine(idx) {
			return
		}
		cs := faultAtCase{Src: src}
		c.CaseEnum(true)
		if idx%131 == 0 {
			c.Sample(src)
		}
		if f := c01FaultAt(c, cs); f != "" {
			c.Fail(t, kindOf(f), cs, "an error, no output", f, f)
		}
	}
	for _, f := range faults {
		for _, p := range places {
			run("[{{ " + strings.ReplaceAll(p, "%s", f) + " }}]")
		}
		for _, s := range stmts {
			run("<" + strings.ReplaceAll(s, "%s", f) + ">")
		}
	}
	c.ExhaustivePart(fmt.Sprintf("%d faults x (%d expression places + %d statement headers)", len(faults), len(places), len(stmts)))
}
