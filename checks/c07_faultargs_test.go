package checks

import (
	"fmt"
	"strings"
	"testing"

	"verif/lib/harness"
	"verif/lib/spec"
)

func init() { registerTreeReplayer("C07/faulty-arguments", "C07/argument-keys") }

// TestC07_FaultyArguments: every argument of a use is "bound to the value of v
// evaluated at the place of use" - so an argument that cannot be evaluated (or
// bound) fails the render, whether or not the component file reads it.
func TestC07_FaultyArguments(t *testing.T) {
	comps := []struct{ name, src string }{
		{"plain-text", "<b>static</b>"}, {"empty", ""}, {"comment-only", "{{-- nothing --}}"}, {"reads-argument", "<b>{{ v }}</b>"}, {"reads-other-argument", "<b>{{ w }}</b>"},
		{"expression-without-arguments", "<b>{{ 1 + 1 }}</b>"}, {"placeholder-only", "@slot"}, {"text-and-escape", "a \\{{ v }} b"}, {"line-ends", "\n\n"},
	}
	faults := []string{"zzUnknown", "1 / 0", "1 + 'a'", "{a: 1}.zz", "x.nosuchfn()", "[1][0].zz", "x % 0"}
	args := []string{"{v: %s, w: 2}", "{v: 1, w: %s}", "{a: %s, v: 1, w: 2}", "{v: [1, %s], w: 2}", "{v: {k: %s}, w: 2}", "{v: true ? %s : 1, w: 2}", "{v: 1, w: 2, zz: %s}"}
	places := []struct{ name, pre, post string }{
		{"top", "<p>", "</p>"}, {"in-if", "@if(true)<i>", "</i>@end"}, {"in-else", "@if(false)n@else<i>", "</i>@end"}, {"in-each-first-pass", "@each(i in [1, 2])<li>", "</li>@end"},
		{"in-slot-body", "@component(\"wrap\")\n@slot<s>", "</s>@end\n@end;"}, {"in-insert", "@use(\"~lay\")@insert(\"r\")<m>", "</m>@end"},
	}
	c := harness.New(t, "C07", "faulty-arguments",
		fmt.Sprintf("a use '@component(\"c\", ARGS)' whose argument object holds one failing entry - %d faults (unknown identifier, division and modulo by zero, mixed operands, unknown property / function) x %d positions in the object (first, last, in the middle, inside an array or object value, in the taken branch of a ternary, under a key the component never reads) - x %d component files (plain text, empty, a comment only, line ends only, reading the faulty argument, reading another, an expression that uses none, a placeholder only, an escape) x %d places of the use (top level, @if and @else branch, first pass of a loop, slot body of another use, insert of a page with a layout); plus arguments that cannot be bound (the reserved name loop): the render must fail with an error and without output. Exhaustive. Non-trivial: all. Distinct by construction.", len(faults), len(args), len(comps), len(places)))
	defer c.Finish()
	data := (&spec.Data{}).Add("x", spec.IntOf(spec.TInt, 3))
	idx := 0
	run := func(comp, arg, pre, post, note string) {
		idx++
		if !harness.Mine(idx) {
			return
		}
		files := map[string]string{"c": comp, "wrap": "<w>@slot</w>", "layouts/lay": "<html>@reserve(\"r\")</html>", "page": pre + "@component(\"c\", " + arg + ");" + post}
		cs := treeCase{Files: files, Dir: "t", Ext: ".tw", Page: "page", Data: data, Want: want{St: "error", Why: "a component argument that cannot be evaluated or bound"}, Note: note}
		c.CaseEnum(true)
		if idx%173 == 0 {
			c.Sample(cs.sample())
		}
		if r, f := runTreeCase(c, cs); f != "" {
			c.Fail(t, kindOf(f), cs, cs.Want, r, f)
		}
	}
	for _, cp := range comps {
		for _, pl := range places {
			for _, a := range args {
				for _, f := range faults {
					run(cp.src, strings.ReplaceAll(a, "%s", f), pl.pre, pl.post, cp.name+" "+pl.name)
				}
			}
			run(cp.src, "{loop: 1}", pl.pre, pl.post, cp.name+" "+pl.name+" reserved name")
			run(cp.src, "{v: 1, loop: [1]}", pl.pre, pl.post, cp.name+" "+pl.name+" reserved name")
		}
	}
	c.ExhaustivePart(fmt.Sprintf("%d component files x %d places x (%d argument shapes x %d faults + 2 unbindable)", len(comps), len(places), len(args), len(faults)))
}

// TestC07_ArgumentKeys: "every k bound to the value of v" - for every key an
// argument object can have, also one that no expression could read back: the
// use renders the component file with its other arguments and its slots.
func TestC07_ArgumentKeys(t *testing.T) {
	keys := []string{`"data-id"`, `"2nd"`, `"og:title"`, `""`, `"имя"`, `"a b"`, `"v.w"`, `'x-y'`, `"in"`, `"true"`, `"nil"`, `"V"`, `_`, `_v`, `v2`, `"v"`}
	comps := []struct{ name, src, out string }{{"reads-v", "<b>{{ v }}</b>[@slot]", "<b>1</b>[%s]"}, {"plain", "<b>static</b>", "<b>static</b>"}, {"slot-only", "@slot", "%s"}}
	places := []struct{ name, pre, post, out string }{
		{"top", "<p>", "</p>", "<p>%s</p>"}, {"in-each", "@each(i in [1, 2])", "@end", "%s%s"}, {"in-if", "@if(true)", "@end", "%s"}, {"in-insert", "@use(\"~lay\")@insert(\"r\")", "@end", "<html>%s</html>"},
	}
	c := harness.New(t, "C07", "argument-keys",
		fmt.Sprintf("a use '@component(\"c\", {KEY: 7, v: 1})' for %d spellings of KEY - quoted keys that are no identifiers (a dash, a digit first, a colon, a blank, a dot, empty, non-ASCII), quoted keywords, an upper-case namesake, underscores - before and after v, with and without a slot body, x %d component files x %d places: the component renders with v and its slot body. Exhaustive. Non-trivial: a key that is no identifier. Distinct by construction.", len(keys), len(comps), len(places)))
	defer c.Finish()
	idx := 0
	for _, k := range keys {
		for _, cp := range comps {
			for _, pl := range places {
				for form := 0; form < 3; form++ {
					idx++
					if !harness.Mine(idx) {
						continue
					}
					arg, slotBody := "{"+k+": 7, v: 1}", ""
					if form == 1 {
						arg = "{v: 1, " + k + ": 7}"
					}
					if k == `"v"` {
						arg = "{" + k + ": 1}"
					}
					use := "@component(\"c\", " + arg + ");"
					if form == 2 {
						use, slotBody = "@component(\"c\", "+arg+")\n@slot S@end\n@end", " S"
					}
					if cp.name == "plain" && form == 2 {
						continue // a slot the file does not declare is an error of its own
					}
					rendered := cp.out
					if strings.Contains(rendered, "%s") {
						rendered = fmt.Sprintf(rendered, slotBody)
					}
					if form != 2 {
						rendered += ";"
					}
					want := strings.ReplaceAll(pl.out, "%s", rendered)
					files := map[string]string{"c": cp.src, "layouts/lay": "<html>@reserve(\"r\")</html>", "page": pl.pre + use + pl.post}
					cs := treeCase{Files: files, Dir: "t", Ext: ".tw", Page: "page", Want: want_(want), Note: cp.name + " " + pl.name}
					c.CaseEnum(strings.HasPrefix(k, `"`) || strings.HasPrefix(k, "'"), "place:"+pl.name)
					if idx%41 == 0 {
						c.Sample(cs.sample())
					}
					if r, f := runTreeCase(c, cs); f != "" {
						c.Fail(t, kindOf(f), cs, cs.Want, r, f)
					}
				}
			}
		}
	}
	c.ExhaustivePart(fmt.Sprintf("%d keys x %d component files x %d places x 3 forms of the use", len(keys), len(comps), len(places)))
}

func want_(s string) want { return want{St: "ok", Kind: "text", S: s} }
