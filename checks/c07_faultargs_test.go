package checks

import (
	"fmt"
	"strings"
	"testing"

	"verif/lib/harness"
	"verif/lib/spec"
)

func init() { registerTreeReplayer("C07/faulty-arguments") }

// TestC07_FaultyArguments: every argument of a use is "bound to the value of v
// evaluated at the place of use" - so an argument that cannot be evaluated (or
// bound) fails the render, whether or not the component file reads it.
func TestC07_FaultyArguments(t *testing.T) {
	comps := []struct{ name, src string }{
		{"plain-text", "<b>static</b>"}, {"empty", ""}, {"comment-only", "{{-- nothing --}}"}, {"reads-argument", "<b>{{ v }}</b>"}, {"reads-other-argument", "<b>{{ w }}</b>"},
		{"expression-without-arguments", "<b>{{ 1 + 1 }}</b>"}, {"placeholder-only", "@slot"}, {"text-and-escape", "a \\{{ v }} b"}, {"line-ends", "\n\n"},
	}
	faults := []string{"zzUnknown", "1 / 0", "1 + 'a'", "{a: 1}.zz", "x.nosuchfn()", "[1][0].zz", "x % 0"}
	args := []string{"{v: %s, w: 2}", "{v: 1, w: %s}", "{a: %s, v: 1, w: 2}", "{v: [1, %s], w: 2}", "{v: {k: %s}, w: 2}", "{v: true ? %s : 1, w: 2}", "{v: 1, w: 2, zz: %s}"}
	places := []struct{ name, pre, post string }{
		{"top", "<p>", "</p>"}, {"in-if", "@if(true)<i>", "</i>@end"}, {"in-else", "@if(false)n@else<i>", "</i>@end"}, {"in-each-first-pass", "@each(i in [1, 2])<li>", "</li>@end"},
		{"in-slot-body", "@component(\"wrap\")\n@slot<s>", "</s>@end\n@end;"}, {"in-insert", "@use(\"~lay\")@insert(\"r\")<m>", "</m>@end"},
	}
	c := harness.New(t, "C07", "faulty-arguments",
		fmt.Sprintf("a use '@component(\"c\", ARGS)' whose argument object holds one failing entry - %d faults (unknown identifier, division and modulo by zero, mixed operands, unknown property / function) x %d positions in the object (first, last, in the middle, inside an array or object value, in the taken branch of a ternary, under a key the component never reads) - x %d component files (plain text, empty, a comment only, line ends only, reading the faulty argument, reading another, an expression that uses none, a placeholder only, an escape) x %d places of the use (top level, @if and @else branch, first pass of a loop, slot body of another use, insert of a page with a layout); plus arguments that cannot be bound (the reserved name loop): the render must fail with an error and without output. Exhaustive. Non-trivial: all. Distinct by construction.", len(faults), len(args), len(comps), len(places)))
	defer c.Finish()
	data := (&spec.Data{}).Add("x", spec.IntOf(spec.TInt, 3))
	idx := 0
	run := func(comp, arg, pre, post, note string) {
		idx++
		if !harness.Mine(idx) {
			return
		}
		files := map[string]string{"c": comp, "wrap": "<w>@slot</w>", "layouts/lay": "<html>@reserve(\"r\")</html>", "page": pre + "@component(\"c\", " + arg + ");" + post}
		cs := treeCase{Files: files, Dir: "t", Ext: ".tw", Page: "page", Data: data, Want: want{St: "error", Why: "a component argument that cannot be evaluated or bound"}, Note: note}
		c.CaseEnum(true)
		if idx%173 == 0 {
			c.Sample(cs.sample())
		}
		if r, f := runTreeCase(c, cs); f != "" {
			c.Fail(t, kindOf(f), cs, cs.Want, r, f)
		}
	}
	for _, cp := range comps {
		for _, pl := range places {
			for _, a := range args {
				for _, f := range faults {
					run(cp.src, strings.ReplaceAll(a, "%s", f), pl.pre, pl.post, cp.name+" "+pl.name)
				}
			}
			run(cp.src, "{loop: 1}", pl.pre, pl.post, cp.name+" "+pl.name+" reserved name")
			run(cp.src, "{v: 1, loop: [1]}", pl.pre, pl.post, cp.name+" "+pl.name+" reserved name")
		}
	}
	c.ExhaustivePart(fmt.Sprintf("%d component files x %d places x (%d argument shapes x %d faults + 2 unbindable)", len(comps), len(places), len(args), len(faults)))
}
