package checks

import (
	"encoding/json"
	"fmt"
	"strings"
	"sync"
	"testing"

	"pgregory.net/rapid"
	"verif/lib/harness"
)

// C19/parallel-lexers: the tokens of a source are a function of that source -
// also while other sources are lexed at the same time (parsing happens inside
// every concurrent render, C15). A batch of sources rich in long text runs is
// lexed by 16 goroutines at once, each with a lexer of its own, and every
// source is held to the same oracle as everywhere in C19.

type parLexCase struct {
	Sources []string `json:"sources"`
	Rounds  int      `json:"rounds"`
}

func init() {
	harness.RegisterReplayer("C19/parallel-lexers", func(raw json.RawMessage) string {
		cs, err := unJSON[parLexCase](raw)
		if err != nil {
			return "bad case: " + err.Error()
		}
		cs.Rounds = 300
		return c19Parallel(harness.New(nopTB{}, "C19", "replay", ""), cs)
	})
}

func c19Parallel(c *harness.Check, cs parLexCase) string {
	failure := ""
	pi := c.Guard("json", mustJSON(cs), func() {
		var mu sync.Mutex
		for round := 0; round < cs.Rounds && failure == ""; round++ {
			var wg sync.WaitGroup
			start := make(chan struct{})
			const workers = 16
			for w := 0; w < workers; w++ {
				wg.Add(1)
				go func(w int) {
					defer wg.Done()
					<-start
					for i := w; i < len(cs.Sources); i += workers {
						var f string
						if pi := harness.Safe(func() { f = c19Oracle(cs.Sources[i]) }); pi != nil {
							f = "panic: " + pi.Value
						}
						if f != "" {
							mu.Lock()
							if failure == "" {
								failure = fmt.Sprintf("source %d lexed among 16 concurrent lexers: %s", i, f)
							}
							mu.Unlock()
							return
						}
					}
				}(w)
			}
			close(start)
			wg.Wait()
		}
	})
	if pi != nil {
		return "panic: " + pi.Value
	}
	return failure
}

func TestC19_ParallelLexers(t *testing.T) {
	c := harness.New(t, "C19", "parallel-lexers",
		"batches of 48 sources (text runs of 50..2000 bytes with escapes and multi-byte characters between {{ }} blocks, directives and comments; each source with a letter of its own) lexed by 16 goroutines at once, each with its own lexer, for 10 (quick) or 40 (thorough) rounds; every token stream is held to the C19 oracle (positions exact, text between them the token's own text, tokens tile the source). Sources that fail the oracle alone are left out (none at present). Non-trivial: all. Distinct by hash of the batch.")
	defer c.Finish()
	rounds := harness.Pick(10, 40)
	runRapid(t, c, 25, 400, func(rt *rapid.T) {
		cs := parLexCase{Rounds: rounds}
		for i := 0; len(cs.Sources) < 48; i++ {
			letter := string(rune('A' + i%26))
			var b strings.Builder
			for k := rapid.IntRange(1, 5).Draw(rt, "parts"); k > 0; k-- {
				n := rapid.SampledFrom([]int{50, 200, 700, 2000}).Draw(rt, "run")
				unit := rapid.SampledFrom([]string{letter, letter + "é", "<b>" + letter + "</b>\n", letter + " \\{{ x }} ", letter + "\\@if(y) ", "日本" + letter}).Draw(rt, "unit")
				b.WriteString(strings.Repeat(unit, n/len(unit)+1))
				b.WriteString(rapid.SampledFrom([]string{"{{ x }}", "@if(y)", "@end", "{{-- c --}}", "{{ \"s\" + 1 }}", "@each(v in [1, 2])", "\n"}).Draw(rt, "construct"))
			}
			src := b.String()
			if c19Oracle(src) != "" {
				c.Class("left-out:fails-the-oracle-alone")
				continue
			}
			cs.Sources = append(cs.Sources, src)
		}
		c.Case(true, mustJSON(cs.Sources))
		if c.S.Evals%10 == 1 {
			c.Sample(map[string]any{"first_source": clip(cs.Sources[0], 200), "sources": len(cs.Sources), "rounds": rounds})
		}
		if f := c19Parallel(c, cs); f != "" {
			c.Fail(rt, kindOf(f), cs, "exact positions and own text for every token", f, f)
		}
	})
}
