package checks

import (
	"encoding/json"
	"fmt"
	textwire "github.com/textwire/textwire/v2"
	"os"
	"os/exec"
	"strings"
	"testing"
	"unicode"

	"pgregory.net/rapid"
	"verif/lib/harness"
	"verif/lib/spec"
	"verif/lib/tw"
)

// C14 — rendering is deterministic.

// detCase is a string-API case or a tree case, rendered repeatedly.
type detCase struct {
	Src  string     `json:"src,omitempty"`
	Data *spec.Data `json:"data,omitempty"`
	Tree *treeCase  `json:"tree,omitempty"`
	Kind string     `json:"kind"`
}

func (cs detCase) sample() map[string]any {
	m := map[string]any{"kind": cs.Kind}
	if cs.Tree != nil {
		m["files"] = cs.Tree.Files
		m["page"] = cs.Tree.Page
	} else {
		m["src"] = cs.Src
	}
	if cs.Data != nil {
		d := map[string]string{}
		for i, k := range cs.Data.Keys {
			d[k] = spec.Describe(cs.Data.Vals[i])
		}
		m["data"] = d
	}
	return m
}

func init() {
	for _, n := range []string{"objects", "multi-fault", "trees", "processes", "misplaced-objects"} {
		harness.RegisterReplayer("C14/"+n, func(raw json.RawMessage) string {
			cs, err := unJSON[detCase](raw)
			if err != nil {
				return "bad case: " + err.Error()
			}
			c := harness.New(nopTB{}, "C14", "replay", "")
			return c14Run(c, cs, 200)
		})
	}
}

// outcome renders once and returns everything observable as one string.
func c14Outcome(c *harness.Check, cs detCase) (string, bool) {
	if cs.Tree != nil {
		tc := *cs.Tree
		tc.Data = cs.Data
		tr := loadAndRender(c, tc)
		if tr.Panic != nil {
			return "panic: " + tr.Panic.Value, false
		}
		return tr.normalised("load=" + tr.LoadErr + "\nout=" + tr.Out + "\nerr=" + tr.Err), true
	}
	r := evalString(c, "json", mustJSON(cs), cs.Src, cs.Data.GoMap())
	if r.Panic != nil {
		return "panic: " + r.Panic.Value, false
	}
	return "out=" + r.Out + "\nerr=" + r.Err, true
}

// the failing ones last: whatever they leave behind meets the case itself
var c14Disturbers = []string{
	"@each(n in nums){{ n }},@end {{ {b: 1, a: [2, 3]} }} @for(i = 0; i < 2; i++)x@end",
	"{{ zzMissing }}",
	"@for(i = 0; i < 3; i++)<{{ 1 / (1 - i) }}>@end",
	"<p>@each(n in nums)[{{ 12 / n }}]@end</p>",
}

func c14Run(c *harness.Check, cs detCase, n int) string {
	first, ok := c14Outcome(c, cs)
	if !ok {
		return first
	}
	for i := 1; i < n; i++ {
		if i%3 == 0 {
			// other renders in between (failing half-way through a loop, failing at
			// once, succeeding) are no input of this one
			for _, src := range c14Disturbers {
				harness.Safe(func() { textwire.EvaluateString(src, map[string]any{"nums": []int{3, 4, 0, 6}}) })
			}
			// ... nor are renders without any data that bind the names the cases use, with other types
			for _, bind := range []string{`{{ x = 1 }}`, `{{ obj = "s" }}`, `{{ o = 2.5 }}`, `{{ cfg = true }}`, `{{ i = "s" }}`, `{{ e = [1] }}`, `{{ v = {a: 1} }}`, `{{ name = 7 }}`} {
				harness.Safe(func() { textwire.EvaluateString(bind, nil) })
				harness.Safe(func() { textwire.EvaluateString(bind, map[string]any{}) })
			}
		}
		again, ok := c14Outcome(c, cs)
		if !ok {
			return again
		}
		if again != first {
			return fmt.Sprintf("repetition %d differs from the first result:\n--- first\n%s\n--- now\n%s", i+1, clip(first, 600), clip(again, 600))
		}
	}
	return ""
}

func clip(s string, n int) string {
	if len(s) > n {
		return s[:n] + "..."
	}
	return s
}

const c14Reps = 24

var manyKeys = []string{"alpha", "beta", "gamma", "delta", "eps", "zeta", "eta", "theta", "iota", "kappa", "lambda", "mu"}

// keys that differ only in case, in digits or in a prefix: an ordering that
// treats some of them as equal leaves their order to the map
var trickyKeys = []string{"id", "ID", "Id", "iD", "name", "Name", "NAME", "a", "A", "a1", "a10", "a2", "ab", "Ab", "_x", "x_", "z", "Z"}

func keySet(rt *rapid.T, n int) []string {
	if rapid.IntRange(0, 2).Draw(rt, "trickyKeys") == 0 {
		if n > len(trickyKeys) {
			n = len(trickyKeys)
		}
		return rapid.SliceOfNDistinct(rapid.SampledFrom(trickyKeys), n, n, rapid.ID[string]).Draw(rt, "keys")
	}
	return append([]string{}, manyKeys[:n]...) // a copy: callers insert into it
}

func genObjExpr(rt *rapid.T, depth int) *tw.Expr {
	n := rapid.IntRange(2, 12).Draw(rt, "nKeys")
	keys := keySet(rt, n)
	n = len(keys)
	vals := make([]*tw.Expr, n)
	for i := range vals {
		switch rapid.IntRange(0, 5).Draw(rt, "valForm") {
		case 0:
			vals[i] = tw.Str(fmt.Sprintf("v%d", i))
		case 1:
			if depth > 0 {
				vals[i] = genObjExpr(rt, depth-1)
				break
			}
			fallthrough
		case 2:
			vals[i] = tw.Arr(intLit(int64(i)), tw.Str("x"))
		default:
			vals[i] = intLit(int64(i))
		}
	}
	if rapid.IntRange(0, 2).Draw(rt, "repeatKeys") == 0 {
		// some keys written more than once (the later value counts; several such keys in one literal)
		for r := rapid.IntRange(1, 4).Draw(rt, "nRepeated"); r > 0; r-- {
			i := rapid.IntRange(0, n-1).Draw(rt, "repeatedKey")
			at := rapid.IntRange(0, len(keys)).Draw(rt, "repeatAt")
			keys = append(keys[:at], append([]string{keys[i]}, keys[at:]...)...)
			vals = append(vals[:at], append([]*tw.Expr{intLit(int64(100 + r))}, vals[at:]...)...)
		}
	}
	return tw.Obj(keys, vals)
}

func genObjData(rt *rapid.T, depth int) *spec.Value {
	n := rapid.IntRange(2, 12).Draw(rt, "nKeys")
	if rapid.Bool().Draw(rt, "struct") {
		names := []string{"Alpha", "Beta", "Gamma", "Delta", "Eps", "Zeta", "Eta", "Theta"}
		if n > len(names) {
			n = len(names)
		}
		vals := make([]*spec.Value, n)
		for i := range vals {
			vals[i] = spec.IntOf(spec.TInt, int64(i))
			if depth > 0 && i == 0 {
				vals[i] = genObjData(rt, depth-1)
			}
		}
		return spec.Struct(names[:n], vals)
	}
	keys := keySet(rt, n)
	n = len(keys)
	vals := make([]*spec.Value, n)
	for i := range vals {
		vals[i] = spec.Any(spec.IntOf(spec.TInt, int64(i)))
		if depth > 0 && i == 1 {
			vals[i] = spec.Any(genObjData(rt, depth-1))
		}
	}
	return spec.Map(spec.T(spec.TAny), keys, vals)
}

func TestC14_Objects(t *testing.T) {
	c := harness.New(t, "C14", "objects",
		fmt.Sprintf("objects with 2..12 keys (literals, data maps, structs, nested) and data maps with 64..1000 keys printed with {{ }} and @dump, joined inside arrays, concatenated through str-like functions, iterated programs around them, and keys looked up (dot, index, after assignment, inside @dump) under a spelling that differs in case from keys of which several are equal ignoring case; each case rendered %d times in one process: every result must equal the first byte for byte. Non-trivial: an object with >= 2 keys is printed or dumped (all cases). Distinct by hash.", c14Reps))
	defer c.Finish()
	runRapid(t, c, 700, 9000, func(rt *rapid.T) {
		var cs detCase
		cs.Kind = "objects"
		forms := []string{"{{ %s }}", "@dump(%s)", "{{ [%s, 1] }}", "@each(o in [%s]){{ o }}@end", "{{ x = %s; x }}", "@dump([%s])", "{{ [%s].join('|') }}", "@if(true){{ %s }}@end", "{{ 'say \"hi\" & <go>' }}{{ %s }}{{ \"it's\" }}"}
		form := rapid.SampledFrom(forms).Draw(rt, "form")
		if rapid.IntRange(0, 7).Draw(rt, "manyKeys") == 0 {
			// objects with hundreds of keys (also nested in another object)
			n := rapid.SampledFrom([]int{64, 127, 128, 129, 200, 257, 1000}).Draw(rt, "nManyKeys")
			keys := make([]string, n)
			vals := make([]*spec.Value, n)
			for i := range keys {
				keys[i], vals[i] = fmt.Sprintf("key%d", (i*7919)%n), spec.Any(spec.IntOf(spec.TInt, int64(i)))
			}
			obj := spec.Map(spec.T(spec.TAny), keys, vals)
			if rapid.Bool().Draw(rt, "nestedMany") {
				obj = spec.Map(spec.T(spec.TAny), []string{"inner", "z", "a"}, []*spec.Value{spec.Any(obj), spec.Any(spec.IntOf(spec.TInt, 1)), spec.Any(spec.String("s"))})
			}
			cs.Data = (&spec.Data{}).Add("obj", obj)
			cs.Src = fmt.Sprintf(form, "obj")
			form = "many-keys " + form
		} else if rapid.Bool().Draw(rt, "fromData") {
			cs.Data = (&spec.Data{}).Add("obj", genObjData(rt, 1))
			cs.Src = fmt.Sprintf(form, "obj")
		} else {
			cs.Src = fmt.Sprintf(form, tw.ExprString(genObjExpr(rt, 1), nil))
		}
		if rapid.IntRange(0, 2).Draw(rt, "lookup") == 0 {
			// look a key up under a spelling that differs in case from the keys (several
			// keys may be equal ignoring case): value or error, the same every time
			keys := []string{"id", "ID", "Id", "name", "Name", "NAME", "ab", "Ab", "AB", "userID", "UserId"}
			n := rapid.IntRange(2, 6).Draw(rt, "nLookupKeys")
			ks := rapid.SliceOfNDistinct(rapid.SampledFrom(keys), n, n, rapid.ID[string]).Draw(rt, "lookupKeys")
			base := []byte(rapid.SampledFrom(ks).Draw(rt, "lookupBase"))
			for i := range base {
				switch rapid.IntRange(0, 2).Draw(rt, "flip") {
				case 0:
					base[i] = byte(unicode.ToUpper(rune(base[i])))
				case 1:
					base[i] = byte(unicode.ToLower(rune(base[i])))
				}
			}
			variant := string(base)
			lookup := rapid.SampledFrom([]string{"{{ (%s).%s }}", "{{ (%s)[\"%s\"] }}", "@dump((%s).%s)", "{{ x = %s; x.%s }}"}).Draw(rt, "lookupForm")
			form = "lookup " + lookup
			if rapid.Bool().Draw(rt, "lookupData") {
				vals := make([]*spec.Value, len(ks))
				for i := range vals {
					vals[i] = spec.Any(spec.IntOf(spec.TInt, int64(10+i)))
				}
				var obj *spec.Value = spec.Map(spec.T(spec.TAny), ks, vals)
				if rapid.Bool().Draw(rt, "lookupStruct") {
					var names []string
					var fv []*spec.Value
					for i, k := range ks {
						if k[0] >= 'A' && k[0] <= 'Z' {
							names = append(names, k)
							fv = append(fv, spec.IntOf(spec.TInt, int64(10+i)))
						}
					}
					if len(names) >= 2 {
						obj = spec.Struct(names, fv)
					}
				}
				cs.Data = (&spec.Data{}).Add("obj", obj)
				cs.Src = fmt.Sprintf(lookup, "obj", variant)
			} else {
				vals := make([]*tw.Expr, len(ks))
				for i := range vals {
					vals[i] = intLit(int64(10 + i))
				}
				cs.Data = nil
				cs.Src = fmt.Sprintf(lookup, tw.ExprString(tw.Obj(ks, vals), nil), variant)
			}
		}
		c.Case(true, cs.Src+mustJSON(cs.Data), "form:"+form)
		c.Sample(cs.sample())
		if f := c14Run(c, cs, c14Reps); f != "" {
			c.Fail(rt, kindOf(f), cs, "identical results", f, f)
		}
	})
}

// c14Misplaced: positions in which an object literal is the wrong kind of value
// or sits in broken syntax, so that the result is an error (which may quote it).
var c14Misplaced = []string{
	`@component("c", [%s])`, `@component("c", true ? 1 : %s)`, `@component("c", %s.k)`, `@component(%s)`, `@component("c", %s, %s)`, `@component("c", (%s))`, `@component("c", -%s)`,
	`@each(x in %s)a@end`, `@each(x in [%s].nosuch())a@end`, `@for(i = %s; i < 3; i++)a@end`, `@for(i = 0; %s; i++)a@break@end`, `@if(%s.nosuch)a@end`, `@if(%s.nosuch())a@end`,
	`@use(%s)`, `@insert(%s)`, `@insert("a", %s)`, `@reserve(%s)`, `@slot(%s)`, `@breakIf(%s)`, `@dump(%s`, `@dump(%s, zzUnknown)`,
	`{{ %s + 1 }}`, `{{ 1 + %s }}`, `{{ %s.nosuch }}`, `{{ %s.len() }}`, `{{ %s.nosuchfn(%s) }}`, `{{ -%s }}`, `{{ %s[0] }}`, `{{ %s[%s] }}`, `{{ [1][%s] }}`, `{{ "a".len(%s) }}`, `{{ "a".repeat(%s) }}`, `{{ [1].join(%s) }}`,
	`{{ x = 1; x = %s }}`, `{{ loop = %s }}`, `{{ %s %s }}`, `{{ %s. }}`, `{{ [%s, }}`, `{{ %s ? }}`, `{{ %s++ }}`, `{{ %s == 1 }}`, `{{ %s < %s }}`, `{{ %s.k.nosuch.deeper }}`, `{{ "s".contains(%s) }}`, `{{ [1, 2].slice(%s) }}`, `{{ 5.decimal(%s) }}`,
}

func TestC14_MisplacedObjects(t *testing.T) {
	c := harness.New(t, "C14", "misplaced-objects",
		fmt.Sprintf("an object literal with 2..12 keys (nested, tricky keys) written where another kind of value or nothing is expected - as a non-object or extra argument of @component, as the header of @each / @for / @if, as the name of @use / @insert / @reserve / @slot, as an operand, index, receiver or argument of a built-in of another type, re-assigned to a typed name, in unfinished syntax - %d positions; each template rendered %d times through the string API: the same result (an error, whose text may quote the object) every time. Non-trivial: all. Distinct by hash.", len(c14Misplaced), c14Reps))
	defer c.Finish()
	runRapid(t, c, 500, 6000, func(rt *rapid.T) {
		cs := detCase{Kind: "misplaced-objects"}
		form := rapid.SampledFrom(c14Misplaced).Draw(rt, "position")
		obj := tw.ExprString(genObjExpr(rt, 1), nil)
		cs.Src = strings.ReplaceAll(form, "%s", obj)
		if rapid.Bool().Draw(rt, "textAround") {
			cs.Src = "line 1\n" + cs.Src + "\nlast line"
		}
		c.Case(true, cs.Src, "position:"+form)
		c.Sample(cs.sample())
		if f := c14Run(c, cs, c14Reps); f != "" {
			c.Fail(rt, kindOf(f), cs, "identical results", f, f)
		}
	})
}

func TestC14_MultiFault(t *testing.T) {
	c := harness.New(t, "C14", "multi-fault",
		fmt.Sprintf("string-API templates with several simultaneous faults in one order-sensitive construct: object literals with 2..6 failing entries (different failure kinds, so the messages differ; evaluated expressions, operators on literals of the wrong type, or both; the other entries constants), arrays of such objects, data maps with several entries of unsupported kinds (different Go types) at top level or inside one nested map, or several reserved/mismatching entries; each rendered %d times: same error (message and line) every time. Non-trivial: all (>= 2 distinct faults). Distinct by hash.", c14Reps))
	defer c.Finish()
	faults := []string{"zz1", "zz2", "1 / 0", "1 + 'a'", "nope.x", "5 % 0", "'s'.nosuchfn()", "[1][0].zz", "zz3 + 1"}
	// failing entries that are made of literals only (an operator on a literal of the wrong type)
	constFaults := []string{"-'x'", "!1", "-true", "-nil", "!'y'", "!2.5", "-[1]", "-{a: 1}"}
	runRapid(t, c, 700, 9000, func(rt *rapid.T) {
		cs := detCase{Kind: "multi-fault"}
		switch rapid.IntRange(0, 4).Draw(rt, "where") {
		case 4:
			// several values of unsupported kinds (different Go types) inside one map or struct of the data, one or two levels down
			cs.Src = "{{ 1 }}"
			kinds := rapid.SliceOfNDistinct(rapid.SampledFrom([]string{spec.TChan, spec.TFunc, spec.TComplex, spec.TArray, spec.TIntMap, spec.TBoolMap}), 2, 5, rapid.ID[string]).Draw(rt, "unsupKinds")
			vals := make([]*spec.Value, len(kinds))
			for i, k := range kinds {
				vals[i] = spec.Any(spec.Unsupported(k))
			}
			inner := spec.Map(spec.T(spec.TAny), append([]string{}, manyKeys[:len(kinds)]...), vals)
			switch rapid.IntRange(0, 2).Draw(rt, "nestedHow") {
			case 0:
				cs.Data = (&spec.Data{}).Add("cfg", inner)
			case 1:
				cs.Data = (&spec.Data{}).Add("cfg", spec.Map(spec.T(spec.TAny), []string{"fine", "deep"}, []*spec.Value{spec.Any(spec.IntOf(spec.TInt, 1)), spec.Any(inner)}))
			default:
				cs.Data = (&spec.Data{}).Add("list", spec.Slice(spec.T(spec.TAny), spec.Any(spec.String("ok")), spec.Any(inner)))
			}
			cs.Data.Add("fine", spec.IntOf(spec.TInt, 1))
		case 0, 1:
			n := rapid.IntRange(2, 6).Draw(rt, "nFaults")
			pool, okEntry := faults, "ok: 1"
			switch rapid.IntRange(0, 3).Draw(rt, "faultPool") {
			case 0:
				// every entry a constant or an operator on a constant
				pool, okEntry = constFaults, rapid.SampledFrom([]string{"ok: 1", "ok: 'fine'", "ok: -1", "ok: !true", "ok: nil"}).Draw(rt, "constOk")
			case 1:
				pool = append(append([]string{}, faults...), constFaults...)
			}
			fs := rapid.SliceOfNDistinct(rapid.SampledFrom(pool), n, n, rapid.ID[string]).Draw(rt, "faults")
			var pairs []string
			for i, f := range fs {
				pairs = append(pairs, fmt.Sprintf("%s: %s", manyKeys[i], f))
			}
			pairs = append(pairs, okEntry)
			obj := "{" + strings.Join(pairs, ", ") + "}"
			cs.Src = rapid.SampledFrom([]string{"{{ %s }}", "{{ x = %s }}", "{{ [%s] }}", "@dump(%s)", "line1\n{{ %s.ok }}"}).Draw(rt, "form")
			cs.Src = fmt.Sprintf(cs.Src, obj)
		case 2:
			cs.Src = "{{ 1 }}"
			cs.Data = &spec.Data{}
			kinds := rapid.SliceOfNDistinct(rapid.SampledFrom([]string{spec.TChan, spec.TFunc, spec.TComplex, spec.TArray, spec.TIntMap, spec.TBoolMap}), 2, 4, rapid.ID[string]).Draw(rt, "unsupKinds")
			for i, k := range kinds {
				cs.Data.Add(manyKeys[i], spec.Unsupported(k))
			}
			cs.Data.Add("fine", spec.IntOf(spec.TInt, 1))
		default:
			cs.Src = "{{ 1 }}"
			cs.Data = (&spec.Data{}).Add("loop", spec.IntOf(spec.TInt, 1)).Add("bad", spec.Unsupported(spec.TChan)).Add("bad2", spec.Unsupported(spec.TFunc)).Add("fine", spec.String("s"))
		}
		c.Case(true, cs.Src+mustJSON(cs.Data))
		c.Sample(cs.sample())
		if f := c14Run(c, cs, c14Reps); f != "" {
			c.Fail(rt, kindOf(f), cs, "identical results", f, f)
		}
	})
}

func TestC14_Trees(t *testing.T) {
	c := harness.New(t, "C14", "trees",
		fmt.Sprintf("template directories with several simultaneous faults: pages with 2..6 inserts naming no reserve (block and expression form, in any order of their names, on lines of their own or several on one line); component uses with several duplicated or undeclared slots (in any order, one per line or all on one line); component arguments with several failing entries; two or three independently faulty files (parse errors on different lines, unknown components, undefined inserts); plus healthy trees printing objects. Each directory is loaded afresh and rendered %d times (reset hook): identical load error / output / render error every time. Non-trivial: all. Distinct by hash.", c14Reps/2))
	defer c.Finish()
	runRapid(t, c, 150, 2100, func(rt *rapid.T) {
		tc := &treeCase{Dir: "t", Ext: ".tw", Page: "page", Files: map[string]string{}}
		cs := detCase{Kind: "trees", Tree: tc}
		switch rapid.IntRange(0, 5).Draw(rt, "scenario") {
		case 0:
			// the faulty inserts in any order of their names, on lines of their own or several on one line
			n := rapid.IntRange(2, 6).Draw(rt, "nBad")
			page := "@use(\"~l\")\n"
			for _, i := range rapid.Permutation([]int{0, 1, 2, 3, 4, 5}[:n]).Draw(rt, "badOrder") {
				if rapid.IntRange(0, 3).Draw(rt, "badBlockForm") == 0 {
					page += fmt.Sprintf("@insert(\"%s\")x@end", manyKeys[i])
				} else {
					page += fmt.Sprintf("@insert(\"%s\", \"x\")", manyKeys[i])
				}
				page += rapid.SampledFrom([]string{"\n", " ", "", "\n", "\r\n", " \n "}).Draw(rt, "badSep")
			}
			tc.Files["layouts/l"] = "<l>@reserve(\"main\")</l>"
			tc.Files["page"] = page + "@insert(\"main\")m@end"
			if rapid.IntRange(0, 2).Draw(rt, "layoutWithoutReserves") == 0 {
				// the used file declares no reserve at all: every insert of the page is a fault
				tc.Files["layouts/l"] = "<l>static</l>"
			}
		case 1:
			tc.Files["comp"] = "<c>@slot(\"a\")@slot(\"b\")@slot</c>"
			slots := rapid.Permutation([]string{"@slot(\"a\")1@end", "@slot(\"a\")2@end", "@slot(\"b\")3@end", "@slot(\"b\")4@end", "@slot 5@end", "@slot 6@end"}).Draw(rt, "slotOrder")
			tc.Files["page"] = "@component(\"comp\")\n" + strings.Join(slots, rapid.SampledFrom([]string{"\n", " ", "\n", "\r\n"}).Draw(rt, "slotSep")) + "\n@end"
		case 2:
			tc.Files["comp"] = "<c>@slot(\"a\")</c>"
			slots := rapid.Permutation([]string{"@slot(\"x\")1@end", "@slot(\"y\")2@end", "@slot(\"z\")3@end", "@slot 4@end"}).Draw(rt, "slotOrder")
			tc.Files["page"] = "@component(\"comp\")\n" + strings.Join(slots, rapid.SampledFrom([]string{"\n", " ", "\n", "\r\n"}).Draw(rt, "slotSep")) + "\n@end"
		case 3:
			tc.Files["comp"] = "<c>{{ alpha }}{{ beta }}</c>"
			if rapid.Bool().Draw(rt, "bindFailures") {
				// several arguments that cannot be bound (type differs from a visible
				// variable of that name, or the reserved name)
				tc.Files["page"] = "{{ delta = 1.5 }}@component(\"comp\", {alpha: 1, beta: \"s\", gamma: [1], delta: \"d\", loop: 1});"
				cs.Data = (&spec.Data{}).Add("alpha", spec.String("outer")).Add("beta", spec.IntOf(spec.TInt, 5)).Add("gamma", spec.Bool(true))
			} else {
				tc.Files["page"] = "@component(\"comp\", {alpha: zz1, beta: 1 / 0, gamma: 1 + 'a', delta: zz2});"
			}
		case 4:
			bad := []string{"line1\n{{ 1 + }}", "{{ # }}", "a\nb\n@if(true)x", "@component(\"nosuch1\")", "@use(\"~nosuchlayout\")", "@each(x of y)@end", "{{ \"unterminated }}"}
			n := rapid.IntRange(2, 3).Draw(rt, "nBadFiles")
			idx := rapid.SliceOfNDistinct(rapid.IntRange(0, len(bad)-1), n, n, rapid.ID[int]).Draw(rt, "badIdx")
			for i, b := range idx {
				tc.Files[fmt.Sprintf("f%d", i)] = bad[b]
			}
			tc.Files["page"] = "fine"
		default:
			tc.Files["comp"] = "<c>{{ o }}@dump(o)</c>"
			tc.Files["page"] = "@component(\"comp\", {o: " + tw.ExprString(genObjExpr(rt, 1), nil) + "});{{ obj }}"
			cs.Data = (&spec.Data{}).Add("obj", genObjData(rt, 1))
		}
		c.Case(true, mustJSON(tc.Files)+mustJSON(cs.Data))
		c.Sample(cs.sample())
		if f := c14Run(c, cs, c14Reps/2); f != "" {
			c.Fail(rt, kindOf(f), cs, "identical results", f, f)
		}
	})
}

// TestC14_Probe is the child-process side of TestC14_Processes: it renders the
// case in VERIF_PROBE_CASE once and prints the outcome.
func TestC14_Probe(t *testing.T) {
	path := os.Getenv("VERIF_PROBE_CASE")
	if path == "" {
		t.Skip("not a probe process")
	}
	b, err := os.ReadFile(path)
	if err != nil {
		t.Fatal(err)
	}
	var cs detCase
	if err := json.Unmarshal(b, &cs); err != nil {
		t.Fatal(err)
	}
	c := harness.New(nopTB{}, "C14", "probe", "")
	out, _ := c14Outcome(c, cs)
	fmt.Printf("PROBE-OUTCOME-BEGIN\n%s\nPROBE-OUTCOME-END\n", out)
}

func TestC14_Processes(t *testing.T) {
	c := harness.New(t, "C14", "processes",
		"a sample of the object-printing, misplaced-object, multi-fault and data-less (names bound at template level) cases rendered once in each of 3 fresh processes (the test binary re-executes itself; each process has its own map hash seed): the three outcomes and the in-process outcome must be identical. Non-trivial: all. Distinct by hash.")
	defer c.Finish()
	if os.Getenv("VERIF_PROBE_CASE") != "" {
		return
	}
	exe, err := os.Executable()
	if err != nil {
		c.Note("cannot find own executable: " + err.Error())
		return
	}
	dir, err := os.MkdirTemp("", "verif-probe-")
	if err != nil {
		return
	}
	defer os.RemoveAll(dir)
	runRapid(t, c, 12, 180, func(rt *rapid.T) {
		cs := detCase{Kind: "processes"}
		if k := rapid.IntRange(0, 3).Draw(rt, "caseKind"); k == 3 {
			// no data at all, names bound at template level (with types other renders of this process
			// have not used for them): what a fresh process gives is what this one gives
			cs.Src = rapid.SampledFrom([]string{`{{ x = 2.5 }}{{ o = [1] }}{{ cfg = nil }}[{{ x }}]`, `{{ x = "s"; obj = 2.5; i = [0] }}[{{ x }}{{ obj }}]`, `{{ name = {a: 1} }}{{ v = "v" }}{{ e = 1.5 }}[{{ v }}]`}).Draw(rt, "noData")
			if rapid.Bool().Draw(rt, "emptyMap") {
				cs.Data = &spec.Data{}
			}
		} else if k == 0 {
			cs.Src = "{{ " + tw.ExprString(genObjExpr(rt, 1), nil) + " }}@dump(obj)"
			cs.Data = (&spec.Data{}).Add("obj", genObjData(rt, 1))
		} else if k == 1 {
			cs.Src = strings.ReplaceAll(rapid.SampledFrom(c14Misplaced).Draw(rt, "position"), "%s", tw.ExprString(genObjExpr(rt, 1), nil))
		} else {
			cs.Src = "{{ {alpha: zz1, beta: 1 / 0, gamma: 1 + 'a', delta: zz2, eps: 5 % 0} }}"
		}
		file := dir + "/case.json"
		os.WriteFile(file, []byte(mustJSON(cs)), 0o644)
		here, ok := c14Outcome(c, cs)
		if !ok {
			c.Fail(rt, "panic", cs, "identical results", here, here)
		}
		c.Case(true, cs.Src+mustJSON(cs.Data))
		c.Sample(cs.sample())
		for p := 0; p < 3; p++ {
			cmd := exec.Command(exe, "-test.run", "^TestC14_Probe$", "-test.v")
			cmd.Env = append(os.Environ(), "VERIF_PROBE_CASE="+file, "VERIF_OUT=", "VERIF_CORPUS=")
			out, err := cmd.CombinedOutput()
			s := string(out)
			i, j := strings.Index(s, "PROBE-OUTCOME-BEGIN\n"), strings.Index(s, "\nPROBE-OUTCOME-END")
			if err != nil || i < 0 || j < 0 {
				c.Note("probe process failed: " + clip(s, 300))
				return
			}
			got := s[i+len("PROBE-OUTCOME-BEGIN\n") : j]
			if got != here {
				f := fmt.Sprintf("fresh process %d renders differently:\n--- in process\n%s\n--- fresh process\n%s", p+1, clip(here, 600), clip(got, 600))
				c.Fail(rt, "mismatch", cs, "identical results", f, f)
			}
		}
	})
}

// diffAt shows two strings around their first difference.
func diffAt(a, b string) string {
	i := 0
	for i < len(a) && i < len(b) && a[i] == b[i] {
		i++
	}
	from := i - 80
	if from < 0 {
		from = 0
	}
	ea, eb := i+200, i+200
	if ea > len(a) {
		ea = len(a)
	}
	if eb > len(b) {
		eb = len(b)
	}
	return fmt.Sprintf("first difference at byte %d:\n--- a: ...%s\n--- b: ...%s", i, a[from:ea], b[from:eb])
}
