package checks

import (
	"fmt"
	"strings"
	"testing"

	"pgregory.net/rapid"
	"verif/lib/harness"
	"verif/lib/refint"
	"verif/lib/spec"
	"verif/lib/tw"
)

// C03 — loops, metadata, break/continue, @else.

func init() {
	registerRenderReplayer("C03/each-enum", "C03/for-enum", "C03/nested-enum", "C03/random-programs")
}

func loopDot(f string) *tw.Expr { return tw.Dot(tw.Var("loop"), f) }

// ctlVariants returns control directives (bare and wrapped in @if forms) to be
// placed at one body position.
func ctlVariants() []struct {
	name string
	st   []*tw.Stmt
} {
	idxIs := func(k int64) *tw.Expr { return tw.Bin("==", loopDot("index"), intLit(k)) }
	wrapIf := func(c *tw.Expr, s ...*tw.Stmt) *tw.Stmt {
		return &tw.Stmt{Kind: tw.SIf, Branches: []tw.Branch{{Cond: c, Body: s}}}
	}
	brk, cnt := &tw.Stmt{Kind: tw.SBreak}, &tw.Stmt{Kind: tw.SContinue}
	var out []struct {
		name string
		st   []*tw.Stmt
	}
	add := func(name string, st ...*tw.Stmt) {
		out = append(out, struct {
			name string
			st   []*tw.Stmt
		}{name, st})
	}
	add("none")
	add("break", brk)
	add("continue", cnt)
	for k := int64(0); k <= 2; k++ {
		add(fmt.Sprintf("breakIf(index==%d)", k), &tw.Stmt{Kind: tw.SBreakIf, E: idxIs(k)})
		add(fmt.Sprintf("continueIf(index==%d)", k), &tw.Stmt{Kind: tw.SContinueIf, E: idxIs(k)})
		add(fmt.Sprintf("if(index==%d)break", k), wrapIf(idxIs(k), tw.Text("!"), brk, tw.Text("never")))
		add(fmt.Sprintf("if(index==%d)continue", k), wrapIf(idxIs(k), cnt))
		add(fmt.Sprintf("elseif(index==%d)break", k), &tw.Stmt{Kind: tw.SIf, Branches: []tw.Branch{{Cond: tw.Bool(false), Body: []*tw.Stmt{tw.Text("no")}}, {Cond: idxIs(k), Body: []*tw.Stmt{brk}}}, HasElse: true, Else: []*tw.Stmt{tw.Text("e")}})
		add(fmt.Sprintf("nested-if(index==%d)continue", k), wrapIf(tw.Bool(true), tw.Text("<"), wrapIf(idxIs(k), cnt, tw.Text("never")), tw.Text(">")))
		add(fmt.Sprintf("else-break(index!=%d)", k), &tw.Stmt{Kind: tw.SIf, Branches: []tw.Branch{{Cond: idxIs(k), Body: []*tw.Stmt{tw.Text("k")}}}, HasElse: true, Else: []*tw.Stmt{brk}})
	}
	add("breakIf(last)", &tw.Stmt{Kind: tw.SBreakIf, E: loopDot("last")})
	add("continueIf(first)", &tw.Stmt{Kind: tw.SContinueIf, E: loopDot("first")})
	add("breakIf(v==2)", &tw.Stmt{Kind: tw.SBreakIf, E: tw.Bin("==", tw.Var("v"), intLit(2))})
	add("continueIf(falsy)", &tw.Stmt{Kind: tw.SContinueIf, E: tw.Str("")})
	add("breakIf(truthy-array)", &tw.Stmt{Kind: tw.SBreakIf, E: tw.Arr()})
	return out
}

func TestC03_EachEnum(t *testing.T) {
	c := harness.New(t, "C03", "each-enum",
		"@each over arrays of every length 0..4 (literal and data-supplied; ints, strings, structs) with a 3-item body (marker, element, loop metadata) and every control directive (break, continue, breakIf/continueIf on loop.index/first/last/element, bare and under @if / @elseif / nested @if / @else) at every body position, with and without @else; expected output from the reference loop semantics. Non-trivial: >= 2 passes and a directive that fires in a pass other than the first, or @else taken, or directive under a nested @if. Distinct by construction.")
	defer c.Finish()
	in := interp()
	variants := ctlVariants()
	idx := 0
	for n := 0; n <= 4; n++ {
		for _, src := range []string{"literal", "data-ints", "data-structs", "strings"} {
			var arr *tw.Expr
			data := &spec.Data{}
			elem := func() *tw.Stmt { return tw.Print(tw.Var("v")) }
			switch src {
			case "literal":
				el := make([]*tw.Expr, n)
				for i := range el {
					el[i] = intLit(int64(i + 1))
				}
				arr = tw.Arr(el...)
			case "strings":
				el := make([]*tw.Expr, n)
				for i := range el {
					el[i] = tw.Str(string(rune('a' + i)))
				}
				arr = tw.Arr(el...)
			case "data-ints":
				items := make([]*spec.Value, n)
				for i := range items {
					items[i] = spec.IntOf(spec.TInt16, int64(i+1))
				}
				data.Add("xs", spec.Slice(spec.T(spec.TInt16), items...))
				arr = tw.Var("xs")
			case "data-structs":
				items := make([]*spec.Value, n)
				for i := range items {
					items[i] = spec.Struct([]string{"Id"}, []*spec.Value{spec.IntOf(spec.TInt, int64(i+1))})
				}
				var et *spec.Type
				if n > 0 {
					et = items[0].T
				} else {
					et = spec.StructOf(spec.Field{Name: "Id", T: spec.T(spec.TInt)})
				}
				data.Add("xs", spec.Slice(et, items...))
				arr = tw.Var("xs")
				elem = func() *tw.Stmt { return tw.Print(tw.Dot(tw.Var("v"), "id")) }
			}
			model, _ := data.Model()
			for vi, variant := range variants {
				if strings.Contains(variant.name, "v==2") && src != "literal" && src != "data-ints" {
					continue
				}
				for pos := 0; pos <= 3; pos++ {
					for _, hasElse := range []bool{false, true} {
						idx++
						if !harness.Mine(idx) {
							continue
						}
						if variant.name == "none" && pos > 0 {
							continue
						}
						items := []*tw.Stmt{tw.Text("["), elem(), tw.Print(loopDot([]string{"index", "iter", "first", "last"}[(pos+vi)%4]))}
						body := append([]*tw.Stmt{}, items[:pos]...)
						body = append(body, variant.st...)
						body = append(body, items[pos:]...)
						body = append(body, tw.Text("]"))
						loop := &tw.Stmt{Kind: tw.SEach, Name: "v", E: arr, Body: body, HasElse: hasElse}
						if hasElse {
							loop.Else = []*tw.Stmt{tw.Text("EMPTY")}
						}
						prog := []*tw.Stmt{tw.Text("<<"), loop, tw.Text(">>")}
						out, facts := in.Render(prog, model)
						cs := renderCase{Src: tw.PrintStmts(prog, nil).Src, Data: data, Want: wantFromOut(out), Note: variant.name}
						nt := (n >= 2 && (facts["break-fired-late"] > 0 || facts["continue-fired"] > 0)) || facts["each-else"] > 0 || strings.Contains(variant.name, "nested")
						c.CaseEnum(nt, fmt.Sprintf("len:%d", n), "src:"+src, "outcome:"+out.St.String())
						if nt && idx%211 == 0 {
							c.Sample(cs.sample())
						}
						if r, f := runRenderCase(c, cs); f != "" {
							c.Fail(t, failKind(r), cs, cs.Want, r, f)
						}
					}
				}
			}
		}
	}
	// iterating a non-array is an error
	for i, bad := range []*tw.Expr{intLit(5), tw.Str("abc"), tw.Nil(), tw.Obj([]string{"k"}, []*tw.Expr{intLit(1)}), tw.Bool(true), floatLit(1.5), tw.Var("d")} {
		data := (&spec.Data{}).Add("d", spec.Map(spec.T(spec.TInt), []string{"a"}, []*spec.Value{spec.IntOf(spec.TInt, 1)}))
		prog := []*tw.Stmt{tw.Text("a"), {Kind: tw.SEach, Name: "v", E: bad, Body: []*tw.Stmt{tw.Text("x")}, HasElse: i%2 == 0, Else: []*tw.Stmt{tw.Text("e")}}}
		model, _ := data.Model()
		out, _ := in.Render(prog, model)
		cs := renderCase{Src: tw.PrintStmts(prog, nil).Src, Data: data, Want: wantFromOut(out), Note: "non-array header"}
		c.CaseEnum(true, "non-array-header")
		if r, f := runRenderCase(c, cs); f != "" {
			c.Fail(t, failKind(r), cs, cs.Want, r, f)
		}
	}
	c.ExhaustivePart("lengths 0..4 x 4 array sources x control-directive variants x 4 positions x else/no else")
}

func TestC03_ForEnum(t *testing.T) {
	c := harness.New(t, "C03", "for-enum",
		"@for(i = a; i OP b; POST) for all a, b in -3..3, OP in < <= > >= != with the step direction that terminates (including false at entry) and POST spelled i++/i--, as the assignment i = i +/- s or as the plain step i +/- s (s in 1, 2), body printing i with optional @breakIf / @continueIf on i and @break under @if, with and without @else. Non-trivial: >= 2 passes with a directive that fires, or @else taken. Distinct by construction.")
	defer c.Finish()
	in := interp()
	idx := 0
	for a := -3; a <= 3; a++ {
		for b := -3; b <= 3; b++ {
			for _, op := range []string{"<", "<=", ">", ">=", "!="} {
				post := tw.EInc
				if op == ">" || op == ">=" || (op == "!=" && a > b) {
					post = tw.EDec
				}
				for ctl := 0; ctl < 5; ctl++ {
					for _, hasElse := range []bool{false, true} {
						idx++
						if !harness.Mine(idx) {
							continue
						}
						k := tw.Bin("==", tw.Var("i"), intLit(int64((a+b)/2)))
						body := []*tw.Stmt{tw.Text("("), tw.Print(tw.Var("i"))}
						switch ctl {
						case 1:
							body = append(body, &tw.Stmt{Kind: tw.SBreakIf, E: k})
						case 2:
							body = append(body, &tw.Stmt{Kind: tw.SContinueIf, E: k})
						case 3:
							body = append(body, &tw.Stmt{Kind: tw.SIf, Branches: []tw.Branch{{Cond: k, Body: []*tw.Stmt{tw.Text("!"), {Kind: tw.SBreak}}}}})
						case 4:
							body = append([]*tw.Stmt{{Kind: tw.SIf, Branches: []tw.Branch{{Cond: tw.Bool(false), Body: nil}, {Cond: k, Body: []*tw.Stmt{{Kind: tw.SContinue}}}}}}, body...)
						}
						body = append(body, tw.Text(")"))
						loop := &tw.Stmt{Kind: tw.SFor, Name: "i", Init: intLit(int64(a)), Cond: tw.Bin(op, tw.Var("i"), intLit(int64(b))), Post: tw.Un(post, tw.Var("i")), Body: body, HasElse: hasElse}
						// the post clause in its other spellings: "i = i + s" (an assignment) and
						// "i + s" (its value becomes the variable), stepping by 1 or 2
						if op != "!=" && idx%3 != 0 {
							bop := "+"
							if post == tw.EDec {
								bop = "-"
							}
							loop.Post = tw.Bin(bop, tw.Var("i"), intLit(int64(1+idx%2)))
							if idx%3 == 1 {
								loop.PostName = "i"
							}
						}
						if hasElse {
							loop.Else = []*tw.Stmt{tw.Text("NEVER")}
						}
						prog := []*tw.Stmt{tw.Text("<<"), loop, tw.Text(">>")}
						out, facts := in.Render(prog, nil)
						cs := renderCase{Src: tw.PrintStmts(prog, nil).Src, Want: wantFromOut(out)}
						nt := (facts["passes"] >= 2 && (facts["break-fired"] > 0 || facts["continue-fired"] > 0)) || facts["for-else"] > 0
						postForm := "inc-dec"
						if loop.PostName != "" {
							postForm = "assignment"
						} else if loop.Post.Kind == tw.EBin {
							postForm = "plain-step"
						}
						c.CaseEnum(nt, "op:"+op, "outcome:"+out.St.String(), "post:"+postForm)
						if nt && idx%97 == 0 {
							c.Sample(cs.sample())
						}
						if r, f := runRenderCase(c, cs); f != "" {
							c.Fail(t, failKind(r), cs, cs.Want, r, f)
						}
					}
				}
			}
		}
	}
	// float and descending/compound loop variables
	for _, f := range []struct{ init, cond, post string }{
		{"0.5", "f < 3.0", "f++"}, {"2.5", "f > 0.0", "f--"}, {"0.5", "f < 2.5", "f + 0.5"}, {"1", "f < 40", "f * 3"}, {"20", "f > 2", "f / 2"}, {"\"a\"", "f != \"aaaa\"", "f + \"a\""},
	} {
		src := "<<@for(f = " + f.init + "; " + f.cond + "; " + f.post + ")({{ f }})@else NEVER@end>>"
		var prog []*tw.Stmt
		initE, _ := tw.ParseTokens(strings.Fields(f.init))
		condE, _ := tw.ParseTokens(strings.Fields(f.cond))
		postE, _ := tw.ParseTokens(strings.Fields(f.post))
		if initE == nil || condE == nil || postE == nil {
			continue
		}
		fixLits(initE)
		fixLits(condE)
		fixLits(postE)
		prog = []*tw.Stmt{tw.Text("<<"), {Kind: tw.SFor, Name: "f", Init: initE, Cond: condE, Post: postE, Body: []*tw.Stmt{tw.Text("("), tw.Print(tw.Var("f")), tw.Text(")")}, HasElse: true, Else: []*tw.Stmt{tw.Text(" NEVER")}}, tw.Text(">>")}
		out, _ := in.Render(prog, nil)
		cs := renderCase{Src: src, Want: wantFromOut(out), Note: "non-integer loop variable"}
		if out.St != refint.OK {
			// floats inside a longer output are compared only where their text is settled
			cs.Want = want{St: "unspecified"}
		}
		c.CaseEnum(true, "for:non-int")
		if r, fl := runRenderCase(c, cs); fl != "" {
			c.Fail(t, failKind(r), cs, cs.Want, r, fl)
		}
	}
	c.ExhaustivePart("a, b in -3..3 x 5 operators x 5 control variants x else/no else")
}

func TestC03_NestedEnum(t *testing.T) {
	c := harness.New(t, "C03", "nested-enum",
		"two- and three-level loop nests (each in each, for in each, each in for, each in each in each) over lengths 0..3, both levels reading loop.index / loop.first / loop.last, the inner loop with a control directive (none, break, continue, breakIf on its own index, break inside its @else body), and the outer metadata read again after the inner loop. Non-trivial: all with >= 2 outer passes. Distinct by construction.")
	defer c.Finish()
	in := interp()
	idx := 0
	arrOf := func(n int, base int64) *tw.Expr {
		el := make([]*tw.Expr, n)
		for i := range el {
			el[i] = intLit(base + int64(i))
		}
		return tw.Arr(el...)
	}
	innerCtl := []struct {
		name string
		st   []*tw.Stmt
		els  []*tw.Stmt
	}{
		{"none", nil, nil},
		{"break", []*tw.Stmt{{Kind: tw.SBreak}}, nil},
		{"continue", []*tw.Stmt{{Kind: tw.SContinue}, tw.Text("never")}, nil},
		{"breakIf(index==1)", []*tw.Stmt{{Kind: tw.SBreakIf, E: tw.Bin("==", loopDot("index"), intLit(1))}}, nil},
		{"continueIf(first)", []*tw.Stmt{{Kind: tw.SContinueIf, E: loopDot("first")}}, nil},
		{"else-break", nil, []*tw.Stmt{tw.Text("E"), {Kind: tw.SBreak}, tw.Text("never")}},
		{"else-continue", nil, []*tw.Stmt{tw.Text("E"), {Kind: tw.SContinue}, tw.Text("never")}},
		{"if-break", []*tw.Stmt{{Kind: tw.SIf, Branches: []tw.Branch{{Cond: tw.Bin("==", tw.Var("y"), intLit(11)), Body: []*tw.Stmt{{Kind: tw.SBreak}}}}}}, nil},
	}
	for no := 0; no <= 3; no++ {
		for ni := 0; ni <= 3; ni++ {
			for _, ctl := range innerCtl {
				for _, shape := range []string{"each-each", "for-in-each", "each-in-for", "each-each-each"} {
					idx++
					if !harness.Mine(idx) {
						continue
					}
					innerBody := []*tw.Stmt{tw.Text("("), tw.Print(tw.Var("y")), tw.Text(":"), tw.Print(loopDot("index")), tw.Print(loopDot("last"))}
					innerBody = append(innerBody, ctl.st...)
					innerBody = append(innerBody, tw.Text(")"))
					inner := &tw.Stmt{Kind: tw.SEach, Name: "y", E: arrOf(ni, 10), Body: innerBody}
					if ctl.els != nil {
						inner.HasElse, inner.Else = true, ctl.els
					}
					var prog []*tw.Stmt
					switch shape {
					case "each-each":
						prog = []*tw.Stmt{{Kind: tw.SEach, Name: "x", E: arrOf(no, 1), Body: []*tw.Stmt{tw.Text("["), tw.Print(tw.Var("x")), tw.Print(loopDot("index")), inner, tw.Print(loopDot("iter")), tw.Print(loopDot("last")), tw.Text("]")}}}
					case "for-in-each":
						if strings.HasPrefix(ctl.name, "else") {
							continue
						}
						forInner := &tw.Stmt{Kind: tw.SFor, Name: "y", Init: intLit(10), Cond: tw.Bin("<", tw.Var("y"), intLit(int64(10+ni))), Post: tw.Un(tw.EInc, tw.Var("y")),
							Body: append(append([]*tw.Stmt{tw.Text("("), tw.Print(tw.Var("y"))}, forCtl(ctl.name)...), tw.Text(")"))}
						prog = []*tw.Stmt{{Kind: tw.SEach, Name: "x", E: arrOf(no, 1), Body: []*tw.Stmt{tw.Text("["), tw.Print(loopDot("index")), forInner, tw.Print(loopDot("iter")), tw.Text("]")}}}
					case "each-in-for":
						prog = []*tw.Stmt{{Kind: tw.SFor, Name: "x", Init: intLit(0), Cond: tw.Bin("<", tw.Var("x"), intLit(int64(no))), Post: tw.Un(tw.EInc, tw.Var("x")), Body: []*tw.Stmt{tw.Text("["), tw.Print(tw.Var("x")), inner, tw.Text("]")}}}
					case "each-each-each":
						mid := &tw.Stmt{Kind: tw.SEach, Name: "m", E: arrOf(2, 5), Body: []*tw.Stmt{tw.Text("<"), tw.Print(loopDot("index")), inner, tw.Print(loopDot("last")), tw.Text(">")}}
						prog = []*tw.Stmt{{Kind: tw.SEach, Name: "x", E: arrOf(no, 1), Body: []*tw.Stmt{tw.Text("["), tw.Print(loopDot("first")), mid, tw.Print(loopDot("index")), tw.Text("]")}}}
					}
					out, _ := in.Render(prog, nil)
					cs := renderCase{Src: tw.PrintStmts(prog, nil).Src, Want: wantFromOut(out), Note: shape + " " + ctl.name}
					nt := no >= 2
					c.CaseEnum(nt, "shape:"+shape, "outcome:"+out.St.String())
					if nt && idx%53 == 0 {
						c.Sample(cs.sample())
					}
					if r, f := runRenderCase(c, cs); f != "" {
						c.Fail(t, failKind(r), cs, cs.Want, r, f)
					}
				}
			}
		}
	}
	c.ExhaustivePart("outer 0..3 x inner 0..3 x 8 inner control variants x 4 nest shapes")
}

// forCtl adapts an inner control variant to a @for body (no loop.* there).
func forCtl(name string) []*tw.Stmt {
	switch name {
	case "break":
		return []*tw.Stmt{{Kind: tw.SBreak}}
	case "continue":
		return []*tw.Stmt{{Kind: tw.SContinue}, tw.Text("never")}
	case "breakIf(index==1)":
		return []*tw.Stmt{{Kind: tw.SBreakIf, E: tw.Bin("==", tw.Var("y"), intLit(11))}}
	case "continueIf(first)":
		return []*tw.Stmt{{Kind: tw.SContinueIf, E: tw.Bin("==", tw.Var("y"), intLit(10))}}
	case "if-break":
		return []*tw.Stmt{{Kind: tw.SIf, Branches: []tw.Branch{{Cond: tw.Bin("==", tw.Var("y"), intLit(11)), Body: []*tw.Stmt{{Kind: tw.SBreak}}}}}}
	}
	return nil
}

func TestC03_RandomPrograms(t *testing.T) {
	c := harness.New(t, "C03", "random-programs",
		"random programs biased to loops: @each over literal and data arrays (ints, strings, bools, objects; length 0..4; non-arrays as an error class), @for with bounds within +-3 and a terminating step, nested to depth 3 with both kinds, bodies with markers, element and loop.* prints, @break/@continue/@breakIf/@continueIf (conditions on loop.index/first/last, loop variables, truthiness table) bare and under nested @if/@elseif, @else bodies (with control directives acting on the enclosing loop); expected rendering from the reference interpreter. Non-trivial: a loop with >= 2 passes in which a control directive fired, or nested loops with loop.* read, or an @else body taken. Distinct by hash of source + data.")
	defer c.Finish()
	in := interp()
	runRapid(t, c, 12000, 120000, func(rt *rapid.T) {
		env := genProgEnv().Draw(rt, "data")
		g := newProgGen(rt, env)
		g.wIf, g.wLoop, g.wAssign, g.wCtl = 3, 6, 1, 5
		g.fewFailures = true
		prog := g.block(3, false)
		out, facts := in.Render(prog, env.Model)
		lay := genLayout().Draw(rt, "layout")
		src := tw.PrintStmts(prog, lay).Src
		cs := renderCase{Src: src, Data: env.D, Want: wantFromOut(out)}
		nt := (facts["passes"] >= 2 && (facts["break-fired"] > 0 || facts["continue-fired"] > 0)) || (g.Feat["nested-loop"] > 0 && g.Feat["loop-meta"] > 0) || facts["each-else"] > 0 || facts["for-else"] > 0
		classes := []string{"outcome:" + out.St.String()}
		for _, f := range []string{"each", "for", "nested-loop", "ctl", "ctl-under-if", "loop-meta", "each-non-array", "each-data-array"} {
			if g.Feat[f] > 0 {
				classes = append(classes, "has:"+f)
			}
		}
		for _, f := range []string{"break-fired-late", "continue-fired", "each-else", "for-else"} {
			if facts[f] > 0 {
				classes = append(classes, "ran:"+f)
			}
		}
		if out.St == refint.Unspec {
			classes = append(classes, "unspecified:"+firstWords(out.Why, 4))
		}
		c.Case(nt, src+"|"+mustJSON(env.D), classes...)
		if nt {
			c.Sample(cs.sample())
		}
		if r, f := runRenderCase(c, cs); f != "" {
			c.Fail(rt, failKind(r), cs, cs.Want, r, f)
		}
	})
}

// fixLits fills in the values of literals parsed by the reference parser.
func fixLits(e *tw.Expr) {
	if e == nil {
		return
	}
	switch e.Kind {
	case tw.EInt:
		fmt.Sscan(e.Text, &e.Int)
	case tw.EFloat:
		fmt.Sscan(e.Text, &e.Float)
	}
	for _, k := range e.Kids {
		fixLits(k)
	}
}
