package checks

import (
	"encoding/json"
	"fmt"
	"strings"
	"testing"

	"verif/lib/harness"
	"verif/lib/spec"
)

// C09/deep-values: values nested to a given depth (arrays, objects and both in
// turn; written as literals and supplied as data through slices, maps and
// pointers) reach every construct that walks a value: @dump, printing, the
// built-ins that walk their receiver, comparison, @each. Whatever the depth,
// the render returns output or an error.

func init() {
	harness.RegisterReplayer("C09/deep-values", func(raw json.RawMessage) string {
		cs, err := unJSON[evalCase](raw)
		if err != nil {
			return "bad case: " + err.Error()
		}
		_, f := c09Run(harness.New(nopTB{}, "C09", "replay", ""), cs, "json", mustJSON(cs))
		return f
	})
}

func deepLiteral(shape string, depth int) string {
	var open, shut strings.Builder
	for d := 0; d < depth; d++ {
		arr := shape == "arrays" || shape == "alternating" && d%2 == 0
		if arr {
			open.WriteString("[")
			shut.WriteString("]")
		} else {
			open.WriteString("{k: ")
			shut.WriteString("}")
		}
	}
	s := shut.String()
	r := []byte(s)
	for i, j := 0, len(r)-1; i < j; i, j = i+1, j-1 {
		r[i], r[j] = r[j], r[i]
	}
	return open.String() + `"leaf"` + string(r)
}

func deepData(shape string, depth int) *spec.Value {
	v := spec.Any(spec.String("leaf"))
	for d := depth - 1; d >= 0; d-- {
		arr := shape == "arrays" || shape == "alternating" && d%2 == 0
		switch {
		case arr:
			v = spec.Any(spec.Slice(spec.T(spec.TAny), v))
		case shape == "pointers" && d%2 == 1:
			v = spec.Any(spec.Ptr(spec.Struct([]string{"K"}, []*spec.Value{v})))
		default:
			v = spec.Any(spec.Map(spec.T(spec.TAny), []string{"k"}, []*spec.Value{v}))
		}
	}
	return v
}

func TestC09_DeepValues(t *testing.T) {
	c := harness.New(t, "C09", "deep-values",
		"values nested 1..40, 63..66, 127..130 and 260 levels deep - arrays only, objects only, both in turn, and (as data) maps and pointers to structs in turn - written as a literal or supplied in the data map, given to each construct that walks a value: @dump (one and two arguments), {{ v }}, v.len(), v.join(), v == v, @each over it, v.str-like printing inside a string concatenation, and index/property chains down to the leaf. Oracle: output or error with the line, no panic. Exhaustive over depth x shape x source x consumer. Non-trivial: depth >= 3. Distinct by construction.")
	defer c.Finish()
	var depths []int
	for d := 1; d <= 40; d++ {
		depths = append(depths, d)
	}
	depths = append(depths, 63, 64, 65, 66, 127, 128, 129, 130, 260)
	consumers := []func(v string) string{
		func(v string) string { return "@dump(" + v + ")" },
		func(v string) string { return "@dump(1, " + v + ", " + v + ")" },
		func(v string) string { return "{{ " + v + " }}" },
		func(v string) string { return "{{ " + v + ".len() }}" },
		func(v string) string { return "{{ " + v + ".join(\",\") }}" },
		func(v string) string { return "{{ " + v + " == " + v + " }}" },
		func(v string) string { return "@each(e in " + v + ")\n{{ e }}@dump(e)\n@end" },
		func(v string) string { return "{{ x = " + v + "; x }}\n@dump(x)" },
		func(v string) string { return "@if(" + v + ")@dump(" + v + ")@end" },
	}
	idx := 0
	for _, depth := range depths {
		for _, shape := range []string{"arrays", "objects", "alternating", "pointers"} {
			for _, viaData := range []bool{false, true} {
				if shape == "pointers" && !viaData {
					continue
				}
				for ci, mk := range consumers {
					idx++
					if !harness.Mine(idx) {
						continue
					}
					var cs evalCase
					if viaData {
						cs = evalCase{Src: mk("deep"), Data: (&spec.Data{}).Add("deep", deepData(shape, depth))}
					} else {
						cs = evalCase{Src: mk(deepLiteral(shape, depth))}
					}
					cs.Note = fmt.Sprintf("depth %d, %s, data=%v, consumer %d", depth, shape, viaData, ci)
					c.CaseEnum(depth >= 3, "shape:"+shape, fmt.Sprintf("data:%v", viaData), fmt.Sprintf("consumer:%d", ci))
					if idx%97 == 0 {
						c.Sample(cs.sample())
					}
					if r, f := c09Run(c, cs, "json", mustJSON(cs)); f != "" {
						c.Fail(t, failKind(r), cs, "output or error", r, f)
					}
				}
			}
		}
	}
	c.ExhaustivePart(fmt.Sprintf("%d depths x 4 shapes x literal/data x %d consumers", len(depths), len(consumers)))
}
