package checks

import (
	"encoding/json"
	"fmt"
	"html"
	"strings"
	"testing"

	textwire "github.com/textwire/textwire/v2"
	"pgregory.net/rapid"
	"verif/lib/harness"
	"verif/lib/refint"
	"verif/lib/tw"
)

// C10 — string literals are HTML-escaped on output; raw() is the exact opt-out.

type escCase struct {
	Content string `json:"content"`
	Quote   string `json:"quote"`
	Context string `json:"context"`
	// Src with the literal placed in the context; Pre/Post: what surrounds the
	// literal's part of the output
	Src  string            `json:"src"`
	Pre  string            `json:"pre"`
	Post string            `json:"post"`
	Raw  bool              `json:"raw,omitempty"` // raw(): the literal's part must be the content itself
	Tree map[string]string `json:"tree,omitempty"`
}

func init() {
	for _, n := range []string{"contents-enum", "contexts"} {
		harness.RegisterReplayer("C10/"+n, func(raw json.RawMessage) string {
			cs, err := unJSON[escCase](raw)
			if err != nil {
				return "bad case: " + err.Error()
			}
			c := harness.New(nopTB{}, "C10", "replay", "")
			return c10Run(c, cs)
		})
	}
}

// c10Escape is the statement's rule: & < > become entities, quotes stay.
func c10Escape(s string) string { return refint.EscapeLit(s) }

func c10Run(c *harness.Check, cs escCase) string {
	var out, again string
	hasAgain := false
	if cs.Tree != nil {
		tc := treeCase{Files: cs.Tree, Dir: "t", Ext: ".tw", Page: "page"}
		tr := loadAndRender(c, tc)
		if tr.Panic != nil {
			return "panic: " + tr.Panic.Value
		}
		if tr.LoadErr != "" || tr.IsErr() {
			return "unexpected error: " + tr.LoadErr + tr.Err
		}
		out = tr.Out
		if tr.Body != nil {
			// the literal reaches the client of Response as it reaches the caller of String
			return fmt.Sprintf("String renders %q but Response wrote %q (%s)", clip(tr.Out, 300), clip(*tr.Body, 300), tr.BodyErr)
		}
		if tr.Again != nil {
			if tr.Again.IsErr() {
				return "second render of the same loaded templates: unexpected error: " + tr.Again.Err
			}
			again, hasAgain = tr.Again.Out, true
		}
	} else {
		if strings.HasPrefix(cs.Context, "custom") {
			if f := c10RegisterCustom(); f != "" {
				return "registering a function on the reset package state failed: " + f
			}
		}
		r := evalString(c, "json", mustJSON(cs), cs.Src, nil)
		if r.Panic != nil {
			return "panic: " + r.Panic.Value
		}
		if r.IsErr() {
			return "unexpected error: " + r.Err
		}
		out = r.Out
	}
	if f := c10CheckOutput(cs, out); f != "" {
		return f
	}
	if hasAgain {
		// the literal is escaped exactly once in every render of a loaded template
		if f := c10CheckOutput(cs, again); f != "" {
			return "second render of the same loaded templates: " + f
		}
	}
	return ""
}

func c10CheckOutput(cs escCase, out string) string {
	if strings.HasSuffix(cs.Context, "plain-after-upper") {
		// the prefix is the length of the upper-cased escaped text: only the part in brackets matters
		if i := strings.Index(out, "["); i >= 0 {
			out = out[i:]
		}
		cs.Pre = "["
	}
	if !strings.HasPrefix(out, cs.Pre) || !strings.HasSuffix(out, cs.Post) || len(out) < len(cs.Pre)+len(cs.Post) {
		return fmt.Sprintf("output %q is not %q + literal + %q", out, cs.Pre, cs.Post)
	}
	part := out[len(cs.Pre) : len(out)-len(cs.Post)]
	if cs.Raw {
		if part != cs.Content {
			return fmt.Sprintf("raw() rendered %q, the literal is %q", part, cs.Content)
		}
		return ""
	}
	if strings.ContainsAny(part, "<>") {
		return fmt.Sprintf("raw '<' or '>' from the literal in the output: %q", part)
	}
	for i := 0; i < len(part); i++ {
		if part[i] == '&' && !(strings.HasPrefix(part[i:], "&lt;") || strings.HasPrefix(part[i:], "&gt;") || strings.HasPrefix(part[i:], "&amp;")) {
			return fmt.Sprintf("an '&' of the literal is not an entity in %q", part)
		}
	}
	if part != c10Escape(cs.Content) {
		return fmt.Sprintf("literal rendered as %q, expected %q", part, c10Escape(cs.Content))
	}
	if html.UnescapeString(part) != html.UnescapeString(c10Escape(cs.Content)) || unescape3(part) != cs.Content {
		return fmt.Sprintf("unescaping %q does not give back the literal %q", part, cs.Content)
	}
	return ""
}

// unescape3 reverses exactly the three entities the statement names.
func unescape3(s string) string {
	s = strings.ReplaceAll(s, "&lt;", "<")
	s = strings.ReplaceAll(s, "&gt;", ">")
	return strings.ReplaceAll(s, "&amp;", "&")
}

var c10Pieces = []string{"<", ">", "&", ";", "#", "\"", "'", "\\x", "/", "=", "a", "1", " ", "\n", "é", "日", "&amp;", "&lt;", "&#34;", "&#39;", "&quot;", "&#x3C;", "&nosuch;", "<b>", "</b>", "&&", "\\\"", "\\'", "\xe9", "\xff\xfe", "\xc3", "\xe6\x97", "\r\n", "\r", "\t", "%", "%s"}

// c10Contexts builds the template for a literal in each context.
func c10Contexts(lit string) []escCase {
	mk := func(ctx, src, pre, post string) escCase { return escCase{Context: ctx, Src: src, Pre: pre, Post: post} }
	cases := []escCase{
		mk("printed", "[{{ "+lit+" }}]", "[", "]"),
		mk("concat-left", "[{{ "+lit+" + \"tail\" }}]", "[", "tail]"),
		mk("concat-right", "[{{ 'head' + "+lit+" }}]", "[head", "]"),
		mk("assigned", "{{ v = "+lit+" }}[{{ v }}]", "[", "]"),
		mk("array-index", "[{{ ["+lit+", 'z'][0] }}]", "[", "]"),
		mk("array-whole", "[{{ ["+lit+"] }}]", "[", "]"),
		mk("array-join", "[{{ ['p', "+lit+"].join('|') }}]", "[p|", "]"),
		mk("ternary", "[{{ true ? "+lit+" : 'no' }}]", "[", "]"),
		mk("object-member", "[{{ {k: "+lit+"}.k }}]", "[", "]"),
		mk("each-element", "@each(e in ["+lit+"])[{{ e }}]@end", "[", "]"),
		mk("if-body", "@if("+lit+" == "+lit+")[{{ "+lit+" }}]@end", "[", "]"),
		// the opt-out must not leak: a plain use after raw() on the same variable,
		// array element or loop variable is still escaped
		mk("plain-after-raw", "{{ v = "+lit+" }}{{ v.raw().len() }}[{{ v }}]", fmt.Sprint(len([]rune(rawOf(lit))))+"[", "]"),
		mk("element-after-raw", "{{ a = ["+lit+"] }}{{ a[0].raw().len() }}[{{ a[0] }}]", fmt.Sprint(len([]rune(rawOf(lit))))+"[", "]"),
		mk("each-after-raw", "@each(e in ["+lit+"]){{ e.raw().len() }}[{{ e }}]@end", fmt.Sprint(len([]rune(rawOf(lit))))+"[", "]"),
		mk("loop-body", "@each(i in [1, 2, 3])[{{ "+lit+" }}]@end", "[", "]["+c10Escape(rawOf(lit))+"]["+c10Escape(rawOf(lit))+"]"),
		mk("for-body", "@for(i = 0; i < 2; i++)[{{ x = "+lit+"; x }}]@end", "[", "]["+c10Escape(rawOf(lit))+"]"),
		mk("plain-after-upper", "{{ v = "+lit+" }}{{ v.upper().len() }}[{{ v }}]", "", "]"),
		// the literal as an argument of a built-in that places it in its result
		mk("join-separator", "[{{ ['p', 'q'].join("+lit+") }}]", "[p", "q]"),
		mk("join-separator-twice", "[{{ [1, 2, 3].join("+lit+") }}]", "[1", "2"+c10Escape(rawOf(lit))+"3]"),
		mk("decimal-separator", "[{{ 12.decimal("+lit+") }}]", "[12", "00]"),
		mk("decimal-separator-of-string", "[{{ '7'.decimal("+lit+", 1) }}]", "[7", "0]"),
		mk("truncate-ellipsis", "[{{ 'abcdef'.truncate(3, "+lit+") }}]", "[abc", "]"),
		mk("then-value", "[{{ true.then("+lit+") }}]", "[", "]"),
		mk("then-else-value", "[{{ false.then('no', "+lit+") }}]", "[", "]"),
		mk("appended", "[{{ ['p'].append("+lit+")[1] }}]", "[", "]"),
		mk("prepended-joined", "[{{ ['p'].prepend("+lit+").join('|') }}]", "[", "|p]"),
		mk("repeated", "[{{ "+lit+".repeat(2) }}]", "[", c10Escape(rawOf(lit))+"]"),
		mk("sliced-array", "[{{ ['p', "+lit+", 'q'].slice(1, 2)[0] }}]", "[", "]"),
		mk("reversed-array", "[{{ ["+lit+", 'p'].reverse()[1] }}]", "[", "]"),
		// arrays derived from one array do not share their elements: the literal stays where it was put
		mk("two-appends-on-one-base", "{{ b = ['p', 'q', 'r'] }}{{ f = b.append("+lit+") }}{{ g = b.append('other') }}[{{ f[3] }}]", "[", "]"),
		mk("base-of-two-appends", "{{ b = ['p', 'q', "+lit+"] }}{{ f = b.append('one') }}{{ g = b.append('two') }}[{{ f[2] }}{{ f[3] }}]", "[", "one]"),
		mk("slice-then-append", "{{ all = ['p', "+lit+", 'r'] }}{{ o = all.slice(0, 1).append('x') }}[{{ all[1] }}]", "[", "]"),
		mk("slice-then-append-twice", "{{ all = ['p', 'q', "+lit+", 's', 't'] }}{{ o = all.slice(0, 2).append('x') }}{{ o2 = all.slice(1, 2).append('y', 'z') }}[{{ all[2] }}]", "[", "]"),
		// the literal handed to a registered Go function that gives it back: it is still the literal's text
		mk("custom-identity", "[{{ "+lit+".zzSame() }}]", "[", "]"),
		mk("custom-identity-of-variable", "{{ v = "+lit+" }}[{{ v.zzSame() }}]", "[", "]"),
		mk("custom-append", "[{{ "+lit+".zzTail() }}]", "[", "tail]"),
		mk("custom-argument", "[{{ 'r'.zzArg("+lit+") }}]", "[", "]"),
		mk("custom-in-each", "@each(e in ["+lit+", "+lit+"])[{{ e.zzSame() }}]@end", "[", "]["+c10Escape(rawOf(lit))+"]"),
	}
	raws := []escCase{
		mk("custom-identity-then-raw", "[{{ "+lit+".zzSame().raw() }}]", "[", "]"),
		mk("raw", "[{{ "+lit+".raw() }}]", "[", "]"),
		mk("raw-assigned", "{{ v = "+lit+" }}[{{ v.raw() }}]", "[", "]"),
		mk("raw-concat", "[{{ ("+lit+" + '').raw() }}]", "[", "]"),
	}
	for i := range raws {
		raws[i].Raw = true
	}
	return append(cases, raws...)
}

// c10RegisterCustom registers (on a reset package state) the Go functions of the custom-* contexts.
func c10RegisterCustom() string {
	textwire.VerifReset()
	for _, err := range []error{
		textwire.RegisterStrFunc("zzSame", func(s string, a ...any) string { return s }),
		textwire.RegisterStrFunc("zzTail", func(s string, a ...any) string { return s + "tail" }),
		textwire.RegisterStrFunc("zzArg", func(s string, a ...any) string {
			if len(a) == 1 {
				if t, ok := a[0].(string); ok {
					return t
				}
			}
			return "(no string argument)"
		}),
	} {
		if err != nil {
			return err.Error()
		}
	}
	return ""
}

func c10RawContext(lit string) escCase {
	for _, cs := range c10Contexts(lit) {
		if cs.Context == "raw" {
			return cs
		}
	}
	panic("no raw context")
}

// c10OtherLiteral is a literal of exactly the same source length as lit (same
// quotes) whose content is only the letter z; c10SameLengthOther is what it renders to.
func c10OtherLiteral(lit string) string {
	if len(lit) < 2 {
		return lit
	}
	return lit[:1] + strings.Repeat("z", len(lit)-2) + lit[len(lit)-1:]
}

func c10SameLengthOther(lit string) string {
	if len(lit) < 2 {
		return ""
	}
	return strings.Repeat("z", len(lit)-2)
}

func c10TreeContexts(lit string) []escCase {
	// every string-API context also as a page of a loaded template (parsed once, rendered twice)
	var paged []escCase
	for _, cs := range c10Contexts(lit) {
		if strings.HasPrefix(cs.Context, "custom") {
			continue // registered functions: string API only
		}
		cs.Tree = map[string]string{"page": cs.Src}
		cs.Context = "page:" + cs.Context
		cs.Src = ""
		paged = append(paged, cs)
	}
	return append(paged, []escCase{
		{Context: "insert-argument", Pre: "<t>", Post: "</t>", Tree: map[string]string{"layouts/l": "<t>@reserve(\"r\")</t>", "page": "@use(\"~l\")@insert(\"r\", " + lit + ")"}},
		{Context: "insert-block", Pre: "<t>[", Post: "]</t>", Tree: map[string]string{"layouts/l": "<t>@reserve(\"r\")</t>", "page": "@use(\"~l\")@insert(\"r\")[{{ " + lit + " }}]@end"}},
		{Context: "component-argument", Pre: "<c>", Post: "</c>;", Tree: map[string]string{"comp": "<c>{{ x }}</c>", "page": "@component(\"comp\", {x: " + lit + "});"}},
		{Context: "slot-body", Pre: "<c>[", Post: "]</c>;", Tree: map[string]string{"comp": "<c>@slot</c>", "page": "@component(\"comp\")\n@slot[{{ " + lit + " }}]@end\n@end;"}},
		{Context: "component-argument-raw", Raw: true, Pre: "<c>", Post: "</c>;", Tree: map[string]string{"comp": "<c>{{ x.raw() }}</c>", "page": "@component(\"comp\", {x: " + lit + "});"}},
		// two files of the same shape: the literal of the second stands at the same line
		// and columns as another literal (of the same length) in the first
		{Context: "same-position-in-two-components", Pre: "<a>[" + c10SameLengthOther(lit) + "]</a>;<b>[", Post: "]</b>;", Tree: map[string]string{
			"ca": "<a>[{{ " + c10OtherLiteral(lit) + " }}]</a>", "cb": "<b>[{{ " + lit + " }}]</b>", "page": "@component(\"ca\");@component(\"cb\");"}},
		{Context: "same-position-in-page-and-layout", Pre: "<L>[" + c10SameLengthOther(lit) + "][", Post: "]</L>", Tree: map[string]string{
			"layouts/l": "<L>[{{ " + c10OtherLiteral(lit) + " }}]@reserve(\"r\")</L>", "page": "@use(\"~l\")@insert(\"r\")[{{ " + lit + " }}]@end"}},
		{Context: "literal-in-layout", Pre: "<t>[", Post: "]x</t>", Tree: map[string]string{"layouts/l": "<t>[{{ " + lit + " }}]@reserve(\"r\")</t>", "page": "@use(\"~l\")@insert(\"r\", \"x\")"}},
		{Context: "literal-in-component-file", Pre: "<c>[", Post: "]</c>;", Tree: map[string]string{"comp": "<c>[{{ " + lit + " }}]</c>", "page": "@component(\"comp\");"}},
	}...)
}

func c10NonTrivial(content string) bool { return strings.ContainsAny(content, "<>&\"'") }

func TestC10_ContentsEnum(t *testing.T) {
	k := harness.Pick(2, 3)
	c := harness.New(t, "C10", "contents-enum",
		fmt.Sprintf("every literal content of up to %d pieces (2 quick, 3 thorough) from an alphabet rich in < > & ; # both quotes, backslashes, ready-made entities (&amp; &lt; &#34; &#39; &quot; &#x3C; &nosuch;) and UTF-8, in both quote styles, printed directly and through raw(): no raw < or >, every & an entity (&lt; &gt; &amp;), quotes as written, equal to the three-rule escape, unescaping gives the content back; raw() gives exactly the content. Non-trivial: content has one of < > & \" '. Distinct by construction.", k))
	defer c.Finish()
	idx := 0
	enumStringsAll(c10Pieces, k, func(content string) {
		idx++
		if !harness.Mine(idx) || strings.HasSuffix(content, "\\") {
			return
		}
		for _, q := range []string{"\"", "'"} {
			lit := tw.QuoteStr(content, q)
			for _, cs := range c10Contexts(lit)[:1] {
				cs.Content, cs.Quote = content, q
				c.CaseEnum(c10NonTrivial(content), "context:"+cs.Context)
				if idx%977 == 0 {
					c.Sample(cs)
				}
				if f := c10Run(c, cs); f != "" {
					c.Fail(t, kindOf(f), cs, c10Escape(content), f, f)
				}
			}
			raw := c10RawContext(lit)
			raw.Content, raw.Quote = content, q
			c.CaseEnum(c10NonTrivial(content), "context:raw")
			if f := c10Run(c, raw); f != "" {
				c.Fail(t, kindOf(f), raw, content, f, f)
			}
		}
	})
	c.ExhaustivePart(fmt.Sprintf("contents of <= %d pieces over %d pieces x 2 quote styles x {printed, raw()}", k, len(c10Pieces)))
}

func TestC10_Contexts(t *testing.T) {
	c := harness.New(t, "C10", "contexts",
		"random literal contents of 0..12 pieces from the same alphabet, both quote styles, in every usage context of the statement: printed, concatenated on either side, assigned then printed, array element by index / whole array / join, ternary branch, object member, @each element, raw() (direct, after assignment, after concatenation), handed to a registered Go function that returns it (as receiver, as argument, from a variable, in a loop, with text appended, and raw() of its result), and through template directories (String twice and Response on the loaded templates): insert argument, insert block, component argument, slot body, raw() inside a component. Non-trivial: content has one of < > & \" ' and the context is not 'printed'. Distinct by hash of context + source.")
	defer c.Finish()
	runRapid(t, c, 6000, 75000, func(rt *rapid.T) {
		content := strings.Join(rapid.SliceOfN(rapid.SampledFrom(c10Pieces), 0, 12).Draw(rt, "content"), "")
		if strings.HasSuffix(content, "\\") {
			content += "x"
		}
		q := rapid.SampledFrom([]string{"\"", "'"}).Draw(rt, "quote")
		lit := tw.QuoteStr(content, q)
		var all []escCase
		if rapid.IntRange(0, 9).Draw(rt, "treeContext") == 0 {
			all = c10TreeContexts(lit)
		} else {
			all = c10Contexts(lit)
		}
		cs := all[rapid.IntRange(0, len(all)-1).Draw(rt, "context")]
		cs.Content, cs.Quote = content, q
		nt := c10NonTrivial(content) && cs.Context != "printed"
		c.Case(nt, cs.Context+"|"+lit, "context:"+cs.Context)
		if nt {
			c.Sample(cs)
		}
		if f := c10Run(c, cs); f != "" {
			c.Fail(rt, kindOf(f), cs, c10Escape(content), f, f)
		}
	})
}

// rawOf recovers the content of a printed literal (inverse of tw.QuoteStr).
func rawOf(lit string) string {
	q := lit[:1]
	return strings.ReplaceAll(lit[1:len(lit)-1], "\\"+q, q)
}
