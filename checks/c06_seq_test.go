package checks

import (
	"fmt"
	"testing"

	"pgregory.net/rapid"
	"verif/lib/harness"
	"verif/lib/refint"
	"verif/lib/spec"
	"verif/lib/tw"
)

// C06/one-template-many-calls: what a page with a layout renders to is decided
// by the files and by the data of that call. One generated directory (layout,
// page, sibling pages using the same layout) is loaded once and its pages are
// rendered 4..8 times in a row: with the generated data, with data from which
// variables are missing (the render fails), with flags flipped, arrays emptied
// and look-alike values, with the first data again, and the sibling pages in
// between. Every render is held to the composition model's result for its own
// page and data.

func init() { registerSeqReplayer("C06/one-template-many-calls") }

func TestC06_OneTemplateManyCalls(t *testing.T) {
	c := harness.New(t, "C06", "one-template-many-calls",
		"the generated directories of C06/layouts (layout with 1..4 reserves at nesting positions, page with inserts, two sibling pages using the same layout) loaded once; 4..8 renders in a row on that *Template: the page with the generated data, with variables removed from the data (undefined names: the render fails where they are read), with booleans flipped, arrays emptied and values replaced by look-alikes of another type, with the first data again, and the sibling pages in between; every render is held to the reference composition model for its own page and data. Non-trivial: at least one render fails and a later render of the same page succeeds, or two renders of the page differ in their expected output. Distinct by hash of files + steps.")
	defer c.Finish()
	in := interp()
	runRapid(t, c, 1200, 12000, func(rt *rapid.T) {
		env := genProgEnv().Draw(rt, "data")
		k := rapid.IntRange(1, 4).Draw(rt, "nReserves")
		layout, where := genLayoutFile(rt, k)
		ref := rapid.SampledFrom([]string{"~main", "layouts/main"}).Draw(rt, "ref")
		page, _ := genPage(rt, env, ref, k, where)
		files := refint.Files{"layouts/main": layout, "pages/home": page,
			"pages/zblank": []*tw.Stmt{{Kind: tw.SUse, Name: ref}, tw.Text("ignored")},
			"pages/zother": []*tw.Stmt{{Kind: tw.SUse, Name: ref}, {Kind: tw.SInsert, Name: "r0", E: tw.Str("OTHER-PAGE")}}}
		if le := refint.Validate(files); le != nil {
			c.Class("harness:generated-tree-invalid")
			return
		}
		cs := seqCase{Files: printFiles(files, genLayout().Draw(rt, "layout")), Dir: "t", Ext: ".tw"}
		variant := func(kind string) *spec.Data {
			d := &spec.Data{}
			for i, key := range env.D.Keys {
				v := env.D.Vals[i]
				switch kind {
				case "missing":
					if rapid.IntRange(0, 2).Draw(rt, "drop") == 0 {
						continue
					}
				case "flipped":
					switch {
					case v.T.K == spec.TBool:
						v = spec.Bool(!v.B)
					case v.T.K == spec.TSlice && len(v.Items) > 0 && rapid.Bool().Draw(rt, "empty"):
						v = spec.Slice(v.T.Elem)
					case v.T.K == spec.TSlice && len(v.Items) == 0 && v.T.Elem.K == spec.TInt:
						v = spec.Slice(v.T.Elem, spec.IntOf(spec.TInt, 4), spec.IntOf(spec.TInt, 5))
					}
				case "look-alike":
					if alts := lookAlikes(v); len(alts) > 0 && rapid.IntRange(0, 3).Draw(rt, "swap") == 0 {
						v = alts[rapid.IntRange(0, len(alts)-1).Draw(rt, "alt")]
					}
				}
				d.Add(key, v)
			}
			return d
		}
		n := rapid.IntRange(4, 8).Draw(rt, "steps")
		failedHome, recovered := false, false
		outs := map[string]bool{}
		for i := 0; i < n; i++ {
			pageName := "pages/home"
			d := env.D
			switch kind := rapid.SampledFrom([]string{"same", "missing", "missing", "flipped", "look-alike", "sibling", "nil-data"}).Draw(rt, "stepKind"); kind {
			case "sibling":
				pageName = rapid.SampledFrom([]string{"pages/zblank", "pages/zother"}).Draw(rt, "sibling")
				if rapid.Bool().Draw(rt, "siblingMissing") {
					d = variant("missing")
				}
			case "nil-data":
				d = nil
			case "same":
			default:
				d = variant(kind)
			}
			if i == n-1 {
				pageName, d = "pages/home", env.D
			}
			model, ok := d.Model()
			if !ok {
				rt.Skip("unsupported value")
			}
			out, _ := in.RenderPage(files, pageName, model)
			if pageName == "pages/home" {
				switch out.St {
				case refint.Err:
					failedHome = true
				case refint.OK:
					if failedHome {
						recovered = true
					}
					outs[out.Text] = true
				}
			}
			cs.Steps = append(cs.Steps, seqStep{Page: pageName, Data: d, Want: wantFromOut(out)})
		}
		nt := recovered || len(outs) >= 2
		c.Case(nt, mustJSON(cs), fmt.Sprintf("steps:%d", n), fmt.Sprintf("fails-then-renders:%v", recovered), fmt.Sprintf("distinct-outputs:%d", len(outs)))
		if nt {
			c.Sample(cs.sample())
		}
		if rs, f := runSeqCase(c, cs); f != "" {
			c.Fail(rt, kindOf(f), cs, cs.Steps, rs, f)
		}
	})
}
