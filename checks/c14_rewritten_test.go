package checks

import (
	"encoding/json"
	"fmt"
	"os"
	"os/exec"
	"path/filepath"
	"sort"
	"strings"
	"testing"
	"time"

	textwire "github.com/textwire/textwire/v2"
	"github.com/textwire/textwire/v2/config"
	"pgregory.net/rapid"
	"verif/lib/harness"
	"verif/lib/tree"
)

// C14/rewritten-files: the same files and data give the same result in every
// run - whatever the same paths held earlier in the life of this process. A
// directory is loaded and rendered, some of its files are replaced by other
// content of the same length with the modification times kept, and the
// directory is loaded and rendered again: the result must be the one a fresh
// process gives for the directory as it now is.

type rewriteCase struct {
	First  map[string]string `json:"first"`  // template name -> source
	Second map[string]string `json:"second"` // same names, same lengths
}

func init() {
	harness.RegisterReplayer("C14/rewritten-files", func(raw json.RawMessage) string {
		cs, err := unJSON[rewriteCase](raw)
		if err != nil {
			return "bad case: " + err.Error()
		}
		return c14Rewritten(harness.New(nopTB{}, "C14", "replay", ""), cs)
	})
}

// c14RenderHere loads the directory t/ under the current root and renders every
// page of it (and evaluates every file by path); root is replaced in the text.
func c14RenderHere(root string, names []string) string {
	var b strings.Builder
	textwire.VerifReset()
	tpl, err := textwire.NewTemplate(&config.Config{TemplateDir: "t", TemplateExt: ".tw"})
	if err != nil {
		fmt.Fprintf(&b, "load=%s\n", err.Error())
	} else {
		for _, n := range names {
			out, ferr := tpl.String(n, map[string]any{"n": 3})
			fmt.Fprintf(&b, "%s: out=%s", n, out)
			if ferr != nil {
				fmt.Fprintf(&b, " err=%s", ferr.String())
			}
			b.WriteString("\n")
		}
	}
	for _, n := range names {
		out, ferr := textwire.EvaluateFile(filepath.Join(root, "t", filepath.FromSlash(n)+".tw"), map[string]any{"n": 3})
		fmt.Fprintf(&b, "file %s: out=%s err=%v\n", n, out, ferr)
	}
	return strings.ReplaceAll(b.String(), root, "<root>")
}

func treeOf(files map[string]string) (tree.Tree, []string) {
	tr := tree.Tree{}
	var names []string
	for n, src := range files {
		tr["t/"+n+".tw"] = tree.Entry{Content: src}
		names = append(names, n)
	}
	sort.Strings(names)
	return tr, names
}

func TestC14_RewrittenProbe(t *testing.T) {
	path := os.Getenv("VERIF_REWRITE_CASE")
	if path == "" {
		t.Skip("not a probe process")
	}
	b, err := os.ReadFile(path)
	if err != nil {
		t.Fatal(err)
	}
	var files map[string]string
	if err := json.Unmarshal(b, &files); err != nil {
		t.Fatal(err)
	}
	tr, names := treeOf(files)
	root, err := tree.Materialise(tr)
	if err != nil {
		t.Fatal(err)
	}
	fmt.Printf("PROBE-OUTCOME-BEGIN\n%s\nPROBE-OUTCOME-END\n", c14RenderHere(root, names))
}

func c14Rewritten(c *harness.Check, cs rewriteCase) string {
	if os.Getenv("VERIF_REWRITE_CASE") != "" {
		return ""
	}
	exe, err := os.Executable()
	if err != nil {
		return ""
	}
	dir, err := os.MkdirTemp("", "verif-rewrite-")
	if err != nil {
		return ""
	}
	defer os.RemoveAll(dir)
	file := filepath.Join(dir, "case.json")
	if os.WriteFile(file, []byte(mustJSON(cs.Second)), 0o644) != nil {
		return ""
	}
	cmd := exec.Command(exe, "-test.run", "^TestC14_RewrittenProbe$", "-test.v")
	cmd.Env = append(os.Environ(), "VERIF_REWRITE_CASE="+file, "VERIF_OUT=", "VERIF_CORPUS=")
	out, err := cmd.CombinedOutput()
	s := string(out)
	i, j := strings.Index(s, "PROBE-OUTCOME-BEGIN\n"), strings.Index(s, "\nPROBE-OUTCOME-END")
	if err != nil || i < 0 || j < 0 {
		c.Note("probe process failed: " + clip(s, 300))
		return ""
	}
	fresh := s[i+len("PROBE-OUTCOME-BEGIN\n") : j]
	failure := ""
	pi := c.Guard("json", mustJSON(cs), func() {
		tr, names := treeOf(cs.First)
		root, err := tree.Materialise(tr)
		if err != nil {
			return
		}
		stamp := time.Date(2024, 5, 6, 7, 8, 9, 0, time.UTC)
		for _, n := range names {
			os.Chtimes(filepath.Join(root, "t", filepath.FromSlash(n)+".tw"), stamp, stamp)
		}
		c14RenderHere(root, names)
		c14RenderHere(root, names)
		for _, n := range names {
			if cs.Second[n] == cs.First[n] {
				continue
			}
			p := filepath.Join(root, "t", filepath.FromSlash(n)+".tw")
			if os.WriteFile(p, []byte(cs.Second[n]), 0o644) != nil {
				return
			}
			os.Chtimes(p, stamp, stamp)
		}
		for rep := 0; rep < 3; rep++ {
			if here := c14RenderHere(root, names); here != fresh {
				failure = fmt.Sprintf("after the files were rewritten (same lengths, same modification times) this process renders the directory differently from a fresh process (repetition %d): %s", rep+1, diffAt(fresh, here))
				return
			}
		}
	})
	if pi != nil {
		return "panic: " + pi.Value
	}
	return failure
}

func TestC14_RewrittenFiles(t *testing.T) {
	c := harness.New(t, "C14", "rewritten-files",
		"a directory (page with layout and component, a plain page, a page with a fault) is loaded and rendered twice (NewTemplate + String of every name, EvaluateFile of every file), then a non-empty subset of its files is replaced by content of exactly the same length (a word, a number or an operator changed; a construct broken or repaired) with the modification times kept, and it is loaded and rendered three more times in the same process: each result must equal what a fresh process (the test binary re-executing itself) gives for the directory as it now is. Non-trivial: all. Distinct by hash.")
	defer c.Finish()
	if os.Getenv("VERIF_REWRITE_CASE") != "" {
		return
	}
	base := map[string]string{
		"layouts/main": "<main old>@reserve(\"body\")</main>",
		"card":         "<i>old {{ n + 1 }}</i>",
		"home":         "@use(\"~main\")@insert(\"body\")<b>old {{ n }}</b>@component(\"card\", {n: n})\n@slot s@end\n@end;@end",
		"plain":        "plain old {{ n * 2 }} text",
		"faulty":       "line 1\n{{ old + 1 }}",
	}
	base["card"] = "<i>old {{ n + 1 }}@slot</i>"
	edits := [][2]string{{"old", "new"}, {"old", "OLD"}, {"n + 1", "n - 1"}, {"n * 2", "n * 5"}, {"{{ n }}", "{{ 9 }}"}, {"<i>", "<u>"}, {"plain", "PLAIN"}, {"{{ old + 1 }}", "{{ 100 + 1 }}"}, {"{{ n * 2 }}", "{{ n * 2 }{"}, {"line 1", "line\n1"}}
	runRapid(t, c, 10, 120, func(rt *rapid.T) {
		cs := rewriteCase{First: map[string]string{}, Second: map[string]string{}}
		changed := 0
		names := make([]string, 0, len(base))
		for n := range base {
			names = append(names, n)
		}
		sort.Strings(names)
		for _, n := range names {
			src := base[n]
			cs.First[n] = src
			second := src
			if rapid.Bool().Draw(rt, "rewrite") {
				for _, e := range edits {
					if strings.Contains(second, e[0]) && rapid.Bool().Draw(rt, "edit") {
						second = strings.Replace(second, e[0], e[1], 1)
					}
				}
			}
			if len(second) != len(src) {
				second = src
			}
			if second != src {
				changed++
			}
			cs.Second[n] = second
		}
		if changed == 0 {
			cs.Second["card"] = strings.Replace(cs.First["card"], "old", "new", 1)
			changed = 1
		}
		c.Case(true, mustJSON(cs), fmt.Sprintf("files-rewritten:%d", changed))
		c.Sample(cs)
		if f := c14Rewritten(c, cs); f != "" {
			c.Fail(rt, kindOf(f), cs, "the result of a fresh process", f, f)
		}
	})
}
