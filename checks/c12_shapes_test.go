package checks

import (
	"fmt"
	"testing"

	"verif/lib/harness"
	"verif/lib/spec"
)

// C12/one-template-many-shapes: what a name reaches is decided by the data of
// the call. One loaded page ({{ p.name }}, {{ p.age }}, p["name"], a loop over
// people reading u.name) is rendered with p being a struct, a pointer to a
// struct, a map with the lower-case key, a map with the field's spelling, a map
// with both - in every order of four of these shapes.

func init() { registerSeqReplayer("C12/one-template-many-shapes") }

func TestC12_OneTemplateManyShapes(t *testing.T) {
	c := harness.New(t, "C12", "one-template-many-shapes",
		"one page '{{ p.name }}|{{ p.age }}|{{ p[\"name\"] }}|@each(u in people){{ u.name }},@end' loaded once and rendered four times in a row with p (and the elements of people) of four different shapes out of six - a struct {Name, Age}, a pointer to it, a struct with the fields in another order and a third field, map{name, age}, map{Name, Age}, map{name, Name, age, Age} - in every order (360 sequences); each render must show the values of its own data (the exact key where it exists, else the field or key with an upper-case first letter). Exhaustive. Non-trivial: all. Distinct by construction.")
	defer c.Finish()
	type shape struct {
		name string
		mk   func(tag string, age int64) *spec.Value
		// what .name / ["name"] reach
		dotName, idxName func(tag string) string
	}
	upper := func(tag string) string { return "U" + tag }
	lower := func(tag string) string { return "l" + tag }
	shapes := []shape{
		{"struct", func(tag string, age int64) *spec.Value {
			return &spec.Value{T: spec.FixedType("PersonA"), Items: []*spec.Value{spec.String("U" + tag), spec.IntOf(spec.TInt, age)}}
		}, upper, upper},
		{"pointer", func(tag string, age int64) *spec.Value {
			return spec.Ptr(&spec.Value{T: spec.FixedType("PersonA"), Items: []*spec.Value{spec.String("U" + tag), spec.IntOf(spec.TInt, age)}})
		}, upper, upper},
		{"other-struct", func(tag string, age int64) *spec.Value {
			return &spec.Value{T: spec.FixedType("PersonB"), Items: []*spec.Value{spec.IntOf(spec.TInt, age), spec.String("U" + tag), spec.String("m@x")}}
		}, upper, upper},
		{"map-lower", func(tag string, age int64) *spec.Value {
			return spec.Map(spec.T(spec.TAny), []string{"name", "age"}, []*spec.Value{spec.Any(spec.String("l" + tag)), spec.Any(spec.IntOf(spec.TInt, age))})
		}, lower, lower},
		{"map-upper", func(tag string, age int64) *spec.Value {
			return spec.Map(spec.T(spec.TAny), []string{"Name", "Age"}, []*spec.Value{spec.Any(spec.String("U" + tag)), spec.Any(spec.IntOf(spec.TInt, age))})
		}, upper, upper},
		{"map-both", func(tag string, age int64) *spec.Value {
			return spec.Map(spec.T(spec.TAny), []string{"name", "Name", "age", "Age"}, []*spec.Value{spec.Any(spec.String("l" + tag)), spec.Any(spec.String("U" + tag)), spec.Any(spec.IntOf(spec.TInt, age)), spec.Any(spec.IntOf(spec.TInt, age+100))})
		}, lower, lower},
	}
	page := `{{ p.name }}|{{ p.age }}|{{ p["name"] }}|@each(u in people){{ u.name }},@end`
	idx := 0
	n := len(shapes)
	for a := 0; a < n; a++ {
		for b := 0; b < n; b++ {
			for d := 0; d < n; d++ {
				for e := 0; e < n; e++ {
					if a == b || a == d || a == e || b == d || b == e || d == e {
						continue
					}
					idx++
					if !harness.Mine(idx) {
						continue
					}
					cs := seqCase{Files: map[string]string{"page": page}, Dir: "t", Ext: ".tw"}
					note := ""
					for step, si := range []int{a, b, d, e} {
						sh := shapes[si]
						tag := fmt.Sprint(step)
						age := int64(20 + step)
						people := spec.Slice(spec.T(spec.TAny), spec.Any(sh.mk(tag+"x", 1)), spec.Any(shapes[(si+step+1)%n].mk(tag+"y", 2)))
						data := (&spec.Data{}).Add("p", sh.mk(tag, age)).Add("people", people)
						wantOut := sh.dotName(tag) + "|" + fmt.Sprint(age) + "|" + sh.idxName(tag) + "|" + sh.dotName(tag+"x") + "," + shapes[(si+step+1)%n].dotName(tag+"y") + ","
						cs.Steps = append(cs.Steps, seqStep{Page: "page", Data: data, Want: want{St: "ok", Kind: "text", S: wantOut}})
						note += sh.name + " "
					}
					c.CaseEnum(true, "first:"+shapes[a].name)
					if idx%37 == 0 {
						c.Sample(map[string]any{"order": note, "page": page})
					}
					if rs, f := runSeqCase(c, cs); f != "" {
						c.Fail(t, kindOf(f), cs, cs.Steps, rs, f)
					}
				}
			}
		}
	}
	c.ExhaustivePart("every ordered choice of 4 out of 6 shapes")
}
