package checks

import (
	"encoding/json"
	"fmt"
	"math"
	"reflect"
	"sort"
	"strings"
	"testing"
	"unicode/utf8"

	textwire "github.com/textwire/textwire/v2"
	"pgregory.net/rapid"
	"verif/lib/harness"
	"verif/lib/refint"
	"verif/lib/spec"
	"verif/lib/tw"
)

// C11 — built-in functions meet their contracts, are pure and keep UTF-8 valid.

// callCase is the replayable case: receiver.fn(args...) with model values.
type callCase struct {
	Recv   modelJSON   `json:"recv"`
	Fn     string      `json:"fn"`
	Args   []modelJSON `json:"args"`
	AsData bool        `json:"as_data"`
}

// modelJSON serialises a refint.Value.
type modelJSON struct {
	K   string               `json:"k"`
	I   int64                `json:"i,omitempty"`
	FB  uint64               `json:"fbits,omitempty"`
	S   []byte               `json:"s,omitempty"`
	B   bool                 `json:"b,omitempty"`
	Arr []modelJSON          `json:"arr,omitempty"`
	Obj map[string]modelJSON `json:"obj,omitempty"`
}

func toModelJSON(v V) modelJSON {
	m := modelJSON{K: v.K.String(), I: v.I, B: v.B}
	switch v.K {
	case refint.KFloat:
		m.FB = math.Float64bits(v.F)
	case refint.KStr:
		m.S = []byte(v.S)
	case refint.KArr:
		m.Arr = make([]modelJSON, len(v.Arr))
		for i, x := range v.Arr {
			m.Arr[i] = toModelJSON(x)
		}
	case refint.KObj:
		m.Obj = map[string]modelJSON{}
		for k, x := range v.Obj {
			m.Obj[k] = toModelJSON(x)
		}
	}
	return m
}

func (m modelJSON) value() V {
	switch m.K {
	case "int":
		return refint.IntV(m.I)
	case "float":
		return refint.FloatV(math.Float64frombits(m.FB))
	case "str":
		return refint.StrV(string(m.S))
	case "bool":
		return refint.BoolV(m.B)
	case "arr":
		a := make([]V, len(m.Arr))
		for i, x := range m.Arr {
			a[i] = x.value()
		}
		return refint.ArrV(a)
	case "obj":
		o := map[string]V{}
		for k, x := range m.Obj {
			o[k] = x.value()
		}
		return refint.ObjV(o)
	}
	return refint.NilV()
}

func describeModel(v V) string {
	switch v.K {
	case refint.KStr:
		return fmt.Sprintf("%q", v.S)
	case refint.KArr:
		p := make([]string, len(v.Arr))
		for i, x := range v.Arr {
			p[i] = describeModel(x)
		}
		return "[" + strings.Join(p, ", ") + "]"
	case refint.KObj:
		var p []string
		for _, k := range v.Keys() {
			p = append(p, k+": "+describeModel(v.Obj[k]))
		}
		return "{" + strings.Join(p, ", ") + "}"
	case refint.KInt:
		return fmt.Sprint(v.I)
	case refint.KFloat:
		return fmt.Sprint(v.F)
	case refint.KBool:
		return fmt.Sprint(v.B)
	}
	return "nil"
}

func (cs callCase) String() string {
	a := make([]string, len(cs.Args))
	for i, x := range cs.Args {
		a[i] = describeModel(x.value())
	}
	mode := "literal"
	if cs.AsData {
		mode = "data"
	}
	return fmt.Sprintf("%s.%s(%s) [%s]", describeModel(cs.Recv.value()), cs.Fn, strings.Join(a, ", "), mode)
}

func init() {
	registerRenderReplayer("C11/contains-chained")
	for _, n := range []string{"small-domains", "random-calls", "purity", "builtin-precedence"} {
		harness.RegisterReplayer("C11/"+n, func(raw json.RawMessage) string {
			cs, err := unJSON[callCase](raw)
			if err != nil {
				return "bad case: " + err.Error()
			}
			c := harness.New(nopTB{}, "C11", "replay", "")
			return c11Run(c, cs)
		})
	}
}

// observer builds a template that prints the structure of the value of expr,
// and the text a value equal to v must produce.
type observer struct {
	n    int
	tmpl strings.Builder
	want strings.Builder
	ok   bool
}

func (o *observer) observe(expr string, v V) {
	switch v.K {
	case refint.KArr:
		o.n++
		name := fmt.Sprintf("ob%d", o.n)
		o.tmpl.WriteString("{{ " + name + " = " + expr + " }}<{{ " + name + ".len() }}:")
		o.want.WriteString(fmt.Sprintf("<%d:", len(v.Arr)))
		for i, x := range v.Arr {
			o.observe(fmt.Sprintf("%s[%d]", name, i), x)
		}
		o.tmpl.WriteString(">")
		o.want.WriteString(">")
	case refint.KObj:
		o.n++
		name := fmt.Sprintf("ob%d", o.n)
		o.tmpl.WriteString("{{ " + name + " = " + expr + " }}{")
		o.want.WriteString("{")
		for _, k := range v.Keys() {
			if !isIdentKey(k) {
				o.ok = false
				return
			}
			o.tmpl.WriteString(k + "=")
			o.want.WriteString(k + "=")
			o.observe(name+"."+k, v.Obj[k])
		}
		o.tmpl.WriteString("}")
		o.want.WriteString("}")
	case refint.KFloat:
		// floats are compared by value at top level only
		o.ok = false
	default:
		t, _ := v.Text(getCalib())
		o.tmpl.WriteString("[{{ " + expr + " }}]")
		o.want.WriteString("[" + t + "]")
		// the kind of the value, not only its text: + accepts same-typed operands only (C01)
		switch v.K {
		case refint.KStr:
			o.tmpl.WriteString("{{ " + expr + " + '' }};")
			o.want.WriteString(t + ";")
		case refint.KInt:
			o.tmpl.WriteString("{{ " + expr + " + 0 }};")
			o.want.WriteString(t + ";")
		case refint.KBool:
			// then() exists for booleans only
			o.tmpl.WriteString("{{ " + expr + ".then('T', 'F') }};")
			if v.B {
				o.want.WriteString("T;")
			} else {
				o.want.WriteString("F;")
			}
		}
	}
}

func c11Run(c *harness.Check, cs callCase) string {
	recv := cs.Recv.value()
	args := make([]V, len(cs.Args))
	for i, a := range cs.Args {
		args[i] = a.value()
	}
	ref := refBuiltin(recv, cs.Fn, args)
	// the call expression
	var call string
	var data *spec.Data
	if cs.AsData {
		data = (&spec.Data{}).Add("r", specFromModel(recv))
		names := make([]string, len(args))
		for i, a := range args {
			names[i] = fmt.Sprintf("a%d", i)
			data.Add(names[i], specFromModel(a))
		}
		call = "r." + cs.Fn + "(" + strings.Join(names, ", ") + ")"
	} else {
		toks := tw.ExprString(tw.Call(litFromModel(recv), cs.Fn, func() []*tw.Expr {
			out := make([]*tw.Expr, len(args))
			for i, a := range args {
				out[i] = litFromModel(a)
			}
			return out
		}()...), nil)
		call = toks
	}
	goData := data.GoMap()
	before := data.GoMap() // a second, independent build for the "data unchanged" comparison
	payload := mustJSON(cs)
	allValid := utf8.ValidString(describeModel(recv))
	for _, a := range args {
		allValid = allValid && utf8.ValidString(describeModel(a))
	}
	checkUTF8 := func(out string) string {
		if allValid && !utf8.ValidString(out) {
			return fmt.Sprintf("valid UTF-8 input produced invalid UTF-8 output %q", out)
		}
		return ""
	}
	switch ref.St {
	case refint.Unspec:
		r := evalString(c, "json", payload, "[{{ "+call+" }}]", goData)
		if r.Panic != nil {
			return "panic: " + r.Panic.Value
		}
		if f := checkUTF8(r.Out); f != "" {
			return f
		}
	case refint.Err:
		r := evalString(c, "json", payload, "[{{ "+call+" }}]", goData)
		if f := (want{St: "error", Why: ref.Why}).matches(r); f != "" {
			return f
		}
	default:
		v := ref.V
		if v.K == refint.KFloat {
			r := evalString(c, "json", payload, "{{ "+call+" }}", goData)
			if r.Panic != nil {
				return "panic: " + r.Panic.Value
			}
			if r.IsErr() {
				return "unexpected error: " + r.Err
			}
			if !refint.FloatOutEqual(r.Out, v.F) {
				return fmt.Sprintf("output %q does not denote %v", r.Out, v.F)
			}
			break
		}
		o := &observer{ok: true}
		o.observe(call, v)
		if !o.ok {
			r := evalString(c, "json", payload, "[{{ "+call+" }}]", goData)
			if r.Panic != nil {
				return "panic: " + r.Panic.Value
			}
			break
		}
		r := evalString(c, "json", payload, o.tmpl.String(), goData)
		if f := (want{St: "ok", Kind: "text", S: o.want.String()}).matches(r); f != "" {
			return f + " (template " + o.tmpl.String() + ")"
		}
		if f := checkUTF8(r.Out); f != "" {
			return f
		}
		if v.K == refint.KNil {
			// nil and the empty string print alike: a function call on nil must fail
			r2 := evalString(c, "json", payload, "{{ ("+call+").len() }}", goData)
			if r2.Panic == nil && !r2.IsErr() {
				return fmt.Sprintf("expected nil, but .len() on the result works (%q): the result is not nil", r2.Out)
			}
		}
		if v.K == refint.KStr && v.S == "" {
			r2 := evalString(c, "json", payload, "{{ ("+call+").len() }}", goData)
			if r2.Panic == nil && r2.Out != "0" {
				return fmt.Sprintf("expected the empty string, .len() gives %q / %s", r2.Out, r2.Err)
			}
		}
	}
	// (a NaN is not equal to itself: such data cannot be compared with its copy)
	if cs.AsData && !strings.Contains(describeModel(recv), "NaN") && !reflect.DeepEqual(goData, before) {
		return "the caller's data map was modified by the call"
	}
	return ""
}

// ---------------------------------------------------------------- value pools

var c11Strings = []string{"", "a", "abc", "Hello World", "héllo", "日本語", "éa", "ÀB", "  x  ", "\tpad\n", "a,b,,c", "x y z", "12", "-5", "007", "0", "aXbXc", "ß", "a😀b", "abcabc", "-", "+", "--", "-x", ".", "ırmak", "ſtraße", "ɐbc", "ɑé", "ɡ", "ⱥx", "ǆemal", "ßa", "ŉo",
	// blanks other than space, tab, LF and CR at the ends: only those four are trimmed by default
	"\u00a0core\u00a0", "\vx\f", "\u2003em\u3000", "\u0085n", " \u00a0 x \u2028",
	// quotes inside, before multi-byte characters: written with a backslash when the quote is the delimiter
	"l'été", "it's", "say \"日本\"", "q\"é", "'é'", "a'b\"c日", "\"", "'", "''", "é'", "\"\"é\"\""}

func c11StrArgs() []V {
	return []V{refint.StrV(""), refint.StrV(" "), refint.StrV(","), refint.StrV("a"), refint.StrV("X"), refint.StrV("é"), refint.StrV("..."), refint.StrV("ab"), refint.StrV("日"), refint.StrV("'é"), refint.StrV("\""), refint.StrV("'")}
}

func c11Arrays() []V {
	iv := func(xs ...int64) V {
		a := make([]V, len(xs))
		for i, x := range xs {
			a[i] = refint.IntV(x)
		}
		return refint.ArrV(a)
	}
	return []V{
		iv(), iv(1), iv(1, 2), iv(1, 2, 3), iv(3, 1, 2, 1), iv(0, -1, 5, 7),
		strArr([]string{"a", "b"}), strArr([]string{"x", "", "é"}),
		refint.ArrV([]V{iv(1), iv(), iv(2, 3)}),
		refint.ArrV([]V{refint.ObjV(map[string]V{"a": refint.IntV(1)}), refint.ObjV(map[string]V{"a": refint.IntV(2)})}),
		refint.ArrV([]V{refint.BoolV(true), refint.BoolV(false)}),
		refint.ArrV([]V{refint.NilV(), refint.IntV(1)}),
		refint.ArrV([]V{refint.IntV(1), refint.StrV("1"), refint.FloatV(1)}),
	}
}

func c11AnyArgs() []V {
	return []V{refint.IntV(1), refint.IntV(2), refint.StrV("a"), refint.StrV("1"), refint.FloatV(1), refint.BoolV(true), refint.NilV(),
		refint.ArrV(nil), refint.ArrV([]V{refint.IntV(1)}), refint.ArrV([]V{refint.IntV(2), refint.IntV(3)}), refint.ObjV(map[string]V{"a": refint.IntV(1)}), refint.ObjV(nil)}
}

func c11CheckOne(t harness.TB, c *harness.Check, cs callCase, enum bool, extraClass ...string) {
	recv := cs.Recv.value()
	if !cs.AsData {
		ok := literalSafe(recv)
		for _, a := range cs.Args {
			ok = ok && literalSafe(a.value())
		}
		if !ok {
			cs.AsData = true
		}
	}
	args := make([]V, len(cs.Args))
	for i, a := range cs.Args {
		args[i] = a.value()
	}
	ref := refBuiltin(recv, cs.Fn, args)
	nt := len(args) > 0 || !isASCII(describeModel(recv)) || recv.K == refint.KArr
	classes := append([]string{"fn:" + recv.K.String() + "." + cs.Fn, "outcome:" + ref.St.String()}, extraClass...)
	if enum {
		c.CaseEnum(nt, classes...)
	} else {
		c.Case(nt, cs.String(), classes...)
	}
	if nt && (c.S.Evals%199 == 0 || !enum) {
		c.Sample(cs.String())
	}
	if f := c11Run(c, cs); f != "" {
		c.Fail(t, kindOf(f), cs, cs.String()+" => "+ref.St.String()+" "+describeModel(ref.V)+" "+ref.Why, f, f)
	}
}

func mj(vs ...V) []modelJSON {
	out := make([]modelJSON, len(vs))
	for i, v := range vs {
		out[i] = toModelJSON(v)
	}
	return out
}

func TestC11_SmallDomains(t *testing.T) {
	c := harness.New(t, "C11", "small-domains",
		"small numeric domains exhaustively: slice(s[, e]) for every array length 0..4 and s, e in -2..6; at(i) for strings of 0..4 characters (ASCII and multi-byte) and i in -6..6; truncate(n[, ellipsis]), repeat(n), decimal(sep, n) for n in -2..6 over ASCII and multi-byte strings, and decimal / repeat with counts of 255 .. 3000000; first/last/len/reverse/capitalize/upper/lower on every pool string; every zero-argument numeric function on boundary ints and floats; each call with the receiver as literal and as data. Non-trivial: has arguments, or a non-ASCII or array receiver. Distinct by construction.")
	defer c.Finish()
	idx := 0
	run := func(recv V, fn string, args ...V) {
		for _, asData := range []bool{false, true} {
			idx++
			if !harness.Mine(idx) {
				continue
			}
			c11CheckOne(t, c, callCase{Recv: toModelJSON(recv), Fn: fn, Args: mj(args...), AsData: asData}, true)
		}
	}
	for n := 0; n <= 4; n++ {
		a := make([]V, n)
		for i := range a {
			a[i] = refint.IntV(int64(10 + i))
		}
		arr := refint.ArrV(a)
		for s := int64(-2); s <= 6; s++ {
			run(arr, "slice", refint.IntV(s))
			for e := int64(-2); e <= 6; e++ {
				run(arr, "slice", refint.IntV(s), refint.IntV(e))
			}
		}
	}
	for _, s := range []string{"", "a", "ab", "abc", "abcd", "é", "éa", "aé日", "日本語!", "😀x"} {
		for i := int64(-6); i <= 6; i++ {
			run(refint.StrV(s), "at", refint.IntV(i))
			run(refint.StrV(s), "truncate", refint.IntV(i))
			run(refint.StrV(s), "truncate", refint.IntV(i), refint.StrV("…"))
			run(refint.StrV(s), "repeat", refint.IntV(i))
		}
		run(refint.StrV(s), "at")
	}
	for _, s := range []string{"12", "-5", "0", "abc", "", "x", "-", "+", "--", "-x", ".", "é"} {
		for n := int64(-2); n <= 6; n++ {
			run(refint.StrV(s), "decimal", refint.StrV("."), refint.IntV(n))
			run(refint.StrV(s), "decimal", refint.StrV(","), refint.IntV(n))
		}
		run(refint.StrV(s), "decimal")
		run(refint.StrV(s), "decimal", refint.StrV(""))
	}
	// counts beyond the limits of formatting helpers (a width of more than a million) and of small buffers: the
	// contract's value, or - counts may be refused as oversized - an error, nothing else
	for _, n := range []int{255, 256, 65536, 999999, 1000000, 1000001, 3000000} {
		for _, q := range []struct {
			src  string
			want int
		}{{fmt.Sprintf("7.decimal('.', %d)", n), 2 + n}, {fmt.Sprintf("'12'.decimal(',', %d)", n), 3 + n}, {fmt.Sprintf("'ab'.repeat(%d)", n), 2 * n}, {fmt.Sprintf("'é'.repeat(%d)", n), n},
			{fmt.Sprintf("'abc'.truncate(%d)", n), 3}, {fmt.Sprintf("[1, 2].slice(0, %d)", n), 2}} {
			idx++
			if !harness.Mine(idx) {
				continue
			}
			c.CaseEnum(true, "large-count")
			src := "{{ x = " + q.src + " }}[{{ x.len() }}|{{ x.len() }}]"
			r := evalString(c, "text", src, src, nil)
			if r.Panic != nil {
				c.Fail(t, "panic", src, "the contract's value or an error", r, "panic: "+r.Panic.Value)
			} else if !r.IsErr() && r.Out != fmt.Sprintf("[%d|%d]", q.want, q.want) {
				c.Fail(t, "mismatch", src, fmt.Sprintf("[%d|%d] or an error", q.want, q.want), r, fmt.Sprintf("%s has length %s, the contract gives %d", q.src, r.Out, q.want))
			}
		}
	}
	for _, i := range []int64{0, 1, -1, 12, -345, 1000000, math.MaxInt64, math.MinInt64 + 1} {
		for n := int64(-2); n <= 6; n++ {
			run(refint.IntV(i), "decimal", refint.StrV("."), refint.IntV(n))
		}
		for _, fn := range []string{"decimal", "abs", "str", "len", "float"} {
			run(refint.IntV(i), fn)
		}
	}
	// every power of ten and its neighbours, both signs: digit counts and conversions at the boundaries
	for k, p := 1, int64(10); k <= 18; k, p = k+1, p*10 {
		for _, d := range []int64{-2, -1, 0, 1, 2} {
			for _, sign := range []int64{1, -1} {
				for _, fn := range []string{"len", "str", "abs", "float"} {
					run(refint.IntV(sign*(p+d)), fn)
				}
			}
		}
	}
	for _, s := range c11Strings {
		for _, fn := range []string{"len", "upper", "lower", "capitalize", "reverse", "first", "last", "trim", "trimLeft", "trimRight", "split", "decimal"} {
			run(refint.StrV(s), fn)
		}
	}
	// (with negative zero, the smallest and largest finite doubles, a float32-rounded value, the infinities and NaN)
	for _, f := range []float64{0, 0.4, 0.5, 0.6, 1.5, 2.5, -0.5, -1.5, -2.5, 3.0, 1e15 + 0.5, -7.99, 123456.789, 0.1, 4611686018427387000.0,
		negZero(), 5e-324, -5e-324, math.MaxFloat64, -math.MaxFloat64, float64(float32(0.1)), math.Inf(1), math.Inf(-1), math.NaN(), 1e-310, 9007199254740993} {
		for _, fn := range []string{"int", "str", "abs", "ceil", "floor", "round"} {
			run(refint.FloatV(f), fn)
		}
	}
	for _, b := range []bool{true, false} {
		run(refint.BoolV(b), "binary")
		for _, a := range c11AnyArgs() {
			run(refint.BoolV(b), "then", a)
			run(refint.BoolV(b), "then", a, refint.StrV("else"))
		}
	}
	c.ExhaustivePart("slice: len 0..4 x s,e in -2..6; at/truncate/repeat: 10 strings x -6..6; decimal: -2..6; all zero-argument functions on the pools")
}

func TestC11_RandomCalls(t *testing.T) {
	c := harness.New(t, "C11", "random-calls",
		"random calls: receivers from pools (empty/ASCII/multi-byte/emoji strings, numeric strings, arrays of ints/strings/nested arrays/objects/mixed, boundary ints, floats, bools) x every function of the receiver's type x argument tuples of the right and the wrong kinds (strings, ints, floats, bools, nil, arrays, objects, nested), receiver and arguments as literals or as data; result compared structurally (arrays element by element through index access, objects by key) with the reference contract; wrong argument kinds must be errors; valid UTF-8 in, valid UTF-8 out; shuffle must be a permutation and rand a member. Non-trivial: as above. Distinct by hash of the call.")
	defer c.Finish()
	strFns := []string{"len", "split", "trim", "trimRight", "trimLeft", "upper", "lower", "capitalize", "reverse", "contains", "truncate", "decimal", "at", "first", "last", "repeat"}
	arrFns := []string{"len", "join", "reverse", "slice", "contains", "append", "prepend"}
	runRapid(t, c, 20000, 240000, func(rt *rapid.T) {
		var recv V
		var fn string
		var args []V
		anyArg := func() V {
			switch rapid.IntRange(0, 3).Draw(rt, "argPool") {
			case 0:
				return rapid.SampledFrom(c11StrArgs()).Draw(rt, "sarg")
			case 1:
				return refint.IntV(int64(rapid.IntRange(-3, 7).Draw(rt, "iarg")))
			default:
				return rapid.SampledFrom(c11AnyArgs()).Draw(rt, "aarg")
			}
		}
		switch rapid.IntRange(0, 9).Draw(rt, "recvKind") {
		case 0, 1, 2, 3:
			recv = refint.StrV(rapid.SampledFrom(c11Strings).Draw(rt, "str"))
			fn = rapid.SampledFrom(strFns).Draw(rt, "strFn")
			switch fn {
			case "split", "trim", "trimLeft", "trimRight", "contains":
				if rapid.IntRange(0, 5).Draw(rt, "wrongKind") == 0 {
					args = []V{anyArg()}
				} else if fn == "contains" || rapid.Bool().Draw(rt, "withArg") {
					args = []V{rapid.SampledFrom(c11StrArgs()).Draw(rt, "sarg")}
				}
			case "truncate", "at", "repeat":
				if rapid.IntRange(0, 5).Draw(rt, "wrongKind") == 0 {
					args = []V{anyArg()}
				} else {
					args = []V{refint.IntV(int64(rapid.IntRange(-3, 8).Draw(rt, "count")))}
				}
				if fn == "truncate" && rapid.Bool().Draw(rt, "ellipsis") {
					args = append(args, anyArg())
				}
			case "decimal":
				if rapid.Bool().Draw(rt, "decArgs") {
					args = []V{anyArg(), anyArg()}
				}
			}
		case 4, 5, 6, 7:
			recv = rapid.SampledFrom(c11Arrays()).Draw(rt, "arr")
			fn = rapid.SampledFrom(arrFns).Draw(rt, "arrFn")
			switch fn {
			case "join":
				if rapid.Bool().Draw(rt, "withArg") {
					args = []V{anyArg()}
				}
			case "slice":
				args = []V{anyArg()}
				if rapid.Bool().Draw(rt, "end") {
					args = append(args, anyArg())
				}
			case "contains":
				if rapid.Bool().Draw(rt, "member") && len(recv.Arr) > 0 {
					args = []V{recv.Arr[rapid.IntRange(0, len(recv.Arr)-1).Draw(rt, "memberIdx")]}
				} else {
					args = []V{anyArg()}
				}
			case "append", "prepend":
				for i := rapid.IntRange(1, 3).Draw(rt, "nAppend"); i > 0; i-- {
					args = append(args, anyArg())
				}
			}
		case 8:
			recv = refint.IntV(rapid.SampledFrom(interestingInts).Draw(rt, "int"))
			fn = rapid.SampledFrom([]string{"float", "abs", "str", "len", "decimal"}).Draw(rt, "intFn")
			if fn == "decimal" && rapid.Bool().Draw(rt, "decArgs") {
				args = []V{anyArg(), anyArg()}
			}
		default:
			recv = refint.FloatV(rapid.SampledFrom(interestingFloats).Draw(rt, "float"))
			fn = rapid.SampledFrom([]string{"int", "str", "abs", "ceil", "floor", "round"}).Draw(rt, "floatFn")
		}
		cs := callCase{Recv: toModelJSON(recv), Fn: fn, Args: mj(args...), AsData: rapid.Bool().Draw(rt, "asData")}
		c11CheckOne(rt, c, cs, false)
	})
	// shuffle: a permutation; rand: a member (or nil when empty)
	for _, arr := range c11Arrays() {
		if !scalarArray(arr) {
			continue
		}
		data := (&spec.Data{}).Add("r", specFromModel(arr))
		for rep := 0; rep < 5; rep++ {
			r := evalString(c, "json", mustJSON(callCase{Recv: toModelJSON(arr), Fn: "shuffle", AsData: true}), "{{ s = r.shuffle() }}{{ s.len() }}:@each(e in s)[{{ e }}]@end|@each(e in r)[{{ e }}]@end", data.GoMap())
			c.CaseEnum(true, "fn:arr.shuffle")
			parts := strings.SplitN(r.Out, "|", 2)
			if r.Panic != nil || r.IsErr() || len(parts) != 2 || !sameMultiset(strings.SplitN(parts[0], ":", 2)[1], parts[1]) || !strings.HasPrefix(parts[0], fmt.Sprint(len(arr.Arr))+":") {
				c.Fail(t, "mismatch", callCase{Recv: toModelJSON(arr), Fn: "shuffle", AsData: true}, "a permutation of the receiver, receiver unchanged", r, "shuffle is not a permutation")
			}
			r2 := evalString(c, "json", mustJSON(callCase{Recv: toModelJSON(arr), Fn: "rand", AsData: true}), "[{{ r.rand() }}]|@each(e in r)[{{ e }}]@end", data.GoMap())
			c.CaseEnum(true, "fn:arr.rand")
			p2 := strings.SplitN(r2.Out, "|", 2)
			if r2.Panic != nil || r2.IsErr() || len(p2) != 2 || (len(arr.Arr) > 0 && !strings.Contains(p2[1], p2[0])) || (len(arr.Arr) == 0 && p2[0] != "[]") {
				c.Fail(t, "mismatch", callCase{Recv: toModelJSON(arr), Fn: "rand", AsData: true}, "a member of the receiver", r2, "rand is not a member")
			}
		}
	}
}

func scalarArray(a V) bool {
	for _, x := range a.Arr {
		if x.K == refint.KArr || x.K == refint.KObj || x.K == refint.KFloat || x.K != a.Arr[0].K {
			return false
		}
	}
	return true
}

func sameMultiset(a, b string) bool {
	sa, sb := strings.Split(a, "]"), strings.Split(b, "]")
	sort.Strings(sa)
	sort.Strings(sb)
	return strings.Join(sa, "]") == strings.Join(sb, "]")
}

func TestC11_Purity(t *testing.T) {
	c := harness.New(t, "C11", "purity",
		"'OBS(r) | r.f(args) | OBS(r) | OBS(args)' with the receiver and every argument bound as variables (data-supplied and template-assigned), where OBS prints the full structure (length, every element by index, nested arrays and object members): the receiver and the arguments must render identically before and after the call, for every array function (reverse, slice, append, prepend, shuffle, join, contains) incl. chained calls (r.append(x).reverse(), r.slice(1).append(y)) on nested arrays/objects, and for string functions; the Go data map must be deep-equal to a copy. Non-trivial: array receiver with nested elements or a chained call. Distinct by construction.")
	defer c.Finish()
	calls := []string{"reverse()", "slice(1)", "slice(0, 2)", "append(a0)", "prepend(a0)", "shuffle()", "join(\",\")", "contains(a0)", "len()", "rand()",
		"append(a0).reverse()", "slice(1).append(a0)", "reverse().slice(0, 1)", "prepend(a0).append(a0).reverse()", "slice(0).reverse()", "append(a0, a0).slice(1, 3)"}
	idx := 0
	for _, arr := range c11Arrays() {
		for _, arg := range c11AnyArgs() {
			for _, call := range calls {
				for _, mode := range []string{"data", "assigned"} {
					idx++
					if !harness.Mine(idx) {
						continue
					}
					if mode == "assigned" && !(literalSafe(arr) && literalSafe(arg)) {
						continue
					}
					ob := &observer{ok: true}
					ob.observe("r", arr)
					oa := &observer{ok: true, n: 50}
					oa.observe("a0", arg)
					if !ob.ok || !oa.ok {
						continue
					}
					var data *spec.Data
					pre := ""
					if mode == "data" {
						data = (&spec.Data{}).Add("r", specFromModel(arr)).Add("a0", specFromModel(arg))
					} else {
						pre = "{{ r = " + tw.ExprString(litFromModel(arr), nil) + "; a0 = " + tw.ExprString(litFromModel(arg), nil) + " }}"
					}
					src := pre + ob.tmpl.String() + "|{{ res = r." + call + " }}|" + ob.tmpl.String() + "|" + oa.tmpl.String()
					goData, before := data.GoMap(), data.GoMap()
					cs := evalCase{Src: src, Data: data}
					r := evalString(c, "json", mustJSON(cs), src, goData)
					nested := false
					for _, x := range arr.Arr {
						if x.K == refint.KArr || x.K == refint.KObj {
							nested = true
						}
					}
					c.CaseEnum(nested || strings.Count(call, ".") > 0, "call:"+call)
					if idx%401 == 0 {
						c.Sample(src)
					}
					fail := ""
					switch {
					case r.Panic != nil:
						fail = "panic: " + r.Panic.Value
					case r.IsErr():
						// a call may be an error (e.g. join of nested arrays is still text; contains is fine); errors are not purity violations
					default:
						parts := strings.Split(r.Out, "|")
						if len(parts) != 4 || parts[0] != ob.want.String() || parts[2] != ob.want.String() || parts[3] != oa.want.String() {
							fail = fmt.Sprintf("receiver/arguments changed: before %q, after %q, argument %q (expected %q / %q)", parts[0], safeIdx(parts, 2), safeIdx(parts, 3), ob.want.String(), oa.want.String())
						}
					}
					if fail == "" && mode == "data" && !reflect.DeepEqual(goData, before) {
						fail = "the caller's data map was modified"
					}
					if fail != "" {
						c.Fail(t, kindOf(fail), cs, "receiver and arguments unchanged", r, fail)
					}
				}
			}
		}
	}
	c.ExhaustivePart(fmt.Sprintf("%d arrays x %d arguments x %d calls x {data, assigned}", len(c11Arrays()), len(c11AnyArgs()), len(calls)))
}

func safeIdx(p []string, i int) string {
	if i < len(p) {
		return p[i]
	}
	return "<missing>"
}

func TestC11_BuiltinPrecedence(t *testing.T) {
	c := harness.New(t, "C11", "builtin-precedence",
		"with a custom function registered under the name of a built-in of the same receiver type (every built-in name of every type), calls render the built-in's result, not the custom function's; calls the built-in rejects (wrong argument kind, missing argument) fail and do not fall back to the custom function. Non-trivial: all. Distinct by construction.")
	defer c.Finish()
	textwire.VerifReset()
	defer textwire.VerifReset()
	type probe struct{ recv, fn, call string }
	var probes []probe
	for _, fn := range []string{"len", "split", "raw", "trim", "trimRight", "trimLeft", "upper", "lower", "capitalize", "reverse", "contains", "truncate", "decimal", "at", "first", "last", "repeat"} {
		fn := fn
		textwire.RegisterStrFunc(fn, func(s string, a ...any) string { return "CUSTOM" })
		probes = append(probes, probe{"str", fn, `"abc".` + fn + `(` + map[string]string{"contains": `"b"`, "truncate": "2", "repeat": "2"}[fn] + `)`})
	}
	for _, fn := range []string{"len", "join", "rand", "reverse", "slice", "shuffle", "contains", "append", "prepend"} {
		fn := fn
		textwire.RegisterArrFunc(fn, func(a []any, args ...any) []any { return []any{"CUSTOM"} })
		probes = append(probes, probe{"arr", fn, `[1].` + fn + `(` + map[string]string{"slice": "0", "contains": "1", "append": "2", "prepend": "2"}[fn] + `)`})
	}
	for _, fn := range []string{"float", "abs", "str", "len", "decimal"} {
		textwire.RegisterIntFunc(fn, func(i int, a ...any) int { return 424242 })
		probes = append(probes, probe{"int", fn, `7.` + fn + `()`})
	}
	for _, fn := range []string{"int", "str", "abs", "ceil", "floor", "round"} {
		textwire.RegisterFloatFunc(fn, func(f float64, a ...any) float64 { return 424242.5 })
		probes = append(probes, probe{"float", fn, `7.5.` + fn + `()`})
	}
	for _, fn := range []string{"binary", "then"} {
		textwire.RegisterBoolFunc(fn, func(b bool, a ...any) bool { return false })
		probes = append(probes, probe{"bool", fn, `true.` + fn + `(` + map[string]string{"then": "1"}[fn] + `)`})
	}
	// baseline without custom functions is taken from a fresh registry first
	for _, p := range probes {
		src := "{{ " + p.call + " }}"
		withCustom := evalString(c, "raw", src, src, nil)
		c.CaseEnum(true, "type:"+p.recv)
		c.Sample(src)
		if withCustom.Panic != nil || strings.Contains(withCustom.Out, "CUSTOM") || strings.Contains(withCustom.Out, "424242") || (p.recv == "bool" && withCustom.Out != "1") {
			c.Fail(t, "mismatch", evalCase{Src: src}, "the built-in's result", withCustom, "a custom function shadowed the built-in "+p.fn)
		}
	}
	// ... also when the built-in rejects its arguments: wrong kinds / missing arguments are
	// errors of the built-in, the custom function of that name is not a fallback
	misuses := []string{`"abcdef".truncate("x")`, `"abcdef".truncate()`, `"abc".repeat("x")`, `"abc".at("x")`, `"abc".contains(1)`, `"a,b".split(1)`, `"abc".trim(1)`, `"12".decimal(1)`,
		`[1, 2].join(1)`, `[1, 2].slice("a")`, `[1, 2].append()`, `[1, 2].prepend()`, `[1, 2].contains()`, `5.decimal(1)`, `5.decimal(".", "x")`, `true.then()`}
	for _, call := range misuses {
		src := "{{ " + call + " }}"
		r := evalString(c, "raw", src, src, nil)
		c.CaseEnum(true, "misuse-with-custom-namesake")
		c.Sample(src)
		if r.Panic != nil || !r.IsErr() || strings.Contains(r.Out, "CUSTOM") || strings.Contains(r.Out, "424242") {
			c.Fail(t, "mismatch", evalCase{Src: src}, "the built-in's error", r, "a built-in called with unacceptable arguments did not fail although a custom function of its name exists: "+call)
		}
	}
	textwire.VerifReset()
	for _, call := range misuses {
		// (the same calls fail without custom functions: otherwise the list above is wrong)
		src := "{{ " + call + " }}"
		if r := evalString(c, "raw", src, src, nil); !r.IsErr() {
			c.Note("misuse " + src + " does not fail without custom functions")
		}
	}
	for _, p := range probes {
		src := "{{ " + p.call + " }}"
		plain := evalString(c, "raw", src, src, nil)
		if plain.IsErr() && p.fn != "rand" {
			c.Note("probe " + src + " fails without custom functions: " + plain.Err)
		}
	}
	c.ExhaustivePart("every built-in name of the five receiver types")
}

func TestC11_ContainsChained(t *testing.T) {
	c := harness.New(t, "C11", "contains-chained",
		"contains is structural equality whatever produced the operands: arrays/objects that come out of slice, reverse, append, prepend, split compared with literal arrays (empty and non-empty). Non-trivial: all. Distinct by construction.")
	defer c.Finish()
	for _, p := range [][2]string{
		{"[[1].slice(1)].contains([])", "true"}, {"[[1, 2].slice(0, 0)].contains([])", "true"}, {"[[].reverse()].contains([])", "true"},
		{"[[1].slice(1).append(2)].contains([2])", "true"}, {"[{a: [1].slice(1)}].contains({a: []})", "true"}, {"[[1].slice(5)].contains([])", "true"},
		{"[[]].contains([1].slice(1))", "true"}, {"[[1].slice(1)].contains([0])", "false"}, {"['a,b'.split(',')].contains(['a', 'b'])", "true"},
		{"[[1, 2].reverse()].contains([2, 1])", "true"}, {"[[1].prepend(0)].contains([0, 1])", "true"}, {"[[1, 2].slice(1)].contains([2])", "true"},
		{"[{a: 1}].contains({a: 1})", "true"}, {"[{a: 1}].contains({a: 2})", "false"}, {"[{a: 1}].contains({a: 1, b: 2})", "false"}, {"[1, 2].contains(2.0)", "false"},
		{"[nil].contains(nil)", "true"}, {"[[nil]].contains([nil])", "true"}, {"['1'].contains(1)", "false"}, {"[true].contains(true)", "true"},
	} {
		src := "{{ " + p[0] + " }}"
		cs := renderCase{Src: src, Want: want{St: "ok", Kind: "bool", B: p[1] == "true"}}
		c.CaseEnum(true, "fn:arr.contains(chained)")
		c.Sample(cs.sample())
		if r, f := runRenderCase(c, cs); f != "" {
			c.Fail(t, failKind(r), cs, p[1], r, f)
		}
	}
	c.ExhaustivePart("20 hand-written chained contains probes")
}

// ---------------------------------------------------------------- aliasing

type aliasStep struct {
	From int     `json:"from"` // index of the source variable
	Fn   string  `json:"fn"`
	Args []int64 `json:"args"`
}

type aliasCase struct {
	Base  []int64     `json:"base"`
	Steps []aliasStep `json:"steps"`
}

func init() {
	harness.RegisterReplayer("C11/aliasing", func(raw json.RawMessage) string {
		cs, err := unJSON[aliasCase](raw)
		if err != nil {
			return "bad case: " + err.Error()
		}
		c := harness.New(nopTB{}, "C11", "replay", "")
		return c11Alias(c, cs)
	})
}

func intsArr(xs []int64) V {
	a := make([]V, len(xs))
	for i, x := range xs {
		a[i] = refint.IntV(x)
	}
	return refint.ArrV(a)
}

// c11Alias builds 'v0 = base; v1 = vJ.fn(..); ...' and checks every variable
// afterwards against value semantics (a result never changes when another
// array derived from the same receiver is extended).
func c11Alias(c *harness.Check, cs aliasCase) string {
	vals := []V{intsArr(cs.Base)}
	var src strings.Builder
	src.WriteString("{{ v0 = " + tw.ExprString(litFromModel(vals[0]), nil) + " }}")
	for i, st := range cs.Steps {
		if st.From < 0 || st.From >= len(vals) {
			return ""
		}
		args := make([]V, len(st.Args))
		lits := make([]string, len(st.Args))
		for k, a := range st.Args {
			args[k] = refint.IntV(a)
			lits[k] = tw.ExprString(intLit(a), nil)
		}
		r := refBuiltin(vals[st.From], st.Fn, args)
		if r.St != refint.OK || r.V.K != refint.KArr {
			return ""
		}
		vals = append(vals, r.V)
		src.WriteString(fmt.Sprintf("{{ v%d = v%d.%s(%s) }}", i+1, st.From, st.Fn, strings.Join(lits, ", ")))
	}
	var expect strings.Builder
	for i, v := range vals {
		o := &observer{ok: true, n: 100 * (i + 1)}
		o.observe(fmt.Sprintf("v%d", i), v)
		src.WriteString("|" + o.tmpl.String())
		expect.WriteString("|" + o.want.String())
	}
	r := evalString(c, "json", mustJSON(cs), src.String(), nil)
	if f := (want{St: "ok", Kind: "text", S: expect.String()}).matches(r); f != "" {
		return f + "\ntemplate: " + src.String()
	}
	return ""
}

func TestC11_Aliasing(t *testing.T) {
	c := harness.New(t, "C11", "aliasing",
		"chains of array functions over shared receivers: v0 = literal array of 0..7 ints, then up to 5 assignments v_k = v_j.f(args) with f in {slice, append, prepend, reverse} (j any earlier variable), finally every variable is observed (length and each element by index) and compared with value semantics: no result changes because another array derived from the same receiver was extended afterwards (append/prepend/reverse/slice return extensions or copies, receiver and arguments unchanged). Exhaustive part: for base lengths 0..6 every v1 = v0.slice(a, b), v2 = v1.append(9), v3 = v1.append(8) and v1 = v0.append(1), v2 = v0.append(2). Non-trivial: >= 2 steps from a shared source. Distinct by hash / construction.")
	defer c.Finish()
	idx := 0
	run := func(tb harness.TB, cs aliasCase, enum bool) {
		if enum {
			c.CaseEnum(len(cs.Steps) >= 2, fmt.Sprintf("base-len:%d", len(cs.Base)))
		} else {
			c.Case(len(cs.Steps) >= 2, mustJSON(cs), fmt.Sprintf("steps:%d", len(cs.Steps)))
		}
		if c.S.Evals%97 == 0 {
			c.Sample(cs)
		}
		if f := c11Alias(c, cs); f != "" {
			c.Fail(tb, kindOf(f), cs, "value semantics", f, f)
		}
	}
	for n := 0; n <= 6; n++ {
		base := make([]int64, n)
		for i := range base {
			base[i] = int64(i + 1)
		}
		for a := 0; a <= n; a++ {
			for b := a; b <= n; b++ {
				idx++
				if !harness.Mine(idx) {
					continue
				}
				run(t, aliasCase{Base: base, Steps: []aliasStep{{From: 0, Fn: "slice", Args: []int64{int64(a), int64(b)}}, {From: 1, Fn: "append", Args: []int64{9}}, {From: 1, Fn: "append", Args: []int64{8}}, {From: 1, Fn: "prepend", Args: []int64{7}}, {From: 2, Fn: "reverse"}}}, true)
			}
		}
		run(t, aliasCase{Base: base, Steps: []aliasStep{{From: 0, Fn: "append", Args: []int64{1}}, {From: 0, Fn: "append", Args: []int64{2}}, {From: 1, Fn: "append", Args: []int64{3}}, {From: 1, Fn: "append", Args: []int64{4}}}}, true)
		run(t, aliasCase{Base: base, Steps: []aliasStep{{From: 0, Fn: "prepend", Args: []int64{1}}, {From: 0, Fn: "prepend", Args: []int64{2}}, {From: 0, Fn: "reverse"}, {From: 3, Fn: "append", Args: []int64{5}}}}, true)
	}
	c.ExhaustivePart("base lengths 0..6 x all slice bounds x two appends/prepend/reverse on the slice; double appends on one receiver")
	runRapid(t, c, 3000, 45000, func(rt *rapid.T) {
		n := rapid.IntRange(0, 7).Draw(rt, "baseLen")
		cs := aliasCase{Base: make([]int64, n)}
		for i := range cs.Base {
			cs.Base[i] = int64(i + 1)
		}
		lens := []int{n}
		for k := rapid.IntRange(1, 5).Draw(rt, "nSteps"); k > 0; k-- {
			from := rapid.IntRange(0, len(lens)-1).Draw(rt, "from")
			st := aliasStep{From: from}
			l := lens[from]
			switch rapid.IntRange(0, 3).Draw(rt, "fn") {
			case 0:
				a := rapid.IntRange(0, l).Draw(rt, "a")
				b := rapid.IntRange(a, l).Draw(rt, "b")
				st.Fn, st.Args = "slice", []int64{int64(a), int64(b)}
				l = b - a
			case 1:
				st.Fn = "append"
				for j := rapid.IntRange(1, 2).Draw(rt, "nApp"); j > 0; j-- {
					st.Args = append(st.Args, int64(rapid.IntRange(10, 99).Draw(rt, "x")))
				}
				l += len(st.Args)
			case 2:
				st.Fn, st.Args = "prepend", []int64{int64(rapid.IntRange(10, 99).Draw(rt, "x"))}
				l++
			default:
				st.Fn = "reverse"
			}
			cs.Steps = append(cs.Steps, st)
			lens = append(lens, l)
		}
		run(rt, cs, false)
	})
}
