package checks

import (
	"encoding/json"
	"fmt"
	"os"
	"path/filepath"
	"regexp"
	"strings"
	"testing"

	textwire "github.com/textwire/textwire/v2"
	"github.com/textwire/textwire/v2/config"
	"github.com/textwire/textwire/v2/lexer"
	"github.com/textwire/textwire/v2/parser"
	"github.com/textwire/textwire/v2/token"
	"pgregory.net/rapid"
	"verif/lib/harness"
	"verif/lib/refint"
	"verif/lib/tree"
	"verif/lib/tw"
)

// C08 — lexing and parsing terminate: program or error.

type parseCase struct {
	Src        string `json:"src"`
	MustReject bool   `json:"must_reject,omitempty"`
	Why        string `json:"why,omitempty"`
	// As: "" (string/parser API), or the role of the source in a template
	// directory: "page", "layout", "component"
	As string `json:"as,omitempty"`
	// configuration of the load (template directory cases)
	Debug     bool   `json:"debug,omitempty"`
	ErrorPage string `json:"error_page,omitempty"`
	Siblings  bool   `json:"siblings,omitempty"` // sound files that sort before and after the others
	Ext       string `json:"ext,omitempty"`      // template extension (default .tw)
	Sub       string `json:"sub,omitempty"`      // directory of the page inside the template directory ("" or "name/")
}

func (cs *parseCase) UnmarshalJSON(b []byte) error {
	// a bare JSON string is a case with only a source (exhaustive enumerations
	// publish raw sources in the heartbeat)
	var s string
	if json.Unmarshal(b, &s) == nil {
		*cs = parseCase{Src: s}
		return nil
	}
	type plain parseCase
	return json.Unmarshal(b, (*plain)(cs))
}

func init() {
	for _, n := range []string{"lexeme-sequences", "derived", "soup", "trees", "lexeme-sequences-4", "deep-nesting"} {
		harness.RegisterReplayer("C08/"+n, func(raw json.RawMessage) string {
			cs, err := unJSON[parseCase](raw)
			if err != nil {
				return "bad case: " + err.Error()
			}
			c := harness.New(nopTB{}, "C08", "replay", "")
			if cs.As != "" {
				return c08Tree(c, cs, false)
			}
			return c08Parse(c, cs, "json", mustJSON(cs))
		})
	}
	harness.RegisterReplayer("C08/reload", func(raw json.RawMessage) string {
		rc, err := unJSON[reloadCase](raw)
		if err != nil {
			return "bad case: " + err.Error()
		}
		return c08Reload(harness.New(nopTB{}, "C08", "replay", ""), rc)
	})
	harness.RegisterReplayer("C08/large-files", func(raw json.RawMessage) string {
		lc, err := unJSON[largeCase](raw)
		if err != nil {
			return "bad case: " + err.Error()
		}
		return c08Large(harness.New(nopTB{}, "C08", "replay", ""), lc)
	})
	harness.RegisterReplayer("C08/cycles", func(raw json.RawMessage) string {
		cs, err := unJSON[treeCase](raw)
		if err != nil {
			return "bad case: " + err.Error()
		}
		c := harness.New(nopTB{}, "C08", "replay", "")
		if tr := loadAndRender(c, cs); tr.Panic != nil {
			return "panic: " + tr.Panic.Value
		}
		return ""
	})
}

// c08Parse runs lexer and parser on the source and checks the contract.
func c08Parse(c *harness.Check, cs parseCase, kind, payload string) string {
	var failure string
	pi := c.Guard(kind, payload, func() {
		src := cs.Src
		l := lexer.New(src)
		ended := false
		for i := 0; i <= len(src)+2; i++ {
			tok := l.NextToken()
			if tok.Type == token.EOF || tok.Type == token.ILLEGAL {
				ended = true
				break
			}
		}
		if !ended {
			failure = fmt.Sprintf("lexer produced more than %d tokens without reaching EOF or ILLEGAL", len(src)+2)
			return
		}
		p := parser.New(lexer.New(src), "")
		prog := p.ParseProgram()
		errs := p.Errors()
		if len(errs) == 0 {
			if prog == nil {
				failure = "no program and no error"
				return
			}
			if cs.MustReject {
				failure = "accepted without error: " + cs.Why
			}
			return
		}
		for _, e := range errs {
			if e == nil || e.Line() < 1 {
				failure = "a parse error carries no line number"
				return
			}
		}
	})
	if pi != nil {
		return "panic: " + pi.Value + "\n" + pi.Stack
	}
	return failure
}

// ---------------------------------------------------------------- lexeme alphabet

func c08Alphabet() []string {
	a := []string{
		"+", "-", "*", "/", "%", "++", "--", "!", "=", "==", "!=", "<", ">", "<=", ">=",
		"(", ")", "[", "]", "{", "}", "{{", "}}", "?", ":", ",", ".", ";",
		"{{--", "--}}", "\"", "'", "\"s\"", "'s'",
		"x", "loop", "1", "0", "1.5", "true", "false", "nil", "in",
		"@", "\\", "#", "\xc3\xa9", "t", " ", "\n",
		"If", "if", // directly after @else/@break/@continue: the wrong-case spellings of the long directives
	}
	withParens := map[string]bool{"@if": true, "@elseif": true, "@for": true, "@each": true, "@use": true, "@reserve": true, "@insert": true,
		"@breakIf": true, "@continueIf": true, "@component": true, "@slot": true, "@dump": true}
	for _, d := range []string{"@if", "@elseif", "@else", "@end", "@use", "@reserve", "@insert", "@for", "@each", "@continueIf", "@continue", "@breakIf", "@break", "@component", "@slot", "@dump"} {
		a = append(a, d)
		if withParens[d] {
			a = append(a, d+"(")
		}
	}
	return a
}

var c08Openers = []string{"{{", "\"", "'", "{", "@", "["}

func c08NonTrivial(s string) bool {
	for _, o := range c08Openers {
		if strings.Contains(s, o) {
			return true
		}
	}
	return false
}

func TestC08_LexemeSequences(t *testing.T) {
	alpha := c08Alphabet()
	k := harness.Pick(3, 4)
	c := harness.New(t, "C08", "lexeme-sequences",
		fmt.Sprintf("every sequence of up to k lexemes (k=3 quick, 4 thorough) from the full lexeme alphabet (%d lexemes: every operator and punctuation token, {{ }} {{-- --}}, lone and complete quotes, identifier, numbers, keywords, every directive with and without '(', @ \\ # a non-ASCII byte, text, space, newline), concatenated; oracle: lexer reaches EOF/ILLEGAL within len+2 tokens, parser returns, yields a program without errors or >= 1 error each with line >= 1, no panic, no hang (watchdog). Non-trivial: contains an opener ({{, quote, {, [, @). Distinct by construction (each sequence once; different sequences with the same concatenation are counted once per sequence).", len(alpha)))
	defer c.Finish()
	var rec func(prefix string, depth int)
	n := 0
	rec = func(prefix string, depth int) {
		cs := parseCase{Src: prefix}
		nt := c08NonTrivial(prefix)
		c.CaseEnum(nt)
		n++
		if nt && n%50021 == 0 {
			c.Sample(prefix)
		}
		if f := c08Parse(c, cs, "raw", prefix); f != "" {
			c.Fail(t, kindOf(f), cs, "program or error", f, f)
		}
		if depth == k {
			return
		}
		for _, p := range alpha {
			rec(prefix+p, depth+1)
		}
	}
	if harness.Shard() == 0 {
		c08Parse(c, parseCase{}, "raw", "")
	}
	// shard on the first two lexemes so that 16 shards stay balanced
	idx := 0
	for _, p1 := range alpha {
		idx++
		if harness.Mine(idx) {
			cs := parseCase{Src: p1}
			c.CaseEnum(c08NonTrivial(p1))
			if f := c08Parse(c, cs, "raw", p1); f != "" {
				c.Fail(t, kindOf(f), cs, "program or error", f, f)
			}
		}
		for _, p2 := range alpha {
			idx++
			if !harness.Mine(idx) {
				continue
			}
			rec(p1+p2, 2)
		}
	}
	c.ExhaustivePart(fmt.Sprintf("all lexeme sequences of length <= %d over %d lexemes", k, len(alpha)))
}

func kindOf(f string) string {
	if strings.HasPrefix(f, "panic") {
		return "panic"
	}
	return "mismatch"
}

// ---------------------------------------------------------------- valid templates (syntactic)

var plainTexts = []string{"a", " ", "\n", "text ", "<p>", "</p>\n", "x y", "é", "line1\nline2\n", "\r\n", "1", "a.b", "(t)", "e@x", "} ", " {"}

// synGen generates syntactically valid templates (they need not evaluate).
type synGen struct {
	g *exprGen
}

func (s *synGen) expr(rt *rapid.T) *tw.Expr {
	k := rapid.SampledFrom([]refint.Kind{refint.KInt, refint.KFloat, refint.KStr, refint.KBool}).Draw(rt, "ek")
	e := s.g.gen(rt, k, rapid.IntRange(0, 3).Draw(rt, "edepth"))
	switch rapid.IntRange(0, 7).Draw(rt, "extra") {
	case 0:
		return tw.Arr(e, tw.Str("s}}\"q"), tw.Obj([]string{"k", "j"}, []*tw.Expr{intLit(1), tw.Arr()}))
	case 1:
		return tw.Obj([]string{"a", "b"}, []*tw.Expr{e, tw.Obj([]string{"c"}, []*tw.Expr{tw.Str("}")})})
	case 2:
		return tw.Call(tw.Str("a, b"), "split", tw.Str(", "))
	case 3:
		str := tw.Str(rapid.SampledFrom([]string{"it's", "say \"hi\"", "}}", "{{", "@end", "--}}", "a\nb", "(", "\\"}).Draw(rt, "tricky"))
		if rapid.Bool().Draw(rt, "sq") {
			str.Quote = "'"
		}
		if strings.HasSuffix(str.Str, "\\") {
			str.Str += "x"
		}
		return tw.Bin("+", str, tw.Str("z"))
	}
	return e
}

func (s *synGen) text(rt *rapid.T) *tw.Stmt {
	return tw.Text(strings.Join(rapid.SliceOfN(rapid.SampledFrom(plainTexts), 1, 3).Draw(rt, "text"), ""))
}

func (s *synGen) stmts(rt *rapid.T, depth int, inLoop bool) []*tw.Stmt {
	n := rapid.IntRange(0, 4).Draw(rt, "nstmts")
	var out []*tw.Stmt
	for i := 0; i < n; i++ {
		k := rapid.IntRange(0, 17).Draw(rt, "sk")
		if depth <= 0 && k >= 8 && k <= 11 {
			k = 0
		}
		switch k {
		case 0, 1, 2:
			out = append(out, s.text(rt))
		case 3, 4:
			out = append(out, tw.Print(s.expr(rt)))
		case 5:
			out = append(out, tw.Assign(rapid.SampledFrom([]string{"v", "w", "count"}).Draw(rt, "an"), s.expr(rt)))
		case 6:
			out = append(out, &tw.Stmt{Kind: tw.SCode, Body: []*tw.Stmt{tw.Assign("v", s.expr(rt)), tw.Print(tw.Var("v"))}})
		case 7:
			out = append(out, &tw.Stmt{Kind: tw.SComment, Text: rapid.SampledFrom([]string{"", " c ", "\n multi\n line ", " }} ", " @if( ", " -- ", " {{ x }} "}).Draw(rt, "cm")})
		case 8, 9:
			st := &tw.Stmt{Kind: tw.SIf}
			nb := rapid.IntRange(1, 3).Draw(rt, "nbr")
			for b := 0; b < nb; b++ {
				st.Branches = append(st.Branches, tw.Branch{Cond: s.expr(rt), Body: s.stmts(rt, depth-1, inLoop)})
			}
			if rapid.Bool().Draw(rt, "else") {
				st.HasElse = true
				st.Else = s.stmts(rt, depth-1, inLoop)
			}
			out = append(out, st)
		case 10:
			st := &tw.Stmt{Kind: tw.SEach, Name: "item", E: tw.Arr(intLit(1), intLit(2)), Body: s.stmts(rt, depth-1, true)}
			if rapid.Bool().Draw(rt, "else") {
				st.HasElse = true
				st.Else = s.stmts(rt, depth-1, inLoop)
			}
			out = append(out, st)
		case 11:
			st := &tw.Stmt{Kind: tw.SFor, Name: "i", Init: intLit(0), Cond: tw.Bin("<", tw.Var("i"), intLit(2)), Post: tw.Un(tw.EInc, tw.Var("i")), Body: s.stmts(rt, depth-1, true)}
			if rapid.Bool().Draw(rt, "else") {
				st.HasElse = true
				st.Else = s.stmts(rt, depth-1, inLoop)
			}
			out = append(out, st)
		case 12:
			if inLoop {
				out = append(out, rapid.SampledFrom([]*tw.Stmt{{Kind: tw.SBreak}, {Kind: tw.SContinue}, {Kind: tw.SBreakIf, E: s.expr(rt)}, {Kind: tw.SContinueIf, E: s.expr(rt)}}).Draw(rt, "ctl"))
				// a text starting with "if"/"If" must not follow @break/@continue
				out = append(out, tw.Text(" "))
			} else {
				out = append(out, s.text(rt))
			}
		case 13:
			out = append(out, &tw.Stmt{Kind: tw.SDump, Args: []*tw.Expr{s.expr(rt)}})
		case 14:
			out = append(out, &tw.Stmt{Kind: tw.SReserve, Name: "r1"})
		case 15:
			if rapid.Bool().Draw(rt, "blockInsert") && depth > 0 {
				out = append(out, &tw.Stmt{Kind: tw.SInsert, Name: fmt.Sprintf("r%d", len(out)+10*depth+i), Block: true, Body: s.stmts(rt, 0, false)})
			} else {
				out = append(out, &tw.Stmt{Kind: tw.SInsert, Name: fmt.Sprintf("q%d", len(out)+10*depth+i), E: s.expr(rt)})
			}
		case 16:
			cmp := &tw.Stmt{Kind: tw.SComponent, Name: "comp"}
			if rapid.Bool().Draw(rt, "arg") {
				cmp.Arg = tw.Obj([]string{"a"}, []*tw.Expr{s.expr(rt)})
			}
			if rapid.Bool().Draw(rt, "slots") {
				cmp.Slots = []*tw.Stmt{{Kind: tw.SSlot, Name: "", Body: []*tw.Stmt{s.text(rt)}, Text: "\n"}, {Kind: tw.SSlot, Name: "n", Body: []*tw.Stmt{tw.Print(s.expr(rt))}, Text: " "}}
				cmp.Text = "\n"
			}
			out = append(out, cmp, tw.Text("|"))
		default:
			out = append(out, &tw.Stmt{Kind: tw.SSlot, Name: rapid.SampledFrom([]string{"", "nm"}).Draw(rt, "slotname")}, tw.Text(" "))
		}
	}
	return out
}

var lexemeRe = regexp.MustCompile(`@[a-zA-Z]+|\{\{--|--\}\}|\{\{|\}\}|"(?:[^"\\]|\\.)*"|'(?:[^'\\]|\\.)*'|[0-9]+(?:\.[0-9]+)?|[A-Za-z_][A-Za-z0-9_]*|==|!=|<=|>=|\+\+|--|\s+|.`)

func splitLexemes(s string) []string { return lexemeRe.FindAllString(s, -1) }

func TestC08_Derived(t *testing.T) {
	c := harness.New(t, "C08", "derived",
		"from generated valid templates (text, {{ }} with strings containing }} {{ @end quotes and newlines, object/array literals, comments, @if/@elseif/@else, @each, @for, break/continue, @dump, @reserve/@insert/@component with slots/@slot): (a) the template itself; (b) every proper prefix that ends inside a construct (after its complete opener, before its complete closer: unterminated {{ }}, string, object literal, comment, directive argument list, block without @end) must be rejected with an error; (c) an illegal character (# \\ & | ^ ~ $ ` @ or a non-ASCII byte) inserted inside code outside strings must be rejected; (d) single-lexeme deletion, duplication and adjacent swap: program or error. Non-trivial: the template has >= 1 construct. Distinct by hash of the derived source.")
	defer c.Finish()
	runRapid(t, c, 1500, 15000, func(rt *rapid.T) {
		sg := &synGen{g: &exprGen{}}
		stmts := sg.stmts(rt, 2, false)
		lay := genLayout().Draw(rt, "layout")
		pr := tw.PrintStmts(stmts, lay)
		src := pr.Src
		full := parseCase{Src: src}
		nt := len(pr.Spans) > 0
		run := func(cs parseCase, class string) {
			c.Case(nt, cs.Src, class)
			if f := c08Parse(c, cs, "json", mustJSON(cs)); f != "" {
				c.Fail(rt, kindOf(f), cs, "program or error", f, f)
			}
		}
		// (a) the valid template: if the parser rejects it the generator is at
		// fault as far as this property goes; derived oracles are then skipped
		var ferr string
		pi := c.Guard("json", mustJSON(full), func() {
			p := parser.New(lexer.New(src), "")
			p.ParseProgram()
			if len(p.Errors()) > 0 {
				ferr = p.Errors()[0].String()
			}
		})
		if pi != nil {
			c.Fail(rt, "panic", full, "program or error", pi.Value, "panic: "+pi.Value)
		}
		run(full, "valid-template")
		if ferr != "" {
			c.Class("skipped:generated template rejected (" + firstWords(errMessage(ferr), 4) + ")")
			return
		}
		if nt {
			c.Sample(src)
		}
		// (b) prefixes inside constructs
		inside := make([]string, len(src)+1)
		for _, sp := range pr.Spans {
			for p := sp.OpenEnd; p < sp.End && p <= len(src); p++ {
				if inside[p] == "" || sp.Kind != "block" {
					inside[p] = sp.Kind
				}
			}
		}
		for p := 0; p < len(src); p++ {
			if inside[p] == "" {
				continue
			}
			run(parseCase{Src: src[:p], MustReject: true, Why: "prefix ending inside a " + inside[p]}, "prefix-in-"+inside[p])
		}
		// (c) illegal characters inside code, outside strings
		for _, sp := range pr.Spans {
			if sp.Kind != "braces" && sp.Kind != "header" {
				continue
			}
			closer := 2
			if sp.Kind == "header" {
				closer = 1
			}
			codeFrom := sp.OpenEnd
			if sp.Kind == "header" {
				codeFrom = sp.Start + strings.IndexByte(src[sp.Start:], '(') + 1
			}
			positions := []int{codeFrom, sp.End - closer}
			quote := byte(0)
			for p := codeFrom; p < sp.End-closer; p++ {
				ch := src[p]
				switch {
				case quote != 0:
					if ch == '\\' {
						p++
					} else if ch == quote {
						quote = 0
					}
				case ch == '"' || ch == '\'':
					quote = ch
				case ch == ' ' || ch == '\n' || ch == '\t':
					positions = append(positions, p)
				}
			}
			pos := positions[rapid.IntRange(0, len(positions)-1).Draw(rt, "illegalPos")]
			ill := rapid.SampledFrom([]string{"#", "\\", "&", "|", "^", "~", "$", "`", "@", "\xc3\xa9", "\xff"}).Draw(rt, "illegal")
			run(parseCase{Src: src[:pos] + ill + src[pos:], MustReject: true, Why: "illegal character " + ill + " inside code"}, "illegal-char")
		}
		// (c2) a code token replaced by an illegal character (also in name positions)
		codeTok := regexp.MustCompile(`[A-Za-z_][A-Za-z0-9_]*|[0-9]+`)
		for _, sp := range pr.Spans {
			if sp.Kind != "braces" && sp.Kind != "header" {
				continue
			}
			from := sp.OpenEnd
			if sp.Kind == "header" {
				from = sp.Start + strings.IndexByte(src[sp.Start:], '(') + 1
			}
			seg := src[from:sp.End]
			if strings.ContainsAny(seg, "\"'") {
				continue // keep clear of string literals
			}
			locs := codeTok.FindAllStringIndex(seg, -1)
			if len(locs) == 0 {
				continue
			}
			loc := locs[rapid.IntRange(0, len(locs)-1).Draw(rt, "replaceTok")]
			ill := rapid.SampledFrom([]string{"#", "\\", "&", "|", "^", "~", "$", "`", "@"}).Draw(rt, "illegalRepl")
			run(parseCase{Src: src[:from+loc[0]] + ill + src[from+loc[1]:], MustReject: true, Why: "code token replaced by the illegal character " + ill}, "illegal-char-replacing-token")
		}
		// (d) lexeme mutations
		lex := splitLexemes(src)
		if len(lex) > 0 {
			for m := 0; m < 6; m++ {
				i := rapid.IntRange(0, len(lex)-1).Draw(rt, "mutAt")
				var mut []string
				switch rapid.IntRange(0, 2).Draw(rt, "mutKind") {
				case 0:
					mut = append(append([]string{}, lex[:i]...), lex[i+1:]...)
				case 1:
					mut = append(append(append([]string{}, lex[:i+1]...), lex[i]), lex[i+1:]...)
				default:
					mut = append([]string{}, lex...)
					if i+1 < len(mut) {
						mut[i], mut[i+1] = mut[i+1], mut[i]
					}
				}
				run(parseCase{Src: strings.Join(mut, "")}, "lexeme-mutation")
			}
		}
	})
}

func TestC08_Soup(t *testing.T) {
	c := harness.New(t, "C08", "soup",
		"random soups: 0..40 lexemes from the alphabet (with occasional random bytes) concatenated; program-or-error oracle. Non-trivial: contains an opener. Distinct by hash.")
	defer c.Finish()
	alpha := c08Alphabet()
	runRapid(t, c, 40000, 450000, func(rt *rapid.T) {
		n := rapid.IntRange(0, 40).Draw(rt, "n")
		var b strings.Builder
		for i := 0; i < n; i++ {
			if rapid.IntRange(0, 15).Draw(rt, "rawByte") == 0 {
				b.WriteByte(rapid.Byte().Draw(rt, "byte"))
			} else {
				b.WriteString(rapid.SampledFrom(alpha).Draw(rt, "lx"))
			}
		}
		src := b.String()
		cs := parseCase{Src: src}
		nt := c08NonTrivial(src)
		c.Case(nt, src)
		if nt {
			c.Sample(src)
		}
		if f := c08Parse(c, cs, "json", mustJSON(cs)); f != "" {
			c.Fail(rt, kindOf(f), cs, "program or error", f, f)
		}
	})
}

// ---------------------------------------------------------------- as files of a template directory

func c08Tree(c *harness.Check, cs parseCase, _ bool) string {
	tr := tree.Tree{}
	x := ".tw"
	if cs.Ext != "" {
		x = cs.Ext
	}
	switch cs.As {
	case "page":
		tr["t/"+cs.Sub+"page"+x] = tree.Entry{Content: cs.Src}
	case "layout":
		tr["t/page"+x] = tree.Entry{Content: `@use("lay")@insert("r1", "x")`}
		tr["t/lay"+x] = tree.Entry{Content: cs.Src}
	case "component":
		tr["t/page"+x] = tree.Entry{Content: `a@component("comp")b`}
		tr["t/comp"+x] = tree.Entry{Content: cs.Src}
	case "symlinked-page":
		// a template file that is a symbolic link to a file kept elsewhere is content of the directory
		tr["shared/real"+x] = tree.Entry{Content: cs.Src}
		tr["t/page"+x] = tree.Entry{Kind: tree.Symlink, Content: "../shared/real" + x}
	}
	if cs.Siblings {
		tr["t/about"+x] = tree.Entry{Content: "about {{ 1 + 1 }}"}
		tr["t/zebra"+x] = tree.Entry{Content: "zebra"}
	}
	if _, err := tree.Materialise(tr); err != nil {
		return ""
	}
	var failure string
	pi := c.Guard("json", mustJSON(cs), func() {
		textwire.VerifReset()
		// whether a source ends in a program or an error does not depend on the configuration
		ext := ".tw"
		if cs.Ext != "" {
			ext = cs.Ext
		}
		tpl, err := textwire.NewTemplate(&config.Config{TemplateDir: "t", TemplateExt: ext, DebugMode: cs.Debug, ErrorPagePath: cs.ErrorPage})
		if (tpl == nil) == (err == nil) {
			failure = fmt.Sprintf("NewTemplate returned (%v, %v)", tpl, err)
			return
		}
		if cs.MustReject && err == nil {
			failure = "loaded without error: " + cs.Why
			return
		}
		if err != nil {
			// an error of a load carries a line number and names a file of the directory
			// (the file may be one the source refers to and that does not exist: only its place is checked)
			_, p, ok := errLine(err.Error())
			if !ok || p != "" && !strings.Contains(p, "/t/") {
				failure = fmt.Sprintf("the load error carries no line number or names no file of the directory: %s", clip(err.Error(), 300))
			}
		}
	})
	if pi != nil {
		return "panic: " + pi.Value + "\n" + pi.Stack
	}
	return failure
}

func TestC08_Trees(t *testing.T) {
	c := harness.New(t, "C08", "trees",
		"a sample of sources (generated valid templates, their prefixes inside constructs, lexeme soups) written as the only page (a regular file or a symbolic link to one), as the layout of a page and as a component of a page in a template directory (alone or between sound files that sort before and after it; debug mode on or off; no, an existing or a missing custom error page; extensions .tw, .tw.html, .TW, .Tpl, .t-w, .x.Y.z) and loaded with NewTemplate (the page at the top of the directory or in a sub-directory whose name holds percent signs, a blank or a non-ASCII letter): returns (template, nil) or (nil, error) - an error that carries a line number and a path inside the directory -, never panics or hangs; prefixes inside constructs must fail the load. Non-trivial: contains an opener. Distinct by hash of role + source.")
	defer c.Finish()
	alpha := c08Alphabet()
	runRapid(t, c, 1500, 18000, func(rt *rapid.T) {
		var cs parseCase
		if rapid.Bool().Draw(rt, "soup") {
			cs.Src = strings.Join(rapid.SliceOfN(rapid.SampledFrom(alpha), 0, 12).Draw(rt, "lx"), "")
		} else {
			sg := &synGen{g: &exprGen{}}
			pr := tw.PrintStmts(sg.stmts(rt, 2, false), genLayout().Draw(rt, "layout"))
			cs.Src = pr.Src
			if len(pr.Spans) > 0 && rapid.Bool().Draw(rt, "prefix") {
				ok := true
				p := parser.New(lexer.New(pr.Src), "")
				p.ParseProgram()
				ok = len(p.Errors()) == 0
				sp := pr.Spans[rapid.IntRange(0, len(pr.Spans)-1).Draw(rt, "span")]
				if ok && sp.End > sp.OpenEnd {
					cut := rapid.IntRange(sp.OpenEnd, sp.End-1).Draw(rt, "cut")
					cs = parseCase{Src: pr.Src[:cut], MustReject: true, Why: "prefix ending inside a " + sp.Kind}
				}
			}
		}
		if strings.IndexByte(cs.Src, 0) >= 0 {
			return
		}
		cs.As = rapid.SampledFrom([]string{"page", "layout", "component", "symlinked-page"}).Draw(rt, "as")
		cs.Sub = rapid.SampledFrom([]string{"", "", "sub/", "50%off/", "my%20t/%d/", "sp ace/", "caf\u00e9/"}).Draw(rt, "sub")
		cs.Debug = rapid.IntRange(0, 2).Draw(rt, "debug") == 0
		cs.ErrorPage = rapid.SampledFrom([]string{"", "", "zebra", "nosuch"}).Draw(rt, "errorPage")
		cs.Siblings = cs.ErrorPage == "zebra" || rapid.Bool().Draw(rt, "siblings")
		cs.Ext = rapid.SampledFrom([]string{"", "", ".tw.html", ".TW", ".Tpl", ".t-w", ".x.Y.z"}).Draw(rt, "ext")
		nt := c08NonTrivial(cs.Src)
		c.Case(nt, cs.As+"|"+cs.Src+fmt.Sprint(cs.Debug, cs.ErrorPage, cs.Siblings), "as:"+cs.As, fmt.Sprintf("debug:%v", cs.Debug), fmt.Sprintf("siblings:%v", cs.Siblings))
		if nt {
			c.Sample(cs)
		}
		if f := c08Tree(c, cs, true); f != "" {
			c.Fail(rt, kindOf(f), cs, "template or error", f, f)
		}
	})
}

// TestC08_Cycles: files of a template directory that refer to each other in a
// circle (components, layouts, a page using itself) are content like any other:
// loading and rendering return.
func TestC08_Cycles(t *testing.T) {
	c := harness.New(t, "C08", "cycles",
		"every template directory of 1..3 files f0..f2 in which each file holds one reference to one of the files (itself included) or none: @component(\"fK\") with and without a slot body, or @use(\"fK\") with an @insert; some files also declare a @slot / @reserve so that they can be the target. NewTemplate and String of every name must return (a template, an output or an error), never panic, hang or exhaust memory. Exhaustive. Non-trivial: the references form a cycle. Distinct by construction.")
	defer c.Finish()
	refs := func(k int) []string {
		out := []string{"plain"}
		for t := 0; t < k; t++ {
			out = append(out, fmt.Sprintf("A@component(\"f%d\");B@slot", t), fmt.Sprintf("A@component(\"f%d\")\n@slot s@end\n@end;B@slot", t),
				fmt.Sprintf("@use(\"f%d\")@insert(\"r\")x@end", t), fmt.Sprintf("@use(\"f%d\")@insert(\"r\")x@end<l>@reserve(\"r\")</l>", t))
		}
		return out
	}
	idx := 0
	for k := 1; k <= 3; k++ {
		opts := refs(k)
		choice := make([]int, k)
		var rec func(i int)
		rec = func(i int) {
			if i == k {
				idx++
				if !harness.Mine(idx) {
					return
				}
				files := map[string]string{}
				cyc := false
				target := make([]int, k)
				for f := 0; f < k; f++ {
					files[fmt.Sprintf("f%d", f)] = opts[choice[f]]
					target[f] = -1
					if choice[f] > 0 {
						target[f] = (choice[f] - 1) / 4
					}
				}
				for f := 0; f < k; f++ {
					seen := map[int]bool{}
					for x := f; x >= 0 && !seen[x]; x = target[x] {
						seen[x] = true
						if target[x] == f {
							cyc = true
						}
					}
				}
				c.CaseEnum(cyc, fmt.Sprintf("files:%d", k), fmt.Sprintf("cycle:%v", cyc))
				if cyc && idx%53 == 0 {
					c.Sample(files)
				}
				for f := 0; f < k; f++ {
					cs := treeCase{Files: files, Dir: "t", Ext: ".tw", Page: fmt.Sprintf("f%d", f)}
					tr := loadAndRender(c, cs)
					if tr.Panic != nil {
						c.Fail(t, "panic", cs, "load and render return", tr, "panic: "+tr.Panic.Value)
					}
					if tr.LoadErr != "" {
						break // the same for every page
					}
				}
				return
			}
			for o := range opts {
				choice[i] = o
				rec(i + 1)
			}
		}
		rec(0)
	}
	c.ExhaustivePart("1..3 files x (4 reference forms x target file + none) per file")
}

// largeCase: PadBytes of filler text followed by Tail, loaded as page / layout /
// component / through EvaluateFile and EvaluateString.
type largeCase struct {
	PadBytes int    `json:"pad_bytes"`
	Unit     string `json:"unit"`
	Tail     string `json:"tail"`
	As       string `json:"as"`
	Reject   bool   `json:"reject"`
}

func (lc largeCase) src() string {
	n := lc.PadBytes/len(lc.Unit) + 1
	return strings.Repeat(lc.Unit, n) + lc.Tail
}

func c08Large(c *harness.Check, lc largeCase) string {
	src := lc.src()
	tr := tree.Tree{"t/page.tw": tree.Entry{Content: src}}
	switch lc.As {
	case "layout":
		tr["t/page.tw"] = tree.Entry{Content: `@use("lay")@insert("r1", "x")`}
		tr["t/lay.tw"] = tree.Entry{Content: src + `@reserve("r1")`}
	case "component":
		tr["t/page.tw"] = tree.Entry{Content: `a@component("comp");b`}
		tr["t/comp.tw"] = tree.Entry{Content: src}
	}
	root, err := tree.Materialise(tr)
	if err != nil {
		return ""
	}
	var failure string
	pi := c.Guard("json", mustJSON(lc), func() {
		textwire.VerifReset()
		var out string
		var ferr error
		switch lc.As {
		case "evalfile":
			out, ferr = textwire.EvaluateFile(filepath.Join(root, "t", "page.tw"), nil)
		case "evalstring":
			out, ferr = textwire.EvaluateString(src, nil)
		default:
			tpl, lerr := textwire.NewTemplate(&config.Config{TemplateDir: "t", TemplateExt: ".tw"})
			if (tpl == nil) == (lerr == nil) {
				failure = fmt.Sprintf("NewTemplate returned (%v, %v)", tpl, lerr)
				return
			}
			if lerr != nil {
				ferr = lerr
			} else {
				var fe interface{ Error() error }
				o, e := tpl.String("page", nil)
				out = o
				if e != nil {
					fe = e
					ferr = fe.Error()
				}
			}
		}
		if lc.Reject {
			if ferr == nil {
				failure = fmt.Sprintf("a source of %d bytes whose last bytes are %q was accepted", len(src), lc.Tail)
			}
			return
		}
		if ferr != nil {
			failure = "unexpected error: " + ferr.Error()
			return
		}
		// nothing of a long text is lost
		if lc.As == "page" || lc.As == "evalfile" || lc.As == "evalstring" {
			if out != src {
				failure = fmt.Sprintf("output has %d bytes, the text has %d", len(out), len(src))
			}
		} else if !strings.Contains(out, lc.Tail) || len(out) < len(src) {
			failure = fmt.Sprintf("output has %d bytes and ends %q, the text has %d and ends %q", len(out), clip(out[max(0, len(out)-40):], 60), len(src), lc.Tail)
		}
	})
	if pi != nil {
		return "panic: " + pi.Value
	}
	return failure
}

// TestC08_LargeFiles: the length of a source changes nothing: what stands behind
// a long stretch of text is parsed (and rejected) like anything else.
func TestC08_LargeFiles(t *testing.T) {
	c := harness.New(t, "C08", "large-files",
		"sources of 70 KiB, 1 MiB + 300 and 2.5 MiB of plain text lines followed by each of {nothing, an illegal character inside {{ }}, an unterminated @if, an unterminated {{, an unterminated string, an unterminated comment, a complete {{ 1 + 1 }}}, as the only page, as a layout, as a component, through EvaluateFile and through EvaluateString: defects are rejected with an error, complete sources render every byte. Exhaustive over the listed combinations. Non-trivial: longer than 1 MiB. Distinct by construction.")
	defer c.Finish()
	tails := []struct {
		tail   string
		reject bool
	}{{"", false}, {"<p>end</p>", false}, {"{{ # }}", true}, {"@if(true)never closed", true}, {"{{ 1 + ", true}, {"{{ \"open string }}", true}, {"{{-- open comment", true}}
	idx := 0
	for _, size := range []int{70 << 10, 1<<20 + 300, 5 << 19} {
		for _, tl := range tails {
			for _, as := range []string{"page", "layout", "component", "evalfile", "evalstring"} {
				idx++
				if !harness.Mine(idx) {
					continue
				}
				lc := largeCase{PadBytes: size, Unit: "<tr><td>row</td></tr>\n", Tail: tl.tail, As: as, Reject: tl.reject}
				c.CaseEnum(size > 1<<20, "as:"+as, fmt.Sprintf("reject:%v", tl.reject))
				if idx%7 == 0 {
					c.Sample(lc)
				}
				if f := c08Large(c, lc); f != "" {
					c.Fail(t, kindOf(f), lc, "error for a defect, every byte otherwise", f, f)
				}
			}
		}
	}
	c.ExhaustivePart("3 sizes x 7 endings x 5 ways of loading")
}

// reloadCase: a path is loaded, its file is replaced by other content of the same
// length with the same modification time, and it is loaded again: the second
// load sees the second content.
type reloadCase struct {
	First  string `json:"first"`
	Second string `json:"second"`
	Via    string `json:"via"`    // newtemplate | evalfile | mixed
	Reject bool   `json:"reject"` // the second content is defective
}

func c08Reload(c *harness.Check, rc reloadCase) string {
	root, err := tree.Materialise(tree.Tree{"t/page.tw": tree.Entry{Content: rc.First}})
	if err != nil {
		return ""
	}
	path := filepath.Join(root, "t", "page.tw")
	var failure string
	load := func(second bool) (string, error) {
		if rc.Via == "evalfile" || rc.Via == "mixed" && second {
			return textwire.EvaluateFile(path, nil)
		}
		tpl, lerr := textwire.NewTemplate(&config.Config{TemplateDir: "t", TemplateExt: ".tw"})
		if lerr != nil {
			return "", lerr
		}
		out, ferr := tpl.String("page", nil)
		if ferr != nil {
			return out, ferr.Error()
		}
		return out, nil
	}
	pi := c.Guard("json", mustJSON(rc), func() {
		textwire.VerifReset()
		if _, err := load(false); err != nil {
			failure = "harness: the first content does not load: " + err.Error()
			return
		}
		st, err := os.Stat(path)
		if err != nil {
			return
		}
		if err := os.WriteFile(path, []byte(rc.Second), 0o644); err != nil {
			return
		}
		os.Chtimes(path, st.ModTime(), st.ModTime())
		out, lerr := load(true)
		wantOut, werr := textwire.EvaluateString(rc.Second, nil)
		switch {
		case rc.Reject && lerr == nil:
			failure = fmt.Sprintf("the file now holds %q but loading it again succeeds with %q", rc.Second, out)
		case !rc.Reject && (lerr != nil) != (werr != nil):
			failure = fmt.Sprintf("loading again gives error %v, evaluating the new content as a string gives %v", lerr, werr)
		case !rc.Reject && lerr == nil && out != wantOut:
			failure = fmt.Sprintf("loading again renders %q, the file holds %q which renders %q", out, rc.Second, wantOut)
		}
	})
	if pi != nil {
		return "panic: " + pi.Value
	}
	if strings.HasPrefix(failure, "harness:") {
		return ""
	}
	return failure
}

func TestC08_Reload(t *testing.T) {
	c := harness.New(t, "C08", "reload",
		"a template file is loaded (NewTemplate + String, or EvaluateFile), then replaced by other content of exactly the same length with its modification time restored, and loaded again through the same or the other entry point: defective second contents (unterminated {{, @if, string, comment; illegal character) must be rejected, valid ones must render like the new content evaluated as a string. Exhaustive over 7 second contents x 3 ways. Non-trivial: all. Distinct by construction.")
	defer c.Finish()
	first := "<p>{{ 1 + 2 }}</p>xx"
	seconds := []struct {
		src    string
		reject bool
	}{{"<p>{{ 1 + 2  </p>xxx", true}, {"<p>@if(true)</p>xxxx", true}, {"<p>{{ 1 # 2 }}</p>xx", true}, {"<p>{{ \"1 + 2 }}</p>x", true}, {"<p>{{-- 1 2 }}</p>xx", true},
		{"<b>{{ 4 * 5 }}</b>yy", false}, {"plain text, no code!", false}}
	for _, s := range seconds {
		if len(s.src) != len(first) {
			t.Fatalf("harness: %q has %d bytes, the first content %d", s.src, len(s.src), len(first))
		}
		for _, via := range []string{"newtemplate", "evalfile", "mixed"} {
			rc := reloadCase{First: first, Second: s.src, Via: via, Reject: s.reject}
			c.CaseEnum(true, "via:"+via, fmt.Sprintf("reject:%v", s.reject))
			c.Sample(rc)
			if f := c08Reload(c, rc); f != "" {
				c.Fail(t, kindOf(f), rc, "the second content decides", f, f)
			}
		}
	}
	c.ExhaustivePart("7 second contents x 3 ways of loading")
}
