package checks

import (
	"encoding/json"
	"fmt"
	"path/filepath"
	"strings"
	"testing"

	textwire "github.com/textwire/textwire/v2"
	"github.com/textwire/textwire/v2/config"
	"pgregory.net/rapid"
	"verif/lib/harness"
	"verif/lib/refint"
	"verif/lib/spec"
	"verif/lib/tree"
	"verif/lib/tw"
)

// C13 — errors name the line (and file) of the offending construct.

type lineCase struct {
	Src      string     `json:"src"`
	Data     *spec.Data `json:"data,omitempty"`
	WantLine int        `json:"want_line"`
	Fault    string     `json:"fault"`
	// tree cases
	Tree     tree.Tree `json:"tree,omitempty"`
	Page     string    `json:"page,omitempty"`      // template name to render ("" = load only)
	WantFile string    `json:"want_file,omitempty"` // path relative to the tree root
	AtLoad   bool      `json:"at_load,omitempty"`
}

func init() {
	for _, n := range []string{"string-api", "trees", "fixed-shapes"} {
		harness.RegisterReplayer("C13/"+n, func(raw json.RawMessage) string {
			cs, err := unJSON[lineCase](raw)
			if err != nil {
				return "bad case: " + err.Error()
			}
			c := harness.New(nopTB{}, "C13", "replay", "")
			if cs.Tree != nil {
				return c13Tree(c, cs)
			}
			return c13String(c, cs)
		})
	}
}

func c13String(c *harness.Check, cs lineCase) string {
	r := evalString(c, "json", mustJSON(cs), cs.Src, cs.Data.GoMap())
	if r.Panic != nil {
		return "panic: " + r.Panic.Value
	}
	if !r.IsErr() {
		return fmt.Sprintf("no error (output %q) although a %s fault was injected", r.Out, cs.Fault)
	}
	line, _, ok := errLine(r.Err)
	if !ok {
		return "error text without line header: " + r.Err
	}
	if line != cs.WantLine {
		return fmt.Sprintf("reported line %d, the construct ends on line %d (%s)", line, cs.WantLine, errMessage(r.Err))
	}
	return ""
}

// faultSources: single-line faulty constructs by kind; parseTime says whether
// the fault is found while parsing.
type faultForm struct {
	kind      string
	src       string
	parseTime bool
}

func c13Faults() []faultForm {
	return []faultForm{
		{"unknown-identifier", "{{ zzFault }}", false},
		{"unknown-identifier", "{{ 1 + zzFault }}", false},
		{"mistyped-operand", `{{ 1 + "zzFault" }}`, false},
		{"mistyped-operand", `{{ "zzFault" * 2 }}`, false},
		{"unknown-function", "{{ 5.zzFault() }}", false},
		{"unknown-property", "{{ {a: 1}.zzFault }}", false},
		{"division-by-zero", "{{ 7 / (3 - 3) }}{{-- zzFault --}}", false},
		{"modulo-by-zero", "{{ 7 % 0 }}{{-- zzFault --}}", false},
		{"unknown-identifier", "@if(zzFault)x@end", false},
		{"unknown-identifier", "@each(q in zzFault)x@end", false},
		{"illegal-character", "{{ # }}{{-- zzFault --}}", true},
		{"illegal-character", "{{ 1 + # }}{{-- zzFault --}}", true},
		{"illegal-character", "{{\t\t$ }}{{-- zzFault --}}", true},
		{"illegal-character", "@if(1 ~ 2)zzFault@end", true},
		{"unexpected-token", "{{ 1 + }}{{-- zzFault --}}", true},
		{"unexpected-token", "@each(x of zzFault)a@end", true},
		{"unexpected-token", "{{ [1, 2 }}{{-- zzFault --}}", true},
		{"unexpected-token", "{{ 1 2 }}{{-- zzFault --}}", true},
		{"unexpected-token", "@if(true, zzFault)a@end", true},
		{"unexpected-token", "{{ zzFault = }}", true},
		// constructs spread over several lines: the reported line is that of the
		// offending token itself (the marker stands on its line), not of the token before it
		{"unexpected-token-own-line", "{{ [1, 2\n\nzzFault] }}", true},
		{"unexpected-token-own-line", "@if(true\n\n, zzFault)x@end", true},
		{"unexpected-token-own-line", "@each(x\n\nof zzFault)a@end", true},
		{"unexpected-token-own-line", "@for(i = 0; i < 3\n\n zzFault++)x@end", true},
		{"unexpected-token-own-line", "{{ 1 +\n\n}}{{-- zzFault --}}", true},
		{"unexpected-token-own-line", "{{ {a: 1\n\n zzFault: 2} }}", true},
		{"unexpected-token-own-line", "{{ (1 + 2\n\n zzFault }}", true},
		{"unexpected-token-own-line", "@dump(1\n\n zzFault)", true},
		{"unexpected-token-own-line", "{{ true ? 1\n\n zzFault }}", true},
		{"unknown-identifier-own-line", "{{ 1 +\n\nzzFault }}", false},
		{"unknown-function-own-line", "{{ 5.\n\nzzFault() }}", false},
		// the offending token is the function name, wherever its argument list ends
		{"unknown-function-multi-line-args", "{{ 5.zzFault(1,\n2,\n3\n) }}", false},
		{"unknown-function-multi-line-args", "{{ \"s\".zzFault(\"a\nb\") }}", false},
		{"unknown-identifier-multi-line-block", "{{ zzFault +\n1\n}}", false},
		{"division-by-zero-multi-line-block", "{{ 7 / (3 - 3) }}{{-- zzFault --}}{{ 1 +\n2 }}", false},
		{"illegal-character-own-line", "{{ 1 +\n\n# }}{{-- zzFault --}}", true},
		// the offending construct is anchored on a name that already occurs on earlier
		// lines of the file: the line is that of this occurrence, not of the first one
		{"division-by-zero-repeated-name", "{{ zzN = 4 }}{{ zzN }}\n\n{{ zzN / 0 }}{{-- zzFault --}}", false},
		{"modulo-by-zero-repeated-name", "{{ zzM = 4 }}\n{{ zzM + 1 }}\n{{ zzM % 0 }}{{-- zzFault --}}", false},
		{"mistyped-operand-repeated-name", "{{ zzS = \"s\" }}{{ zzS }}\n\n{{ zzS + 1 }}{{-- zzFault --}}", false},
		{"unknown-identifier-repeated-name", "@if(false){{ zzGone }}@end\n\n{{ zzGone }}{{-- zzFault --}}", false},
		{"unknown-property-repeated-name", "{{ zzO = {a: 1} }}{{ zzO.a }}\n\n{{ zzO.nosuch }}{{-- zzFault --}}", false},
		{"unknown-function-repeated-name", "{{ zzQ = 4 }}{{ zzQ.str() }}\n\n{{ zzQ.nosuchfn() }}{{-- zzFault --}}", false},
		{"unknown-function-repeated-function-name", "@if(false){{ 1.zzFn() }}@end\n\n{{ 2.zzFn() }}{{-- zzFault --}}", false},
		// faults whose identifying construct is a loop directive that ends on a later line: the line is that of the directive
		{"each-over-non-array-multi-line-loop", "@each(zzV in 'zzFault')\nx\ny\n@end", false},
		{"each-over-non-array-multi-line-loop", "@each(zzV in 5){{-- zzFault --}}\nx\n@else\ny\n@end", false},
		{"each-variable-named-loop-multi-line-loop", "@each(loop in ['zzFault'])\nx\n@end", false},
		{"each-variable-retyped-multi-line-loop", "{{ zzW = 1 }}@each(zzW in ['zzFault'])\nx\n\n@end", false},
		{"for-post-retypes-multi-line-loop", "@for(zzI = 0; zzI < 3; zzI = 'zzFault')\nx\n@end", false},
		// the offending construct is a string literal that spans lines: the line is the one its token ends on (the marker's)
		{"mistyped-operand-multi-line-string", "{{ \"first\nsecond\nzzFault\" + 1 }}", false},
		{"mistyped-operand-multi-line-string", "{{ 'a\n\nzzFault' * 2 }}", false},
		{"unknown-property-multi-line-string-index", "{{ {a: 1}[\"na\nzzFault\"] }}", false},
		// an unknown name at every position an expression can stand in: the line is that of the name
		{"unknown-identifier-at-shorthand-property", "{{ zzO2 = { zzFault } }}", false},
		{"unknown-identifier-at-shorthand-property", "{{ zzA2 = 1 }}\n{{ { zzA2, zzFault } }}", false},
		{"unknown-identifier-at-object-value", "{{ {a: 1,\nb: zzFault} }}", false},
		{"unknown-identifier-at-array-element", "{{ [1,\n2, zzFault] }}", false},
		{"unknown-identifier-at-call-argument", "{{ 'a'.repeat(zzFault) }}", false},
		{"unknown-identifier-at-call-argument", "{{ [1, 2].slice(0,\nzzFault) }}", false},
		{"unknown-identifier-at-index", "{{ [1][zzFault] }}", false},
		{"unknown-identifier-at-ternary-branch", "{{ true ? zzFault : 1 }}", false},
		{"unknown-identifier-at-ternary-branch", "{{ false ? 1 :\nzzFault }}", false},
		{"unknown-identifier-at-ternary-condition", "{{ zzFault ? 1 : 2 }}", false},
		{"unknown-identifier-at-unary-operand", "{{ -zzFault }}", false},
		{"unknown-identifier-at-unary-operand", "{{ !zzFault }}", false},
		{"unknown-identifier-at-assignment", "{{ zzY = zzFault }}", false},
		{"unknown-identifier-at-second-statement", "{{ zzZ = 1; zzFault }}", false},
		{"unknown-identifier-at-for-init", "@for(i = zzFault; i < 2; i++)x@end", false},
		{"unknown-identifier-at-for-condition", "@for(i = 0; i < zzFault; i++)x@end", false},
		{"unknown-identifier-at-for-post", "@for(i = 0; i < 1; i = zzFault)x@end", false},
		{"unknown-identifier-at-breakIf", "@each(zzV in [1])@breakIf(zzFault)@end", false},
		{"unknown-identifier-at-continueIf", "@each(zzV in [1])\n@continueIf(zzFault)@end", false},
		{"unknown-identifier-at-elseif", "@if(false)a@elseif(zzFault)b@end", false},
		{"unknown-identifier-at-receiver", "{{ zzFault.len() }}", false},
		{"unknown-identifier-at-dot-base", "{{ zzFault.x }}", false},
		{"unknown-identifier-at-index-base", "{{ zzFault[0] }}", false},
		{"unknown-identifier-at-parenthesised", "{{ (1 + (zzFault)) }}", false},
		{"unknown-identifier-repeated-in-index", "{{ zzA = [1, 2] }}{{ zzI = 0 }}{{ zzA[zzI] }}\n\n{{ zzA[zzI + zzNone] }}{{-- zzFault --}}", false},
	}
}

// multiLineFillers are valid statements that contain newlines inside one token
// or spread a construct over several lines.
func multiLineFiller(rt *rapid.T) *tw.Stmt {
	switch rapid.IntRange(0, 8).Draw(rt, "filler") {
	case 0:
		return tw.Text(rapid.SampledFrom([]string{"line\nline\n", "\n\n\n", "a\r\nb\r\n", "é\n日本\n", "<p>\n  text\n</p>\n", "\\{{ not code }}\n", "\\@if(x)\n"}).Draw(rt, "mlText"))
	case 1:
		return tw.Print(tw.Str(rapid.SampledFrom([]string{"multi\nline", "a\n\nb\n", "crlf\r\nin string", "q'q\n"}).Draw(rt, "mlStr")))
	case 2:
		return &tw.Stmt{Kind: tw.SComment, Text: rapid.SampledFrom([]string{" c1\n c2 ", "\n\n", " }} \n {{ ", "\r\n"}).Draw(rt, "mlComment")}
	case 3:
		return tw.Assign("mlv", tw.Str("x\ny"))
	case 4:
		return &tw.Stmt{Kind: tw.SIf, Branches: []tw.Branch{{Cond: tw.Bin("==", tw.Str("a\nb"), tw.Str("a\nb")), Body: []*tw.Stmt{tw.Text("in\nif\n")}}}}
	case 5:
		return &tw.Stmt{Kind: tw.SEach, Name: "mle", E: tw.Arr(tw.Str("p\nq"), tw.Str("r")), Body: []*tw.Stmt{tw.Print(tw.Var("mle")), tw.Text("\n")}}
	case 6:
		return tw.Print(tw.Call(tw.Str("a\nb"), "len"))
	case 7:
		return tw.Print(tw.Tern(tw.Bool(true), tw.Str("t\n"), tw.Str("f")))
	default:
		return tw.Text("plain ")
	}
}

// placeFault wraps the fault so that it is certainly executed.
func placeFault(rt *rapid.T, fault *tw.Stmt) ([]*tw.Stmt, string) {
	switch rapid.IntRange(0, 4).Draw(rt, "place") {
	case 0, 1:
		return []*tw.Stmt{fault}, "top"
	case 2:
		return []*tw.Stmt{{Kind: tw.SIf, Branches: []tw.Branch{{Cond: tw.Bool(true), Body: []*tw.Stmt{tw.Text("in if\n"), fault, tw.Text("after")}}}}}, "in-if"
	case 3:
		return []*tw.Stmt{{Kind: tw.SEach, Name: "pfx", E: tw.Arr(intLit(1)), Body: []*tw.Stmt{tw.Text("in each\n"), fault}}}, "in-each"
	default:
		return []*tw.Stmt{{Kind: tw.SIf, Branches: []tw.Branch{{Cond: tw.Bool(false), Body: []*tw.Stmt{tw.Text("no")}}}, HasElse: true, Else: []*tw.Stmt{tw.Text("\n"), fault}}}, "in-else"
	}
}

func lineOf(src, marker string) int {
	i := strings.Index(src, marker)
	if i < 0 {
		return -1
	}
	return 1 + strings.Count(src[:i], "\n")
}

// genFaultyTemplate builds valid multi-line content with one fault; ok=false if
// the content before the fault is not certain to render.
func genFaultyTemplate(rt *rapid.T, in *refint.Interp, env *dataEnv) (src string, ff faultForm, wantLine int, place string, multiline int, ok bool) {
	g := newProgGen(rt, env)
	g.fewFailures = true
	g.wIf, g.wLoop, g.wAssign, g.wCtl = 3, 2, 2, 1
	before := g.block(2, false)
	nFill := rapid.IntRange(1, 4).Draw(rt, "nFill")
	for i := 0; i < nFill; i++ {
		at := rapid.IntRange(0, len(before)).Draw(rt, "fillAt")
		before = append(before[:at], append([]*tw.Stmt{multiLineFiller(rt)}, before[at:]...)...)
	}
	out, _ := in.Render(before, env.Model)
	if out.St != refint.OK {
		return "", ff, 0, "", 0, false
	}
	forms := c13Faults()
	ff = forms[rapid.IntRange(0, len(forms)-1).Draw(rt, "faultForm")]
	fault := &tw.Stmt{Kind: tw.SRaw, Text: ff.src}
	placed, place := placeFault(rt, fault)
	after := []*tw.Stmt{tw.Text("\ntail\n")}
	if rapid.Bool().Draw(rt, "moreAfter") {
		after = append(after, multiLineFiller(rt))
	}
	prog := append(append(append([]*tw.Stmt{}, before...), placed...), after...)
	lay := genLayout().Draw(rt, "layout")
	src = tw.PrintStmts(prog, lay).Src
	wantLine = lineOf(src, "zzFault")
	// count multi-line tokens before the fault (lines consumed inside tokens)
	cut := strings.Index(src, "zzFault")
	multiline = strings.Count(src[:cut], "\n")
	return src, ff, wantLine, place, multiline, wantLine > 0
}

func TestC13_StringAPI(t *testing.T) {
	c := harness.New(t, "C13", "string-api",
		"generated valid templates (reference interpreter says they render) enriched with multi-line tokens before the fault - text runs with LF/CRLF, string literals containing newlines, multi-line comments, {{ }} blocks and directive argument lists spread over lines by the layout, escapes - plus one single-line faulty construct of a listed kind (unknown identifier, mistyped operand, unknown function/property, division/modulo by zero, illegal character first on its line / mid-line / after whitespace, unexpected tokens) at a certainly executed place (top level, inside @if(true), inside @each over one element, inside @else); the line parsed from the error text must be 1 + the newlines before the construct. Non-trivial: expected line > 1. Distinct by hash of the source.")
	defer c.Finish()
	in := interp()
	runRapid(t, c, 15000, 150000, func(rt *rapid.T) {
		env := genProgEnv().Draw(rt, "data")
		src, ff, wantLine, place, ml, ok := genFaultyTemplate(rt, in, env)
		if !ok {
			c.Class("skipped:prefix-not-certain-to-render")
			return
		}
		cs := lineCase{Src: src, Data: env.D, WantLine: wantLine, Fault: ff.kind}
		nt := wantLine > 1
		c.Case(nt, src, "fault:"+ff.kind, "place:"+place, fmt.Sprintf("lines-before:%d", min(ml, 10)))
		if nt {
			c.Sample(map[string]any{"src": src, "want_line": wantLine, "fault": ff.kind})
		}
		if f := c13String(c, cs); f != "" {
			c.Fail(rt, kindOf(f), cs, wantLine, f, f)
		}
	})
}

func TestC13_FixedShapes(t *testing.T) {
	c := harness.New(t, "C13", "fixed-shapes",
		"every fault form x every kind of multi-line token placed directly before it (k = 1..3 newlines inside: text LF, text CRLF, string literal, comment, multi-line {{ }} block, multi-line directive header, escape, nothing; text runs, strings and comments of 1.5 to 80 KiB, a line of 70 000 bytes, 3000 empty lines) x the fault first on its line / after text on its line. Non-trivial: all with k >= 1. Distinct by construction.")
	defer c.Finish()
	befores := []struct{ name, src string }{
		{"none", ""}, {"text-lf", "a\nb\n"}, {"text-crlf", "a\r\nb\r\n"}, {"string", "{{ \"s\n\nt\" }}"}, {"comment", "{{-- c\n\n\nc --}}"},
		{"multi-line-block", "{{\n1\n+\n2\n}}"}, {"multi-line-header", "@if(\ntrue\n)\nx\n@end"}, {"escape", "\\{{ x }}\n\\@if(y)\n"}, {"assign-string", "{{ v = 'q\nq' }}"},
		{"each-header", "@each(e in [\n1,\n2\n]){{ e }}\n@end"}, {"non-ascii", "日本\né\n"},
		// (a component use cannot render through the string API: only with faults reported before rendering)
		{"component-then-comment", "@component(\"c\")\n{{-- c --}}\na\nb\n"}, {"component-blank-comment-lines", "@component(\"c\", {})  {{-- c\nc --}}\n\n"}, {"component-comment-slot", "@component(\"c\")\n{{-- c --}}\n@slot x\n@end\n@end\n"},
		// long text: more than 1 KiB, 4 KiB, 64 KiB in one run (starting with a line end, right after a
		// block), one line of 70 000 bytes, thousands of lines
		{"long-run-after-block", "{{ 1 }}\n" + strings.Repeat("abcdefghi\n", 150)}, {"long-run-4k", "\n" + strings.Repeat("0123456 89abcde\n", 300) + "<p>"},
		{"long-run-crlf", "{{ 1 }}\r\n" + strings.Repeat("line\r\n", 400)}, {"long-line", strings.Repeat("x", 70000) + "\n"}, {"many-lines", strings.Repeat("\n", 3000)},
		{"long-run-64k", "<style>\n" + strings.Repeat(".a-b: c;\n", 8000) + "</style>\n"}, {"long-string", "{{ \"" + strings.Repeat("s\n", 600) + "\" }}"}, {"long-comment", "{{-- " + strings.Repeat("c c\n", 500) + " --}}"},
	}
	idx := 0
	for _, ff := range c13Faults() {
		for _, b := range befores {
			for _, lead := range []string{"", "lead ", "\n", "\t "} {
				idx++
				if !harness.Mine(idx) {
					continue
				}
				if strings.HasPrefix(b.name, "component-") && !ff.parseTime {
					continue
				}
				src := b.src + lead + ff.src + "\ntail"
				cs := lineCase{Src: src, WantLine: lineOf(src, "zzFault"), Fault: ff.kind}
				c.CaseEnum(cs.WantLine > 1, "before:"+b.name, "fault:"+ff.kind)
				if idx%97 == 0 {
					c.Sample(map[string]any{"src": src, "want_line": cs.WantLine})
				}
				if f := c13String(c, cs); f != "" {
					c.Fail(t, kindOf(f), cs, cs.WantLine, f, f)
				}
			}
		}
	}
	// the offending token is the end of the input itself: a construct that is never closed.
	// Its line is the line of the position just past the last byte (after a final line
	// break that is the next line).
	opens := []string{"@if(true)open", "@each(x in [1])open", "@for(i = 0; i < 1; i++)open", "{{ 1 +", "@if(true", "@insert(\"x\")open", "@if(false)a@elseif(true)b@else c", "{{ [1, 2", "{{-- never closed", "{{-- open\nover\nlines", "@if(true)a {{-- open\nin a block"}
	endings := []string{"", "\n", "\n\n", " \n", "\r\n", "\n \t", "x\ny\n"}
	for _, b := range befores {
		for _, op := range opens {
			for _, e := range endings {
				idx++
				if !harness.Mine(idx) {
					continue
				}
				src := b.src + op + e
				if strings.HasPrefix(op, "{{") && !strings.HasPrefix(op, "{{--") || op == "@if(true" {
					// inside code the trailing text is code: keep it blank
					if strings.Contains(e, "x") {
						continue
					}
				}
				cs := lineCase{Src: src, WantLine: 1 + strings.Count(src, "\n"), Fault: "end-of-input"}
				if strings.Contains(op, "{{--") {
					// a comment that is never closed is one token that runs to the last byte: its line is the line of that byte
					cs.WantLine, cs.Fault = 1+strings.Count(src[:len(src)-1], "\n"), "open-comment"
				}
				c.CaseEnum(cs.WantLine > 1, "before:"+b.name, "fault:end-of-input")
				if idx%97 == 0 {
					c.Sample(map[string]any{"src": src, "want_line": cs.WantLine})
				}
				if f := c13String(c, cs); f != "" {
					c.Fail(t, kindOf(f), cs, cs.WantLine, f, f)
				}
			}
		}
	}
	c.ExhaustivePart("fault forms x 11 preceding multi-line tokens x 4 leads; 8 unclosed constructs x 11 x 7 endings")
}

// ---------------------------------------------------------------- trees

func c13Tree(c *harness.Check, cs lineCase) string {
	root, err := tree.Materialise(cs.Tree)
	if err != nil {
		return ""
	}
	var failure string
	pi := c.Guard("json", mustJSON(cs), func() {
		textwire.VerifReset()
		// zzRenderOther renders another template of the same directory while a page is
		// being rendered (what a helper function of an application may do)
		var loaded *textwire.Template
		textwire.RegisterStrFunc("zzRenderOther", func(s string, args ...any) string {
			if loaded == nil {
				return "(not loaded)"
			}
			out, _ := loaded.String(s, nil)
			return out
		})
		tpl, err := textwire.NewTemplate(&config.Config{TemplateDir: "t", TemplateExt: ".tw"})
		loaded = tpl
		wantPath := filepath.Join(root, filepath.FromSlash(cs.WantFile))
		if cs.AtLoad {
			if err == nil {
				failure = "templates loaded although a " + cs.Fault + " fault was injected"
				return
			}
			line, path, ok := errLine(err.Error())
			if !ok {
				failure = "load error without header: " + err.Error()
				return
			}
			if line != cs.WantLine || path != wantPath {
				failure = fmt.Sprintf("load error reports %s:%d, the construct is at %s:%d (%s)", path, line, wantPath, cs.WantLine, errMessage(err.Error()))
			}
			return
		}
		if err != nil {
			failure = "unexpected load error: " + err.Error()
			return
		}
		// configuring again without naming a directory or an extension (only the debug flag, or
		// nothing at all) does not move the loaded templates
		switch len(cs.Page) % 3 {
		case 1:
			textwire.Configure(&config.Config{DebugMode: true})
		case 2:
			textwire.Configure(&config.Config{})
		}
		model := cs.Data.GoMap()
		_, ferr := tpl.String(cs.Page, model)
		if ferr == nil {
			failure = "render succeeded although a " + cs.Fault + " fault was injected"
			return
		}
		if int(ferr.Line()) != cs.WantLine || ferr.Filepath() != wantPath {
			failure = fmt.Sprintf("render error reports %s:%d, the construct is at %s:%d (%s)", ferr.Filepath(), ferr.Line(), wantPath, cs.WantLine, ferr.Message())
			return
		}
		// the error as text (what a log shows) names the same file and line
		for _, text := range []string{ferr.String(), ferr.Error().Error()} {
			line, path, ok := errLine(text)
			if !ok || line != cs.WantLine || path != wantPath {
				failure = fmt.Sprintf("the text of the render error reads %q, the construct is at %s:%d", clip(text, 300), wantPath, cs.WantLine)
				return
			}
		}
	})
	if pi != nil {
		return "panic: " + pi.Value
	}
	return failure
}

func TestC13_Trees(t *testing.T) {
	c := harness.New(t, "C13", "trees",
		"template directories with a page, a layout and a component; multi-line filler before one fault (text, comments, strings, blocks, and in pages component uses followed by blanks, comments and further lines, with comments before and between their slots): run-time faults in the page (top level, inside an @insert block, inside a slot body, inside a component argument, after a custom function has rendered another template of the directory) must report the page's absolute path and the construct's line; parse-time faults in the page, in the layout file and in the component file must make NewTemplate fail naming that file's absolute path and line; an @insert naming no reserve and an unknown @component must name the page and the line of that directive; an unknown @component written in the component file or in the layout file the page uses must name that file (page names that sort before and after those files). Non-trivial: expected line > 1. Distinct by hash of the tree.")
	defer c.Finish()
	runRapid(t, c, 1500, 15000, func(rt *rapid.T) {
		inPage := false
		fill := func() string {
			var b strings.Builder
			for i := rapid.IntRange(0, 3).Draw(rt, "nfill"); i > 0; i-- {
				pieces := []string{"text\n", "{{-- c\nc --}}", "{{ \"s\nt\" }}\n", "\r\n", "{{\n1\n}}", "<p>é</p>\n", "\\@if(x)\n"}
				if inPage {
					// a component use followed by blanks, a comment and more lines; a comment before and between slots
					pieces = append(pieces, "@component(\"aside\")\n{{-- c --}}\n<p>t</p>\n", "@component(\"aside\") {{-- c\nc --}}\n", "@component(\"aside\", {})\n\n\t{{-- c --}}text\nmore\n",
						"@component(\"aside\")\n{{-- c --}}\n@slot x\n@end\n{{-- d\n --}}\n@end\n", "@component(\"aside\")\n \n<i>i</i>\n")
				}
				b.WriteString(rapid.SampledFrom(pieces).Draw(rt, "fill"))
			}
			return b.String()
		}
		forms := c13Faults()
		ff := forms[rapid.IntRange(0, len(forms)-1).Draw(rt, "faultForm")]
		layout := fill() + "<html>@reserve(\"title\")\n<body>@reserve(\"content\")</body>" + fill() + "</html>\n"
		comp := fill() + "<div>{{ arg }}@slot(\"s\")" + fill() + "@slot</div>\n"
		inPage = true
		page := "@use(\"lay\")\n" + fill() + "@insert(\"title\", \"T\")\n"
		scenario := rapid.SampledFrom([]string{"page-top", "page-insert-block", "page-slot-body", "page-component-arg", "layout-parse", "component-parse", "page-parse", "undefined-insert", "unknown-component", "nolayout-page", "page-after-nested-render", "unknown-component-in-component-file", "unknown-component-in-layout-file"}).Draw(rt, "scenario")
		// the page's name may itself end in the extension (file report.tw.tw), or sit in a directory
		// (names that sort before and after those of the component and layout files: files are loaded in name order)
		pageName := rapid.SampledFrom([]string{"page", "page", "report.tw", "sub/deep.er/page", "about", "a/b", "50%off/page", "my%20site/p%d", "q?x=1&y/page", "sp ace/pa ge"}).Draw(rt, "pageName")
		cs := lineCase{Fault: ff.kind, Page: pageName, WantFile: "t/" + pageName + ".tw"}
		compUse := func(arg, slotBody string) string {
			return "@component(\"comp\", {arg: " + arg + "})\n@slot(\"s\")" + slotBody + "@end\n@slot in default@end\n@end\n"
		}
		switch scenario {
		case "page-top", "nolayout-page":
			if ff.parseTime {
				cs.AtLoad = true
			}
			if scenario == "nolayout-page" {
				page = fill() + "plain page\n" + fill() + ff.src + "\n" + fill()
			} else {
				// text outside inserts of a page that uses a layout is not rendered,
				// so a run-time fault has to sit inside an insert
				page += "@insert(\"content\")\n" + fill() + ff.src + "\n@end\n"
			}
		case "page-after-nested-render":
			// another template is rendered (through a custom function) before the fault
			if ff.parseTime {
				cs.AtLoad = true
			}
			page = fill() + "plain page\n{{ \"other\".zzRenderOther() }}\n" + fill() + ff.src + "\n" + fill()
		case "page-insert-block":
			if ff.parseTime {
				cs.AtLoad = true
			}
			page += "@insert(\"content\")\n<main>\n" + fill() + "@if(true)\n" + ff.src + "\n@end\n</main>@end\n"
		case "page-slot-body":
			if ff.parseTime {
				cs.AtLoad = true
			}
			page += "@insert(\"content\")\n" + fill() + compUse("1", "\n"+fill()+ff.src+"\n") + "@end\n"
		case "page-component-arg":
			if ff.parseTime || strings.HasPrefix(ff.src, "@") || strings.Contains(ff.kind, "-repeated-") || strings.Contains(ff.kind, "-at-") || strings.Contains(ff.kind, "-multi-line-loop") {
				ff = faultForm{"unknown-identifier", "{{ zzFault }}", false}
				cs.Fault = ff.kind
			}
			expr := ff.src
			if i := strings.Index(expr, "}}"); strings.HasPrefix(expr, "{{") && i >= 0 {
				expr = strings.TrimSpace(expr[2:i])
			}
			marker := "zzFault"
			if !strings.Contains(expr, marker) {
				expr = "(" + expr + ") + zzFault"
			}
			// the page variable pv occurs on earlier lines too
			page += "@insert(\"content\")\n{{ pv = 2 }}{{ pv }}\n" + fill() + "@component(\"comp\", {arg: " + expr + " + pv})\n@end\n"
		case "layout-parse":
			inPage = false
			ff = pickParseFault(rt, forms)
			cs.Fault, cs.AtLoad, cs.WantFile = ff.kind, true, "t/lay.tw"
			layout = fill() + "<html>@reserve(\"title\")\n" + fill() + ff.src + "\n<body>@reserve(\"content\")</body></html>\n"
			page += "@insert(\"content\")c@end\n"
		case "component-parse":
			inPage = false
			ff = pickParseFault(rt, forms)
			cs.Fault, cs.AtLoad, cs.WantFile = ff.kind, true, "t/comp.tw"
			comp = fill() + "<div>{{ arg }}\n" + fill() + ff.src + "\n@slot(\"s\")@slot</div>\n"
			page += "@insert(\"content\")" + compUse("1", "x") + "@end\n"
		case "page-parse":
			ff = pickParseFault(rt, forms)
			cs.Fault, cs.AtLoad = ff.kind, true
			page += "@insert(\"content\")\n" + fill() + ff.src + "\n@end\n"
		case "unknown-component-in-component-file":
			// the component file the page uses names a component that does not exist: the fault is in that file
			inPage = false
			cs.Fault, cs.AtLoad, cs.WantFile = "unknown-component", true, "t/comp.tw"
			comp = fill() + "<div>{{ arg }}\n" + fill() + "@component(\"zzFault\");\n@slot(\"s\")@slot</div>\n"
			page += "@insert(\"content\")" + compUse("1", "x") + "@end\n"
		case "unknown-component-in-layout-file":
			inPage = false
			cs.Fault, cs.AtLoad, cs.WantFile = "unknown-component", true, "t/lay.tw"
			layout = fill() + "<html>@reserve(\"title\")\n" + fill() + "@component(\"zzFault\");\n<body>@reserve(\"content\")</body></html>\n"
			page += "@insert(\"content\")c@end\n"
		case "undefined-insert":
			cs.Fault, cs.AtLoad = "undefined-insert", true
			page += "@insert(\"content\")c@end\n" + fill() + "@insert(\"zzFault\", \"x\")\n"
		case "unknown-component":
			cs.Fault, cs.AtLoad = "unknown-component", true
			page += "@insert(\"content\")\n" + fill() + "@component(\"zzFault\")\n@end\n"
		}
		cs.WantLine = lineOf(page, "zzFault")
		switch cs.WantFile {
		case "t/lay.tw":
			cs.WantLine = lineOf(layout, "zzFault")
		case "t/comp.tw":
			cs.WantLine = lineOf(comp, "zzFault")
		}
		if cs.WantLine < 1 {
			return
		}
		cs.Tree = tree.Tree{"t/" + pageName + ".tw": {Content: page}, "t/lay.tw": {Content: layout}, "t/comp.tw": {Content: comp}, "t/other.tw": {Content: "<other>\n{{ 1 + 1 }}\n</other>"}, "t/aside.tw": {Content: "<aside>\n@slot\n</aside>"}}
		nt := cs.WantLine > 1
		c.Case(nt, mustJSON(cs.Tree), "scenario:"+scenario, "fault:"+cs.Fault)
		if nt {
			c.Sample(map[string]any{"scenario": scenario, "page": page, "want": fmt.Sprintf("%s:%d", cs.WantFile, cs.WantLine)})
		}
		if f := c13Tree(c, cs); f != "" {
			c.Fail(rt, kindOf(f), cs, fmt.Sprintf("%s:%d", cs.WantFile, cs.WantLine), f, f)
		}
	})
}

func pickParseFault(rt *rapid.T, forms []faultForm) faultForm {
	var pf []faultForm
	for _, f := range forms {
		if f.parseTime {
			pf = append(pf, f)
		}
	}
	return pf[rapid.IntRange(0, len(pf)-1).Draw(rt, "parseFault")]
}

var _ = json.Marshal
