package checks

import (
	"fmt"
	"strings"
	"testing"

	"verif/lib/harness"
	"verif/lib/spec"
)

func init() { registerRenderReplayer("C11/failing-arguments") }

// TestC11_FailingArguments: "an error for wrong argument kinds" is the result
// of the call, whatever uses it: a call that fails as receiver or argument -
// in any position - of another built-in makes that call fail too, also when
// the outer function would not have returned or looked at that argument.
func TestC11_FailingArguments(t *testing.T) {
	inner := []string{"'a'.repeat('x')", "[1].slice('a')", "'a'.at('x')", "'abc'.truncate('x')", "1.decimal(2)", "'a'.contains(1)", "[1].join(1)", "'a'.split(1)", "'a'.trim(1)", "true.then()", "'abc'.truncate()", "'a'.repeat()", "[1, 2].slice()",
		"s.repeat(t)", "xs.slice(s)", "s.at(xs)"}
	outer := []string{"s.contains(%s)", "xs.contains(%s)", "xs.append(%s).len()", "xs.append(1, %s).len()", "xs.prepend(%s).len()", "t.then(1, %s)", "t.then(%s, 1)", "false.then(1, %s)", "false.then(%s)", "false.then(%s, 1)", "t.then(1, 2, %s)",
		"s.repeat(%s)", "xs.slice(0, %s)", "s.truncate(2, %s)", "xs.join(%s)", "x.decimal('.', %s)", "(%s).len()", "(%s).upper()", "(%s).then(1, 2)", "[%s].len()", "[1, %s].reverse()", "s.len(%s)", "x.abs(%s)", "xs.reverse(%s)",
		"t.then(s.contains(%s), 1)", "xs.append(t.then(1, %s)).len()"}
	c := harness.New(t, "C11", "failing-arguments",
		fmt.Sprintf("%d built-in calls that fail for a wrong argument kind or a missing argument (literal and data receivers) placed as receiver or as any argument of %d other built-in calls - contains, append, prepend, then (also as the argument it does not return, and beyond its second), repeat, slice, truncate, join, decimal, superfluous arguments of len / abs / reverse, elements of an array receiver, nested two deep: the whole expression must fail with an error and without output. Exhaustive. Non-trivial: all. Distinct by construction.", len(inner), len(outer)))
	defer c.Finish()
	data := (&spec.Data{}).Add("x", spec.IntOf(spec.TInt, 3)).Add("s", spec.String("abc")).Add("xs", spec.Slice(spec.T(spec.TInt), spec.IntOf(spec.TInt, 1), spec.IntOf(spec.TInt, 2))).Add("t", spec.Bool(true))
	idx := 0
	for _, in := range inner {
		for _, out := range outer {
			idx++
			if !harness.Mine(idx) {
				continue
			}
			cs := renderCase{Src: "[{{ " + strings.ReplaceAll(out, "%s", in) + " }}]", Data: data, Want: want{St: "error", Why: "a built-in call with a wrong argument kind"}}
			c.CaseEnum(true)
			if idx%37 == 0 {
				c.Sample(cs.sample())
			}
			if r, f := runRenderCase(c, cs); f != "" {
				c.Fail(t, failKind(r), cs, cs.Want, r, f)
			}
		}
	}
	c.ExhaustivePart(fmt.Sprintf("%d failing calls x %d places", len(inner), len(outer)))
}
