#!/bin/bash
# usage: tools/collect_mutant.sh <worktree dir> <seeded id>
# Takes the uncommitted change + zz_demo_test.go from a sub-agent's worktree, stores them under
# /verif/seeded/<id>/ and verifies in a fresh scratch worktree of /repo (HEAD) that the change
# builds, keeps the suite green, and that the demo fails with it and passes without it.
set -u
src=$1; id=$2
export GOFLAGS=-mod=mod GOPROXY=off GOSUMDB=off GOTOOLCHAIN=local
dst=/verif/seeded/$id; mkdir -p $dst
git -C $src diff > $dst/patch.diff
cp $src/zz_demo_test.go $dst/zz_demo_test.go 2>/dev/null || { echo "no demo file"; }
[ -s $dst/patch.diff ] || { echo "EMPTY PATCH"; exit 1; }
scratch=$(mktemp -d /tmp/seedchk.XXXXXX); rmdir $scratch
git -C /repo worktree add -q --detach $scratch HEAD || exit 1
res=fail
(
  cd $scratch
  cp $dst/zz_demo_test.go . 2>/dev/null
  echo "--- demo WITHOUT the change:"; go test -vet=off -count=1 -run '^TestDemo$' . 2>&1 | tail -3; without=${PIPESTATUS[0]}
  git apply $dst/patch.diff || { echo "PATCH DOES NOT APPLY to current /repo HEAD"; exit 3; }
  echo "--- build+vet:"; go build ./... && go vet ./... 2>&1 | tail -3
  echo "--- demo WITH the change:"; go test -vet=off -count=1 -run '^TestDemo$' . 2>&1 | tail -6; with=${PIPESTATUS[0]}
  mv zz_demo_test.go /tmp/zz_demo_hold.$$ 
  echo "--- suite WITH the change (demo file moved away):"; go test -vet=off -count=1 ./... 2>&1 | grep -v "no test files" | grep -v "^ok" ; suite=${PIPESTATUS[0]}
  rm -f /tmp/zz_demo_hold.$$
  echo "RESULT without=$without with=$with suite=$suite (want 0, non-zero, 0)"
)
git -C /repo worktree remove --force $scratch
