#!/bin/bash
# usage: tools/fuzz_campaign.sh [seconds per target] [target...]
# Unregistered coverage-guided campaigns with Go's native fuzzer over the oracles of C08, C19, C05, C09.
# A crasher ends that target's campaign; it is left under checks/testdata/fuzz/<Target>/ and printed.
secs=${1:-60}; shift
targets=${@:-FuzzLexParse FuzzPositions FuzzText FuzzEval}
cd "$(dirname "$0")/.."
export GOFLAGS=-mod=mod GOPROXY=off GOSUMDB=off GOTOOLCHAIN=local VERIF_NO_WATCHDOG=1
for t in $targets; do
  echo "=== $t for ${secs}s"
  go test -tags verif -run '^$' -fuzz "^$t\$" -fuzztime ${secs}s ./checks 2>&1 | grep -vE "^fuzz: elapsed" | tail -15
  if ls checks/testdata/fuzz/$t/* >/dev/null 2>&1; then
    echo "CRASHERS for $t:"; for f in checks/testdata/fuzz/$t/*; do echo "--- $f"; cat "$f"; done
  fi
done
