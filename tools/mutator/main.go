// Command mutator enumerates and applies small syntactic changes (mutants) to
// the Go sources of a scratch copy of textwire. It is the generator of the
// systematic sensitivity sweep (tools/sweep.py): every mutant that compiles and
// passes the repository's own tests is run against the checks.
//
//	mutator -root DIR -list            one JSON line per mutation point
//	mutator -root DIR -apply N         rewrite the file of point N in place
//
// Points are numbered in a deterministic order (sorted files, source order), so
// -list and -apply agree as long as DIR holds the same sources.
package main

import (
	"bytes"
	"encoding/json"
	"flag"
	"fmt"
	"go/ast"
	"go/format"
	"go/parser"
	"go/token"
	"os"
	"path/filepath"
	"sort"
	"strconv"
	"strings"
)

type point struct {
	ID    int    `json:"id"`
	File  string `json:"file"`
	Line  int    `json:"line"`
	Func  string `json:"func"`
	Op    string `json:"op"`
	Desc  string `json:"desc"`
	apply func()
}

var dirs = []string{".", "ast", "config", "ctx", "evaluator", "fail", "lexer", "object", "parser", "token", "utils"}

func sourceFiles(root string) []string {
	var out []string
	for _, d := range dirs {
		ents, err := os.ReadDir(filepath.Join(root, d))
		if err != nil {
			continue
		}
		for _, e := range ents {
			n := e.Name()
			if e.IsDir() || !strings.HasSuffix(n, ".go") || strings.HasSuffix(n, "_test.go") || n == "verif_hooks.go" {
				continue
			}
			out = append(out, filepath.Join(d, n))
		}
	}
	sort.Strings(out)
	return out
}

var swaps = map[token.Token][]token.Token{
	token.EQL:  {token.NEQ},
	token.NEQ:  {token.EQL},
	token.LSS:  {token.LEQ, token.GTR},
	token.LEQ:  {token.LSS},
	token.GTR:  {token.GEQ, token.LSS},
	token.GEQ:  {token.GTR},
	token.ADD:  {token.SUB},
	token.SUB:  {token.ADD},
	token.MUL:  {token.QUO},
	token.QUO:  {token.MUL},
	token.REM:  {token.QUO},
	token.LAND: {token.LOR},
	token.LOR:  {token.LAND},
}

func exprString(fset *token.FileSet, n ast.Node) string {
	var b bytes.Buffer
	_ = format.Node(&b, fset, n)
	s := strings.Join(strings.Fields(b.String()), " ")
	if len(s) > 90 {
		s = s[:90] + "…"
	}
	return s
}

func collect(fset *token.FileSet, rel string, f *ast.File) []*point {
	var pts []*point
	fn := ""
	add := func(n ast.Node, op, desc string, apply func()) {
		pts = append(pts, &point{File: rel, Line: fset.Position(n.Pos()).Line, Func: fn, Op: op, Desc: desc, apply: apply})
	}
	stmtList := func(list []ast.Stmt) {
		for i, st := range list {
			i, st := i, st
			switch s := st.(type) {
			case *ast.ExprStmt:
				add(s, "del-call", "delete statement "+exprString(fset, s), func() { list[i] = &ast.EmptyStmt{Semicolon: s.Pos()} })
			case *ast.AssignStmt:
				if s.Tok != token.DEFINE {
					add(s, "del-assign", "delete statement "+exprString(fset, s), func() { list[i] = &ast.EmptyStmt{Semicolon: s.Pos()} })
				}
			case *ast.IncDecStmt:
				add(s, "del-incdec", "delete statement "+exprString(fset, s), func() { list[i] = &ast.EmptyStmt{Semicolon: s.Pos()} })
			case *ast.IfStmt:
				if s.Else == nil && s.Init == nil {
					add(s, "del-if", "delete the whole if "+exprString(fset, s.Cond), func() { list[i] = &ast.EmptyStmt{Semicolon: s.Pos()} })
				}
				if s.Else != nil {
					add(s, "del-else", "drop the else of if "+exprString(fset, s.Cond), func() { s.Else = nil })
				}
			case *ast.BranchStmt:
				if s.Label == nil && s.Tok == token.BREAK {
					add(s, "break-continue", "break -> continue", func() { s.Tok = token.CONTINUE })
				} else if s.Label == nil && s.Tok == token.CONTINUE {
					add(s, "break-continue", "continue -> break", func() { s.Tok = token.BREAK })
				}
			case *ast.DeferStmt:
				add(s, "del-defer", "delete "+exprString(fset, s), func() { list[i] = &ast.EmptyStmt{Semicolon: s.Pos()} })
			}
		}
	}
	ast.Inspect(f, func(n ast.Node) bool {
		switch x := n.(type) {
		case *ast.FuncDecl:
			fn = x.Name.Name
			if x.Recv != nil && len(x.Recv.List) == 1 {
				fn = exprString(fset, x.Recv.List[0].Type) + "." + fn
			}
		case *ast.BlockStmt:
			stmtList(x.List)
		case *ast.CaseClause:
			stmtList(x.Body)
		case *ast.BinaryExpr:
			for _, to := range swaps[x.Op] {
				from, to := x.Op, to
				add(x, "binop", fmt.Sprintf("%s: %s -> %s", exprString(fset, x), from, to), func() { x.Op = to })
			}
		case *ast.IfStmt:
			add(x, "neg-if", "negate condition "+exprString(fset, x.Cond), func() {
				x.Cond = &ast.UnaryExpr{Op: token.NOT, X: &ast.ParenExpr{X: x.Cond}}
			})
		case *ast.ForStmt:
			if x.Cond != nil {
				add(x, "neg-for", "negate loop condition "+exprString(fset, x.Cond), func() {
					x.Cond = &ast.UnaryExpr{Op: token.NOT, X: &ast.ParenExpr{X: x.Cond}}
				})
			}
		case *ast.UnaryExpr:
			if x.Op == token.NOT {
				add(x, "drop-not", "drop ! in "+exprString(fset, x), func() { x.Op = token.ILLEGAL })
			}
		case *ast.BasicLit:
			if x.Kind == token.INT {
				v, err := strconv.ParseInt(x.Value, 0, 64)
				if err == nil {
					old := x.Value
					if v == 0 {
						add(x, "int", "0 -> 1", func() { x.Value = "1" })
					} else {
						add(x, "int", old+" -> "+strconv.FormatInt(v-1, 10), func() { x.Value = strconv.FormatInt(v-1, 10) })
						add(x, "int", old+" -> "+strconv.FormatInt(v+1, 10), func() { x.Value = strconv.FormatInt(v+1, 10) })
					}
				}
			}
		case *ast.Ident:
			if x.Name == "true" && x.Obj == nil {
				add(x, "bool", "true -> false", func() { x.Name = "false" })
			} else if x.Name == "false" && x.Obj == nil {
				add(x, "bool", "false -> true", func() { x.Name = "true" })
			}
		}
		return true
	})
	return pts
}

// dropNot is applied after printing: a UnaryExpr with ILLEGAL op cannot be
// printed, so "drop !" is implemented by replacing the node in its parent.
func replaceDropNot(f *ast.File) {
	ast.Inspect(f, func(n ast.Node) bool {
		rewrite := func(e *ast.Expr) {
			if u, ok := (*e).(*ast.UnaryExpr); ok && u.Op == token.ILLEGAL {
				*e = u.X
			}
		}
		switch x := n.(type) {
		case *ast.IfStmt:
			rewrite(&x.Cond)
		case *ast.ForStmt:
			if x.Cond != nil {
				rewrite(&x.Cond)
			}
		case *ast.BinaryExpr:
			rewrite(&x.X)
			rewrite(&x.Y)
		case *ast.ParenExpr:
			rewrite(&x.X)
		case *ast.ReturnStmt:
			for i := range x.Results {
				rewrite(&x.Results[i])
			}
		case *ast.AssignStmt:
			for i := range x.Rhs {
				rewrite(&x.Rhs[i])
			}
		case *ast.CallExpr:
			for i := range x.Args {
				rewrite(&x.Args[i])
			}
		case *ast.UnaryExpr:
			rewrite(&x.X)
		case *ast.KeyValueExpr:
			rewrite(&x.Value)
		case *ast.ValueSpec:
			for i := range x.Values {
				rewrite(&x.Values[i])
			}
		}
		return true
	})
}

func main() {
	root := flag.String("root", "", "directory of the textwire sources")
	list := flag.Bool("list", false, "list mutation points")
	apply := flag.Int("apply", -1, "apply mutation point N")
	flag.Parse()
	if *root == "" {
		fmt.Fprintln(os.Stderr, "need -root")
		os.Exit(2)
	}
	id := 0
	enc := json.NewEncoder(os.Stdout)
	for _, rel := range sourceFiles(*root) {
		fset := token.NewFileSet()
		path := filepath.Join(*root, rel)
		f, err := parser.ParseFile(fset, path, nil, parser.ParseComments)
		if err != nil {
			fmt.Fprintln(os.Stderr, err)
			os.Exit(2)
		}
		for _, p := range collect(fset, rel, f) {
			p.ID = id
			id++
			if *list {
				_ = enc.Encode(p)
			}
			if p.ID == *apply {
				p.apply()
				replaceDropNot(f)
				var b bytes.Buffer
				if err := format.Node(&b, fset, f); err != nil {
					fmt.Fprintln(os.Stderr, "print:", err)
					os.Exit(3)
				}
				if err := os.WriteFile(path, b.Bytes(), 0o644); err != nil {
					fmt.Fprintln(os.Stderr, err)
					os.Exit(2)
				}
				_ = json.NewEncoder(os.Stderr).Encode(p)
				return
			}
		}
	}
	if *apply >= 0 {
		fmt.Fprintln(os.Stderr, "no such mutation point")
		os.Exit(2)
	}
}
