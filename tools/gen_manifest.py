#!/usr/bin/env python3
"""Writes /verif/MANIFEST.json from the table below (kept in one place so that
claimed / not-yet-claimed properties stay consistent)."""
import json, os, subprocess

ROOT = os.path.dirname(os.path.dirname(os.path.abspath(__file__)))

# property -> (design section, technique, level text, level note, category)
CLAIMED = {
    "C01": ("4 C01", "bounded exhaustive enumeration of operator sequences + property-based testing (rapid) of random typed expression trees against an independent reference interpreter; metamorphic layout equivalence",
            "Exploration: all operator pairs and triples over several operand sets (exhaustive), hand-enumerated unary/postfix/ternary/member combinations and random typed trees to depth 5 with injected faults; each case is rendered in two layouts and compared with a reference interpreter written from the statement (precedence table, wrapping int64, IEEE doubles, string ops, listed error cases). No claim beyond the explored depth and operand values.",
            "Trusted: lib/refint, lib/tw printers (validated per case by a reference parser round trip), lib/spec. Unspecified outcomes (e.g. bool == bool, float %, out-of-range index) are executed but not asserted. Float ++/-- accepts the IEEE result or the decimal-exact result.", "exploration"),
    "C08": ("4 C08", "bounded exhaustive enumeration of lexeme sequences + property-based testing (rapid) of prefixes/mutations of generated valid templates and lexeme soups, with an out-of-band watchdog for non-termination",
            "Exploration: every sequence of up to 3 (quick) / 4 (thorough) lexemes from the full lexeme alphabet; every prefix that ends inside a construct, illegal characters inside code and lexeme mutations of generated valid templates; random soups; the same as files of a template directory. Oracle: returns (watchdog: CPU-time based, confirmed and minimised out of process), no panic, program xor errors with line >= 1, must-reject classes rejected.",
            "Trusted: the watchdog thresholds (10 s wall and 5 s CPU on one input of < 1 KB), the span bookkeeping of the printer that decides which prefixes must be rejected. Inputs containing NUL are lexed up to the NUL (lexer's end marker) and only need to terminate.", "exploration"),
    "C05": ("4 C05", "property-based testing (rapid) + bounded exhaustive enumeration against an independent reference scanner",
            "Exploration: every concatenation of up to k pieces of an adversarial alphabet (exhaustive) plus random longer texts, comment bodies and text runs spliced around blocks, each compared with an independent text-level reference (escape removal, comment elision, passthrough). Shows absence of violations only inside the enumerated bounds; beyond them it is sampling.",
            "Trusted: lib/reftext (scanner written from the statement), Go toolchain, rapid. Cases where the statement is silent (overlapping escapes, terminator overlapping the comment opener) are skipped and counted.", "exploration"),
}

PENDING_REASON = "check not built yet in this session; planned with the same technique (see DESIGN.md section 4)"

def main():
    props = [json.loads(l)["id"] for l in open(os.path.join(ROOT, "properties.jsonl"))]
    hooks = subprocess.run(["git", "-C", "/repo", "log", "--format=%H %s"], capture_output=True, text=True).stdout.splitlines()
    hook_commits = [l.split()[0] for l in hooks if l.split(" ", 1)[1].startswith("verif:")]
    checks = []
    for p in props:
        if p not in CLAIMED:
            continue
        ref, tech, text, note, cat = CLAIMED[p]
        checks.append({
            "property_id": p,
            "quick_cmd": "python3 verify.py %s --tier quick" % p,
            "thorough_cmd": "python3 verify.py %s --tier thorough" % p,
            "evidence_file": "/verif/evidence/%s.json" % p,
            "replay_cmd_template": "python3 verify.py --replay {path}",
            "engine": "rapid-checks",
            "level_claimed": {"category": cat, "text": text, "design_ref": "DESIGN.md section " + ref},
            "level_note": note,
            "technique": tech,
        })
    m = {
        "version": 1,
        "setup_cmd": "python3 verify.py --build",
        "hooks": {
            "guard": "verif",
            "enable": "go test -c -tags verif (build tag 'verif' on /repo through the replace directive in /verif/go.mod)",
            "baseline_off_cmd": "cd /repo && GOFLAGS=-mod=mod GOPROXY=off GOSUMDB=off GOTOOLCHAIN=local go test -vet=off -count=1 ./...",
            "source_commits": hook_commits,
            "add_only": True,
        },
        "engines": [{
            "name": "rapid-checks", "path": "/verif/checks",
            "serves_properties": [c["property_id"] for c in checks],
            "kind_free_text": "Go test binary built from /repo's working tree: pgregory.net/rapid generators and state machines plus deterministic bounded enumerators, reference models under /verif/lib, driven and sharded by verify.py (watchdog for hangs/fatal errors, replay files, evidence merge)",
        }],
        "checks": checks,
        "notes": "All checks are property-based tests / fuzzing-style generated search against explicit oracles. verify.py exit codes: 0 held, 1 violation (VIOLATION line), 2 inconclusive/infrastructure. Known findings: /verif/known_findings.json.",
        "not_applicable": [{"property_id": p, "reason": PENDING_REASON} for p in props if p not in CLAIMED],
    }
    json.dump(m, open(os.path.join(ROOT, "MANIFEST.json"), "w"), indent=1)
    print("claimed:", [c["property_id"] for c in checks])

main()
