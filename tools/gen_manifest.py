#!/usr/bin/env python3
"""Writes /verif/MANIFEST.json from the table below (kept in one place so that
claimed / not-yet-claimed properties stay consistent)."""
import json, os, subprocess

ROOT = os.path.dirname(os.path.dirname(os.path.abspath(__file__)))

# property -> (design section, technique, level text, level note, category)
CLAIMED = {
    "C01": ("4 C01", "bounded exhaustive enumeration of operator sequences + property-based testing (rapid) of random typed expression trees against an independent reference interpreter; metamorphic layout equivalence",
            "Exploration: all operator pairs and triples over several operand sets (exhaustive), hand-enumerated unary/postfix/ternary/member combinations and random typed trees to depth 5 with injected faults; each case is rendered in two layouts and compared with a reference interpreter written from the statement (precedence table, wrapping int64, IEEE doubles, string ops, listed error cases). No claim beyond the explored depth and operand values. Spellings 1..1500 levels deep with closed-form values; 15 failing operands at 62 places where a construct inspects, selects or passes on its operand (arguments of built-ins and of registered Go functions included): the render must fail.",
            "Trusted: lib/refint, lib/tw printers (validated per case by a reference parser round trip), lib/spec. Unspecified outcomes (e.g. bool == bool, float %, out-of-range index) are executed but not asserted. Float ++/-- accepts the IEEE result or the decimal-exact result.", "exploration"),
    "C06": ("4 C06", "property-based testing (rapid) of generated layout/page trees against an independent composition model + exhaustive enumeration of insert subsets/forms/orders for one layout",
            "Exploration: layouts with 1..4 reserves at every nesting position x pages inserting any subset in any order in block or expression form with junk between, data of every kind, three directory/extension settings; all 8 subsets x forms x orders x flag x lengths for a fixed three-reserve layout; the four error classes. Expected output from the reference composition model (lib/refint RenderPage).",
            "Trusted: lib/refint composition model, lib/tree (scratch directories, chdir). Insert bodies contain no assignments and do not read layout-local variables (the statement fixes 'evaluated with the data of the call' only).", "exploration"),
    "C07": ("4 C07", "property-based testing (rapid) of generated pages with multiple component uses against a reference instantiation model + exhaustive enumeration of slot-passing combinations for two/three uses",
            "Exploration: four component files x pages with 1..4 uses (same component repeatedly, in loops, in branches, in insert blocks) with generated arguments and slot bodies; all 16 slot-passing combinations x 4 page shapes; six load-time error classes (message must name the component); eight argument-collision shapes (outer value must never show). Failing and unbindable arguments for component files that do not read them (plain text, empty, comment only) at six places of the use.",
            "Trusted: lib/refint component model (arguments evaluated at the place of use, placeholders replaced per use). Whitespace-only text right after a slot-less use, nested component uses and components used from layouts are not generated (not settled by the statement).", "exploration"),
    "C08": ("4 C08", "bounded exhaustive enumeration of lexeme sequences + property-based testing (rapid) of prefixes/mutations of generated valid templates and lexeme soups, with an out-of-band watchdog for non-termination",
            "Exploration: every sequence of up to 3 (quick) / 4 (thorough) lexemes from the full lexeme alphabet; every prefix that ends inside a construct, illegal characters inside code and lexeme mutations of generated valid templates; random soups; the same as files of a template directory. Oracle: returns (watchdog: CPU-time based, confirmed and minimised out of process), no panic, program xor errors with line >= 1, must-reject classes rejected.",
            "Trusted: the watchdog thresholds (10 s wall and 5 s CPU on one input of < 1 KB), the span bookkeeping of the printer that decides which prefixes must be rejected. Inputs containing NUL are lexed up to the NUL (lexer's end marker) and only need to terminate.", "exploration"),
    "C02": ("4 C02", "bounded exhaustive enumeration of branch shapes and truthiness vectors + property-based testing (rapid) of random programs against an independent reference interpreter",
            "Exploration: all @if chains with 0..3 @elseif x {false,true,failing}^n x else/no else in 4 contexts; the truthiness table for every value type (literal and data-supplied) through @if, @elseif, ternary, @breakIf, @continueIf and the @for condition; random nested programs. Expected output from the reference interpreter (first truthy branch, later conditions unevaluated).",
            "Trusted: lib/refint truthiness table and branch semantics (from the statement), lib/spec data construction. Bodies are unique markers so the output identifies the branch.", "exploration"),
    "C03": ("4 C03", "bounded exhaustive enumeration of loop shapes (array lengths, control-directive kinds and positions, for-loop bounds, nest shapes) + property-based testing (rapid) against the reference interpreter",
            "Exploration: @each over lengths 0..4 x every control directive at every body position (bare and under @if/@elseif/nested @if/@else); every @for with bounds in -3..3; two- and three-level nests reading loop.* at each level; random nested programs. Expected output from reference loop semantics. Loops of up to 100000 passes; loops whose body is a component use that reads the loop variable and loop.*.",
            "Trusted: lib/refint loop semantics. loop.* inside a @for body, reads of names bound in an earlier pass and arrays with mixed element types are unspecified and not asserted.", "exploration"),
    "C04": ("4 C04", "bounded exhaustive enumeration of small programs over assign/read/nesting forms + property-based testing (rapid) against a reference scope chain",
            "Exploration: every program of <= 3 (quick) / 4 (thorough) statements over assignments of three types to two names, reads, and five nesting forms, under three data maps; the reserved name loop in every position; random programs with shadowing loop variables and type collisions; template directories in which component files and slot bodies are generated blocks and the page reads the names afterwards. Generated layouts with reserves at every nesting position and generated insert bodies (an insert runs in the block that holds its reserve).",
            "Trusted: lib/refint scope chain (one scope per @if construct and per loop execution). Reads/re-bindings across loop passes, and of names a slot body assigned at its top level, are unspecified.", "exploration"),
    "C09": ("4 C09", "bounded exhaustive tables (built-ins x receivers x argument tuples; operators x operand kinds; @for clause subsets) + property-based testing (rapid) with an untyped program generator; oracle: no panic, returns, error line in range",
            "Exploration: every built-in name on receivers of every type with all argument tuples of length 0/1 and pairs over 19 boundary values; every operator on every ordered pair of operand kinds; @for with every subset of clauses absent; random untyped programs over data of every kind (nil pointers, nested unsupported values, invalid UTF-8).",
            "Trusted: recover()-based panic detection and the watchdog. Counts between 10^6 and 2^62 are not generated (memory exhaustion is not a decidable panic); MinInt64/MaxInt64 are.", "exploration"),
    "C10": ("4 C10", "bounded exhaustive enumeration of literal contents over an escaping-hostile alphabet + property-based testing (rapid) over usage contexts, oracle: three-rule escape, round trip through unescaping, raw() identity",
            "Exploration: every content of <= 2 (quick) / 3 (thorough) pieces from an alphabet of < > & ; # quotes backslashes ready-made entities and UTF-8 in both quote styles, printed and through raw(); random longer contents in 14 string-API contexts and 5 template-directory contexts (insert argument/block, component argument, slot body, raw() in a component). The literal as an argument of built-ins that place it in their result; the literal at the place of a fault, on the debug error page.",
            "Trusted: the three-rule escape written from the statement (& < > become entities, quotes stay). Contents ending in a backslash are not expressible as a literal and not generated.", "exploration"),
    "C11": ("4 C11", "bounded exhaustive enumeration of small numeric domains + property-based testing (rapid) of random calls against per-function reference contracts; metamorphic purity check (observe, call, observe)",
            "Exploration: slice/at/truncate/repeat/decimal over all small (len, start, end / index / count) tuples; all zero-argument functions on value pools; random calls with right and wrong argument kinds, receiver as literal and as data, results compared structurally through index/member access; purity of every array function incl. chained calls on nested data; valid UTF-8 in implies valid UTF-8 out; built-in wins over a custom function of the same name for every built-in name. The kind of every scalar result is probed besides its text; a failing built-in call as receiver or argument of another fails that call too.",
            "Trusted: checks/c11_ref_test.go (contracts from the statement; rune-based string functions, clamping slice, structural contains). Silent spots (negative counts, slice with start > end or negative end, missing required arguments, decimal on partly numeric strings) are executed but not asserted.", "exploration"),
    "C12": ("4 C12", "property-based testing (rapid) with type-directed generation of Go values (run-time struct types via reflect.StructOf) and random access paths; differential against rendering the equal literal; deep-equality of the caller's data before/after",
            "Exploration: values to depth 4 over all integer widths, float32/64 incl. NaN/Inf/extremes, arbitrary-byte strings, nil, pointers (nil, pointer to pointer), []T/[]any, map[string]T, structs (generated and hand-written with unexported/embedded/pointer fields) x random access paths in every spelling; 36 hand-written boundary shapes; unsupported kinds nested at any depth must fail the call; 20 mutating-looking templates must leave the caller's map deep-equal to an independent copy. Reads after operators on the same path; the same map object with other values in consecutive calls on one loaded Template.",
            "Trusted: lib/spec (builds the Go value and the model from one description), reflect.DeepEqual (cases containing NaN are not compared). Named scalar types and non-string-keyed maps are not generated (the statement lists types, not kinds).", "exploration"),
    "C13": ("4 C13", "property-based testing (rapid): single-fault injection into generated valid multi-line templates and template trees, expected line/file known by construction; plus an exhaustive table of fault forms x preceding multi-line token kinds",
            "Exploration: valid templates (reference interpreter says they render) with text/strings/comments/blocks/headers spanning lines before one single-line fault of each listed kind at a certainly-executed place; trees with page, layout and component for load-time and page-level faults. The reported line (and absolute path) must equal the line counted in the generated source.",
            "Trusted: the line is computed by counting newlines before a unique marker in the generated source (no lexer involved). The faulty construct is always written on one line, so 'the line its token ends on' is unambiguous; run-time faults inside layout/component files are not asserted (the statement only fixes the path for load-time faults and faults in the page).", "exploration"),
    "C14": ("4 C14", "property-based testing (rapid): generated order-sensitive programs and template trees, each rendered N times in one process (fresh load per repetition via the reset hook) and in fresh processes; metamorphic oracle: all results identical",
            "Exploration: objects with 2..12 keys printed/dumped in 8 forms (literal and data, nested); object literals / component arguments / data maps with several simultaneous faults of different kinds; pages with several undefined inserts, duplicated or undeclared slots, two or three faulty files; each 24 (trees: 12) repetitions in process, a sample also in 3 fresh processes. With Go's per-iteration random map order a two-way order dependence survives 24 repetitions with probability 2^-23.",
            "Trusted: Go's map iteration randomisation as the source of divergence (a dependence on something that only differs between machines is out of reach). shuffle() and rand() are never generated. Scratch directory names are normalised in outcomes.", "exploration"),
    "C15": ("4 C15", "generated concurrency plans (rapid generators sampled deterministically from the seed) executed under the Go race detector, plus differential comparison of every concurrent call with its sequential baseline",
            "Exploration: 60 (quick) / 8 x 150 (thorough) plans of 2..16 goroutines x 5..40 calls over {String, Response, EvaluateString, EvaluateFile} x {ok, failing, not found} on a loaded directory (layout, component, loops, objects, custom functions) under 6 configurations, GOMAXPROCS in {2,4,16}, Gosched noise, each plan repeated 2..5 times. The race detector is happens-before based: an unsynchronised access pair is reported whenever both sides execute in a run, not only when the bad interleaving occurs. A race or a result that differs from the call run alone is a violation; the plan is the replay (re-run 50 times).",
            "Trusted: the Go race detector (GORACE=halt_on_error=1; a reported race ends the process, the driver recovers the plan from the heartbeat and confirms by replaying). Interleavings are those the Go scheduler produces; they are not enumerated. A failure cannot be shrunk.", "exploration"),
    "C20": ("4 C20", "rapid state machine (t.Repeat) over registry/call/load operations + exhaustive enumeration of histories up to length 3; oracle: reference registry model with recording closures, differential rendering of results against the same Go value passed as data",
            "Exploration: random histories of Register*/call/LoadTemplates over names {f, g, own built-in, other type's built-in, function returning an unsupported kind} x five receiver types x 0..3 arguments of any kind (nested arrays/objects, nil), literal and variable form, direct and through a loaded template; all histories of length <= 3 over an 11-operation alphabet. Checked: duplicate registration rejected and never replaces; built-in wins; the closure of the first registration receives receiver/arguments as plain Go values; the result renders like the same value passed as data; unregistered name -> error naming function and receiver type. Array functions whose result holds an unsupported value at 20 nesting places are refused like the same value passed as data.",
            "Trusted: the reset hook (the registry cannot be emptied through the API), recording closures. Strings avoid < > & (literal escaping is C10's subject).", "exploration"),
    "C16": ("4 C16", "bounded exhaustive enumeration of operation histories + rapid random histories; oracle: every operation's result equals the same operation issued first after a fresh load (reset hook), configuration and caller data unchanged",
            "Exploration: all histories of length <= 2 (quick) / 3 (thorough) over 33 operation instances {String, Response, EvaluateString, EvaluateFile} x {succeeding, failing, not found, binding names at template level with and without data} under 6 configurations (debug x custom error page none/working/missing/failing); random histories of length 4..40. Results compared: output, error message + line + path, Response body + returned error.",
            "Trusted: the reset hook gives the fresh-state baseline; scratch directory names are normalised. One fixed template directory (layout, component, loops, objects) is used: history independence is about call sequences, not template variety.", "exploration"),
    "C17": ("4 C17", "property-based testing (rapid) over configurations x generated failing/succeeding pages; differential oracle against String() and against rendering the built-in error page source with the failure's fields",
            "Exploration: {debug on/off} x {no / working / missing / failing custom error page} x pages that succeed (plain, layout+component) or fail after 1..4 uniquely marked chunks at top level, in a loop pass, in a layout insert, in a component argument, in a slot body, or do not exist. Success: nil and body == String(); failure: non-nil error, no marker of the failed page, body == custom page / empty / built-in page; debug off: no message, no path; debug on: message, path, line.",
            "Trusted: net/http/httptest recorder as the ResponseWriter; /repo/textwire/default-error-page.tw rendered through EvaluateString as the expected built-in page.", "exploration"),
    "C18": ("4 C18", "property-based testing (rapid) of directory trees/spellings/extensions with an exact registry oracle (hook VerifNames), plus fault enumeration: every file x {deleted, truncated at every byte prefix, garbage, dangling symlink, directory} of generated valid trees",
            "Fault enumeration (part B): for each generated valid tree (page, layout, component, independent page) every file is damaged by every operator and truncated at every byte prefix; NewTemplate must return (nil, error) xor (template, nil) without panic/hang, and must fail naming the file when it is syntactically wrong by itself or unreadable, or naming the layout/component when absent. Exploration (part A): registered names are exactly the files ending in the extension, relative to the directory whatever its spelling; decoys, unknown names and layouts are not found; EvaluateFile == EvaluateString(content).",
            "Trusted: 'syntactically wrong by itself' is decided by parsing the damaged content alone with /repo's parser (so a truncation that leaves a valid template carries no obligation); we run as root, so permission bits cannot make a file unreadable: dangling symlinks and directories stand in.", "fault_enumeration"),
    "C19": ("4 C19", "bounded exhaustive enumeration of lexeme sequences + property-based testing (rapid) of generated multi-line templates, their prefixes and soups against an independent offset<->(line, column) index",
            "Exploration: every sequence of <= 3 (quick) / 4 (thorough) lexemes incl. CRLF, multi-line strings/comments, escapes, multi-byte text; generated valid templates with random newlines and their prefixes; soups. For each input: tokens ordered and disjoint, start/end are the first/last byte, the source range is the token's own text, gaps are whitespace or complete comments, EOF just past the last byte, and every byte position is contained in exactly the covering token.",
            "Trusted: lib/reftext index and escape classification. Inputs containing NUL are excluded (lexer's end marker). After an ILLEGAL token nothing is asserted. The literal of a text token next to the unsettled '\\{{{' overlap is not compared.", "exploration"),
    "C05": ("4 C05", "property-based testing (rapid) + bounded exhaustive enumeration against an independent reference scanner",
            "Exploration: every concatenation of up to k pieces of an adversarial alphabet (exhaustive) plus random longer texts, comment bodies and text runs spliced around blocks, each compared with an independent text-level reference (escape removal, comment elision, passthrough). Shows absence of violations only inside the enumerated bounds; beyond them it is sampling.",
            "Trusted: lib/reftext (scanner written from the statement), Go toolchain, rapid. Cases where the statement is silent (overlapping escapes, terminator overlapping the comment opener) are skipped and counted.", "exploration"),
}

PENDING_REASON = "check not built yet in this session; planned with the same technique (see DESIGN.md section 4)"

def main():
    props = [json.loads(l)["id"] for l in open(os.path.join(ROOT, "properties.jsonl"))]
    hooks = subprocess.run(["git", "-C", "/repo", "log", "--format=%H %s"], capture_output=True, text=True).stdout.splitlines()
    hook_commits = [l.split()[0] for l in hooks if l.split(" ", 1)[1].startswith("verif:")]
    checks = []
    for p in props:
        if p not in CLAIMED:
            continue
        ref, tech, text, note, cat = CLAIMED[p]
        checks.append({
            "property_id": p,
            "quick_cmd": "python3 verify.py %s --tier quick" % p,
            "thorough_cmd": "python3 verify.py %s --tier thorough" % p,
            "evidence_file": "/verif/evidence/%s.json" % p,
            "replay_cmd_template": "python3 verify.py --replay {path}",
            "engine": "rapid-checks",
            "level_claimed": {"category": cat, "text": text, "design_ref": "DESIGN.md section " + ref},
            "level_note": note,
            "technique": tech,
        })
    m = {
        "version": 1,
        "setup_cmd": "python3 verify.py --build",
        "hooks": {
            "guard": "verif",
            "enable": "go test -c -tags verif (build tag 'verif' on /repo through the replace directive in /verif/go.mod)",
            "baseline_off_cmd": "cd /repo && GOFLAGS=-mod=mod GOPROXY=off GOSUMDB=off GOTOOLCHAIN=local go test -vet=off -count=1 ./...",
            "source_commits": hook_commits,
            "add_only": True,
        },
        "engines": [{
            "name": "rapid-checks", "path": "/verif/checks",
            "serves_properties": [c["property_id"] for c in checks],
            "kind_free_text": "Go test binary built from /repo's working tree: pgregory.net/rapid generators and state machines plus deterministic bounded enumerators, reference models under /verif/lib, driven and sharded by verify.py (watchdog for hangs/fatal errors, replay files, evidence merge)",
        }],
        "checks": checks,
        "notes": "All checks are property-based tests / fuzzing-style generated search against explicit oracles. verify.py exit codes: 0 held, 1 violation (VIOLATION line), 2 inconclusive/infrastructure. Known findings: /verif/known_findings.json.",
        "not_applicable": [{"property_id": p, "reason": PENDING_REASON} for p in props if p not in CLAIMED],
    }
    json.dump(m, open(os.path.join(ROOT, "MANIFEST.json"), "w"), indent=1)
    print("claimed:", [c["property_id"] for c in checks])

main()
