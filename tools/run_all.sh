#!/bin/bash
# usage: tools/run_all.sh <tier> [seed...]   — runs every claimed check, prints one line per run
tier=${1:-quick}; shift
seeds=${@:-1}
cd "$(dirname "$0")/.."
for seed in $seeds; do
  for p in $(python3 -c "import json;print(' '.join(c['property_id'] for c in json.load(open('MANIFEST.json'))['checks']))"); do
    start=$(date +%s)
    out=$(VERIF_SEED=$seed python3 verify.py $p --tier $tier 2>&1); rc=$?
    echo "seed=$seed $p tier=$tier exit=$rc $(( $(date +%s) - start ))s :: $(echo "$out" | grep -E 'VIOLATION|KNOWN-FINDING|INFRA|evaluations' | tr '\n' ' ' | cut -c1-400)"
  done
done
