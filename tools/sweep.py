#!/usr/bin/env python3
"""Systematic sensitivity sweep.

Every mutation point of tools/mutator (operator swaps, negated conditions, deleted statements,
off-by-one constants, flipped booleans, break<->continue) is applied to a scratch git worktree of
/repo (never to /repo itself). A mutant that does not build is "stillborn"; one that fails the
repository's own tests is "suite" (not interesting: the brief asks for changes that pass them);
the others are run against the quick tier of the checks (VERIF_REPO=<worktree>), the properties
anchored in the mutated package first, until one reports a violation ("detected") or all 20 have
passed ("survived"). Results are appended to sensitivity/sweep.jsonl (or $SWEEP_OUT); the run is resumable and
records are keyed by file, function, operator and description so that they survive edits of /repo.

usage: tools/sweep.py [--workers N] [--limit K] [--ids a,b,c] [--only-op OP] [--files SUBSTR]
"""
import argparse, json, os, random, shutil, subprocess, sys, threading, time

ROOT = os.path.dirname(os.path.dirname(os.path.abspath(__file__)))
OUT = os.environ.get("SWEEP_OUT") or os.path.join(ROOT, "sensitivity", "sweep.jsonl")
SCRATCH = "/tmp/msweep"
ENV = dict(os.environ, GOFLAGS="-mod=mod", GOPROXY="off", GOSUMDB="off", GOTOOLCHAIN="local")
ALL = ["C%02d" % i for i in range(1, 21)]
ORDER = {
    "lexer": ["C19", "C05", "C08", "C10", "C13", "C01"],
    "parser": ["C08", "C01", "C02", "C13", "C03", "C09", "C04", "C05", "C07", "C06"],
    "evaluator": ["C09", "C11", "C01", "C02", "C03", "C04", "C10", "C12", "C13", "C07", "C06", "C14", "C20"],
    "object": ["C04", "C12", "C14", "C10", "C11", "C01", "C03", "C07", "C09", "C06"],
    "ast": ["C06", "C07", "C08", "C13", "C14", "C18", "C09"],
    "token": ["C19", "C08", "C05", "C13"],
    "root": ["C18", "C06", "C07", "C17", "C16", "C20", "C13", "C14", "C12"],
    "utils": ["C11", "C18"],
    "fail": ["C13", "C17", "C09", "C18"],
    "config": ["C18", "C17", "C16", "C20"],
    "ctx": ["C13", "C20", "C18"],
}
lock = threading.Lock()


def sh(cmd, cwd, timeout, env=ENV):
    try:
        p = subprocess.run(cmd, cwd=cwd, env=env, stdout=subprocess.PIPE, stderr=subprocess.STDOUT, text=True, timeout=timeout)
        return p.returncode, p.stdout
    except subprocess.TimeoutExpired as e:
        return 124, (e.stdout or "") if isinstance(e.stdout, str) else ""


def order_for(path):
    pkg = path.split("/")[0] if "/" in path else "root"
    first = ORDER.get(pkg, [])
    return first + [p for p in ALL if p not in first]


def worker(k, queue, mutator):
    wt = os.path.join(SCRATCH, "w%d" % k)
    if os.path.exists(wt):
        subprocess.run(["git", "-C", "/repo", "worktree", "remove", "--force", wt])
    subprocess.run(["git", "-C", "/repo", "worktree", "add", "-q", "--detach", wt, "HEAD"], check=True)
    try:
        while True:
            with lock:
                if not queue:
                    return
                pt = queue.pop()
            t0 = time.time()
            subprocess.run(["git", "-C", wt, "checkout", "-q", "--", "."], check=True)
            rc, out = sh([mutator, "-root", wt, "-apply", str(pt["id"])], wt, 60)
            rec = dict(pt)
            if rc != 0:
                rec.update(outcome="mutator-error", note=out[-300:])
            else:
                rec["diff"] = sh(["git", "-C", wt, "diff", "-U0"], wt, 60)[1][-1500:]
                rc, out = sh(["go", "build", "./..."], wt, 300)
                if rc != 0:
                    rec.update(outcome="stillborn")
                else:
                    rc, out = sh(["go", "test", "-vet=off", "-count=1", "-timeout", "120s", "./..."], wt, 400)
                    if rc != 0:
                        rec.update(outcome="suite")
                    else:
                        rec.update(outcome="survived", ran=[])
                        for prop in order_for(pt["file"]):
                            env = dict(ENV, VERIF_REPO=wt, VERIF_SEED="1")
                            rc, out = sh(["python3", os.path.join(ROOT, "verify.py"), prop, "--tier", "quick"], ROOT, 1200, env)
                            rec["ran"].append(prop)
                            if rc == 1 and "VIOLATION" in out:
                                rec.update(outcome="detected", by=prop)
                                break
                            if rc != 0:
                                rec.update(outcome="inconclusive", by=prop, note=out[-400:])
                                break
            rec["secs"] = round(time.time() - t0, 1)
            with lock:
                with open(OUT, "a") as f:
                    f.write(json.dumps(rec) + "\n")
                print("%5d %-12s %-10s %-4s %5.0fs %s:%d %s" % (rec["id"], rec["outcome"], rec["op"], rec.get("by", ""), rec["secs"], rec["file"], rec["line"], rec["desc"][:70]), flush=True)
    finally:
        subprocess.run(["git", "-C", "/repo", "worktree", "remove", "--force", wt])


def main():
    ap = argparse.ArgumentParser()
    ap.add_argument("--workers", type=int, default=6)
    ap.add_argument("--limit", type=int, default=0)
    ap.add_argument("--ids", default="")
    ap.add_argument("--only-op", default="")
    ap.add_argument("--files", default="")
    ap.add_argument("--redo", default="", help="comma separated outcomes to run again (e.g. survived,inconclusive)")
    a = ap.parse_args()
    os.makedirs(os.path.dirname(OUT), exist_ok=True)
    os.makedirs(SCRATCH, exist_ok=True)
    os.makedirs(os.path.join(ROOT, ".build"), exist_ok=True)
    mutator = os.path.join(ROOT, ".build", "mutator")
    rc, out = sh(["go", "build", "-o", mutator, "./tools/mutator"], ROOT, 300)
    if rc != 0:
        print(out)
        return 2
    rc, out = sh([mutator, "-root", "/repo", "-list"], ROOT, 120)
    points = [json.loads(l) for l in out.splitlines() if l.startswith("{")]
    # a key that survives edits elsewhere in the sources: file, function, operator, description and
    # the occurrence number of that tuple (ids and line numbers shift when /repo changes)
    seen = {}
    for p in points:
        base = "%s|%s|%s|%s" % (p["file"], p["func"], p["op"], p["desc"])
        seen[base] = seen.get(base, 0) + 1
        p["key"] = "%s|%d" % (base, seen[base])
    head = subprocess.run(["git", "-C", "/repo", "rev-parse", "--short", "HEAD"], stdout=subprocess.PIPE, text=True).stdout.strip()
    done = {}
    if os.path.exists(OUT):
        for l in open(OUT):
            r = json.loads(l)
            done[r["key"]] = r["outcome"]
    redo = set(filter(None, a.redo.split(",")))
    if redo:
        keep = [l for l in open(OUT) if json.loads(l)["outcome"] not in redo]
        open(OUT, "w").writelines(keep)
        done = {i: o for i, o in done.items() if o not in redo}
    # ast String()/ArgsString() only serve debugging output and the parser's own tests
    points = [p for p in points if not (p["file"].startswith("ast/") and p["func"].split(".")[-1] in ("String", "ArgsString"))]
    todo = [p for p in points if p["key"] not in done]
    if a.ids:
        want = set(int(x) for x in a.ids.split(","))
        todo = [p for p in points if p["id"] in want]
    if a.only_op:
        todo = [p for p in todo if p["op"] == a.only_op]
    if a.files:
        todo = [p for p in todo if a.files in p["file"]]
    random.Random(20260928).shuffle(todo)
    if a.limit:
        todo = todo[:a.limit]
    for p in todo:
        p["repo_head"] = head
    print("%d mutation points, %d done, %d to do with %d workers" % (len(points), len(done), len(todo), a.workers), flush=True)
    queue = list(reversed(todo))
    ts = [threading.Thread(target=worker, args=(k, queue, mutator)) for k in range(a.workers)]
    for t in ts:
        t.start()
    for t in ts:
        t.join()
    subprocess.run(["git", "-C", "/repo", "worktree", "prune"])
    shutil.rmtree(SCRATCH, ignore_errors=True)
    return 0


if __name__ == "__main__":
    sys.exit(main())
