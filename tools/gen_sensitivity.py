#!/usr/bin/env python3
"""Rewrites section 6 of DESIGN.md (between the section-6 and section-7 headings) from seeded/*/meta.json."""
import glob, json, os, re
ROOT = os.path.dirname(os.path.dirname(os.path.abspath(__file__)))
metas = [json.load(open(f)) for f in sorted(glob.glob(os.path.join(ROOT, "seeded", "*", "meta.json")))]
n = len(metas)
missed = [m for m in metas if not m.get("detected_before_strengthening", True)]
undetected = [m for m in metas if m.get("undetected")]
sec = """## 6. Sensitivity: seeded changes

A check that stays green against a realistic breakage is decoration. The checks
were therefore tested against changes to textwire written by **independent
sub-agents**: each was given only the text of one property and a scratch git
worktree of `/repo` (nothing from `/verif`), and asked for a small, plausible
change that breaks the property while the project still compiles and the 186
baseline tests still pass, together with a demonstration test that fails with
the change and passes without it; changes had to need something specific to
manifest (an unusual input, a nesting, a sequence of calls, an interleaving, two
cooperating sites). Each change was kept only after `tools/collect_mutant.sh`
confirmed all of that in a fresh worktree. They live in `seeded/<id>/`
(`patch.diff`, `zz_demo_test.go`, `meta.json`); none is ever committed to
`/repo`. `tools/try_seeded.sh <id> <property>` applies one to a scratch copy of
the repository and runs the property's quick check against that copy
(`VERIF_REPO`).

Three rounds were run (a: first idea; b: "a different mechanism"; c: "a third
mechanism: interactions, boundaries, asymmetries"). Result: **%d seeded changes,
%d detected by the quick tier as it stands%s.** %d of them were *missed* by the
checks as they stood when the change arrived; each miss led to a stronger
generator or oracle (last column), never to a special case for the seeded input.

| id | property | change | needs | detected by | missed at first |
|---|---|---|---|---|---|
""" % (n, n - len(undetected), "" if not undetected else " (%d not detected, see below)" % len(undetected), len(missed))
for m in metas:
    sec += "| %s | %s | %s | %s | %s | %s |\n" % (m["id"], m["property"], m["what"].replace("|", "/"), m["needs_to_manifest"].replace("|", "/"),
                                                 m.get("detected_by", "").replace("|", "/"), "yes" if not m.get("detected_before_strengthening", True) else "")
sec += """
What the misses taught (all fixed in the generators/oracles):

* **C06** inserts must be allowed to read the layout's loop variable (the reserve
  is *replaced by* the insert), and a directory must hold several pages that share
  one layout;
* **C07** argument expressions must be able to name page variables that are also
  argument keys;
* **C10/C11** purity needs a *later plain use* of the same value (raw() then
  print; slice/append chains over a shared backing array observed afterwards);
* **C13** the offending token must sometimes stand on a later line than the
  token before it, and a call's argument list must sometimes end on a later line
  than its name;
* **C14** several faults must also fail at *binding* time, and keys must include
  ones that differ only in case;
* **C15** the sequential baseline must not warm up the Template used for the
  concurrent phase, and "not found" names must be first seen concurrently;
* **C16** the fixed directory needs literals whose evaluation is not idempotent
  (entities), rendered repeatedly on one loaded Template;
* **C20** calls must also be placed inside components, slot bodies and inserts.

Besides the sub-agents' changes, a few hand-made breakages were tried while
building (removing the EOF guard of the block loop - caught by the watchdog path
in 25 s incl. minimisation; `loop.last` off by one; `0.0` truthy; `Set` writing
into the outer scope; counting `\\r` as a line end; an unsynchronised package
variable written by `EvaluateString`): all detected by the quick tier.

Every check was also run on the unchanged tree at `VERIF_SEED` 1-4 (quick) and 1-2
(thorough), partly while the machine was busy with sub-agents and other runs:
no alarm, no inconclusive exit.

"""
p = os.path.join(ROOT, "DESIGN.md")
s = open(p).read()
a = s.index("## 6. Sensi"); b = s.index("## 7. Limits")
open(p, "w").write(s[:a] + sec + s[b:])
print("section 6 rewritten:", n, "seeded,", len(missed), "missed at first")
