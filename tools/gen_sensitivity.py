#!/usr/bin/env python3
"""Rewrites section 6 of DESIGN.md (between the section-6 and section-7 headings) from seeded/*/meta.json."""
import glob, json, os, re
ROOT = os.path.dirname(os.path.dirname(os.path.abspath(__file__)))
metas = [json.load(open(f)) for f in sorted(glob.glob(os.path.join(ROOT, "seeded", "*", "meta.json")))]
n = len(metas)
missed = [m for m in metas if not m.get("detected_before_strengthening", True)]
undetected = [m for m in metas if m.get("undetected")]


def sweep_section():
    path = os.path.join(ROOT, "sensitivity", "sweep.jsonl")
    if not os.path.exists(path):
        return ""
    last = {}
    for l in open(path):
        r = json.loads(l)
        last[r.get("key", r["id"])] = r
    rs = list(last.values())
    import collections
    c = collections.Counter(r["outcome"] for r in rs)
    by = collections.Counter(r.get("by") for r in rs if r["outcome"] == "detected")
    alive = c["detected"] + c["survived"] + c["inconclusive"]
    out = """### 6.1 Systematic sweep over syntactic mutants

`tools/mutator` (go/ast) enumerates small syntactic changes of every non-test
source file of textwire outside `lsp/` - comparison and arithmetic operators
swapped, conditions negated, `if` statements / calls / assignments / `defer`
deleted, `else` dropped, integer constants moved by one, booleans flipped,
`break` and `continue` exchanged - and `tools/sweep.py` applies each to a
scratch worktree (never to `/repo`), discards the ones that do not build or that
the repository's own tests already reject, and runs the quick tier of the
checks against the rest (`VERIF_REPO`), the properties anchored in the mutated
package first, until one reports a violation. Records are kept in
`sensitivity/sweep.jsonl` (keyed by file, function, operator and description,
so that they survive edits of `/repo`); `tools/sweep_report.py` summarises them.

State of the records: **%d mutation points**; %d do not build, %d are rejected by
the repository's tests, **%d pass them**. Of those %d are detected by the checks
(%s), %d survive all 20 quick checks and %d were inconclusive (a
starved machine: hang reports that did not reproduce - the reason the driver now
re-runs such shards).

The survivors were read one by one (`tools/sweep_report.py`). Nearly all are
equivalent with respect to the listed properties: the text of `@dump` and of
printed arrays/objects (unspecified, only its determinism is a property), line
numbers of API-level errors, dead code (`IfStmt.Stmts`, `PanicOnError`, the
fallback of `nameFromPath`), redundant guards (an empty-string test before a
loop that does nothing on empty strings, `if err != nil` after calls that cannot
fail), bounds that only matter beyond 2^30 bytes, parser branches that turn one
syntax error into another. The ones that were *not* equivalent each exposed an
input class the generators lacked, and were closed: identifiers never contained
the letter z or Z (-> `C12/names`); no check ran with the default configuration,
and the reset hook itself repeated the default values (-> hook restores a copy of
the initial configuration; C17 and C18 run with no / partial configuration);
`@for` post clauses were always `i++`/`i--` (-> assignment and plain-step
spellings, which exposed the defect fixed in `7080632`; clause faults, including
one that only fails in a later pass; loops stepped in their body); malformed
number lexemes never reached the evaluator checks (-> C09's untyped generator).
""" % (len(rs), c["stillborn"], c["suite"], alive, c["detected"],
       ", ".join("%s %d" % (k, v) for k, v in sorted(by.items())), c["survived"], c["inconclusive"])
    return out + "\n"


sec = """## 6. Sensitivity: seeded changes

A check that stays green against a realistic breakage is decoration. The checks
were therefore tested against changes to textwire written by **independent
sub-agents**: each was given only the text of one property and a scratch git
worktree of `/repo` (nothing from `/verif`), and asked for a small, plausible
change that breaks the property while the project still compiles and the 186
baseline tests still pass, together with a demonstration test that fails with
the change and passes without it; changes had to need something specific to
manifest (an unusual input, a nesting, a sequence of calls, an interleaving, two
cooperating sites). Each change was kept only after `tools/collect_mutant.sh`
confirmed all of that in a fresh worktree. They live in `seeded/<id>/`
(`patch.diff`, `zz_demo_test.go`, `meta.json`); none is ever committed to
`/repo`. `tools/try_seeded.sh <id> <property>` applies one to a scratch copy of
the repository and runs the property's quick check against that copy
(`VERIF_REPO`).

Eighteen rounds were run, one change per property and round (a: first idea; b: "a
different mechanism"; c: "a third mechanism: interactions, boundaries,
asymmetries"; d: told the earlier changes, "what a maintainer would plausibly do
next"; e: "a trigger that somebody generating random templates and data would
not think of"; f: told the earlier triggers as well, "a different kind of
trigger"; g: "attack a clause of the statement none of the earlier ones
attacked"; h: "a clause, construct or count none of them used"; i: told the functions the earlier changes edited as well, "a different mechanism with a different kind of trigger, an API entry point or configuration not yet used"; j: the same, pointed at the dimensions of each property's quantifier; k: given the property's code anchors and asked for a change there that shows in a single sequential call; l: asked for changes whose effect depends on the way the library is driven - several loads, reused data, changed working directory, re-configuration; two of the twenty were not kept because what they break lies outside the property as stated, see seeded/dropped/README.md; m: asked for changes that show only at scale - long runs, many elements, deep nesting - or with unusual Go values; n: asked for changes that show only for a combination of two or three language features that each work alone; o: asked for changes whose trigger lies in how the template text is written - white space, line ends, quotes, comments, redundant parentheses, unusual but legal spellings; p: asked for changes that show only on a failing path - what is reported, which fault wins, that an error comes without output, what a failed call leaves behind; q: asked for tidy-ups with a slip - merged helpers, a library call with slightly different semantics, a simplified condition; one of the twenty was not kept, see seeded/dropped/README.md; r: asked for changes in the low-level packages - token, utils, object, config, ctx, fail, ast - with lexer, parser and evaluator untouched; two of the twenty were not kept). The later rounds were deliberately adversarial towards a
generator-based harness, and the share of changes missed at first rose
accordingly (a-c: 17 of 56, d: 11 of 20, e: 15 of 19, f: 16 of 20, g: 11 of 20, h: 15 of 20, i: 17 of 20, j: 16 of 20, k: 9 of 20, l: 16 of 18, m: 17 of 20, n: 12 of 20, o: 10 of 20, p: 13 of 20, q: 16 of 19, r: 12 of 18) - which is
the point of the exercise: every miss names an input class the generators did
not reach. Result: **%d seeded changes,
%d detected by the quick tier as it stands%s.** %d of them were *missed* by the
checks as they stood when the change arrived; each miss led to a stronger
generator or oracle (last column), never to a special case for the seeded input.

| id | property | change | needs | detected by | missed at first |
|---|---|---|---|---|---|
""" % (n, n - len(undetected), "" if not undetected else " (%d not detected, see below)" % len(undetected), len(missed))
for m in metas:
    sec += "| %s | %s | %s | %s | %s | %s |\n" % (m["id"], m["property"], m["what"].replace("|", "/"), m["needs_to_manifest"].replace("|", "/"),
                                                 m.get("detected_by", "").replace("|", "/"), "yes" if not m.get("detected_before_strengthening", True) else "")
sec += """
What the misses of the first rounds taught (all fixed in the generators/oracles;
section 4.0 lists what rounds D to F added):

* **C06** inserts must be allowed to read the layout's loop variable (the reserve
  is *replaced by* the insert), and a directory must hold several pages that share
  one layout;
* **C07** argument expressions must be able to name page variables that are also
  argument keys;
* **C10/C11** purity needs a *later plain use* of the same value (raw() then
  print; slice/append chains over a shared backing array observed afterwards);
* **C13** the offending token must sometimes stand on a later line than the
  token before it, and a call's argument list must sometimes end on a later line
  than its name;
* **C14** several faults must also fail at *binding* time, and keys must include
  ones that differ only in case;
* **C15** the sequential baseline must not warm up the Template used for the
  concurrent phase, and "not found" names must be first seen concurrently;
* **C16** the fixed directory needs literals whose evaluation is not idempotent
  (entities), rendered repeatedly on one loaded Template;
* **C20** calls must also be placed inside components, slot bodies and inserts.

Besides the sub-agents' changes, a few hand-made breakages were tried while
building (removing the EOF guard of the block loop - caught by the watchdog path
in 25 s incl. minimisation; `loop.last` off by one; `0.0` truthy; `Set` writing
into the outer scope; counting `\\r` as a line end; an unsynchronised package
variable written by `EvaluateString`): all detected by the quick tier.

Every check was also run on the unchanged tree at `VERIF_SEED` 1-6 (quick, after
every round of changes to the checks) and 1-10 (thorough, one seed per stage of
the checks), mostly while the machine was busy with sub-agents and other runs
(load averages of 30 to 70 on 16 cores). The quick tier never alarmed; the
thorough tier alarmed four times, each time because of a mistake in a check added
the same day (section 5) - none was a timing artefact. `tools/recheck_seeded.sh` re-runs every kept change against the
current checks (after a fix in `/repo` two patches had to be re-based).

""" + sweep_section()
p = os.path.join(ROOT, "DESIGN.md")
s = open(p).read()
a = s.index("## 6. Sensi"); b = s.index("## 7. Limits")
open(p, "w").write(s[:a] + sec + s[b:])
print("section 6 rewritten:", n, "seeded,", len(missed), "missed at first")
