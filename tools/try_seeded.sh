#!/bin/bash
# usage: tools/try_seeded.sh <seeded id> <property> [tier]
# Applies the seeded change to a scratch worktree of /repo (HEAD), runs the property's check against that copy
# (VERIF_REPO), removes the worktree. /repo itself is not touched.
id=$1; prop=$2; tier=${3:-quick}
cd ${VERIF_DIR:-/verif}
scratch=$(mktemp -d /tmp/seedrun.XXXXXX); rmdir $scratch
git -C /repo worktree add -q --detach $scratch HEAD || exit 2
git -C $scratch apply /verif/seeded/$id/patch.diff || { echo "patch does not apply"; git -C /repo worktree remove --force $scratch; exit 2; }
VERIF_REPO=$scratch VERIF_SEED=${VERIF_SEED:-1} python3 verify.py $prop --tier $tier 2>&1 | tail -8; rc=${PIPESTATUS[0]}
git -C /repo worktree remove --force $scratch

echo "try_seeded $id $prop $tier exit=$rc"
