#!/bin/bash
# usage: tools/try_seeded.sh <seeded id> <property> [tier]   — applies the seeded change to /repo, runs the check, undoes it
id=$1; prop=$2; tier=${3:-quick}
cd /verif
git -C /repo diff --quiet || { echo "/repo is dirty"; exit 2; }
git -C /repo apply /verif/seeded/$id/patch.diff || { echo "patch does not apply"; exit 2; }
VERIF_SEED=${VERIF_SEED:-1} python3 verify.py $prop --tier $tier 2>&1 | tail -8; rc=${PIPESTATUS[0]}
git -C /repo checkout -- .
git -C /repo status --short
echo "try_seeded $id $prop $tier exit=$rc"
