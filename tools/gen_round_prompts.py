#!/usr/bin/env python3
"""Writes the briefs of one round of independent seeded-change authors.

usage: tools/gen_round_prompts.py <ROUND LETTER> [outdir=/tmp/mut]

Each brief holds the text of ONE property (from properties.jsonl), the rules of the exercise and the
list of earlier kept changes for that property (what they did, what they need in order to show, which
functions they edited) so that the author looks for something else. Nothing else from /verif is given.
"""
import glob, json, os, re, sys

ROOT = os.path.dirname(os.path.dirname(os.path.abspath(__file__)))
letter = sys.argv[1].upper()
out = sys.argv[2] if len(sys.argv) > 2 else "/tmp/mut"
os.makedirs(out, exist_ok=True)
props = {}
for l in open(os.path.join(ROOT, "properties.jsonl")):
    d = json.loads(l)
    props[d["id"]] = d

HEAD = """You are working in a private git worktree of the Go project "textwire" (a templating language for Go: lexer, Pratt parser, AST, tree-walking evaluator, layouts/components, built-in functions) at {wt}.
Work ONLY inside {wt}. Do not read, list or touch anything under /verif or /repo (they are off limits), and do not look for other copies of this project.
There is no network. For every shell command first run: export GOFLAGS=-mod=mod GOPROXY=off GOSUMDB=off GOTOOLCHAIN=local

Here is a semantic property this library is supposed to satisfy:

  Title: {title}
  Statement: {statement}
  Quantified over: {quant}
  Where it lives in the code (from the property's own record): {anchors}

YOUR TASK: make ONE realistic change to the library's source (non-test .go files; do not touch *_test.go files, testdata, or the files verif_hooks*.go) that BREAKS this property, while
  (1) the project still compiles: `go build ./... && go vet ./...` are clean,
  (2) the existing test suite still passes, unedited: `go test -vet=off -count=1 ./...`.
The change must look like a plausible regression a maintainer could introduce (a refactoring slip, an off-by-one, a missed case, an "optimisation", a cache, a wrong condition) and be small (a few lines, at most ~25). It must need something SPECIFIC to manifest - an unusual input, a particular nesting or position, a multi-step sequence of calls, a particular interleaving, two code sites that each look fine alone - rather than breaking ordinary use at once. Do not add dead code, magic constants that only match one weird literal string, time bombs, or environment checks; the breakage must follow from the logic of the change for a whole class of inputs.

DELIVERABLES (all inside {wt}):
  a) the change itself, left UNCOMMITTED in the working tree (I will collect it with `git diff`); do not commit anything;
  b) a demonstration: a NEW untracked file `zz_demo_test.go` in the repository root, `package textwire_test` (external test package importing "github.com/textwire/textwire/v2" and subpackages as needed; for template-directory scenarios create the files under t.TempDir() and os.Chdir there, since TemplateDir must be relative), with one test `TestDemo` that FAILS with your change and PASSES without it (verify both: run it with the change; then save the change with `git diff > {wt}.patch`, undo it with `git apply -R {wt}.patch`, run the demo again, then restore it with `git apply {wt}.patch`. NEVER use `git stash`: the stash is shared with other worktrees of this repository and other people are working in those);
  c) a final report (your last message) with: the property id {pid}; what you changed and why it breaks the property; exactly what is needed for it to manifest; the commands you ran and their results (build, vet, full test suite with the change; demo with and without the change).
Before finishing, double-check that `git status --short` shows only your modified source file(s) and the untracked zz_demo_test.go.

ROUND {letter} NOTE: earlier attempts on this property already produced the following changes (with what each needs in order to show); do NOT repeat any of them, a close variant, or another change with the same kind of trigger:
{earlier}
Functions those changes edited (choose code elsewhere if you can): {funcs}.
{extra}
"""

EXTRA = """Find a DIFFERENT mechanism with a DIFFERENT kind of trigger. Read widely first (lexer, parser, ast, object, evaluator, built-in functions, template loading in the root package, fail/, config/, ctx/, token/, utils/), including how the pieces call each other, and read the statement of the property sentence by sentence and its "Quantified over" line dimension by dimension: pick a clause, a listed construct, a listed case or a dimension of the quantifier that none of the earlier changes attacked, or attack an attacked clause through a construct, an API entry point (EvaluateString, EvaluateFile, NewTemplate, Template.String, Template.Response, Configure, the Register*Func family) or a configuration that none of them used. Prefer a change whose trigger somebody testing this property with randomly generated templates, data and call sequences would plausibly NOT generate: a legal but unusual spelling or clause form, a rarely used built-in, directive, option or API entry point, a combination of two or three constructs, a value at a boundary of a type or a length, a name or path with an unusual shape, a particular order or repetition of calls, a file system detail, a less common Go type in the data, a particular nesting depth or count (the third of something, more than N of something), a particular position (first, last, only) of something, a size threshold. It must be something a maintainer would plausibly do (a small feature or convenience with one corner wrong, a helper extracted that is not equivalent for one caller, a data structure change, a reordered check, a library call with slightly different semantics, an early return or fast path, a cache, a 'simplification', a fixed-size buffer or limit, an error message 'improvement'). The change must still break the stated property for a whole class of inputs (say which), compile, and keep the existing suite green. In this round prefer a change in a LOW-LEVEL PACKAGE that the rest of the library builds on, whose effect surfaces through the property only for some inputs: token/ (token types, positions, Contains, ErrorLine), utils/ (string and number helpers), object/ (the value types: their String / Dump / Is / Val / Type methods, Env and its Set / Get / enclosing chain, EnvFromMap, NativeToObject and the conversions of every Go kind, Reserve / Slot / Component objects), config/ (Config, New, defaults, the function registry Func and its maps), ctx/ (EvalCtx), fail/ (Error, its constructors and accessors, the message constants and their verbs), ast/ (node constructors, Tok / Line / Position / String methods, Stmts() of each block statement, Program and its maps of inserts, reserves and components). Read those packages completely first, then find which of their functions the code behind the property depends on, and change one of THEM - a boundary in a helper, a kind missing from a switch, a zero value that is treated as absent, a method that answers for the wrong receiver field, a map that is shared instead of copied, a String method that rounds, trims, quotes or escapes, an equality that compares pointers, an integer conversion that truncates - so that the callers, unchanged and individually reasonable, now break the property for a class of inputs. Do not edit the lexer, the parser or evaluator/evaluator.go in this round."""


def funcs_of(patch):
    fs = set()
    for l in open(patch, errors="replace"):
        m = re.match(r"^@@ .* @@ func (?:\([^)]*\) )?(\w+)", l)
        if m:
            fs.add(m.group(1))
        m = re.match(r"^[+-]func (?:\([^)]*\) )?(\w+)", l)
        if m:
            fs.add(m.group(1))
    return fs


for pid in sorted(props):
    p = props[pid]
    earlier, funcs = [], set()
    for d in sorted(glob.glob(os.path.join(ROOT, "seeded", pid + "-*"))):
        try:
            m = json.load(open(os.path.join(d, "meta.json")))
        except Exception:
            continue
        earlier.append("  - %s  [needs: %s]" % (m["what"], m["needs_to_manifest"]))
        funcs |= funcs_of(os.path.join(d, "patch.diff"))
    wt = os.path.join(out, pid)
    q = p.get("quantifier", {})
    an = p.get("anchors", {})
    anchors = "; ".join("%s (%s)" % (m.get("name", ""), m.get("where", "")) for m in an.get("mechanism", [])) or ", ".join(an.get("files", []))
    txt = HEAD.format(wt=wt, title=p["title"], statement=p["statement"], quant=q.get("text", ""), anchors=anchors, pid=pid, letter=letter,
                      earlier="\n".join(earlier), funcs=", ".join(sorted(funcs)) or "(none)", extra=EXTRA)
    open(os.path.join(out, "prompt_%s.txt" % pid), "w").write(txt)
print("wrote %d briefs to %s" % (len(props), out))
