#!/bin/bash
# usage: tools/recheck_seeded.sh [tier] [id regex]   -- runs every seeded change (or those whose id matches the regex) against its property's check (scratch worktrees)
# prints one line per change: id, exit code (1 = detected, 0 = MISSED, 2 = patch does not apply / inconclusive)
tier=${1:-quick}; only=${2:-.}
cd /verif
for d in seeded/*/; do
  id=$(basename $d); prop=${id%%-*}
  [ "$id" = "dropped" ] && continue
  echo "$id" | grep -Eq "$only" || continue
  [ "$id" = "C14-f" ] && prop=C15   # only concurrent renders show it
  [ "$id" = "C09-g" ] && prop=C15
  [ "$id" = "C02-h" ] && prop=C04   # a scoping fault
  [ "$id" = "C09-h" ] && prop=C13   # a wrong line inside the template
  [ "$id" = "C07-g" ] && prop=C20   # needs a registered custom function
  [ "$id" = "C03-l" ] && prop=C16   # data reused and changed in place between calls
  [ "$id" = "C04-l" ] && prop=C16
  [ "$id" = "C15-r" ] && prop=C16   # a process-wide cache: only a baseline from a fresh process differs
  [ "$id" = "C10-l" ] && prop=C16   # more than 64 distinct large sources in one process
  out=$(tools/try_seeded.sh $id $prop $tier 2>&1)
  rc=$(echo "$out" | grep -o "exit=[0-9]*" | tail -1)
  note=""
  echo "$out" | grep -q "does not apply" && note="PATCH DOES NOT APPLY"
  echo "$id $rc $note"
done
