#!/usr/bin/env python3
"""Summarise sensitivity/sweep.jsonl: outcome counts, detection by property, and the survivors."""
import collections, json, os, sys
path = sys.argv[1] if len(sys.argv) > 1 else os.path.join(os.path.dirname(os.path.dirname(os.path.abspath(__file__))), "sensitivity", "sweep.jsonl")
skip = int(sys.argv[2]) if len(sys.argv) > 2 else 0
rs = [json.loads(l) for l in open(path)]
last = {}
for r in rs:
    last[r.get("key", r["id"])] = r
rs = list(last.values())
c = collections.Counter(r["outcome"] for r in rs)
print(len(rs), dict(c))
print("detected by:", dict(collections.Counter(r.get("by") for r in rs if r["outcome"] == "detected")))
for r in rs[skip:]:
    if r["outcome"] in ("survived", "inconclusive", "mutator-error"):
        print("%5d %-12s %s:%d %s | %s %s" % (r["id"], r["outcome"], r["file"], r["line"], r["func"], r["desc"][:110], r.get("by", "")))
