module verif

go 1.23

toolchain go1.23.5

require (
	github.com/textwire/textwire/v2 v2.0.0
	pgregory.net/rapid v1.3.0
)

replace github.com/textwire/textwire/v2 => /repo
